// Counters for libFuzzer targets: evaluations, rejected inputs, distinct non-trivial inputs, classes, samples.
// Dumped at exit (and by vvf::violation before trapping) to $VV_FZ_STATS.
#pragma once
#include <cstdint>
#include <cstdio>
#include <cstdlib>
#include <map>
#include <set>
#include <string>
#include <vector>

namespace vvf {
struct S {
  long evaluations = 0, rejected = 0;
  std::set<uint64_t> nt;
  std::map<std::string, long> classes;
  std::vector<std::string> samples;
};
inline S &s() {
  static S x;
  return x;
}
inline uint64_t fnv(const uint8_t *d, size_t n) {
  uint64_t h = 1469598103934665603ull;
  for (size_t i = 0; i < n; ++i) {
    h ^= d[i];
    h *= 1099511628211ull;
  }
  return h & 0x7fffffffffffffull;
}
inline std::string esc(const uint8_t *d, size_t n) {
  std::string o;
  char b[8];
  for (size_t i = 0; i < n && i < 200; ++i) {
    unsigned char c = d[i];
    if (c == '"' || c == '\\') {
      o += '\\';
      o += char(c);
    } else if (c >= 32 && c < 127)
      o += char(c);
    else {
      snprintf(b, sizeof b, "\\u%04x", c);
      o += b;
    }
  }
  return o;
}
inline void dump() {
  const char *p = getenv("VV_FZ_STATS");
  if (!p) return;
  FILE *f = fopen(p, "w");
  if (!f) return;
  fprintf(f, "{\"evaluations\":%ld,\"rejected\":%ld,\"nt_hashes\":[", s().evaluations, s().rejected);
  bool first = true;
  long n = 0;
  for (auto h : s().nt) {
    if (++n > 200000) break;
    fprintf(f, "%s%llu", first ? "" : ",", (unsigned long long)h);
    first = false;
  }
  fprintf(f, "],\"classes\":{");
  first = true;
  for (auto &kv : s().classes) {
    fprintf(f, "%s\"%s\":%ld", first ? "" : ",",
            esc(reinterpret_cast<const uint8_t *>(kv.first.data()), kv.first.size()).c_str(), kv.second);
    first = false;
  }
  fprintf(f, "},\"samples\":[");
  first = true;
  for (auto &x : s().samples) {
    fprintf(f, "%s\"%s\"", first ? "" : ",", x.c_str());
    first = false;
  }
  fprintf(f, "]}\n");
  fclose(f);
}
inline void init() {
  static bool done = false;
  if (!done) {
    done = true;
    (void)s();  // construct before registering, so that dump runs before the destructor
    atexit(dump);
  }
}
// call once per accepted input
inline void count(const uint8_t *d, size_t n, bool nontrivial, const char *cls = nullptr) {
  init();
  s().evaluations++;
  if (cls) s().classes[cls]++;
  if (nontrivial && s().nt.insert(fnv(d, n)).second && s().samples.size() < 3) s().samples.push_back(esc(d, n));
}
inline void rejected() {
  init();
  s().evaluations++;
  s().rejected++;
}
[[noreturn]] inline void violation(const char *what) {
  fprintf(stderr, "VV-FUZZ-ORACLE-VIOLATION: %s\n", what);
  dump();
  __builtin_trap();
}
}  // namespace vvf
