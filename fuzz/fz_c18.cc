// libFuzzer target for C18: byte 0 selects wildcmp (rest = pattern '\n' string) or RangeParser (rest = expression).
// The oracles (DP glob matcher, grammar enumeration) are the ones of the rapidcheck harness.
#include <cstdint>
#include <cstring>

#include "../harness/ref_c18.h"
#include "vv_fuzz.h"

extern "C" int LLVMFuzzerTestOneInput(const uint8_t *data, size_t size) {
  if (size < 1) return 0;
  std::string rest(reinterpret_cast<const char *>(data + 1), size - 1);
  if (rest.find('\0') != std::string::npos) return 0;  // C strings end at NUL: outside the domain
  if (data[0] & 1) {
    size_t nl = rest.find('\n');
    if (nl == std::string::npos) return 0;
    std::string p = rest.substr(0, nl), s = rest.substr(nl + 1);
    bool exp = ref_glob(p, s);
    bool got = votca::tools::wildcmp(p, s) != 0;
    vvf::count(data, size, backtracking_pattern(p), exp ? "wild-match" : "wild-nomatch");
    if (got != exp) vvf::violation(("wildcmp('" + p + "','" + s + "') disagrees with glob semantics").c_str());
  } else {
    for (char ch : rest)
      if (!(ch == ' ' || ch == ',' || ch == ':' || ch == '-' || ch == '+' || (ch >= '0' && ch <= '9') || ch == 'x' || ch == '.'))
        return 0;
    // keep numbers small enough for the step budget to be meaningful
    {
      int run = 0;
      for (char ch : rest) {
        if (ch == ' ') continue;  // blanks are removed before parsing and can join digit runs
        run = (ch >= '0' && ch <= '9') ? run + 1 : 0;
        if (run > 3) return 0;
      }
    }
    RefRange R = ref_range(rest);
    if (R.kind == RefRange::HUGE) return 0;
    Enumerated E = impl_range(rest);
    const char *cls = R.kind == RefRange::OK ? "range-ok" : R.kind == RefRange::MUST_REJECT ? "range-malformed" : "range-other";
    vvf::count(data, size, R.kind != RefRange::OK || rest.find(':') != rest.rfind(':'), cls);
    if (E.accepted && !E.terminated) vvf::violation(("range '" + rest + "' accepted but does not terminate").c_str());
    if (R.kind == RefRange::OK) {
      if (!E.accepted) vvf::violation(("valid range '" + rest + "' rejected").c_str());
      if (E.seq != R.seq) vvf::violation(("range '" + rest + "' enumerates " + show(E.seq) + " denotes " + show(R.seq)).c_str());
      Enumerated E2 = impl_range(E.printed);
      if (!E2.accepted || E2.seq != E.seq) vvf::violation(("range '" + rest + "' print->parse differs").c_str());
    } else if (R.kind == RefRange::MUST_REJECT && E.accepted) {
      vvf::violation(("malformed range '" + rest + "' accepted").c_str());
    } else if (R.kind == RefRange::WRONG_DIRECTION && E.accepted && E.seq != R.seq) {
      vvf::violation(("range '" + rest + "' with a stride pointing away from its end enumerates " + show(E.seq)).c_str());
    }
  }
  return 0;
}
