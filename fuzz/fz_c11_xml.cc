// libFuzzer target for C11 (b): arbitrary bytes -> Property::LoadFromXML; every document the loader accepts must survive
// print (PropertyIOManipulator XML) -> LoadFromXML with the same names, order, attributes and trimmed values.
// Outside the domain (skipped, counted): attribute values with tab/newline/CR and values with CR (only reachable through
// character references; the XML parser normalises them on re-reading, VOTCA never sees the difference).
#include <expat.h>
#include <sys/mman.h>
#include <unistd.h>

#include <cstring>
#include <sstream>

#include <votca/tools/property.h>
#include <votca/tools/propertyiomanipulator.h>

#include "vv_fuzz.h"

using votca::tools::Property;

namespace {
struct MemFile {
  int fd;
  std::string path;
  MemFile(const char *d, size_t n) {
    fd = memfd_create("vv_fz_c11", 0);
    size_t off = 0;
    while (fd >= 0 && off < n) {
      ssize_t w = write(fd, d + off, n - off);
      if (w <= 0) break;
      off += size_t(w);
    }
    path = "/proc/self/fd/" + std::to_string(fd);
  }
  ~MemFile() {
    if (fd >= 0) close(fd);
  }
};
// Property::LoadFromXML leaks its XML_Parser when it throws on a parse error (property.cc: the throw in the XML_Parse
// loop skips XML_ParserFree; ~9 kB per rejected document, 4 GB after 4*10^5 fuzz inputs).  Leak detection is off in this
// framework, so the target keeps its own memory bounded by filtering ill-formed documents with a parser it frees itself.
bool well_formed(const char *d, size_t n) {
  XML_Parser p = XML_ParserCreate(nullptr);
  if (!p) return false;
  bool ok = XML_Parse(p, d, int(n), 1) != XML_STATUS_ERROR;
  XML_ParserFree(p);
  return ok;
}
std::string trim(const std::string &s) {
  const char *ws = " \t\n\r\f\v";
  size_t a = s.find_first_not_of(ws);
  if (a == std::string::npos) return "";
  return s.substr(a, s.find_last_not_of(ws) - a + 1);
}
struct Scan {
  bool breaking = false, meta = false, outside = false;
  long nodes = 0;
};
void scan(const Property &p, Scan &s) {
  s.nodes++;
  const std::string &v = p.value();
  if (v.find_first_of("&<") != std::string::npos || v.find("]]>") != std::string::npos) s.breaking = true;
  if (v.find_first_of("&<>\"'") != std::string::npos) s.meta = true;
  if (v.find('\r') != std::string::npos) s.outside = true;
  for (auto it = p.firstAttribute(); it != p.lastAttribute(); ++it) {
    if (it->second.find_first_of("&<\"") != std::string::npos) s.breaking = true;
    if (it->second.find_first_of("&<>\"'") != std::string::npos) s.meta = true;
    if (it->second.find_first_of("\t\n\r") != std::string::npos) s.outside = true;
  }
  for (const Property &c : p) scan(c, s);
}
bool same(const Property &a, const Property &b, std::string &why) {
  if (a.name() != b.name()) {
    why = "name '" + a.name() + "' vs '" + b.name() + "'";
    return false;
  }
  if (trim(a.value()) != trim(b.value())) {
    why = "value of <" + a.name() + ">: '" + trim(a.value()) + "' vs '" + trim(b.value()) + "'";
    return false;
  }
  std::map<std::string, std::string> aa, ab;
  for (auto it = a.firstAttribute(); it != a.lastAttribute(); ++it) aa[it->first] = it->second;
  for (auto it = b.firstAttribute(); it != b.lastAttribute(); ++it) ab[it->first] = it->second;
  if (aa != ab) {
    why = "attributes of <" + a.name() + ">";
    return false;
  }
  auto ia = a.begin(), ib = b.begin();
  for (; ia != a.end() && ib != b.end(); ++ia, ++ib)
    if (!same(*ia, *ib, why)) return false;
  if (ia != a.end() || ib != b.end()) {
    why = "number of children of <" + a.name() + ">";
    return false;
  }
  return true;
}
}  // namespace

extern "C" int LLVMFuzzerTestOneInput(const uint8_t *data, size_t size) {
  static const bool known_esc = getenv("VV_KNOWN") && strstr(getenv("VV_KNOWN"), "PrintNodeXML/no-escaping");
  if (!well_formed(reinterpret_cast<const char *>(data), size)) {
    vvf::rejected();
    return 0;
  }
  Property first;
  try {
    MemFile f(reinterpret_cast<const char *>(data), size);
    first.LoadFromXML(f.path);
  } catch (const std::exception &) {
    vvf::rejected();
    return 0;
  }
  if (first.begin() == first.end()) {
    vvf::rejected();
    return 0;
  }
  Scan s;
  scan(*first.begin(), s);
  if (s.outside) {
    vvf::count(data, size, false, "outside-domain(CR / attribute whitespace)");
    return 0;
  }
  if (s.breaking && known_esc) {
    vvf::count(data, size, false, "excluded-known:PrintNodeXML/no-escaping");
    return 0;
  }
  std::ostringstream os;
  votca::tools::PropertyIOManipulator iom(votca::tools::PropertyIOManipulator::XML, 1, "");
  os << iom << first;
  std::string xml = os.str();
  Property second;
  try {
    MemFile f(xml.data(), xml.size());
    second.LoadFromXML(f.path);
  } catch (const std::exception &e) {
    vvf::count(data, size, s.meta, "accepted");
    vvf::violation((std::string("printed XML of an accepted document cannot be loaded: ") + e.what() + " | printed: " + xml.substr(0, 300)).c_str());
  }
  std::string why;
  // the unnamed roots hold the top element(s); character data outside the top element is blank by well-formedness
  auto a = first.begin(), b = second.begin();
  bool ok = true;
  for (; ok && a != first.end() && b != second.end(); ++a, ++b) ok = same(*a, *b, why);
  if (ok && (a != first.end() || b != second.end())) {
    ok = false;
    why = "number of top elements";
  }
  vvf::count(data, size, s.meta, s.breaking ? "accepted:has & < ]]> or \" in attribute" : s.meta ? "accepted:harmless metacharacter" : s.nodes > 1 ? "accepted:nested" : "accepted:single element");
  if (!ok) vvf::violation(("load -> print -> load differs: " + why + " | printed: " + xml.substr(0, 300)).c_str());
  return 0;
}
