// libFuzzer target for C08: byte 0 selects the parser, the rest is the file content.
//   0: votca::tools::Table operator>>        1: votca::csg::imcio_read_matrix        2: votca::csg::imcio_read_index
// Oracle (DESIGN C08 *fz*): an input is either rejected by an exception, or accepted, and then the accepted object
// survives print -> parse again (same shape, numbers equal to the printed precision, flags / names / ranges equal).
// Never a sanitizer report.  The matrix and index readers take file names: the bytes go through a scratch file in the
// working directory (the driver runs the target inside /verif/build/work/<run> and removes it).
#include <unistd.h>

#include <cmath>
#include <cstdint>
#include <cstring>
#include <fstream>
#include <iostream>
#include <set>
#include <sstream>

#include <votca/csg/imcio.h>
#include <votca/tools/rangeparser.h>
#include <votca/tools/table.h>

#include "vv_fuzz.h"

static bool known(const char *key) {
  static std::set<std::string> k = [] {
    std::set<std::string> s;
    const char *e = getenv("VV_KNOWN");
    if (e) {
      std::stringstream ss(e);
      std::string t;
      while (std::getline(ss, t, ','))
        if (!t.empty()) s.insert(t);
    }
    return s;
  }();
  return k.count(key) > 0;
}

static std::string g_file;
static void rm_file() {
  if (!g_file.empty()) unlink(g_file.c_str());
}
static const std::string &scratch_file() {
  if (g_file.empty()) {
    char cwd[4096];
    std::string base = "/verif/build/work";
    if (getcwd(cwd, sizeof cwd) && std::string(cwd).rfind("/verif/build/work/", 0) == 0) base = cwd;
    g_file = base + "/fz_c08_" + std::to_string(getpid()) + ".tmp";
    atexit(rm_file);
  }
  return g_file;
}
static void put(const std::string &s) {
  std::ofstream f(scratch_file(), std::ios::binary | std::ios::trunc);
  f.write(s.data(), std::streamsize(s.size()));
}

// numbers that survive a decimal round trip in every precision: finite, away from overflow / the denormal range
static bool tame(double v) { return v == 0 || (std::isfinite(v) && std::fabs(v) < 1e300 && std::fabs(v) > 1e-300); }
static bool same(double a, double b, double rel) {
  if (a == b) return true;
  return std::fabs(a - b) <= rel * std::max(std::fabs(a), std::fabs(b));
}

struct Quiet {  // imcio_write_* report on std::cout
  std::ostringstream sink;
  std::streambuf *old;
  Quiet() : sink(), old(std::cout.rdbuf(sink.rdbuf())) {}
  ~Quiet() { std::cout.rdbuf(old); }
};

static void fuzz_table(const uint8_t *data, size_t size, const std::string &txt) {
  votca::tools::Table t1;
  try {
    std::istringstream in(txt);
    in >> t1;
  } catch (const std::exception &) {
    vvf::rejected();
    return;
  }
  bool ok = true, flagged = false;
  for (votca::Index i = 0; i < t1.size(); ++i) {
    if (!tame(t1.x(i)) || !tame(t1.y(i))) ok = false;
    if (t1.flags(i) != 'i') flagged = true;
  }
  if (!ok) {  // nan / inf / overflow edge: outside the stated domain, only "no crash" is required
    vvf::count(data, size, false, "table-nonfinite-or-extreme");
    return;
  }
  std::ostringstream os;
  os << t1;
  votca::tools::Table t2;
  try {
    std::istringstream in(os.str());
    in >> t2;
  } catch (const std::exception &e) {
    vvf::violation(("Table: printed form of an accepted table is rejected: " + std::string(e.what())).c_str());
  }
  if (t2.size() != t1.size()) vvf::violation("Table: print->parse changes the number of rows");
  for (votca::Index i = 0; i < t1.size(); ++i) {
    if (!same(t1.x(i), t2.x(i), 0.5e-9 * 1.001) || !same(t1.y(i), t2.y(i), 0.5e-9 * 1.001))
      vvf::violation("Table: print->parse changes a value by more than the 10 printed digits");
    if (t1.flags(i) != t2.flags(i)) vvf::violation("Table: print->parse changes a flag");
  }
  vvf::count(data, size, t1.size() >= 2 && flagged, t1.size() == 0 ? "table-empty" : flagged ? "table-flags" : "table-plain");
}

static void fuzz_matrix(const uint8_t *data, size_t size, const std::string &txt) {
  put(txt);
  Eigen::MatrixXd m1;
  try {
    m1 = votca::csg::imcio_read_matrix(scratch_file());
  } catch (const std::exception &) {
    vvf::rejected();
    return;
  }
  for (votca::Index i = 0; i < m1.size(); ++i)
    if (!tame(m1.data()[i])) {
      vvf::count(data, size, false, "matrix-nonfinite-or-extreme");
      return;
    }
  if (m1.rows() == 0 || m1.cols() == 0) {  // nothing to print
    vvf::count(data, size, false, "matrix-empty");
    return;
  }
  Eigen::MatrixXd m2;
  try {
    Quiet q;
    votca::csg::imcio_write_matrix(scratch_file(), m1);
    m2 = votca::csg::imcio_read_matrix(scratch_file());
  } catch (const std::exception &e) {
    vvf::violation(("imcio matrix: written form of an accepted matrix is rejected: " + std::string(e.what())).c_str());
  }
  if (m2.rows() != m1.rows() || m2.cols() != m1.cols()) vvf::violation("imcio matrix: write->read changes the shape");
  bool sym = m1.rows() == m1.cols() && m1 == m1.transpose();
  bool vec = m1.rows() == 1 || m1.cols() == 1;
  if (!(sym || vec) && known("imcio_read_matrix/transposed")) {
    vvf::count(data, size, false, "matrix-excluded-known:imcio_read_matrix/transposed");
    return;
  }
  for (votca::Index i = 0; i < m1.rows(); ++i)
    for (votca::Index j = 0; j < m1.cols(); ++j)
      if (!same(m1(i, j), m2(i, j), 0.5e-7 * 1.001)) vvf::violation("imcio matrix: write->read changes an entry (imcio_read_matrix/transposed?)");
  vvf::count(data, size, !(sym || vec), vec ? "matrix-vector" : sym ? "matrix-symmetric" : "matrix-general");
}

static std::string show(const std::vector<std::pair<std::string, votca::tools::RangeParser>> &v) {
  std::ostringstream os;
  for (auto &p : v) os << p.first << " " << p.second << "\n";
  return os.str();
}

static void fuzz_index(const uint8_t *data, size_t size, const std::string &txt) {
  {  // numbers beyond the range of Index (more than 18 digits) are outside the domain
    int run = 0;
    for (char ch : txt) {
      run = (ch >= '0' && ch <= '9') ? run + 1 : 0;
      if (run > 18) return;
    }
  }
  put(txt);
  std::vector<std::pair<std::string, votca::tools::RangeParser>> i1, i2;
  try {
    i1 = votca::csg::imcio_read_index(scratch_file());
  } catch (const std::exception &) {
    vvf::rejected();
    return;
  }
  for (auto &p : i1) {
    std::ostringstream os;
    os << p.second;
    if (os.str().empty()) {  // "name ," : a group without any index is not a meaningful index entry (C18 leaves empty ranges open)
      vvf::count(data, size, false, "index-empty-range(outside domain)");
      return;
    }
  }
  try {
    Quiet q;
    votca::csg::imcio_write_index(scratch_file(), i1);
    i2 = votca::csg::imcio_read_index(scratch_file());
  } catch (const std::exception &e) {
    vvf::violation(("imcio index: written form of an accepted index is rejected: " + std::string(e.what()) + " :: " + show(i1)).c_str());
  }
  if (i2.size() != i1.size()) vvf::violation("imcio index: write->read changes the number of groups");
  if (show(i1) != show(i2)) vvf::violation(("imcio index: write->read changes names or ranges: " + show(i1) + " -> " + show(i2)).c_str());
  vvf::count(data, size, i1.size() >= 2, i1.empty() ? "index-empty" : "index");
}

extern "C" int LLVMFuzzerTestOneInput(const uint8_t *data, size_t size) {
  if (size < 1) return 0;
  std::string txt(reinterpret_cast<const char *>(data + 1), size - 1);
  switch (data[0] % 3) {
    case 0:
      fuzz_table(data, size, txt);
      break;
    case 1:
      fuzz_matrix(data, size, txt);
      break;
    default:
      fuzz_index(data, size, txt);
  }
  return 0;
}
