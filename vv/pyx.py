"""Hypothesis-side runtime: the python counterpart of harness/vv_common.h.

A python check module defines SUBS = [dict(name=, strategy=, run=, share=)] where `strategy` is a Hypothesis
strategy producing a JSON-serialisable case and `run(case, ctx) -> R` executes it against the real executables /
scripts and an independent (numpy) oracle.  `run()` (below) is what vv/main.py calls: it spawns `procs` worker
processes (vv.pyworker) with seeds seed*1000+k and merges their statistics; `replay()` re-executes one saved case
without Hypothesis.
"""
import hashlib
import importlib
import json
import os
import shutil
import subprocess
import sys
import tempfile
import time
import traceback


class R:
    def __init__(self):
        self.ok = True
        self.discard = False
        self.nontrivial = False
        self.key = ""
        self.msg = ""
        self.classes = []

    def fail(self, key, msg):
        if self.ok:
            self.ok = False
            self.key = key
            self.msg = msg
        return self

    def cls(self, c):
        self.classes.append(c)


class Ctx:
    def __init__(self, env, workdir, known):
        self.env = env
        self.workdir = workdir
        self.known = set(known)
        self._n = 0

    def tmpdir(self):
        self._n += 1
        d = os.path.join(self.workdir, f"case{os.getpid()}_{self._n}")
        os.makedirs(d, exist_ok=True)
        return d

    def sh(self, args, cwd, timeout=300, stdin=None):
        """Run a tool; returns (returncode, stdout+stderr)."""
        try:
            r = subprocess.run(args, cwd=cwd, env=self.env, stdout=subprocess.PIPE, stderr=subprocess.STDOUT, text=True,
                               errors="replace", timeout=timeout, input=stdin)
            return r.returncode, r.stdout
        except subprocess.TimeoutExpired:
            return -999, "timeout"


def sanitizer_report(out):
    return ("ERROR: AddressSanitizer" in out) or ("runtime error:" in out) or ("Assertion" in out and "failed" in out)


def case_hash(case):
    return int(hashlib.sha1(json.dumps(case, sort_keys=True).encode()).hexdigest()[:15], 16)


def worker(modname, seed, cases, workdir, out, known):
    """Runs inside a worker process."""
    from hypothesis import given, settings, seed as hseed, HealthCheck, Phase
    mod = importlib.import_module(modname)
    env = dict(os.environ)
    ctx = Ctx(env, workdir, known)
    stats = {}
    failures = []
    total_share = sum(s.get("share", 1.0) for s in mod.SUBS)
    for sub in mod.SUBS:
        st = stats.setdefault(sub["name"], dict(evaluations=0, discards=0, excluded_known=0, nt_hashes=set(), classes={},
                                                samples=[]))
        n = max(1, int(cases * sub.get("share", 1.0) / total_share))
        last = {}

        def body(case):
            d = ctx.tmpdir()
            try:
                try:
                    r = sub["run"](case, ctx, d)
                except Exception as e:  # harness/oracle bug or unexpected python error: surface it, do not hide it
                    r = R().fail("python-exception", "".join(traceback.format_exception(type(e), e, e.__traceback__))[-3000:])
            finally:
                shutil.rmtree(d, ignore_errors=True)
            if r.discard:
                st["discards"] += 1
                return
            st["evaluations"] += 1
            for c in r.classes:
                st["classes"][c] = st["classes"].get(c, 0) + 1
            if r.nontrivial:
                h = case_hash(case)
                if h not in st["nt_hashes"]:
                    st["nt_hashes"].add(h)
                    if len(st["samples"]) < 3:
                        st["samples"].append(case)
            if not r.ok:
                last["case"] = case
                last["r"] = r
                raise AssertionError(r.msg)

        test = given(sub["strategy"])(body)
        test = settings(max_examples=n, database=None, deadline=None, report_multiple_bugs=False, derandomize=False,
                        suppress_health_check=list(HealthCheck), phases=(Phase.generate, Phase.shrink))(test)
        test = hseed(seed * 7919 + (case_hash(sub["name"]) % 1000))(test)
        try:
            test()
        except AssertionError:
            if "case" in last:
                r = last["r"]
                failures.append(dict(sub=sub["name"], key=r.key, msg=r.msg[:3000], case=last["case"]))
        except Exception as e:
            if "case" in last:
                r = last["r"]
                failures.append(dict(sub=sub["name"], key=r.key, msg=r.msg[:3000], case=last["case"]))
            else:
                failures.append(dict(sub=sub["name"], key="harness-gave-up", gave_up=True,
                                     msg="".join(traceback.format_exception(type(e), e, e.__traceback__))[-2000:]))
        _dump(out, stats, failures)
    _dump(out, stats, failures)


def _dump(out, stats, failures):
    j = dict(subs={}, failures=failures)
    for k, s in stats.items():
        j["subs"][k] = dict(evaluations=s["evaluations"], discards=s["discards"], excluded_known=s["excluded_known"],
                            distinct_nontrivial=len(s["nt_hashes"]), nt_hashes=sorted(s["nt_hashes"]), classes=s["classes"],
                            samples=s["samples"])
    tmp = out + ".tmp"
    with open(tmp, "w") as f:
        json.dump(j, f)
    os.replace(tmp, out)


def run(modname, tier, seed, workdir, cfg, env, known):
    procs = cfg.get("procs", 1)
    cases = cfg["cases"]
    per = max(1, cases // procs)
    ps = []
    for k in range(procs):
        out = os.path.join(workdir, f"{modname}.stats.{k}.json")
        wd = os.path.join(workdir, f"{modname}.w{k}")
        os.makedirs(wd, exist_ok=True)
        logf = open(os.path.join(workdir, f"{modname}.log.{k}"), "w")
        p = subprocess.Popen([sys.executable, "-u", "-m", "vv.pyworker", modname, str(seed * 1000 + k), str(per), wd, out,
                              ",".join(sorted(known))], cwd="/verif", env=env, stdout=logf, stderr=subprocess.STDOUT)
        ps.append((p, out, logf))
    t0 = time.time()
    budget = cfg.get("budget_s", 3600)
    exhausted = False
    for p, _, _ in ps:
        try:
            p.wait(timeout=max(1, budget - (time.time() - t0)))
        except subprocess.TimeoutExpired:
            exhausted = True
            p.kill()
            p.wait()
    merged = {}
    failures = []
    for k, (p, out, logf) in enumerate(ps):
        logf.close()
        if os.path.exists(out):
            st = json.load(open(out))
            for sn, s in st["subs"].items():
                m = merged.setdefault(sn, dict(evaluations=0, discards=0, excluded_known=0, hashes=set(), nt_count=0,
                                               classes={}, samples=[]))
                m["evaluations"] += s["evaluations"]
                m["discards"] += s["discards"]
                m["excluded_known"] += s.get("excluded_known", 0)
                m["hashes"].update(s["nt_hashes"])
                for c, n in s["classes"].items():
                    m["classes"][c] = m["classes"].get(c, 0) + n
                if len(m["samples"]) < 3:
                    m["samples"].extend(s["samples"][: 3 - len(m["samples"])])
            for f in st["failures"]:
                f["harness"] = modname
                f["engine"] = "py"
                failures.append(f)
        if p.returncode not in (0, -9) and not exhausted:
            tail = open(os.path.join(workdir, f"{modname}.log.{k}"), errors="replace").read()[-3000:]
            failures.append(dict(sub="?", key="worker-died", msg=f"python worker exit {p.returncode}: {tail}", case=None,
                                 harness=modname, engine="py"))
    return dict(stats=merged, failures=failures, budget_exhausted=exhausted)


def replay(modname, case_file_json, env):
    """Re-run one saved case. Returns (ok, msg)."""
    mod = importlib.import_module(modname)
    subname = case_file_json["sub"]
    for sub in mod.SUBS:
        if sub["name"] == subname:
            wd = tempfile.mkdtemp(prefix="replay-", dir="/verif/build/work")
            try:
                ctx = Ctx(env, wd, [k for k in env.get("VV_KNOWN", "").split(",") if k])
                d = ctx.tmpdir()
                r = sub["run"](case_file_json["case"], ctx, d)
            finally:
                shutil.rmtree(wd, ignore_errors=True)
            if r.discard:
                return True, "discard"
            return r.ok, (r.key + " :: " + r.msg)
    return True, "unknown sub " + str(subname)
