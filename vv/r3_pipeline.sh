#!/bin/bash
# usage: r2_pipeline.sh <pid> <mutdir>   confirm the round-2 seeded changes of <pid>, then run the quick check against each
pid=$1; mut=$2
cd /verif
for n in 1 2 3; do
  [ -f /tmp/seed3/$pid/out/change$n.diff ] || continue
  echo "== confirm $pid r3-$n"
  SEED_BASE=/tmp/seed3 DEST_TAG=r3- ./vv/seed_confirm.sh $pid $n 2>&1 | tail -2
done
MUT_DIR=$mut python3-vt vv/mutest.py --seeded $pid-r3- 2>&1 | grep -E "^seeded|SUMMARY|DOES NOT"
