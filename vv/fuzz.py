"""libFuzzer campaigns: oracle lives inside the target (fuzz/*.cc); a crash-/leak- artifact is the replay unit."""
import glob
import json
import os
import re
import shutil
import subprocess
import time

from vv import core


def run(prop, part, cfg, seed, workdir):
    t = part["harness"]
    procs = cfg.get("procs", 1)
    runs = cfg["runs"]
    per = max(1, runs // procs)
    ps = []
    for k in range(procs):
        cdir = os.path.join(workdir, f"{t}.corpus.{k}")
        os.makedirs(cdir, exist_ok=True)
        src = os.path.join(core.VERIF, "corpus", part.get("corpus", t))
        if os.path.isdir(src):
            for f in os.listdir(src):
                shutil.copy(os.path.join(src, f), cdir)
        adir = os.path.join(workdir, f"{t}.art.{k}") + "/"
        os.makedirs(adir, exist_ok=True)
        stats = os.path.join(workdir, f"{t}.fzstats.{k}.json")
        env = core.run_env(prop, {"VV_FZ_STATS": stats})
        logf = open(os.path.join(workdir, f"{t}.log.{k}"), "w")
        args = [f"{core.HB}/{t}", f"-seed={seed * 1000 + k + 1}", f"-runs={per}", f"-max_len={cfg.get('max_len', 256)}",
                f"-artifact_prefix={adir}", "-print_final_stats=1", "-timeout=60", "-rss_limit_mb=4096", cdir]
        if part.get("dict"):
            args.append(f"-dict={core.VERIF}/{part['dict']}")
        ps.append((subprocess.Popen(args, stdout=logf, stderr=subprocess.STDOUT, env=env, cwd=workdir), adir, stats, logf, k))
    t0 = time.time()
    budget = cfg.get("budget_s", 3600)
    exhausted = False
    for p, *_ in ps:
        try:
            p.wait(timeout=max(1, budget - (time.time() - t0)))
        except subprocess.TimeoutExpired:
            exhausted = True
            p.kill()
            p.wait()
    m = dict(evaluations=0, discards=0, excluded_known=0, hashes=set(), nt_count=0, classes={}, samples=[])
    failures = []
    for p, adir, stats, logf, k in ps:
        logf.close()
        logtxt = open(os.path.join(workdir, f"{t}.log.{k}"), errors="replace").read()
        if os.path.exists(stats):
            try:
                s = json.load(open(stats))
                m["evaluations"] += s.get("evaluations", 0)
                m["discards"] += s.get("rejected", 0)
                m["hashes"].update(s.get("nt_hashes", []))
                for c, n in s.get("classes", {}).items():
                    m["classes"][c] = m["classes"].get(c, 0) + n
                if len(m["samples"]) < 3:
                    m["samples"].extend(s.get("samples", [])[:3 - len(m["samples"])])
            except Exception as e:  # never swallow: an unreadable stats file means the part decided nothing
                failures.append(dict(sub=t, key=f"{t}/stats-unreadable", msg=f"cannot read fuzz statistics: {e!r}", case=None,
                                     harness=t, engine="fz", gave_up=True))
        else:
            mm = re.search(r"stat::number_of_executed_units:\s*(\d+)", logtxt)
            if mm:
                m["evaluations"] += int(mm.group(1))
        for art in sorted(glob.glob(adir + "crash-*") + glob.glob(adir + "leak-*")):
            os.makedirs(core.FOUND, exist_ok=True)
            dst = os.path.join(core.FOUND, f"{prop}-{t}-{os.path.basename(art)}")
            shutil.copy(art, dst)
            data = open(art, "rb").read()
            ov = re.findall(r"VV-FUZZ-ORACLE-VIOLATION: .*", logtxt)
            failures.append(dict(sub=t, key=f"{t}/oracle" if ov else f"{t}/crash",
                                 msg=(ov[-1] if ov else "sanitizer/crash") + " | log tail: " + logtxt[-1500:], case=dict(bytes_repr=repr(data[:400])),
                                 harness=t, engine="fz", artifact=dst))
    return dict(stats={t: m}, failures=failures, budget_exhausted=exhausted)
