"""C20 (executable level): the Boltzmann inversion of csg_boltzmann uses kB T with the CODATA Boltzmann constant at every
temperature set within one process: U_i - U_j = -kB T ln(p_i / p_j) for populated bins (tab vs hist, same binning)."""
import math
import os

from hypothesis import strategies as st

from vv.pyx import R, sanitizer_report

KB = 8.314462618e-3  # kJ/(mol K), CODATA 2018 (exact SI)


@st.composite
def case(draw):
    nm = draw(st.integers(3, 8))
    nfr = draw(st.integers(3, 8))
    lens = [[draw(st.integers(0, 9)) for _ in range(nm)] for _ in range(nfr)]  # bond length = 1.0 + 0.1*k Angstrom
    temps = draw(st.lists(st.sampled_from([50.0, 150.0, 300.0, 600.0, 1000.0]), min_size=2, max_size=3, unique=True))
    return dict(nm=nm, lens=lens, temps=temps, n=draw(st.sampled_from([5, 11, 21])))


def read_tab(path):
    rows = []
    for line in open(path):
        t = line.split()
        if len(t) >= 2 and not line.startswith("#"):
            rows.append([float(x) for x in t[:2]])
    return rows


def run_case(c, ctx, d):
    r = R()
    nm = c["nm"]
    top = (f'<topology>\n <molecules>\n  <molecule name="DIM" nmols="{nm}" nbeads="2">\n   <bead name="A1" type="A" mass="1.0" q="0.0" />\n'
           '   <bead name="B1" type="A" mass="1.0" q="0.0" />\n  </molecule>\n </molecules>\n <bonded>\n  <bond>\n   <name>bond</name>\n'
           '   <beads>\n    DIM:A1 DIM:B1\n   </beads>\n  </bond>\n </bonded>\n</topology>\n')
    open(os.path.join(d, "top.xml"), "w").write(top)
    with open(os.path.join(d, "traj.dump"), "w") as f:
        for k, fr in enumerate(c["lens"]):
            f.write(f"ITEM: TIMESTEP\n{k}\nITEM: NUMBER OF ATOMS\n{2 * nm}\nITEM: BOX BOUNDS pp pp pp\n0 200\n0 200\n0 200\nITEM: ATOMS id type x y z\n")
            for m, L in enumerate(fr):
                x = 5 + 20 * m
                f.write(f"{2 * m + 1} 0 {x} 5 5\n{2 * m + 2} 0 {x + 1.0 + 0.1 * L:.6f} 5 5\n")
    cmds = f"hist set n {c['n']}\ntab set n {c['n']}\nhist h.dat *:bond:*\n"
    for i, T in enumerate(c["temps"]):
        cmds += f"tab set T {T}\ntab t{i}.dat *:bond:*\n"
    cmds += "q\n"
    rc, out = ctx.sh(["csg_boltzmann", "--top", "top.xml", "--trj", "traj.dump", "--no-map"], cwd=d, timeout=300, stdin=cmds)
    if rc == -999:
        r.discard = True
        return r
    if sanitizer_report(out) or rc != 0:
        return r.fail("csg_boltzmann/run", f"exit {rc}: {out[-800:]}")
    h = read_tab(os.path.join(d, "h.dat"))
    pop = [(i, p) for i, (x, p) in enumerate(h) if p > 0]
    distinct = len({round(p, 9) for _, p in pop})
    r.nontrivial = distinct >= 2 and len(c["temps"]) >= 2
    r.cls(f"temperatures={len(c['temps'])}")
    if distinct < 2:
        r.cls("flat-histogram")
        return r
    for k, T in enumerate(c["temps"]):
        t = read_tab(os.path.join(d, f"t{k}.dat"))
        if len(t) != len(h):
            return r.fail("csg_boltzmann/tab-grid", f"tab has {len(t)} rows, hist {len(h)}")
        kT = KB * T
        (i0, p0) = max(pop, key=lambda q: q[1])
        for i, p in pop:
            want = -kT * math.log(p / p0)
            got = t[i][1] - t[i0][1]
            tol = 2e-5 * kT * (1 + abs(math.log(p / p0))) + 1e-6 * abs(t[i][1]) + 1e-9
            if abs(got - want) > tol:
                return r.fail("csg_boltzmann/kBT", f"table {k} (T={T} K, set as temperature number {k + 1} in this process): U[{i}]-U[{i0}] = {got}, "
                                                  f"-kB T ln(p/p0) = {want} with kB = {KB} kJ/(mol K) (effective kB {got / (-T * math.log(p / p0)) if p != p0 else float('nan')})")
    return r


SUBS = [dict(name="boltzmann_kBT", strategy=case(), run=run_case, share=1.0)]
