"""Sensitivity testing: apply small source mutants to a scratch worktree (never /repo) and run the quick checks on it.

usage: python3-vt vv/mutest.py mutants/own.json [id-substring ...]
A mutant = {id, prop, file, old, new} (exact text replacement, `count` occurrences default 1) or {id, prop, patch: <diff file>}.
The scratch tree is /tmp/mut (git worktree of /repo, detached at /repo's HEAD); builds go to /verif/build/*-<tag>.
"""
import json
import os
import subprocess
import sys
import time

MUT = os.environ.get("MUT_DIR", "/tmp/mut")


def sh(cmd, **kw):
    return subprocess.run(cmd, shell=True, stdout=subprocess.PIPE, stderr=subprocess.STDOUT, text=True, **kw)


def main():
    if sys.argv[1] == "--seeded":
        import glob
        spec = []
        for d in sorted(glob.glob("/verif/seeded/*/")):
            meta = json.load(open(d + "meta.json"))
            spec.append(dict(id="seeded-" + os.path.basename(d.rstrip("/")), prop=meta["property"], patch=d + "patch.diff"))
    else:
        spec = json.load(open(sys.argv[1]))
    filt = sys.argv[2:]
    if not os.path.isdir(MUT):
        print(sh(f"git -C /repo worktree add --detach {MUT} HEAD").stdout)
    head = sh("git -C /repo rev-parse HEAD").stdout.strip()
    sh(f"git -C {MUT} checkout -q --detach {head} && git -C {MUT} checkout -q -- .")
    results = []
    for m in spec:
        if filt and not any(f in m["id"] or f == m["prop"] for f in filt):
            continue
        sh(f"git -C {MUT} checkout -q -- .")
        if "patch" in m:
            r = sh(f"git -C {MUT} apply {os.path.abspath(m['patch'])}")
            if r.returncode != 0:
                print(f"{m['id']}: PATCH DOES NOT APPLY: {r.stdout}")
                continue
        else:
            p = os.path.join(MUT, m["file"])
            s = open(p).read()
            if m["old"] not in s:
                print(f"{m['id']}: OLD TEXT NOT FOUND in {m['file']}")
                continue
            s = s.replace(m["old"], m["new"], m.get("count", 1))
            open(p, "w").write(s)
        t0 = time.time()
        env = dict(os.environ, VV_REPO=MUT, VERIF_SEED=str(m.get("seed", 1)))
        r = subprocess.run(["/verif/check", os.environ.get("MUT_PROP", m["prop"]), "--tier", os.environ.get("MUT_TIER", m.get("tier", "quick"))], stdout=subprocess.PIPE,
                           stderr=subprocess.STDOUT, text=True, env=env, cwd="/verif")
        viol = [l for l in r.stdout.splitlines() if l.startswith("VIOLATION") or l.startswith("FAILURE")]
        verdict = "CAUGHT" if r.returncode == 1 and any(l.startswith("VIOLATION") for l in viol) else (
            "BUILD-ERROR" if r.returncode == 2 else "MISSED")
        print(f"{m['id']}: {verdict} ({time.time() - t0:.0f}s) " + (viol[0][:200] if viol else r.stdout[-300:].replace("\n", " | ")), flush=True)
        results.append((m["id"], verdict))
    sh(f"git -C {MUT} checkout -q -- .")
    print("SUMMARY:", ", ".join(f"{i}={v}" for i, v in results))


if __name__ == "__main__":
    main()
