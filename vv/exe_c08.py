"""C08 (executable level): csg_map --no-map conversion chains a -> b -> gro keep positions, velocities and box.

Input frames are written by this module's own gro writer on the 0.001 nm lattice of the gro format, converted by the ASan
csg_map into an intermediate format (gro, dump, pdb, xyz, dlph) and back into gro; the final gro must reproduce the input
numbers within the printed precision of the coarsest format in the chain, frame count and order must be kept.
"""
import os

from hypothesis import strategies as st

from vv.pyx import R, sanitizer_report

# per intermediate format: (carries box, carries velocities, extra position error in nm)
FORMATS = {
    "gro": (True, True, 0.0),
    "dump": (True, True, 1e-7),
    "pdb": (False, False, 0.5e-4),
    "xyz": (False, False, 0.5e-6),
    "dlph": (True, True, 1e-9),
}


@st.composite
def case(draw):
    nb = draw(st.integers(1, 30))
    nfr = draw(st.integers(1, 3))
    tric = draw(st.booleans())
    frames = []
    for k in range(nfr):
        a = draw(st.integers(3000, 9000))  # box edges in 0.001 nm
        b = draw(st.integers(3000, 9000))
        c = draw(st.integers(3000, 9000))
        off = [0, 0, 0]
        if tric:
            # bx, cx, cy; bx != 0 in every frame: the box class is a property of the whole trajectory (DL_POLY stores it once)
            off = [draw(st.integers(1, a // 2)) * draw(st.sampled_from([-1, 1])), draw(st.integers(-a // 2, a // 2)), draw(st.integers(-b // 2, b // 2))]
        pos = [[draw(st.integers(-9000, 20000)) for _ in range(3)] for _ in range(nb)]
        vel = [[draw(st.integers(-50000, 50000)) for _ in range(3)] for _ in range(nb)]  # 0.0001 nm/ps
        frames.append(dict(box=[a, b, c] + off, pos=pos, vel=vel))
    return dict(nb=nb, frames=frames, via=draw(st.sampled_from(sorted(FORMATS))), vel=draw(st.booleans()))


def write_gro(path, c):
    with open(path, "w") as f:
        for k, fr in enumerate(c["frames"]):
            f.write(f"frame t= {k}.000 step= {k}\n{c['nb']:5d}\n")
            for i, p in enumerate(fr["pos"]):
                line = f"{1:5d}{'RES':<5s}{'A' + str(i):>5s}{(i + 1) % 100000:5d}" + "".join(f"{x / 1000.0:8.3f}" for x in p)
                if c["vel"]:
                    line += "".join(f"{v / 10000.0:8.4f}" for v in fr["vel"][i])
                f.write(line + "\n")
            a, b, cc, bx, cx, cy = [x / 1000.0 for x in fr["box"]]
            # gro box line: v1(x) v2(y) v3(z) v1(y) v1(z) v2(x) v2(z) v3(x) v3(y)
            f.write(f"{a:10.5f}{b:10.5f}{cc:10.5f}{0.0:10.5f}{0.0:10.5f}{bx:10.5f}{0.0:10.5f}{cx:10.5f}{cy:10.5f}\n")


def read_gro(path):
    frames = []
    L = open(path).read().split("\n")
    i = 0
    while i < len(L) and L[i].strip() != "" or (i + 1 < len(L) and L[i + 1].strip() != ""):
        if i + 1 >= len(L):
            break
        try:
            n = int(L[i + 1])
        except ValueError:
            break
        pos, vel = [], []
        for k in range(n):
            line = L[i + 2 + k]
            rest = line[20:]
            # the field width is derived from the distance between the decimal points, as gro readers do
            w = rest.find(".", rest.find(".") + 1) - rest.find(".")
            vals = [float(rest[j:j + w]) for j in range(0, 3 * w, w)]
            pos.append(vals)
            tail = rest[3 * w:]
            if tail.strip():
                wv = tail.find(".", tail.find(".") + 1) - tail.find(".")
                vel.append([float(tail[j:j + wv]) for j in range(0, 3 * wv, wv)])
        box = [float(x) for x in L[i + 2 + n].split()]
        frames.append(dict(pos=pos, vel=vel, box=box))
        i += n + 3
    return frames


def run_case(c, ctx, d):
    r = R()
    via = c["via"]
    has_box, has_vel, perr = FORMATS[via]
    r.cls("via=" + via)
    if len(c["frames"]) > 1:
        r.cls("multi-frame")
    tric = any(fr["box"][3:] != [0, 0, 0] for fr in c["frames"])
    if tric:
        r.cls("triclinic")
    r.nontrivial = len(c["frames"]) > 1 or tric or c["vel"]
    top = "<topology>\n <molecules>\n  <molecule name=\"M\" nmols=\"1\" nbeads=\"%d\">\n" % c["nb"]
    for i in range(c["nb"]):
        top += f'   <bead name="A{i}" type="T{i % 3}" mass="1.0" q="0.0" />\n'
    top += "  </molecule>\n </molecules>\n</topology>\n"
    open(os.path.join(d, "top.xml"), "w").write(top)
    write_gro(os.path.join(d, "in.gro"), c)
    mid = "mid." + via
    flags = ["--vel"] if c["vel"] else []
    rc, out = ctx.sh(["csg_map", "--top", "top.xml", "--trj", "in.gro", "--out", mid, "--no-map"] + flags, cwd=d, timeout=300)
    if rc == -999:
        r.discard = True
        return r
    if sanitizer_report(out) or rc != 0:
        return r.fail("csg_map/convert-a-b", f"gro -> {via}: exit {rc}: {out[-1200:]}")
    rc, out = ctx.sh(["csg_map", "--top", "top.xml", "--trj", mid, "--out", "back.gro", "--no-map"] + (flags if has_vel else []), cwd=d,
                     timeout=300)
    if rc == -999:
        r.discard = True
        return r
    if sanitizer_report(out) or rc != 0:
        return r.fail("csg_map/convert-b-gro", f"{via} -> gro: exit {rc}: {out[-1200:]}")
    back = read_gro(os.path.join(d, "back.gro"))
    if len(back) != len(c["frames"]):
        return r.fail("csg_map/frame-count", f"gro -> {via} -> gro: {len(c['frames'])} frames in, {len(back)} out")
    ptol = 0.5e-3 + perr + 1e-9
    for k, (fr, bk) in enumerate(zip(c["frames"], back)):
        if len(bk["pos"]) != c["nb"]:
            return r.fail("csg_map/bead-count", f"frame {k}: {c['nb']} beads in, {len(bk['pos'])} out")
        for i in range(c["nb"]):
            for a in range(3):
                want = fr["pos"][i][a] / 1000.0
                if abs(bk["pos"][i][a] - want) > ptol:
                    return r.fail(f"csg_map/position-via-{via}", f"frame {k} bead {i} comp {a}: {want} in, {bk['pos'][i][a]} out (tol {ptol})")
        if c["vel"] and has_vel:
            if len(bk["vel"]) != c["nb"]:
                return r.fail(f"csg_map/velocity-lost-via-{via}", f"frame {k}: velocities requested (--vel) but the final gro has none")
            for i in range(c["nb"]):
                for a in range(3):
                    want = fr["vel"][i][a] / 10000.0
                    if abs(bk["vel"][i][a] - want) > 0.5e-4 + 1e-6:
                        return r.fail(f"csg_map/velocity-via-{via}", f"frame {k} bead {i} comp {a}: {want} in, {bk['vel'][i][a]} out")
        if has_box:
            a_, b_, c_, bx, cx, cy = [x / 1000.0 for x in fr["box"]]
            want = [a_, b_, c_, 0.0, 0.0, bx, 0.0, cx, cy]
            got = bk["box"] + [0.0] * (9 - len(bk["box"]))
            for q in range(9):
                if abs(got[q] - want[q]) > 0.5e-5 + 1e-6:
                    return r.fail(f"csg_map/box-via-{via}", f"frame {k}: box line {want} in, {got} out")
    return r


SUBS = [dict(name="csg_map_chain", strategy=case(), run=run_case, share=1.0)]
