#!/bin/bash
# usage: regress_chain.sh <mutdir> id...   every seeded change of the given properties against the current checks (quick, seed 1)
mut=$1; shift
for id in "$@"; do MUT_DIR=$mut python3-vt /verif/vv/mutest.py --seeded "$id-" > /verif/build/regress_$id.log 2>&1; done
