from vv.core import harness
from vv.registry import PROPS, COMMON_ASSUME, rc

harness("h_c16", ["harness/h_c16.cc"], libs=("csg",))

PROPS["C16"] = dict(
    repo_targets=("votca_tools", "votca_csg"),
    parts=[rc("h_c16", quick=dict(cases=6000, procs=8, args=["--enum", "5"], budget_s=900),
              thorough=dict(cases=400000, procs=16, args=["--enum", "7"], budget_s=2400))],
    rule="tbd",
    assumptions=COMMON_ASSUME,
)
