from vv.core import harness
from vv.registry import PROPS, COMMON_ASSUME, rc

harness("h_c16", ["harness/h_c16.cc"], libs=("csg",))

PROPS["C16"] = dict(
    repo_targets=("votca_tools", "votca_csg"),
    parts=[rc("h_c16", quick=dict(cases=14000, procs=8, args=["--enum", "5"], budget_s=900),
              thorough=dict(cases=240000, procs=16, args=["--enum", "7"], budget_s=3000))],
    rule=("One graph generator feeds six subs. EXHAUSTIVE: every labelled simple graph on 1..5 vertices (quick, 1099 graphs per sub) / 1..6 "
          "vertices (thorough, 33867 per sub) plus, for equiv/reduce/breakinto, every labelled 7-vertex graph with non-increasing degree "
          "sequence (16758 graphs, >= 1 labelling of each of the 1044 isomorphism classes), each with ids from a sparse pool (0..10^6), shuffled edge order/orientation, three attribute modes and a "
          "pseudo-random relabelling derived from the graph index. EXHAUSTIVE BY CLASS up to 10 (quick, 1382 graphs per sub) / 12 (thorough) vertices: every rooted tree "
          "(canonical level sequences; contains every free tree, chain and star), every ring, ring with a tail, pair of rings sharing a vertex, theta graph (fused rings) "
          "and every disjoint union of two of {isolated vertex, chain, ring, star}. GENERATED: 1..4 components drawn from chain, ring, star, random tree, fused "
          "rings (shared edge), theta graphs (2..4 parallel chains between two junctions, equal lengths allowed), cacti/spiro rings with tails, "
          "ring with tails, complete K2..K6, G(m,p), 2xk ladders, isolated vertices; up to 40 (24 for bfs/single/equiv) vertices growing with "
          "the rapidcheck size; vertex numbering, sparse non-contiguous ids (0..10^6), edge insertion order and orientation shuffled; names from "
          "1..3 symbols or homogeneous, masses from a small set. Oracles: bfs: Dist label of exploreGraph+GraphDistVisitor == std::queue BFS hop "
          "count for every vertex from every start (<= 6 starts when n > 10), explored set == reachable set; components: "
          "decoupleIsolatedSubGraphs == union-find partition, every vertex/edge in exactly one part, none invented, node contents kept; single: "
          "singleNetwork (BF and DF visitor, every start) <=> connected and no isolated vertex; reduce: reduceGraph(g).expandGraph() has exactly "
          "the vertex set and edge set of g, node contents kept; equiv: BeadStructure built with other ids / bead order / edge order / edge "
          "orientation is isStructureEquivalent (both directions), and not equivalent after one bead's name changed or mass changed by >= 1 %; "
          "breakinto: isSingleStructure and breakIntoStructures vs the same references. "
          "non-trivial (all subs) = >= 2 vertices of maximal degree (> 0), or a cycle, or >= 2 components. Histories: 35 % of the bfs cases explore a Graph object that was labelled from another start vertex before (distances of reachable vertices must be those of a fresh graph). Mass changes range from 2e-8 relative to a factor 2; a change is asserted when the 8-significant-digit forms of the two masses differ (documented resolution of the structure id)."),
    assumptions=COMMON_ASSUME + [
        "simple graphs only (no self loops, no parallel edges), non-negative ids, >= 1 vertex",
        "reduce->expand is compared as SETS of vertices and edges (the statement's wording); an edge listed twice by the expanded graph is "
        "counted as class 'expanded-edge-multiplicity>1', not as a failure",
        "'different' is asserted only for a changed multiset of names/masses, never for same-multiset non-isomorphic graphs (the structure id "
        "is not a complete isomorphism invariant and the statement does not claim it)"],
    exhaustive_in="both",
    exhaustive_note="small-scope enumeration complete for labelled graphs up to 5 (quick) / 6 (thorough) vertices and for degree-sorted labelled "
                    "7-vertex graphs (thorough), and for the named classes (trees, rings, ring+tail, rings sharing a vertex, theta graphs, two-part mixtures) up to 10 / 12 vertices; the generated part is a sample",
)
