from vv.core import harness
from vv.registry import PROPS, COMMON_ASSUME, rc, py

harness("h_c20", ["harness/h_c20.cc"], libs=("csg",))

PROPS["C20"] = dict(
    repo_targets=("votca_tools", "votca_csg", "csg_boltzmann"),
    parts=[rc("h_c20", quick=dict(cases=20000, procs=1, args=["--enum", "1"], budget_s=300),
              thorough=dict(cases=400000, procs=4, args=["--enum", "1"], budget_s=900)),
           py("vv.exe_c20", quick=dict(cases=64, procs=8, budget_s=300), thorough=dict(cases=2000, procs=16, budget_s=1200))],
    rule=("units: EXHAUSTIVE over every ordered triple (a,b,c) of enumerators in each of the nine UnitConverter dimensions "
          "(1128 triples): round trip and transitivity within 4 ulp, value of convert(a->b) against SI-exact/CODATA-2018 numbers "
          "embedded in the checker (rel 5e-5), velocity/force/molar-force = quotient of the base conversions (16 ulp); plus a generated "
          "metamorphic sweep convert(a->b)*x, a->b->a and a->b->c for x = +-m*10^e, e in -30..30; non-trivial = from != to. "
          "constants: every tools::conv constant against the embedded value (rel 5e-5; pi, nm2ang, ang2nm 4e-16). "
          "crosstable: every quantity encoded in two places (conv:: vs UnitConverter, energy vs molar-energy tables, kB*ev2kj_per_mol vs R, "
          "factors applied by LAMMPSDumpReader to positions/forces obtained by reading a one-atom dump, Elements::getCovRad unit switch, "
          "csg/units.h defaults) agree to rel 5e-5; non-trivial = all (each is encoded >= 2 times). "
          "elements: every Z=1..86: getEleNum/getEleName/getNucCrg round trips, mass > 0 and within 0.1 % of the embedded IUPAC table, "
          "getEleShort(getEleFull(x)) = x; non-trivial = element present in the library (La..Lu are absent)."
          " boltzmann_kBT (executable csg_boltzmann, the consumer of conv::kB in csg): generated dimer trajectories, 2-3 temperatures set one "
          "after the other in ONE process; for populated bins U_i-U_j = -kB T ln(p_i/p_j) with the CODATA kB; non-trivial = >=2 temperatures and "
          "a non-flat histogram. crosstable also reads two-frame LAMMPS dumps with a changing box in plain, unwrapped and scaled columns; elements "
          "are queried in all accessor orders on one object. Histories: dumps with two frames and a changing box for the x / xu / xs column flavours; every order of the Elements accessors on a fresh object; vv.exe_c20: csg_boltzmann writes tables at several temperatures in one process (U differences against -kB T ln p). elements: every tabulated mass m (and m +- 0.4 x gap to the nearest other mass) is looked up with tolerances 1e-9..10: the closest element must be returned when the tolerance admits it, an error otherwise."),
    assumptions=COMMON_ASSUME + [
        "kcal means the thermochemical kilocalorie (4.184 kJ), the calorie of kcal/mol force fields and LAMMPS 'real' units",
        "electron_volts_per_mole etc. are read literally (eV/mol), as the table values imply",
        "elements missing from the library tables (Z=57..71) are not a self-inconsistency"],
    exhaustive_in="both",
    exhaustive_note="finite domain: all unit triples, all named constants, all doubly encoded quantities, all element symbols are enumerated; "
                    "the generated part only adds random magnitudes x",
)
