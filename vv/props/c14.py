from vv.core import harness
from vv.registry import PROPS, COMMON_ASSUME, rc

harness("h_c14", ["harness/h_c14.cc"], libs=("xtp", "csg"))

PROPS["C14"] = dict(
    parts=[rc("h_c14", quick=dict(cases=500000, procs=4, args=["--enum", "40"], budget_s=600),
              thorough=dict(cases=4000000, procs=16, args=["--enum", "100"], budget_s=2400))],
    rule=("huffman_measure: event lists of length 1..100 (generated) + every length 1..40 (quick) / 1..100 (thorough) x 4 rate patterns "
          "(enumerated); rates m*10^e over 12 decades, all equal, one dominant, small integers, 1e10..1e13; optional decay event; the exact "
          "measure of every event is summed from the tree's internal thresholds, all thresholds +-4 ulp, 0 and 1 are probed, a 1024-cell "
          "grid + bisection cross-checks the thresholds; non-trivial = n >= 3 with >= 2 distinct rates. "
          "marcus: site energies, inner reorganisation energies (same on both segments, or only the forward/backward sums equal), outer-sphere "
          "lambda (0 or > 0), J^2 over 8 decades, field (none / weak / axis / strong), R up to 30 bohr, kT 48..960 K, carrier e/h/s/t on a 2^-16 "
          "lattice; checks positivity, k(alpha J^2) = alpha k(J^2), ln(k12/k21) = -dE/kT in long double; non-trivial = charged carrier with "
          "F.R != 0 and E1 != E2. waiting_time: seeds x rate lists; Promotetime equals -ln(1-u)/k on the reproduced mt19937 stream, finite, "
          ">= 0, scales as 1/k; ChooseHoppingDest equals the tree lookup at 1-u; non-trivial = >= 2 different rates in the sequence."
          " huffman_measure also covers histories: in 35 % of the generated cases the tree is first built for a prefix of the events, "
          "more events are added and the tree is rebuilt (KMCLifetime's sequence); the final tree is checked. Histories: trees rebuilt after adding events, trees first built for a longer list; the field handed to Rate_Engine through a variable that is reassigned afterwards while a second engine is alive. Fields include weak ones (2^-28..2^-50 Ha/bohr)."),
    assumptions=COMMON_ASSUME + [
        "the field term is read with the physical sign: dE(1->2) = (E2-E1) - q F.(r2-r1), R() = r2-r1 (DESIGN C14 sign note)",
        "'equal forward/backward reorganisation energy' means equal TOTAL reorganisation energies; the outer-sphere part is a pair property "
        "that enters both directions",
        "rates whose Marcus exponent exceeds 650 (under/overflow in double) are discarded",
        "the exponential law is checked as the exact inverse-CDF identity on the seeded stream, not statistically",
        "QMCalculator::Initialize/EvaluateFrame (qmcalculator.cc needs libint) are stubbed in the harness; nothing under test is stubbed",
    ],
    exhaustive_in="both",
    exhaustive_note="event counts 1..40 (quick) / 1..100 (thorough) x 4 rate patterns are enumerated; everything else is a sample",
)
