from vv.core import harness
from vv.registry import PROPS, COMMON_ASSUME, rc

harness("h_c17", ["harness/h_c17.cc"], libs=("xtp",))

PROPS["C17"] = dict(
    parts=[rc("h_c17", quick=dict(cases=6000, procs=8, args=["--enum", "1"], budget_s=600),
              thorough=dict(cases=120000, procs=16, args=["--enum", "2"], budget_s=1500))],
    rule=("statemachine: generated sequences (2..24 steps) of reopen(READ|MODIFY|CREATE) / write(path,name,value) / read-of-a-never-written-name over one "
          "checkpoint file; values: Index/int/unsigned/double(+-0, denormal, inf, nan payloads)/bool/string(empty, UTF-8, control characters, 10 kB), "
          "vector<Index|int|double|string>, MatrixXd 0x0..300x300 incl. Nx0/0xN/1xN/Nx1, VectorXd, Vector3d, vector<Vector3d>, CptTable rows of "
          "StaticSite::data, group paths of depth 0..3 through openChild chains and getWriter(absolute path); writes aim at earlier names (same shape / "
          "other shape / other type); a write on a READ handle must be refused (getWriter and via the reader's location). After EVERY step a fresh "
          "CheckpointFile(READ) must return every model entry bit-identically, and the attributes/objects of every group must be exactly the model's "
          "(skipped after an other-type overwrite). Each case runs in a fork()ed child (HDF5 global state; ASan aborts are attributed to the step). "
          "non-trivial = the executed sequence has an overwrite with another shape, or writes an empty shape, or reopens the file after a write. "
          "single: 1..3 fresh values of any kind written, file closed, read back (minimal replays for per-kind round trips)."
          " Element types: MatrixXf (single-precision specials), MatrixXi, Matrix<long> (values beyond 32 bits / 2^53), vector<float>, "
          "vector<unsigned>, and a table whose row struct {int,double,unsigned,long,float} has alignment padding; 25 % of the overwrites of a "
          "dataset keep the stored extent and change the element type (class overwrite-same-extent-other-element-type). corners (enumerated, every "
          "tier): every ordered pair of the four matrix element types over one 3x4 extent, every ordered pair of nine column kinds over one 6x1 "
          "extent, vector<Vector3d> lists of 9999/10000/10001/10050 entries (fresh, overwritten by and overwriting a short list), padded-row tables of 1/7/300 rows."
          " Interleaved handles: 30 % of the write attempts on a READ handle are made with a READ handle that was created while a "
          "MODIFY handle on the same file was open in the process."),
    assumptions=COMMON_ASSUME + [
        "system HDF5 1.10 (not sanitizer-instrumented; ASan sees its memcpy/memmove through interceptors)",
        "value names and group names are drawn from disjoint pools and contain no '/': a dataset and a group of the same name cannot coexist in HDF5",
        "a read of a never-written name may report the error as std::runtime_error or as H5::Exception (both count as 'reported as an error'; the latter is counted as a class)",
        "zero-row tables are written but not read back (AtomContainer::ReadFromCpt returns before opening the table when size == 0); only numRows() is compared",
    ],
)
