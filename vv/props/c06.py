from vv.core import harness
from vv.registry import PROPS, COMMON_ASSUME, rc, py

harness("h_c06", ["harness/h_c06.cc"], libs=("tools",))

PROPS["C06"] = dict(
    parts=[rc("h_c06", quick=dict(cases=20000, procs=4, budget_s=600),
              thorough=dict(cases=400000, procs=16, budget_s=1200)),
           py("vv.exe_c06", quick=dict(cases=960, procs=16, budget_s=900),
              thorough=dict(cases=16000, procs=16, budget_s=3000))],
    rule=("qrsolve-kkt (lib): A = U diag(s) V^T (m x n, n<=14, m>=n mostly, s in 0.1..1000, rational Givens products), B (k x n, 0<=k<n) dense "
          "full row rank or banded; checks |Bx|~0, N^T A^T (Ax-b)~0 and x = long-double minimiser in the null-space basis; cond > 1e6 discarded; "
          "non-trivial = k >= 1. "
          "imc_solve (exe): csg_imc_solve -r -i -g -n on generated dyadic non-symmetric n x n A (n 2..30), b, r = rho*|A^T A|_2 with rho in "
          "1e-6..1e3, index files with 1-4 named ranges (contiguous, strided, scrambled order); residual of (A^T A + rI)x = -A^T b computed in numpy "
          "from the files, per-interaction *.dpot.imc hold exactly the named index ranges; non-trivial = >= 2 interactions and |A-A^T| > 0.1|A| (while the finding imcio_read_matrix/transposed is excluded the non-symmetric matrices are replaced by their symmetric part and counted as excluded-known). "
          "fmatch (exe): csg_fmatch on synthetic force fields inside the natural-cubic-spline space (5-25 knots): non-bonded pairs, bonds, angles, "
          "dihedrals of small molecules in an orthorhombic box, reference forces analytic in numpy written as DL_POLY HISTORY (.dlph), 1-4 frames, "
          "frames_per_block in {1,2,all}, constrainedLS true/false; written *.force tables vs generating function on the output grid; "
          "cases where numpy's own least-squares solution of the same design misses f are discarded; non-trivial = >= 1 bonded interaction. imc_solve matrices also come in units of 1e-7, 1e-6 and 1e3 (same solution; eigenvalue + r below 4e-12 is the documented pseudo-inverse domain and not asserted)."),
    assumptions=COMMON_ASSUME + [
        "force tables use the sign convention F_i = +f(q) grad_i q with f = -dU/dq (for pairs F_i = -f(r) e_ij), the one csg_fmatch documents for *.force",
        "regularisation r > 0 such that A^T A + rI has condition <= 1e9 (well-posed)",
    ],
)
