from vv.core import harness
from vv.registry import PROPS, COMMON_ASSUME, rc

harness("h_c03", ["harness/h_c03.cc"], libs=("csg",))

PROPS["C03"] = dict(
    parts=[rc("h_c03", quick=dict(cases=16000, procs=8, budget_s=600),
              thorough=dict(cases=300000, procs=16, budget_s=3000))],
    rule=("Configuration = box (45% orthorhombic / 55% GROMACS-reduced triclinic incl. off-diagonals at +-edge/2, edge ratio <= 3, type "
          "auto-detected or explicit) + cutoff strictly inside (0, h_min/2): either (h_min/2)*k/64 with k chosen for 2, 3 or >=4 cells along "
          "the shortest height, or height_dir/N (N in 2..8) shifted by -2..+2 ulp (cell count computation on an integer boundary), capped at "
          "the largest double below h_min/2 + beads (pairs: 0..60, triples: 0..24; 1-3 types, 1-8 molecules): 40% (pairs) / 65% (triples) placed relative to an "
          "earlier bead at offsets in units of cutoff/64 (20% of those exactly 63/64/65 units along one axis: distance ties), 20% on the "
          "cell planes j/N of the grid the code will build, rest on a 1/4096 fractional lattice; in half of the configurations each coordinate "
          "is additionally shifted by {+-1,+-2,+-1000,(rarely) +-10^6} whole box vectors (negative coordinates, outside the primary cell) "
          "+ 0..3 bonds/angles/dihedrals per molecule (65%), do_exclusions on (70%). "
          "pairs: NBListGrid and NBList, Generate(list) (all beads or one type) and Generate(list1,list2) (two disjoint types), each with a "
          "counting match function returning false and returning true; checked: callback multiset == reference set (each once), stored list "
          "== reference set without duplicates (empty when the match function returns false), delivered and stored r == minimum image of "
          "p_second - p_first, dist == |r|. non-trivial = >=1 reported pair whose minimum image is not the plain difference AND >=1 "
          "non-pair (outside the ambiguity band) within +-1 cell in every direction. "
          "triples: NBListGrid_3Body and NBList_3Body, one-/two-/three-type; stored list == {(c,{j,k}): both centre distances < cutoff, no "
          "pair of the three excluded}, each once, r12/r13/r23 and distances for the stored bead order; callbacks compared as a set "
          "(multiplicity not required, see DESIGN). non-trivial = >=1 expected triple with a leg across a periodic face AND >=1 non-pair "
          "within the neighbouring cells."
          " Histories: in 30 % of the cases every search object has first produced a list for a smaller (or the same) cutoff, then Cleanup + setCutoff. Histories: 30 % of the cases run the search on a search object that already completed a search with a smaller or equal cutoff (factor 0.3..1.0) on the same topology. 12 % of the cases are a constructed face-hugging scenario: cutoff = height/n*(1+2^-24..-28), bead 0 a hair below a cell plane of the n-cell grid, bead 1 at cutoff*(1-2^-26..-30) along that direction; tie placements also use distances cutoff*(1 +- 2^-26..-36)."),
    assumptions=COMMON_ASSUME + [
        "open boxes and cutoffs >= h_min/2 are outside the quantifier and never generated",
        "ambiguity band |d - cutoff| <= 1e-12*cutoff + 2^-46*(|p_i|+|p_j|): either outcome accepted (covers rounding of the image "
        "subtraction and of the cell index of far-away beads); triples with an ambiguous leg are optional",
        "bonded interactions only connect beads of one molecule (every reader/builder in the code base creates them that way)",
        "configurations needing more than 60000 grid cells are discarded (cost bound)",
        "for triples single delivery to the match function is not required, only a duplicate-free stored list",
    ],
)
