from vv.core import harness, fuzz_target, REPO
from vv.registry import PROPS, COMMON_ASSUME, rc, fz

harness("h_c18", ["harness/h_c18.cc"], libs=("csg", "xtp"))
fuzz_target("fz_c18", ["fuzz/fz_c18.cc", f"{REPO}/tools/src/libtools/tokenizer.cc", f"{REPO}/tools/src/libtools/rangeparser.cc"])

PROPS["C18"] = dict(
    parts=[rc("h_c18", quick=dict(cases=60000, procs=2, args=["--enum", "5"], budget_s=600),
              thorough=dict(cases=3000000, procs=16, args=["--enum", "6"], budget_s=3000)),
           fz("fz_c18", quick=dict(runs=400000, procs=2, max_len=48, budget_s=300),
              thorough=dict(runs=40000000, procs=16, max_len=64, budget_s=1200))],
    rule=("wildcmp: exhaustive (pattern over {a,b,*,?}, string over {a,b}, length<=5 quick / <=6 thorough) + generated pairs up to "
          "length 40 derived from the pattern and mutated, oracle = DP glob matcher; non-trivial = pattern has '*' followed later by a literal. "
          "range: exhaustive b[:s]:e with b,s,e in -5..5 (quick) / -6..6 (thorough) + generated comma lists with blanks, negative strides and "
          "malformed mutants, oracle = direct enumeration of the grammar with a 10^4 step budget; non-trivial = |stride| != 1 or not well-formed. "
          "index: generated index multisets <-> strings, oracle = std::set; non-trivial = has a consecutive run and duplicates. "
          "beadselect: generated topologies + type / name: patterns vs DP matcher; non-trivial = wildcard pattern selecting a proper non-empty subset. "
          "fz_c18: libFuzzer bytes -> (pattern,string) and range expression with the same oracles inside the target. range_add: blocks built through RangeParser::Add(begin,end,stride) (end on or off the stride grid, both directions; exhaustive for |b|,|e|,|s| <= 5, generated beyond), alone and mixed with parsed blocks, sequence + termination + print/re-parse. beadselect: every selection is also made through GenerateInSphericalSubvolume (open box, beads on a line, radius never a tie)."),
    assumptions=COMMON_ASSUME + ["range expressions with an empty begin/end field, empty blocks or an empty string are treated as 'either accepted or rejected' (only termination is required)"],
    exhaustive_in="both",
    exhaustive_note="the small-scope enumerations are complete; the generated part is a sample",
)
