from vv.registry import PROPS, COMMON_ASSUME, py

PROPS["C04"] = dict(
    parts=[py("vv.exe_c04", quick=dict(cases=800, procs=8, budget_s=900),
              thorough=dict(cases=16000, procs=16, budget_s=3000))],
    rule=("generated pure-XML topology (1-3 molecule types, chains of 1-5 beads of types A/B/C, optional bonds (all / first only), angles, "
          "dihedrals; 2-80 beads), trajectory written by the harness as .gro (8.5f fields) or LAMMPS .dump (1-6 frames, orthorhombic box "
          "edge >= 2(max+step) + k*0.05 per axis and frame so the volume varies, positions on a 1e-5 nm lattice or on a 0.05 nm lattice "
          "to provoke bin-edge ties, optional +-L image shifts, molecules clustered at distances inside the interaction ranges), options "
          "XML with 1-3 non-bonded interactions (same/cross type, min = i*step, max = j*step), optional bonded groups with full or "
          "truncated ranges, optional three-body angular interaction, --include-intra, --first-frame/--nframes, --ext. "
          "rdf_bonded: one csg_stat run, every *.dist.new compared with the numpy recomputation. "
          "blocks: --block-length b, every block file compared with the recomputation on the block's frames + one block compared with a "
          "separate run restricted to its frames (--first-frame/--nframes). "
          "imc: --do-imc with generated targets and groups (incl. several interactions per group and bonded members), "
          ".idx/.gmc/.imc compared (also per block). "
          "non-trivial = >= 2 processed frames with different volumes, every interaction has a non-empty bin, no edge-ambiguous value."),
    assumptions=COMMON_ASSUME + [
        "exclusions of a pure-XML topology = pairs of beads that share a bonded interaction (bond/angle/dihedral), whether or not the group is listed in the options",
        "same-type normalisation 2/(N*N) as in the statement's design formula (an ideal gas gives 1-1/N)",
        "dihedral sign convention IUPAC (positive when b1.(b2 x b3) > 0); planar/collinear bonded geometries (|sin| < 1e-6) are discarded (tie of the sign / acos conditioning)",
        "a value within 1e-9 relative of a bin edge (plus 4e-16/sin for angles) may fall in either neighbouring bin; such cases are compared with [lo,hi] counts (non-bonded) or skipped (bonded normalisation, IMC) and are not counted as non-trivial",
        "--include-intra reads <max_intra> (undocumented option, only in csg_stat_imc.cc); the generator always sets it equal to <max>",
        "bonded dS: the de-normalised target is target * sum<n> * step (inverse of the unit-integral normalisation of the written distribution)",
        "threebody interactions are not put into IMC groups",
        "single thread (--nt 1); thread-count independence is C05",
    ],
)
