from vv.core import harness
from vv.registry import PROPS, COMMON_ASSUME, rc

harness("h_c10", ["harness/h_c10.cc"], libs=("xtp",))

PROPS["C10"] = dict(
    level="fault_enumeration",
    parts=[rc("h_c10", quick=dict(cases=1280, procs=16, args=["--enum", "1"], budget_s=900),
              thorough=dict(cases=24000, procs=16, args=["--enum", "5"], budget_s=3300))],
    rule=("histories: one case = job list (1..40 jobs, statuses AVAILABLE/COMPLETE/FAILED/ASSIGNED with hosts) x 1..3 worker processes "
          "(1..3 threads, cache 1..8, maxjobs unlimited or < jobs, thread-schedule choices) x restart pattern x inter-process choice "
          "sequence x optional crash (process, n-th file write, byte budget). Worker processes are forked from the harness, run the real "
          "ProgObserver with a stub calculator loop and stop at every VOTCA_VERIF synchronisation event until the parent (the scheduler) "
          "lets them continue; a second process is let into LockProgFile while the first is paused inside the critical section. Oracle: "
          "execution logs (every selected job exactly once, nothing else), final job file (independent scanner: every id once, original "
          "order, COMPLETE with the executor's result, untouched jobs unchanged), mutual exclusion of the critical sections, at every "
          "file write the other copy is a complete list holding all previously COMPLETE jobs, and for injected crashes (process dies "
          "after byte k of a write, file truncated to k bytes) a complete surviving copy. non-trivial = >=2 processes with a lock "
          "attempt while another was inside, or a crash strictly inside a file. thorough enumerates EVERY byte offset of the first five "
          "writes of a process for four fixed two-process histories."
          " Jobs may fail in given processes (fail mask): a FAILED result of a live process is re-opened by a concurrently running process "
          "whose restart pattern names stat(FAILED); then the job is executed again and the LAST execution's result must be the final record "
          "(per-process restart patterns, may/must oracle for the first execution). both tiers run two histories in which a process is kept "
          "inside the critical section for 32 s while another waits for the file lock (a lock that gives up after a while still has to exclude)."),
    assumptions=COMMON_ASSUME + [
        "crash = process death after byte k of a sequential write (no torn sectors / page-cache reordering)",
        "a process that does not report SYNC_LOCKED within 300 ms while another is inside is treated as blocked on the file lock; the timeout can only hide a violation, never invent one",
        "threads inside a worker process are serialised at tools::Mutex / Thread hook granularity",
        "any wall-clock timeout makes the case inconclusive (discarded), never a violation"],
)
