from vv.core import harness
from vv.registry import PROPS, COMMON_ASSUME, rc

harness("h_c09", ["harness/h_c09.cc"], libs=("xtp",))

PROPS["C09"] = dict(
    parts=[rc("h_c09", quick=dict(cases=8000, procs=8, budget_s=900),
              thorough=dict(cases=120000, procs=16, args=["--large"], budget_s=3000))],
    rule=("matrices are built from an explicit recipe in the case (diagonal, triplets, bands, rank-one terms, Householder reflectors): "
          "f1_spectral = Q diag(lambda) Q^T with clustered / exactly degenerate / negative / log-spread spectra; f2_diagdom = separated diagonal "
          "(gap>=1) + symmetric noise with row sums <= 0.05, <= 0.01 for update=max with tolerance=lapack (must report Success with default search space, iter_max 50; calibrated: <= 13 iterations); f3_banded = banded/sparse "
          "incl. Toeplitz; f4_hidden_root = exactly reducible matrices whose lowest eigenvalue sits in a block with large diagonal; ham = "
          "[[A,B],[-B,-A]] with A+-B strictly diagonally dominant (SPD); large = n 150..400 (thorough). Options: DPR|OLSEN x min|safe|max x 4 "
          "tolerances x search space {default, neigen+1..2neigen, 2..10 neigen, 10 neigen} x iter_max 5..100 x dense|MatrixFreeOperator. "
          "Oracle Eigen::SelfAdjointEigenSolver. non-trivial = a restart certainly happened (2*neigen + iterations > search space limit) or the "
          "lowest neigen+1 eigenvalues contain a gap < 1e-3 or a degeneracy (f2_diagdom: restart or >= 3 iterations)."
          " In 25 % of the generated cases the same solver object has completed an easy converging solve before (history: "
          "status and results must not depend on it). Histories: 25 % of the cases run on a solver object that already solved another operator (9x9, or - 60 % - one of the same dimension whose small diagonal elements sit where this one has its large ones); options are set again before the solve under test."),
    assumptions=COMMON_ASSUME + [
        "solve() is called like BSE does (size_initial_guess left at its default 2*neigen, neigen <= n/4)",
        "an exception from solve() returns nothing and claims no status: counted as class 'throw:...' (a violation only in f2_diagdom, "
        "where success is claimed); an abort of the solver (it runs in a forked child) is always a failure",
        "'success => lowest roots' is asserted to the accuracy the user selected: |lambda_i - mu_i| <= sqrt(2 neigen) tol / sigma_min(V) "
        "(Kahan's residual bound at the permitted residual); strictly enforced in f2_diagdom and the separated HAM class",
        "confirmed findings, when listed as known: Davidson/gramschmidt-dependency-undetected and Davidson/olsen-nan-exact-diagonal are "
        "avoided by construction where possible (basis never outgrows n, distinct diagonal, dense coupling for OLSEN), "
        "Davidson/hidden-root-reducible / Davidson/premature-success-unseen-root / remaining Gram-Schmidt cases are recognised after the run "
        "by a recorded rerun (basis size and orthonormality over time, Ritz values on everything the solver saw) and counted as excluded-known",
        "'diagonally dominant matrices converge' is checked on one calibrated class (f2_diagdom), not characterised",
    ],
)
