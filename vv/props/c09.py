from vv.core import harness
from vv.registry import PROPS, COMMON_ASSUME, rc

harness("h_c09", ["harness/h_c09.cc"], libs=("xtp",))

PROPS["C09"] = dict(
    parts=[rc("h_c09", quick=dict(cases=3000, procs=8, budget_s=900),
              thorough=dict(cases=200000, procs=16, args=["--large"], budget_s=3000))],
    rule=("matrices are built from an explicit recipe in the case (diagonal, triplets, bands, rank-one terms, Householder reflectors): "
          "f1_spectral = Q diag(lambda) Q^T with clustered / exactly degenerate / negative / log-spread spectra; f2_diagdom = separated diagonal "
          "(gap>=1) + symmetric noise with row sums <= 0.05 (must report Success with default search space, iter_max 50); f3_banded = banded/sparse "
          "incl. Toeplitz; f4_hidden_root = exactly reducible matrices whose lowest eigenvalue sits in a block with large diagonal; ham = "
          "[[A,B],[-B,-A]] with A+-B strictly diagonally dominant (SPD); large = n 150..400 (thorough). Options: DPR|OLSEN x min|safe|max x 4 "
          "tolerances x search space {default, neigen+1..2neigen, 2..10 neigen, 10 neigen} x iter_max 5..100 x dense|MatrixFreeOperator. "
          "Oracle Eigen::SelfAdjointEigenSolver. non-trivial = a restart certainly happened (2*neigen + iterations > search space limit) or the "
          "lowest neigen+1 eigenvalues contain a gap < 1e-3 or a degeneracy."),
    assumptions=COMMON_ASSUME + [
        "solve() is called like BSE does (size_initial_guess left at its default 2*neigen, neigen <= n/4)",
        "'Linear dependencies in Gram-Schmidt' (documented throw) and exceptions of the HAM small generalized eigenproblem are discards",
        "'success => lowest roots' is asserted with Kahan's residual bound; on exactly reducible matrices (known finding "
        "Davidson/hidden-root-reducible) the claim is skipped and matrices of the main families are made irreducible with distinct diagonal",
        "'diagonally dominant matrices converge' is checked on one calibrated class (f2_diagdom), not characterised",
    ],
)
