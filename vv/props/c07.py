from vv.core import harness
from vv.registry import PROPS, COMMON_ASSUME, rc

harness("h_c07", ["harness/h_c07.cc"], libs=("csg",))

PROPS["C07"] = dict(
    parts=[rc("h_c07", quick=dict(cases=160000, procs=4, budget_s=600),
              thorough=dict(cases=1600000, procs=16, budget_s=3000))],
    rule=("bond/angle/dihedral: 2/3/4 beads built from internal coordinates (bond lengths 0.1..10 of each other, bond angles 3.5..176.5 deg, "
          "dihedral +-(3.5..176.5) deg, random orientation), open / orthorhombic / GROMACS-reduced triclinic box incl. |bx|=ax/2, auto-detected "
          "or explicit type, per-bead image shifts 0,+-1,+-2 for the gradient check and up to +-10^6 cells for the invariance check; positions on a "
          "2^-30 lattice so that x+-h is exact. Oracle: Grad vs central differences of EvaluateVar with Richardson extrapolation over h,h/2,h/4 in "
          "long double, h = 2^k <= Lmin*sin(theta_min)/32, tolerance 100*|R2-R1| + 1e-7*max|grad| + rounding noise of EvaluateVar/h; sum of "
          "gradients <= 1e-10*max|grad|; value and (rotated) gradient invariant under translation, rotation (open box) and image shifts within "
          "64 eps (|coordinate|max/Lmin)/sin^2. Non-trivial: angle/dihedral = bond lengths differ by > 5 % and every bond angle is > 5 deg away "
          "from 90 deg; bond = periodic box with a non-zero image shift. "
          "lj126/ljg/cbspl: parameters m*10^e over 6..10 decades with signs and zeros, r in {min, cutoff, inside, on a break point, outside}, "
          "CBSPL with 8..40 knots and min on / off a knot. Oracle: CalculateDF vs numerical d/dlam of CalculateF, CalculateD2F vs numerical d/dlam "
          "of CalculateDF (same extrapolation; linear parameters get a step that makes the difference dominate, tolerance contains "
          "32 eps |terms|/h), D2F symmetric, SavePotTab(step[,rmin,rcut]) rows: count, abscissae min+k*step (last = cutoff), ordinate = "
          "CalculateF within the 10 printed digits, flag i. Non-trivial: LJ126/LJG all parameters non-zero, CBSPL >= 80 % of the free knot values non-zero. "
          "spline_derivative: data sets of C12 (uniform / non-uniform up to 1e3 / clustered grids, 2..300 points, 9 ordinate families), "
          "linear / cubic / Akima, natural / periodic, interpolation and Fit on a coarser grid. Oracle: CalculateDerivative vs numerical "
          "derivative of Calculate; central (exact for cubics after extrapolation) inside intervals and outside the grid, one-sided 4-point "
          "formulas at knots (either side accepted). Non-trivial: non-uniform grid or >= 3 points. Angle gradients are checked up to 0.4 degrees from the collinear geometries (5 % of the angles are 0.5..1.5 / 178.5..179.5 degrees)."),
    assumptions=COMMON_ASSUME + [
        "bonded: singular geometries excluded exactly as documented (bond angles within 3 deg of 0/180, dihedrals within 3 deg of 0/180); "
        "periodic cells in GROMACS-reduced form; every bond component < 0.45 of the cell height so that the minimum image is unambiguous",
        "rotation invariance is only asserted for the open box (a periodic cell is not rotation invariant)",
        "LJ forms are evaluated for r >= min > 0; parameter sets whose value overflows are discarded",
        "the value functions are differentiated as reported (EvaluateVar / CalculateF / Calculate): their own correctness is not part of C07",
    ],
)
