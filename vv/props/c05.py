from vv.core import harness
from vv.registry import PROPS, COMMON_ASSUME, rc, py

harness("h_c05", ["harness/h_c05.cc"], libs=("csg",))

PROPS["C05"] = dict(
    parts=[rc("h_c05", quick=dict(cases=32000, procs=16, args=["--enum", "3"], budget_s=900),
              thorough=dict(cases=400000, procs=16, args=["--enum", "7"], budget_s=3300)),
           py("vv.exe_c05", quick=dict(cases=192, procs=16, budget_s=600), thorough=dict(cases=1600, procs=16, budget_s=3000))],
    rule=("schedules: one case = (threads 1..8, frames 1..12, --first-frame, --begin (frame times t0+i*dt; begin before / on / between / after the frame times), --nframes absent/0/1/../more than frames, ordered|unordered, "
          "choice sequence of length 0..60); the real CsgApplication::Run/ProcessData/Worker::Run runs in a forked child under the "
          "controlled scheduler (every tools::Mutex lock/unlock, thread begin/end/join and the harness yield points inside the reader, "
          "evaluation and merge are decision points; runnable set from the scheduler's own mutex model). Oracle = invariants over the "
          "history: evaluated frames == selection (multiset), data belongs to the step, ordered merge sequence == frame order, unordered "
          "merge multiset, never two threads inside reader / merge, no deadlock (empty runnable set) or livelock (2*10^5 steps). "
          "non-trivial = >=2 threads, >=2 selected frames, >=2 real scheduling decisions (>=2 runnable threads) of which at least one "
          "deviated from the default thread. thorough additionally enumerates ALL choice sequences of length 7 for nt in {2,3} x frames "
          "in {1,2,3} x both modes x nframes in {absent,1,2}. csg_stat_nt (secondary, OS schedules only): generated topology/trajectory/"
          "settings, the ASan csg_stat with --nt 2..8 must write byte-identical files to --nt 1 (with --do-imc, --block-length, "
          "--first-frame, --nframes); non-trivial = >=2 selected frames."),
    assumptions=COMMON_ASSUME + [
        "interleavings are explored at hook granularity (mutex lock/unlock, thread start/end/join, harness yield points); data races between hook points are invisible",
        "the trajectory reader is a harness-side plugin producing synthetic frames (step = frame index); the format readers themselves are covered by C08",
        "a child that exceeds 120 s wall is counted as inconclusive (never as a violation); deadlocks are decided by the scheduler model, not by time"],
)
