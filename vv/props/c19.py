from vv.registry import PROPS, COMMON_ASSUME, py

PROPS["C19"] = dict(
    parts=[py("vv.exe_c19", quick=dict(cases=10000, procs=8, budget_s=600),
              thorough=dict(cases=64000, procs=16, budget_s=3000))],
    rule=("perl scripts run directly on generated uniform-grid tables (3..1000 points, decimal grid i*h, values '%.10g' strings that "
          "are exactly 0 or >= 1e-6 in magnitude, flags i/o/u as edge runs or scattered, comment/blank-line decoration), all options of "
          "each script; oracles are closed-form numpy formulas from the --help texts. "
          "update_ibi_pot: kT ln(g_cur/g_tgt), exact 0 for identical entries, continuation outward from max g_cur, flags; NT = has undefined and valid points. "
          "dist_boltzmann_invert: -kT ln(P/norm) up to a constant, types/--min, continuation of undefined runs, documented rejections; NT = undefined run present. "
          "table_linearop/combine/scale/potential_shift/smooth/integrate: point-wise formulas, grid verbatim, flags kept; NT = table has a non-i flag (+ non-degenerate option). "
          "table_extrapolate: every function/region/avgpoints/curvature/no-flagupdate; NT = at least one point extrapolated. "
          "integrate_differentiate: table_integrate o csg_resample --derivative and the reverse order on smooth f with analytic derivative "
          "bounds (cubic/akima/linear), derived O(h) bounds; NT = bound <= 0.2*(max f - min f). "
          "csg_call_dispatch: csg_call --show key pair -> script path, csg_call run == direct perl run. A third of the input tables carry an error column the tool is not asked to use ('x y yerr flag' without --with-errors: the last column is the flag)."),
    assumptions=COMMON_ASSUME + [
        "update_ibi_pot: an undefined point left of the g_cur maximum with no valid point in between may carry either 0 (script) or dU at the maximum (counted as ambiguous-left-of-max-gap)",
        "dist_boltzmann_invert: the additive constant the statement allows is removed before comparing; the 10-valid-points rejection is accepted only when the contiguous valid run is shorter than 10",
        "table_combine --op =: only 'equal <=> 0' is asserted, on entries that are identical or differ by >= 1 absolutely and >= 1/3 relatively",
        "table_smooth: help text gives no formula; asserted: grid/flags kept, non-i points untouched, (1/4,1/2,1/4) interior kernel, result inside the local min/max",
        "table_integrate: 'integral of a table' is the trapezoid rule (source comment); --with-S and --sphere are tested separately, never combined",
        "integrate/differentiate bounds: |D_i - f_i| <= max(h/2 max|f'|, h^2/2 max|f''|) (natural cubic, diagonal dominance), h/2 max|f'| (linear, Akima interior knots), "
        "3h max|f'| (Akima boundary knots); reverse order: L (3h max|f''| + 2.1 h^2 max|f'''|); plus printed-precision slack (csg_resample prints 10 digits)",
    ],
)
