from vv.core import harness
from vv.registry import PROPS, COMMON_ASSUME, rc, py

harness("h_c01", ["harness/h_c01.cc"], libs=("csg",))

PROPS["C01"] = dict(
    parts=[rc("h_c01", quick=dict(cases=24000, procs=8, budget_s=600),
              thorough=dict(cases=320000, procs=16, budget_s=2400)),
           py("vv.exe_c01", quick=dict(cases=320, procs=8, budget_s=600),
              thorough=dict(cases=8000, procs=16, budget_s=1500))],
    rule=("map (lib): open / orthorhombic / GROMACS-reduced triclinic boxes (edges k/16 in 0.44..50 nm, skews incl. +-half edge), 1-4 molecule types "
          "x 1-12 molecules x 1-12 atoms, 1-4 CG beads per type with 1-8 shuffled parents, weights from ints / k/16 / decimals / atomic masses incl. "
          "zeros and (10%) negative ones, optional d vector, spherical and (>=3 parents) ellipsoidal beads, molecule centre anywhere "
          "(image shifts up to +-10^6), atoms within 0.24 h_min of the centre then wrapped / displaced by whole box vectors, x/v/f present or absent; "
          "through mapping XML -> CGEngine::LoadMoleculeType -> CreateCGTopology -> TopologyMap::Apply; oracle = long double with an exhaustive "
          "bounded nearest-image search; relations (a) box-vector displacement of non-first parents, (b) rigid translation, (c) convex hull "
          "on the implementation's outputs; non-trivial = some bead has >=2 parents with distinct weights and a parent that needs a non-zero image shift. "
          "reject (lib): one bead, one parent at rho * h_min/2 from the first parent along axes / diagonals / cell-face normals / random directions, "
          "rho in {0.5..0.9999999, 1, 1.0000001..1.1, k/16<=4}, plus whole-box shifts; must throw iff nearest-image distance > h_min/2 "
          "(ambiguity band 1e-6 + rounding), open boxes never; non-trivial = closed box, outside the band, 0.5 < ratio < 2. "
          "csg_map (exe): generated top.xml / map.xml / .gro (x,v; orthorhombic or triclinic) or .dump (x,v,f; orthorhombic) trajectories of 1-3 "
          "frames -> csg_map --cg --out .gro/.dump/.xyz/.pdb [--vel --force] vs numpy recomputation from the same text files within the printed precision; "
          "non-trivial = as for map. --vel / --force are also passed (rarely) when the trajectory carries no velocities / forces: the tool must neither crash nor write such columns."
          " frames: sequences of 2-4 frames mapped through ONE TopologyMap (box kind / volume / tilt-only changes between frames, new positions): "
          "every frame must map exactly as it does in a freshly built system and the mapped topology must carry the box of that frame; "
          "non-trivial = the box changes between frames. reject: in 30 % of the cases the far parent has weight 0 (the half-box clause does not depend on weights). frames: box changes include barostat-like drifts of 1e-7..2e-6 per frame."),
    assumptions=COMMON_ASSUME + [
        "a parent with weight 0 contributes nothing to the bead force (d_i must be 0 there; with no d vector d=w is read literally)",
        "d/w uses d and w each normalised to sum 1 (VOTCA manual, eq. for the CG force)",
        "ellipsoidal beads are generated with >= 3 parents (u,v,w axes need three reference atoms); their orientation vectors are not checked",
        "molecules in the value checks are compact (all atoms within 0.24 h_min of the centre) so that no nearest-image decision is a tie",
    ],
)
