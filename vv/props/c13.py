from vv.core import harness
from vv.registry import PROPS, COMMON_ASSUME, rc, py

harness("h_c13", ["harness/h_c13.cc"], libs=("csg",))

PROPS["C13"] = dict(
    parts=[rc("h_c13", quick=dict(cases=160000, procs=8, args=["--enum", "6"], budget_s=600),
              thorough=dict(cases=1600000, procs=16, args=["--enum", "12"], budget_s=2400)),
           py("vv.exe_c13", quick=dict(cases=1600, procs=8, budget_s=600),
              thorough=dict(cases=24000, procs=16, budget_s=2400))],
    repo_targets=("votca_tools", "votca_csg", "csg_density"),
    rule=("histnew (library, HistogramNew): generated (min,max,nbins) incl. nbins=1,2, min>0/<0/=0, ranges 1e-9..2e300, periodic on/off; "
          "streams of 1..40 (value,weight): bin centres, exact bin edges min+(k+-1/2)step, edges +-step*2^-j, in-range lattice points, exact "
          "multiples min-m(max-min) and min+m(max-min), a few / 1e3 / 1e15..1e19 periods away, +-1e18, +-1e25, +-1e300, +-1e308, denormals, +-0, "
          "nextafter() of both ends of the accepted interval; dyadic weights incl. 0, negative, +-2^30 (all sums exact). Plus an EXHAUSTIVE "
          "small scope: nbins 1..6 (quick) / 1..12 (thorough), three ranges, every quarter-step lattice value from 3 periods below to 4 above, both modes. "
          "Oracle: k=floor((v-min)/step+1/2) in long double / __int128, discard or k mod n; every single Process call is observed (exactly one bin "
          "changes by exactly the weight, and it is a candidate bin); ambiguity band 1e-9+2e-15|q| around edges; sum of bins == accepted weight; "
          "Normalize: sum*step=1 (n+8 ulp) and bins = old/(sum*step) (8 ulp); grid x(i)=min+i*step. Deaths (Eigen index assert, ASan, UBSan) are "
          "predicted from the implementation's double expression and confirmed in a forked child. "
          "non-trivial = >=1 value outside the range in periodic mode with a decided bin, or a value within 1e-3 step of an edge but outside the band. "
          "legacy (library, Histogram): 1..3 arrays of 0..30 values on a 1/16 lattice, all-positive / all-negative / non-positive touching 0 / mixed / "
          "constant, n in 2..300, auto or fixed range, periodic, normalize, scale no|bond(values>=0)|angle([0,pi)); oracle: getMin/getMax == min/max "
          "of the data exactly (auto), bins and sum vs the same reference (scale=no, non-periodic), Normalize integral and ratios; "
          "non-trivial = automatic range over non-constant data containing negative values. "
          "csg_density (executable, ASan build): XML topology + .gro trajectory of 1..9 beads x 1..3 frames, boxes k/8 nm, --axis x|y|z, ten step "
          "choices (nbin 1..100), beads inside, +-1,2,50,100 periods away, exactly at -mL / +mL, on bin centres and edges; oracle in exact rational "
          "arithmetic: density_i*area*step*frames/scale == weight of the beads of bin i (mass or number), sum == total weight, clean sanitizer run; "
          "non-trivial = >=1 bead outside the box with a decided bin."
          " legacy also covers histories: in 30 % of the cases the same Histogram object has processed another data set before. Histories: HistogramNew objects initialised before in the other periodic mode or with another range and re-initialised; unit weights alternatively through ProcessRange; legacy Histogram objects reused for a second ProcessData. Weights may carry a common power-of-two unit factor 2^-20..2^-200 (tiny absolute totals); cases that normalise use non-negative weights; the legacy normalisation integral is checked for every scaling / periodic flavour with non-negative finite bins."),
    assumptions=COMMON_ASSUME + [
        "HistogramNew with nbins=1 uses step=1 (implementation convention, the statement is silent); periodic nbins=1 maps everything to bin 0",
        "values whose rounding band exceeds half a bin (|q| > 2.5e14) are only checked for weight conservation and memory safety",
        "Normalize is checked for non-negative weights, positive total and sum*step within [1e-290,1e290]",
        "legacy Histogram: bond/angle scaling only on ranges of positive length inside r>=0 resp. [0,pi]; constant data (zero-length automatic "
        "range) is checked for getMin/getMax only and not combined with periodic (the wrap loop `while (ii<0) ii+=n` starts at INT64_MIN there); "
        "fixed periodic ranges only with values within 1e7 bins of the range",
        "x86-64: an out-of-range double->Index cast yields INT64_MIN (gcc's UBSan does not flag float-cast-overflow)",
        "csg_density: a wall-clock timeout of the tool (900 s, overloaded machine) is a discard, never a verdict; GRO input fixes 3 decimals"],
)
