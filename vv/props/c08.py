from vv.core import harness, fuzz_target, REPO
from vv.registry import PROPS, COMMON_ASSUME, rc, fz, py

harness("h_c08", ["harness/h_c08.cc"], libs=("csg",))
fuzz_target("fz_c08_table", ["fuzz/fz_c08_table.cc", f"{REPO}/tools/src/libtools/table.cc", f"{REPO}/tools/src/libtools/tokenizer.cc",
                             f"{REPO}/tools/src/libtools/rangeparser.cc", f"{REPO}/csg/src/libcsg/imcio.cc"])

PROPS["C08"] = dict(
    parts=[rc("h_c08", quick=dict(cases=8000, procs=8, budget_s=600),
              thorough=dict(cases=160000, procs=16, budget_s=1800)),
           fz("fz_c08_table", quick=dict(runs=60000, procs=2, max_len=160, budget_s=300),
              thorough=dict(runs=2000000, procs=8, max_len=256, budget_s=1200)),
           py("vv.exe_c08", quick=dict(cases=120, procs=8, budget_s=600), thorough=dict(cases=4000, procs=16, budget_s=2400))],
    rule=("gro|pdb|xyz|dump|dlph|dlpc: generated topology (1..200 spherical beads, 1..6 residues, 1..4 types, names of 1..5 printable "
          "characters) and 1..5 frames (dlpc: 1) with step>=1, time=step*dt, positions/velocities/forces on a decimal lattice two digits finer "
          "than the format prints (or full double precision for the general-notation formats), magnitudes inside the format's field width "
          "(with separating blank; 15% of the gro/pdb cases use the whole fixed-column width), box open/orthorhombic/reduced triclinic/all nine "
          "components as far as the format stores it; written through TrjWriterFactory and read through TrjReaderFactory into a fresh "
          "topology inside a fork()ed child; compared: frame count and order (step where stored), bead count, positions, velocities, forces, "
          "box (all stored components, boundary type for dl_poly) within 0.5*10^-digits of the printed unit converted to nm/ps/kJ/mol "
          "(+16 ulp), names/types through the topology reader for gro/xyz/dump; non-trivial = >=2 frames, or triclinic/general box where the "
          "format stores nine components, or velocities and forces both carried. "
          "mismatch: for each reader a file whose frame k (first or later) holds more or fewer atoms than the topology; the matching "
          "control file must be readable (else discard), the mismatching frame must raise an exception; files from VOTCA's writer or (xyz, "
          "pdb) from the harness' own writer, whose values are also compared (reader-only check); every case non-trivial. "
          "table: Table::Save->Load, 0..60 rows, uniform/non-uniform x, y over 24 decades with 11 digits, flags from {i,o,u}, comment lines "
          "with embedded newlines/#/@, error column on/off; x,y to 10 significant digits, flags equal, yerr equal when SetHasYErr(true); "
          "non-trivial = >=2 rows with a flag other than i. "
          "imc_matrix: imcio_write_matrix->imcio_read_matrix for m x n (1..12), 9-digit entries over 16 decades, optional sub-selection "
          "list; shape and entries to 8 significant digits; non-trivial = not symmetric and both dimensions > 1. "
          "imc_index: imcio_write_index->imcio_read_index, 1..8 groups, 1..3 blocks with strides; names and enumerated indices equal; "
          "non-trivial = >=2 groups. "
          "fz_c08_table: libFuzzer bytes -> Table operator>> / imcio_read_matrix / imcio_read_index (byte 0 selects); an input is rejected "
          "by an exception or the accepted object survives print->parse (shape, values to the printed digits, flags, names, ranges); "
          "non-trivial = table with >=2 rows and a flag other than i / matrix that is neither symmetric nor a vector / index with >=2 groups."
          " fieldwidth_beadcount: gro / pdb round trips with 99999..131072 beads (the five-digit atom-number columns wrap at 100000), "
          "beads and coordinates a pure function of the compact case; a handful of cases per run."
          " csg_map_chain (executables): own-writer gro trajectories (1-3 frames, orthorhombic / reduced triclinic, optional velocities) "
          "converted by csg_map --no-map to gro|dump|pdb|xyz|dlph and back to gro; positions, velocities and the nine box values must come "
          "back within the printed precision, frame count kept; non-trivial = >1 frame, triclinic or velocities. Histories: 30 % of the multi-frame round trips close the file after k frames and re-open it with the append option (same or new writer object; gro, pdb, xyz, dump); the mismatch sub's own pdb files close their last model by ENDMDL, END, nothing, or nothing without a final newline. 15 % of the dump cases carry 14-15 significant digits per value (lines of 150 and more characters)."),
    assumptions=COMMON_ASSUME + [
        "lammps dump is exercised with orthorhombic/open boxes only (VOTCA's reader rejects the triclinic header, the writer never emits it)",
        "pdb carries no box (PDBWriter::Write emits no CRYST1 record); xyz carries positions and 3 characters of the name only",
        "dl_poly HISTORY stores time as step*dt with dt taken from the first frame: trajectories are generated with time=step*dt and time is not asserted",
        "dl_poly cannot store forces without velocities (keytrj); such frames are compared on positions only",
        "gro box entries stay above -100 nm so that the free-format '%10.5f' box line keeps its separating blanks",
        "xml topology files have no writer in VOTCA, so no round trip is defined for them",
        "fuzz target: tables/matrices holding nan, inf, |v|>=1e300 or 0<|v|<=1e-300 are only required not to crash (decimal printing at the overflow/denormal edge is not idempotent by nature)",
        "a reader that answers an atom-count mismatch by returning false instead of throwing would be reported (only exceptions count as 'reports an error')",
    ],
)
