from vv.core import harness
from vv.registry import PROPS, COMMON_ASSUME, rc

harness("h_c15", ["harness/h_c15.cc"], libs=("xtp",))

PROPS["C15"] = dict(
    parts=[rc("h_c15", quick=dict(cases=400000, procs=4, budget_s=600),
              thorough=dict(cases=4000000, procs=16, budget_s=2400))],
    rule=("pair_energy: two StaticSites, ranks (0|1|2)x(0|1|2), separation 0.5..100 bohr in any direction (20% axis aligned) on a 2^-10 lattice, "
          "moments m*10^e (single components and full sets); checks exchange symmetry, q1q2/R, the exact Cartesian multipole expansion (long "
          "double), common lattice translation, common rotation via StaticSite::Rotate and via independently rotated Cartesian moments "
          "(Stone conversion); non-trivial = mixed ranks or both >= 1, direction not axis aligned. point_charge_clusters: same sites, Coulomb sum "
          "over point-charge clusters with spacing R/div and R/(2 div), div in {64,128,256}, Richardson extrapolation, error ratio 4. "
          "segments_field: StaticSegment/PolarSegment (1-3 sites) acting on a PolarSegment (1-2 sites, preloaded accumulators and induced "
          "dipoles): segment energies both ways, ApplyStaticField return value, accumulated field = dE/dmu (oracle and E(mu+e)-E(mu) on the "
          "code), correct accumulator; non-trivial = mixed ranks and >= 2 site pairs. thole: polarisable sites with isotropic / rotated "
          "anisotropic polarisabilities, damping 0.1..1, separations 0.5..100 bohr: symmetry, closed form, trace 3 a u^3 exp(-a u^3), monotone bound "
          "to the undamped tensor; non-trivial = general direction and a u^3 < 40. Histories / aliasing: rotation centre passed as a reference to a participating site's own position; Reset() followed by a second application (incl. the noE_V flavour) must equal a first application on fresh sites."),
    assumptions=COMMON_ASSUME + [
        "multipole components beyond a site's rank are zero (invariant of the mps reader and of setCharge)",
        "energy comparisons are relative to S = sum over rank pairs of (2L-1)!! |M_A||M_B|/R^(L+1) (cancellation between terms is expected), 1e-12 S",
        "the point-charge limit is asserted within 8 S (a/R)^4 + rounding allowance; the constant is calibrated against the exact expansion, not the code",
        "the largest principal polarisability is obtained by the site with Eigen's closed-form 3x3 solver; its deviation from the generated value "
        "enters the Thole tolerance and must stay below 1e-6 relative",
    ],
)
