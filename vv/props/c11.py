from vv.core import harness, fuzz_target, REPO
from vv.registry import PROPS, COMMON_ASSUME, rc, fz

harness("h_c11", ["harness/h_c11.cc"], libs=("tools",))
fuzz_target("fz_c11_xml", ["fuzz/fz_c11_xml.cc"] + [f"{REPO}/tools/src/libtools/{f}.cc" for f in
                                                     ("property", "propertyiomanipulator", "tokenizer", "colors")])

PROPS["C11"] = dict(
    parts=[rc("h_c11", quick=dict(cases=60000, procs=8, budget_s=600),
              thorough=dict(cases=1200000, procs=16, budget_s=1500)),
           fz("fz_c11_xml", quick=dict(runs=1200000, procs=2, max_len=160, budget_s=300),
              thorough=dict(runs=12000000, procs=8, max_len=256, budget_s=900), dict="corpus/fz_c11_xml/xml.dict")],
    rule=("options: every calculator description found at run time in /repo/xtp/share/xtp/xml (links into subpackages/ resolved by the harness' own "
          "reader) and in tools/src/tests/DataFiles/optionshandler; user tree = random subset (inclusion 0/5/15/40/80 %) of the declared nodes plus "
          "everything the description makes mandatory, valid values per declared choice type (bool/int/int+/float/float+/enumeration/bracketed "
          "multi-choice, padded with blanks/newlines), list multiplicities 0..3 per tag in shuffled order, free content below 'unchecked' sections; "
          "mutants: one undeclared name (new, typo of a sibling, or a name declared elsewhere), one REQUIRED node removed, one value outside its choices. "
          "Oracle: independent merge (user leaf -> user value, other declared leaf -> default, OPTIONAL absent, one resolved element per user list "
          "element, unchecked content copied) compared as trees with unordered siblings and trimmed leaf values; invalid input must throw "
          "std::runtime_error naming an offender. non-trivial = the user tree touches a linked sub-package or a list with multiplicity >= 2. "
          "xmlroundtrip: trees (depth <= 5, repeated names, attributes, values/attribute values over an alphabet with & < > \" ' ]]> UTF-8, blanks, "
          "newlines) printed with PropertyIOManipulator(XML, level 0 on the top node | level 1 on an unnamed root), loaded with LoadFromXML, compared "
          "(names, order, attribute maps, trimmed values); non-trivial = some value/attribute contains a metacharacter. "
          "astype: as<bool|Index|double|string|vector<double>|vector<Index>|Vector3d|VectorXd> on generated literals vs a three-way reference "
          "(accept with value / reject / unclear); non-trivial = literal is not the canonical spelling (bool: neither 'true' nor 'false'). "
          "fz_c11_xml: libFuzzer bytes -> LoadFromXML; accepted documents (comments, CDATA, entities, mixed content, any encoding expat takes) "
          "must survive print -> load with equal names/order/attributes/trimmed values; non-trivial = some loaded value/attribute has a metacharacter. float literals include magnitudes beyond single precision (3.5e38..9.9e300, 1e-39..1e-300)."),
    assumptions=COMMON_ASSUME + [
        "descriptions are parsed with VOTCA's expat loader (Property::LoadFromXML) and converted to the harness' own tree; link resolution, merge rules and validation are re-implemented from the property statement",
        "list sections: one resolved element per user element; a list the user does not mention keeps its template elements with their defaults (like any other declared node)",
        "values of section nodes (nodes with children) are not compared, only leaves; sibling order of the resolved tree is not compared (statement speaks of the set of leaves)",
        "literals left open by the documentation are accepted either way: leading '+', '.5', '5.', inf/nan spellings, |exponent| > 280, integers of 19+ digits, '-0' for int+/float+",
        "tools/src/tests/DataFiles/optionshandler/calc_brokenlist.xml is skipped (its root element does not match the file name; it is a deliberately broken description); csg_defaults.xml.in is not an OptionsHandler description (no <options><calc> root, consumed by csg scripts) and is not covered",
        "fz_c11_xml filters ill-formed documents with its own expat parser before calling LoadFromXML, because LoadFromXML leaks its XML_Parser on every parse error (leak detection is off in this framework; the target ran out of memory after 4*10^5 rejected inputs)",
        "xml values: '\\r' and, inside attribute values, tab/newline are excluded (XML line-end / attribute-value normalisation is done by the parser, not by VOTCA)",
    ],
)
