from vv.core import harness
from vv.registry import PROPS, COMMON_ASSUME, rc

harness("h_c02", ["harness/h_c02.cc"], libs=("csg",))

PROPS["C02"] = dict(
    parts=[rc("h_c02", quick=dict(cases=1000000, procs=8, budget_s=600),
              thorough=dict(cases=20000000, procs=16, budget_s=3000))],
    rule=("ortho / triclinic: box edges k/16 in 0.44..50 nm (cubic 15%), triclinic off-diagonals t*edge with t in {+-1/2 (reduction "
          "boundary), 0, j/32, 2^-20 lattice}, box type auto-detected or explicit (diagonal matrix also as explicit triclinic), three "
          "routes (Topology::BCShortestConnection, Topology::getDist on two beads, boundary class + Clone); points = B*(f+n) with f on a "
          "2^-m lattice (m in 1,2,4,12,20: faces, half edges) and n per axis from {0,+-1,+-2,+-1000,+-10^6}; 15% of the cases are the same "
          "fractional point or differ by exactly half a box vector (ties) or by half a box vector +-2^-e, e in 22..45 (near-ties with a unique answer); both points are then moved by further whole box vectors. "
          "Oracle: long double brute force over 5x5x5 images, lattice membership by fractional coordinates; shortest demanded always for "
          "diagonal boxes, for triclinic only below 0.5*h_min. Non-trivial = the plain difference is not the minimum image (some |n_k| >= 1) "
          "and the case is not in an ambiguity band (length tie / component on the half-edge brick face). "
          "open: zero matrix auto/explicit and arbitrary matrix with explicit open type, coordinates up to 1e8; result must be the plain "
          "difference to 1 ulp; non-trivial = distinct points with a non-zero stored matrix. "
          "volume: BoxVolume = |det|, ShortestBoxSize = min_k |det|/|b_i x b_j| recomputed in long double; non-trivial = non-diagonal box."
          " Histories: in 30 % of the cases the Topology carried another box (orthorhombic / triclinic / open, auto-detected) before the box under test is set. Histories (35 % of the cases): the Topology got another box first (other matrix; the same matrix with another explicit type), or a BoundaryCondition object was used with another box, queried (lazily filled caches) and cloned before the box under test was set. Tilts include barely tilted cells (2^-21..2^-40 of the edge)."),
    assumptions=COMMON_ASSUME + [
        "image counts up to 10^6 per axis; result tolerance 32*2^-52*(|p1|+|p2|) + 1e-13*Lmax, lattice test 1e-9*(1+|n|)",
        "exact rounding ties (difference of exactly half a brick edge) are accepted with either image and are not counted as non-trivial",
        "explicit orthorhombic type is only combined with diagonal matrices (an orthorhombic box ignores off-diagonal entries by definition)",
    ],
)
