from vv.core import harness
from vv.registry import PROPS, COMMON_ASSUME, rc, py

harness("h_c12", ["harness/h_c12.cc"], libs=("csg",))

PROPS["C12"] = dict(
    parts=[rc("h_c12", quick=dict(cases=30000, procs=4, budget_s=600),
              thorough=dict(cases=1600000, procs=16, budget_s=3000)),
           py("vv.exe_c12", quick=dict(cases=480, procs=8, budget_s=600),
              thorough=dict(cases=16000, procs=16, budget_s=3000))],
    rule="(see below)",
    assumptions=COMMON_ASSUME,
)
