from vv.core import harness
from vv.registry import PROPS, COMMON_ASSUME, rc, py

harness("h_c12", ["harness/h_c12.cc"], libs=("csg",))

PROPS["C12"] = dict(
    parts=[rc("h_c12", quick=dict(cases=80000, procs=4, budget_s=600),
              thorough=dict(cases=1600000, procs=16, budget_s=3000)),
           py("vv.exe_c12", quick=dict(cases=960, procs=8, budget_s=600),
              thorough=dict(cases=16000, procs=16, budget_s=3000))],
    rule=("h_c12 (library, rapidcheck): grids of 2..300 points (60 % <= 12, 30 % <= 60), uniform (binary / decimal steps), mildly non-uniform "
          "(neighbour ratio <= 4), strongly non-uniform (interval lengths over three decades) and clustered, offsets -100..100; ordinates from "
          "poly<=3, trig, exp, noise, spikes, 1e3/1e6 offset + noise, straight line, kink, LJ-like; types linear / cubic / Akima, boundaries "
          "natural / periodic (y_0 = y_N). "
          "interp: S(x_k)=y_k at every knot; S (and S' for cubic/Akima) continuous across every interior knot by evaluation at nextafter(x_k,-inf) "
          "and x_k; natural cubic S''=0 at both ends (from three values of S'); periodic: equal slope (cubic, Akima) and curvature (cubic) at "
          "the two ends; fewer points than the minimum must be rejected with std::invalid_argument. "
          "line: data y=a x+b reproduced at knots, mid points, nextafter(knot) and generated points inside the grid (natural). "
          "linearity: S[a y+b z] = a S[y]+b S[z] and the same for S' (linear, cubic; knots, 3/8 points, generated points incl. slightly outside). "
          "fit: fit grid from Spline::GenerateGrid (step divides the range or not; grid points checked), >= 2 data points per fit interval at "
          "fractions k/16; data = natural cubic spline / piecewise linear function of the fit grid (+ optional noise): reproduction to 1e-8, "
          "residual orthogonal to every cardinal spline / hat function of the fit grid (normal equations on the constrained space, own long-double "
          "basis), fitted cubic spline C1 at the knots with zero end curvature. "
          "smooth: Table::Smooth(0..200) keeps end points, abscissae, flags bit for bit; straight-line data on a uniform grid unchanged; "
          "tables with < 2 rows rejected. "
          "Tolerances: closed-form bounds from the operations (cubic: rounding of the slope differences 8 eps Y/h propagated through the "
          "diagonally dominant system + dense-QR term N eps max(1,hmax)/min(1,hmin) |f''|, reference f'' from an own long-double solver; "
          "Akima: 64 eps (Y + 16 h max|slope|); linear: 16 eps (Y + max|slope| |x|max)). "
          "Non-trivial: non-uniform grid or >= 3 points (every knot is an evaluation point); linearity additionally a,b != 0; fit: >= 3 knots and "
          "more data than knots; smooth: >= 1 pass on >= 3 rows. "
          "vv.exe_c12 (csg_resample, Hypothesis): tables on a 1e-6 decimal lattice (2..60 rows, uniform or non-uniform with ratios <= 20, "
          "flags i/o/u in runs or random), all --type x --boundaries (none, natural, periodic, derivativezero), output grids same / coarser / "
          "finer / offset / sub-range / beyond the data / entirely left of the data / unrelated step, optional --comment; --fitgrid cases with "
          "4..10 data points per fit interval, step dividing the range or not, data beyond the fit grid, --nocut. Oracles: value and flag at every "
          "output point that coincides with an input point (flag: ambiguity band when the accumulated grid point is > 2e-13 right of the input "
          "point); scipy CubicSpline(natural), own linear formula, scipy Akima1DInterpolator on pieces 2..N-4 (tie-rule knots skipped); periodic: "
          "derivative equal at the two ends; --derivative vs exact piecewise differentiation (Lagrange on 2/4 nodes inside one piece, both sides "
          "at break points) of a second run on a >= 4x finer grid, tolerance from the 10 printed digits; value independent of the output grid; "
          "fit of a function of the spline space reproduced; documented rejections (derivativezero interpolation, Akima fit, too few points) "
          "accepted as such; any sanitizer report / abort is a failure. Non-trivial: non-uniform input or an output point on an interior "
          "input point; fit: >= 3 knots. Histories: 35 % of the interp cases use a spline object that interpolated other data before (same / other number of points, same / other boundary condition, once or twice). exe_c12 input tables come as 'x y flag', 'x y yerr flag', each with or without a leading row count; a quarter of the uniform grids cross x = 0 at a knot. fit: 6 % fine fit grids (60..200 knots, h 0.005..0.05); reproduction bound min(1e-8, 256 eps / h^2) x scale (a backward-stable solve loses cond ~ 1/h^2 digits)."),
    assumptions=COMMON_ASSUME + [
        "intervals shorter than 64 ulp of the abscissa are not 'strictly increasing' in any useful sense and are discarded",
        "Table::Smooth: straight-line clause only for uniform grids (the 1-2-1 filter acts on the index)",
        "fit: every interval of the fit grid holds >= 2 data points separated by >= 1/16 of the interval, the pinned last interval is not "
        "shorter than 5 % of the others; boundaries natural (the periodic / derivativezero fit variants are only executed for sanitizer, "
        "rejection and derivative consistency in the exe part)",
        "Akima end slopes decided by the 0/0 tie rule (both weight differences < 1e-6 of the slopes) are not compared",
        "csg_resample: the grid min:step:max has max = min + n*step on the decimal lattice, so the number of rows does not hinge on rounding",
    ],
)
