"""C05 (executable level, secondary): csg_stat --nt k writes byte-identical files to --nt 1 (OS schedules only)."""
import os

from hypothesis import strategies as st

from vv.pyx import R, sanitizer_report


@st.composite
def case(draw):
    nb = draw(st.integers(6, 40))
    nfr = draw(st.integers(1, 7))
    ntypes = draw(st.integers(1, 2))
    box = draw(st.integers(24, 40)) / 10.0  # nm
    frames = []
    for _ in range(nfr):
        L = box + draw(st.integers(0, 10)) / 20.0
        pos = [[draw(st.integers(0, 4095)) / 4096.0 * L for _ in range(3)] for _ in range(nb)]
        frames.append(dict(L=L, pos=pos))
    return dict(nb=nb, ntypes=ntypes, frames=frames, nt=draw(st.integers(2, 8)), imc=draw(st.booleans()),
                dimers=draw(st.booleans()),
                # dimers mapped to one CG bead each (csg_stat --cg): the second bead sits within 0.3 nm of the first and is wrapped into
                # the box, so dimers near a face straddle it and the mapping needs the frame's own box in every worker
                mapped=draw(st.booleans()), off=[[draw(st.integers(-12, 12)) / 40.0 for _ in range(3)] for _ in range(20)],
                block=draw(st.sampled_from([0, 0, 1, 2])), first=draw(st.sampled_from([None, None, 1, 2])),
                nframes=draw(st.sampled_from([None, None, 1, 2, 3])), cross=draw(st.booleans()))


def write_inputs(c, d):
    nb, nt = c["nb"], c["ntypes"]
    na = nb if nt == 1 else nb // 2
    dimers = bool(c.get("dimers")) and nb >= 2
    mapped = dimers and bool(c.get("mapped"))
    top = "<topology>\n <molecules>\n"
    if dimers:
        # bonded two-bead molecules (beads i and i+1): bonded distribution + exclusions in the xml topology
        nb -= nb % 2
        c = dict(c, nb=nb)
        tb = "B" if nt == 2 else "A"
        top += (f'  <molecule name="DIM" nmols="{nb // 2}" nbeads="2">\n   <bead name="A1" type="A" mass="1.0" q="0.0" />\n'
                f'   <bead name="B1" type="{tb}" mass="2.0" q="0.0" />\n  </molecule>\n </molecules>\n'
                ' <bonded>\n  <bond>\n   <name>bond</name>\n   <beads>\n    DIM:A1 DIM:B1\n   </beads>\n  </bond>\n </bonded>\n</topology>\n')
    else:
        top += f'  <molecule name="MA" nmols="{na}" nbeads="1">\n   <bead name="A" type="A" mass="1.0" q="0.0" />\n  </molecule>\n'
        if nt == 2:
            top += f'  <molecule name="MB" nmols="{nb - na}" nbeads="1">\n   <bead name="B" type="B" mass="2.0" q="0.0" />\n  </molecule>\n'
        top += " </molecules>\n</topology>\n"
    open(os.path.join(d, "top.xml"), "w").write(top)
    with open(os.path.join(d, "traj.dump"), "w") as f:
        for k, fr in enumerate(c["frames"]):
            LA = fr["L"] * 10.0
            f.write(f"ITEM: TIMESTEP\n{k}\nITEM: NUMBER OF ATOMS\n{nb}\nITEM: BOX BOUNDS pp pp pp\n0 {LA:.10f}\n0 {LA:.10f}\n0 {LA:.10f}\n"
                    "ITEM: ATOMS id type x y z\n")
            P = [list(p) for p in fr["pos"][:nb]]
            if mapped:
                L = fr["L"]
                for i in range(1, nb, 2):
                    o = c["off"][(i // 2 + k) % len(c["off"])]
                    P[i] = [(P[i - 1][a] + o[a]) % L for a in range(3)]
            for i, p in enumerate(P):
                ty = (i % 2 if nt == 2 else 0) if dimers else (0 if i < na else 1)
                f.write(f"{i + 1} {ty} {p[0] * 10:.8f} {p[1] * 10:.8f} {p[2] * 10:.8f}\n")
    inter = [("A-A", "A", "A")]
    if mapped:
        tb = "B" if nt == 2 else "A"
        open(os.path.join(d, "map.xml"), "w").write(
            "<cg_molecule>\n <name>CGD</name>\n <ident>DIM</ident>\n <topology>\n  <cg_beads>\n   <cg_bead>\n    <name>C1</name>\n    <type>C</type>\n"
            "    <mapping>M</mapping>\n    <beads>1:DIM:A1 1:DIM:B1</beads>\n   </cg_bead>\n  </cg_beads>\n </topology>\n <maps>\n  <map>\n   <name>M</name>\n"
            "   <weights>1 2</weights>\n  </map>\n </maps>\n</cg_molecule>\n")
        inter = [("C-C", "C", "C")]
    elif nt == 2:
        inter.append(("B-B", "B", "B"))
        if c["cross"]:
            inter.append(("A-B", "A", "B"))
    s = "<cg>\n"
    for name, t1, t2 in inter:
        s += (f" <non-bonded>\n  <name>{name}</name>\n  <type1>{t1}</type1>\n  <type2>{t2}</type2>\n  <min>0.0</min>\n  <max>1.0</max>\n"
              "  <step>0.1</step>\n  <inverse><imc><group>g</group></imc><target>" + name + ".dist.tgt</target></inverse>\n </non-bonded>\n")
    if dimers and not mapped:
        s += " <bonded>\n  <name>bond</name>\n  <min>0.0</min>\n  <max>6.0</max>\n  <step>0.25</step>\n </bonded>\n"
    s += "</cg>\n"
    open(os.path.join(d, "settings.xml"), "w").write(s)
    for name, _, _ in inter:
        with open(os.path.join(d, name + ".dist.tgt"), "w") as f:
            for k in range(11):
                f.write(f"{k * 0.1:.10f} {1.0 if k > 2 else 0.0:.10f} i\n")
    return [n for n, _, _ in inter]


def run_once(c, ctx, d, nt, sub):
    wd = os.path.join(d, sub)
    os.makedirs(wd, exist_ok=True)
    for f in os.listdir(d):
        if f.endswith(".tgt"):
            os.symlink(os.path.join(d, f), os.path.join(wd, f))
    args = ["csg_stat", "--top", "../top.xml", "--trj", "../traj.dump", "--options", "../settings.xml", "--nt", str(nt)]
    if c["imc"]:
        args.append("--do-imc")
    if c.get("dimers") and c.get("mapped") and c["nb"] >= 2:
        args += ["--cg", "../map.xml"]
    if c["block"]:
        args += ["--block-length", str(c["block"])]
    if c["first"] is not None:
        args += ["--first-frame", str(c["first"])]
    if c["nframes"] is not None:
        args += ["--nframes", str(c["nframes"])]
    rc, out = ctx.sh(args, cwd=wd, timeout=120)
    files = {}
    for f in sorted(os.listdir(wd)):
        p = os.path.join(wd, f)
        if os.path.isfile(p) and not os.path.islink(p):
            files[f] = open(p, "rb").read()
    return rc, out, files


def run_case(c, ctx, d):
    r = R()
    write_inputs(c, d)
    rc1, out1, f1 = run_once(c, ctx, d, 1, "nt1")
    rck, outk, fk = run_once(c, ctx, d, c["nt"], "ntk")
    r.cls(f"nt={c['nt']}")
    if c["imc"]:
        r.cls("imc")
    if c["block"]:
        r.cls("blocks")
    if c.get("dimers") and c["nb"] >= 2:
        r.cls("bonded-dimers(xml bond, exclusions)")
    if c.get("dimers") and c.get("mapped") and c["nb"] >= 2:
        r.cls("mapped(--cg, dimers straddling faces)")
    nsel = len(c["frames"]) - (max(c["first"] or 1, 1) - 1)
    if c["nframes"] is not None:
        nsel = min(nsel, c["nframes"])
    r.nontrivial = nsel >= 2 and bool(f1)
    if rc1 == -999 or rck == -999:
        # wall-clock budget hit: inconclusive, never a violation (deadlocks are decided by the scheduler harness)
        r.discard = True
        return r
    for out in (out1, outk):
        if sanitizer_report(out):
            return r.fail("csg_stat/sanitizer", out[-1500:])
    if rc1 != rck:
        return r.fail("csg_stat/nt-exit-code", f"--nt 1 exits {rc1}, --nt {c['nt']} exits {rck}: {outk[-400:]}")
    if set(f1) != set(fk):
        return r.fail("csg_stat/nt-file-set", f"files differ: nt1={sorted(f1)} ntk={sorted(fk)}")
    for name in f1:
        if f1[name] != fk[name]:
            return r.fail("csg_stat/nt-not-byte-identical", f"{name} differs between --nt 1 and --nt {c['nt']}")
    return r


SUBS = [dict(name="csg_stat_nt", strategy=case(), run=run_case, share=1.0)]
