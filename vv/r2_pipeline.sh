#!/bin/bash
# usage: r2_pipeline.sh <pid> <mutdir>   confirm the round-2 seeded changes of <pid>, then run the quick check against each
pid=$1; mut=$2
cd /verif
for n in 1 2 3; do
  [ -f /tmp/seed2/$pid/out/change$n.diff ] || continue
  echo "== confirm $pid r2-$n"
  SEED_BASE=/tmp/seed2 DEST_TAG=r2- ./vv/seed_confirm.sh $pid $n 2>&1 | tail -2
done
MUT_DIR=$mut python3-vt vv/mutest.py --seeded $pid-r2- 2>&1 | grep -E "^seeded|SUMMARY|DOES NOT"
