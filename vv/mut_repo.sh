#!/bin/bash
# Sensitivity run on /repo itself: apply a seeded patch, run the registered quick check of its property, undo the patch.
# Evidence and found replays of these runs go to build/ (never to /verif/evidence).  usage: mut_repo.sh <seeded-id> [prop]
id=$1; D=/verif/seeded/$id
prop=${2:-$(python3 -c "import json;print(json.load(open('$D/meta.json'))['property'])")}
cd /verif
[ -z "$(git -C /repo status --porcelain --untracked-files=no)" ] || { echo "$id: /repo not clean"; exit 2; }
trap 'git -C /repo checkout -q -- .' EXIT
git -C /repo apply $D/patch.diff || { echo "$id: PATCH DOES NOT APPLY"; exit 2; }
t0=$(date +%s)
mkdir -p build/mutrepo
VV_EVID_DIR=/verif/build/mutrepo/evidence VV_FOUND_DIR=/verif/build/mutrepo/found ./check $prop --tier quick > build/mutrepo/$id.log 2>&1; rc=$?
git -C /repo checkout -q -- .
v=$(grep -m1 -E "^(VIOLATION|FAILURE)" build/mutrepo/$id.log | cut -c1-220)
if [ $rc -eq 1 ] && grep -q "^VIOLATION" build/mutrepo/$id.log; then verdict=CAUGHT; elif [ $rc -eq 2 ]; then verdict=BUILD-ERROR; else verdict=MISSED; fi
echo "$id: $verdict ($(( $(date +%s) - t0 ))s, check $prop) $v"
