"""Print the prompt for a fresh 'seeded breakage' sub-agent for one property (only the property text + sandbox build hints)."""
import json
import sys

pid = sys.argv[1]
wt = f"/tmp/seed/{pid}"
P = None
for l in open("/verif/properties.jsonl"):
    p = json.loads(l)
    if p["id"] == pid:
        P = p
xtp = any(f.startswith("xtp/") for f in P["anchors"]["files"])
print(f"""You are a software engineer helping to evaluate a verification effort by playing the adversary. You work ONLY inside the scratch git worktree {wt} (a detached checkout of the VOTCA repository: C++ libraries for coarse-graining (csg), DFT/GW-BSE (xtp) and shared tools). Do not read or touch /verif or /repo, and do not use the network (there is none).

PROPERTY ({P['id']}: {P['title']})
{P['statement']}
Quantified over: {P['quantifier']['text']}
Code it is anchored in: {', '.join(P['anchors']['files'])}

TASK
Produce TWO independent source changes (different mechanisms, ideally different files/functions) to the library/tool/script code in the worktree, each of which BREAKS this property while the code still compiles and the existing test suite still passes. Each change must need something specific to manifest — a particular interleaving, a crash or fault at a particular point, a multi-step sequence of operations, an unusual input (a corner of the input space), or two cooperating sites that each look fine alone — NOT something ordinary use or the existing tests would expose at once. Keep each change small and realistic (the kind of slip or 'optimisation' a developer could plausibly commit): no dead giveaways like 'if (x == 12345)', no comments that reveal it. Do not change tests, do not change anything inside `#ifdef VOTCA_VERIF` blocks or tools/include/votca/tools/verif_hook.h (that is instrumentation), and do not change public function signatures.

For each change also write a DEMONSTRATION: a small test program or script that exercises the public API / the tool and FAILS (non-zero exit, printing what is wrong) with the change applied and PASSES on the unchanged worktree.

BUILD / TEST IN THIS SANDBOX
* Configure+build csg and tools once: `cmake -G Ninja -S {wt} -B {wt}/_b -DCMAKE_BUILD_TYPE=Release -DCMAKE_CXX_FLAGS=-Wno-error -DBUILD_TESTING=ON -DBUILD_XTP=OFF -DBUILD_MANPAGES=OFF && ninja -C {wt}/_b` (about 2-3 minutes; other jobs share the 16 cores). Existing suite: `ctest --test-dir {wt}/_b -j8 -E '^memory_test'` (134 tests, all must pass with each change applied separately).
* Demonstration programs can link the built shared libraries: g++ -std=gnu++17 -O1 -march=native (IMPORTANT: -march=native, otherwise Eigen alignment differs from the libraries and crashes) -I{wt}/tools/include -I{wt}/csg/include -I{wt}/_b/tools/include -I{wt}/_b/tools/include/votca/tools -I{wt}/_b/csg/src/libcsg -I/usr/include/eigen3 demo.cc -L{wt}/_b/csg/src/libcsg -L{wt}/_b/tools/src/libtools -lvotca_csg -lvotca_tools -lboost_program_options -lboost_filesystem -lboost_system -lpthread -Wl,-rpath,{wt}/_b/csg/src/libcsg:{wt}/_b/tools/src/libtools . The csg executables are in {wt}/_b/csg/src/tools; scripts need VOTCASHARE={wt}/csg/share (and VOTCA_CSG_DEFAULTS={wt}/_b/csg/share/xml/csg_defaults.xml).
""" + (f"""* The xtp library CANNOT be configured here (libint2/libxc are missing), so xtp code is not compiled by the cmake build and has no runnable tests in this sandbox; 'compiles and passes the existing tests' for xtp files means: the changed .cc files still compile stand-alone and the csg/tools suite is unaffected. Compile xtp sources stand-alone like this: create a directory cfg/votca/xtp/ with a file votca_xtp_config.h made from {wt}/xtp/include/votca/xtp/votca_xtp_config.h.in (replace @PROJECT_VERSION@/@PROJECT_CONTACT@, drop the #cmakedefine line), then `g++ -std=gnu++17 -O1 -march=native -I{wt}/xtp/include -Icfg -I{wt}/tools/include -I{wt}/_b/tools/include -I{wt}/_b/tools/include/votca/tools -I/usr/include/eigen3 -I/usr/include/hdf5/serial -c {wt}/xtp/src/libxtp/<file>.cc`; these xtp sources are known to compile that way: davidsonsolver matrixfreeoperator progressobserver job gnode rate_engine qmpair segment atom qmstate eeinteractor staticsite polarsite checkpoint IndexParser kmccalculator (link with -lhdf5_cpp -lhdf5 -L/usr/lib/x86_64-linux-gnu/hdf5/serial plus the tools library and boost as above; davidsonsolver.cc takes ~40 s). Your demonstration then compiles the needed xtp sources together with the demo program.
""" if xtp else "") + f"""
DELIVERABLES (all under {wt}/out/, create it):
  change1.diff, change2.diff   — `git diff` of each change alone against the unchanged worktree (apply cleanly with `git apply`)
  demo1/, demo2/               — the demonstration for each change with a run.sh that builds and runs it (exit 0 = property holds, non-zero = broken) given the worktree path as $1
  meta.json                    — list of two objects: {{"change": "change1.diff", "property": "{pid}", "breaks": "<which clause of the property>", "needs": "<what specific input/schedule/sequence/fault is needed for it to manifest>", "why_tests_pass": "<why the existing suite does not notice>", "ran": "<commands you ran and what you observed with and without the change>"}}
Leave the worktree itself UNCHANGED at the end (git checkout -- . ; the diffs live in out/). Verify for each change: builds, full ctest passes, demo fails with it and passes without it. If you cannot make two, deliver one good one rather than a weak second.

Reply with a short summary: for each change the mechanism, what it needs to manifest, and the observed demo outputs.""")
