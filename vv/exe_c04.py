"""C04 — csg_stat distributions equal an independent recomputation from the trajectory.

Executable-level check (Hypothesis): a pure-XML topology, a trajectory (.gro or LAMMPS .dump, written by this module)
and an options XML are generated, the ASan build of csg_stat is run on them and every output file is compared with a
numpy recomputation written from the property statement:

* non-bonded: per frame, count the non-excluded pairs (minimum image; excluded = the two beads share a bonded
  interaction of the topology, unless --include-intra) whose distance is nearest to a bin centre min+i*step;
  g_i = <V> * norm * <n_i> / (4 pi/3 (x2^3-x1^3)), x1 = x_i-step/2, x2 = x1+step, norm = 2/(N1 N2) (same type) or
  1/(N1 N2); bins with x1 < 0 are 0.
* bonded: histogram of bond lengths / angles / IUPAC dihedrals (own formulas, atan2 based) normalised to unit integral.
* --do-imc: S = concatenated per-frame histograms of a group (options order, non-bonded first);
  gmc = -(<S S^T> - <S><S>^T) (full symmetric matrix), dS = <S> - de-normalised target, .idx = 1-based ranges.
* --block-length b: block k (frames (k-1)b+1..kb of the processed ones) restarts all averages, and equals a separate
  run restricted to those frames (--first-frame/--nframes).

Tolerances: Table prints 10 significant digits -> relative 2e-9 on *.dist.new; .imc/.gmc print 8 -> 2e-7.
A value within 1e-9 (relative to the bin coordinate, plus the acos conditioning for angles) of a bin edge may fall in
either neighbouring bin: such cases are compared with [lo,hi] counts and counted as ambiguous, not as non-trivial.
"""
import math
import os
from decimal import Decimal

import numpy as np
from hypothesis import strategies as st

from vv.pyx import R, sanitizer_report

TYPES = ["A", "B", "C"]
STEPS = ["0.02", "0.05", "0.1", "0.2"]
KEY_BLOCKVOL = "csg_stat/block-volume-not-reset"
KEY_BONDED_DS = "csg_stat/imc-bonded-target-not-denormalised"


# ----------------------------------------------------------------------------------------------------------------------
# system construction from the case
# ----------------------------------------------------------------------------------------------------------------------
def dec(x):
    s = format(x, "f")
    if "." in s:
        s = s.rstrip("0").rstrip(".")
    return s if s not in ("", "-0") else "0"


def build_system(case):
    """-> dict(beads=[(mol, type)], bonded={group: (kind, [index tuples])}, xml=str, excl=set of frozenset pairs)"""
    mols = case["mols"]
    total = 0
    use = []
    for m in mols:
        nb = len(m["types"])
        nm = max(1, min(m["nmols"], (80 - total) // nb))
        if total + nb > 80:
            break
        use.append((m, nm))
        total += nb * nm
    beads = []
    bonded = {}
    xml = ["<topology>", " <molecules>"]
    bxml = []
    molid = 0
    for mi, (m, nm) in enumerate(use):
        mname = f"M{mi}"
        nb = len(m["types"])
        xml.append(f'  <molecule name="{mname}" nmols="{nm}" nbeads="{nb}">')
        for bi, t in enumerate(m["types"]):
            xml.append(f'   <bead name="b{bi}" type="{TYPES[t]}" mass="{1 + t}" q="0"/>')
        xml.append("  </molecule>")
        first = len(beads)
        for k in range(nm):
            for t in m["types"]:
                beads.append((molid, TYPES[t]))
            molid += 1
        # bonded terms on the chain b0-b1-...: bonds (all / only the first), angles, dihedrals
        terms = []
        if m["bonds"] and nb >= 2:
            pairs = [(0, 1)] if m["bonds"] == 2 else [(i, i + 1) for i in range(nb - 1)]
            terms.append(("bond", f"bond{mi}", pairs))
        if m["angles"] and nb >= 3:
            terms.append(("angle", f"angle{mi}", [(i, i + 1, i + 2) for i in range(nb - 2)]))
        if m["dihedrals"] and nb >= 4:
            terms.append(("dihedral", f"dih{mi}", [(i, i + 1, i + 2, i + 3) for i in range(nb - 3)]))
        for kind, gname, tuples in terms:
            names = " ".join(" ".join(f"{mname}:b{i}" for i in tp) for tp in tuples)
            bxml.append(f"  <{kind}><name>{gname}</name><beads>{names}</beads></{kind}>")
            lst = []
            # the reader creates, per listed tuple, one interaction in every molecule of that type
            for tp in tuples:
                for k in range(nm):
                    lst.append(tuple(first + k * nb + i for i in tp))
            bonded[gname] = (kind, lst)
    xml.append(" </molecules>")
    if bxml:
        xml += [" <bonded>"] + bxml + [" </bonded>"]
    xml.append("</topology>")
    excl = set()
    for kind, lst in bonded.values():
        for tp in lst:
            for a in tp:
                for b in tp:
                    if a != b:
                        excl.add(frozenset((a, b)))
    return dict(beads=beads, bonded=bonded, xml="\n".join(xml) + "\n", excl=excl, nmol=molid)


def interactions(case, sysd):
    """non-bonded and bonded option entries (only for things that exist)"""
    present = sorted({t for _, t in sysd["beads"]})
    nbs = []
    for k, it in enumerate(case["nb"]):
        t1 = present[it["t1"] % len(present)]
        t2 = present[it["t2"] % len(present)]
        step = Decimal(STEPS[it["st"]])
        mn = step * it["imin"]
        mx = step * (it["imin"] + it["nbins1"])
        nbs.append(dict(name=f"{t1}-{t2}.{k}", t1=t1, t2=t2, step=step, min=mn, max=mx, nbins=it["nbins1"] + 1, bonded=False,
                        group=it["group"]))
    tb = case.get("tb")
    if tb is not None and case["mode"] != "imc":
        reach = max(it["max"] + it["step"] for it in nbs)
        step = Decimal(["0.1", "0.2", "0.4"][tb["st"] % 3])
        cut = (reach * Decimal(["0.5", "0.75", "1"][tb["cutk"] % 3])).quantize(Decimal("0.01"))
        nbs.append(dict(name="tb", threebody=True, t1=present[tb["t1"] % len(present)], t2=present[tb["t2"] % len(present)],
                        t3=present[tb["t3"] % len(present)], cut=cut, step=step, min=Decimal(0), max=step * int(Decimal("3.2") / step),
                        nbins=int(Decimal("3.2") / step) + 1, bonded=False, group="none"))
    bds = []
    for k, (gname, (kind, lst)) in enumerate(sorted(sysd["bonded"].items())):
        sel = case["bsel"][k % len(case["bsel"])]
        if not sel["use"]:
            continue
        if kind == "bond":
            step = Decimal(STEPS[sel["st"]])
            mn = step * sel["imin"]
            mx = mn + step * (4 + sel["nb"])
        elif kind == "angle":
            step = Decimal(["0.1", "0.2", "0.4"][sel["st"] % 3])
            mn = Decimal(0)
            mx = step * int(Decimal("3.2") / step)
            if sel["imin"] % 2:  # truncated range: values outside must be ignored
                mn = step * 2
                mx = step * (int(Decimal("3.2") / step) - 3)
        else:
            step = Decimal(["0.1", "0.2", "0.4"][sel["st"] % 3])
            k2 = int(Decimal("3.2") / step)
            mn, mx = -step * k2, step * k2
            if sel["imin"] % 2:
                mn, mx = -step * (k2 - 3), step * (k2 - 2)
        nbins = int((mx - mn) / step) + 1
        bds.append(dict(name=gname, kind=kind, step=step, min=mn, max=mx, nbins=nbins, bonded=True, group=sel["group"]))
    return nbs, bds


def options_xml(nbs, bds, imc, include_intra):
    o = ["<cg>"]
    for it in nbs:
        o.append(f" <non-bonded><name>{it['name']}</name><type1>{it['t1']}</type1><type2>{it['t2']}</type2>"
                 f"<min>{dec(it['min'])}</min><max>{dec(it['max'])}</max><step>{dec(it['step'])}</step>")
        if it.get("threebody"):
            o.append(f"  <type3>{it['t3']}</type3><threebody>1</threebody><cut>{dec(it['cut'])}</cut>")
        if include_intra:
            o.append(f"  <max_intra>{dec(it['max'])}</max_intra>")
        if imc:
            o.append(f"  <inverse><imc><group>{it['group']}</group></imc></inverse>")
        o.append(" </non-bonded>")
    for it in bds:
        o.append(f" <bonded><name>{it['name']}</name><min>{dec(it['min'])}</min><max>{dec(it['max'])}</max><step>{dec(it['step'])}</step>")
        if imc:
            o.append(f"  <inverse><imc><group>{it['group']}</group></imc></inverse>")
        o.append(" </bonded>")
    o.append("</cg>")
    return "\n".join(o) + "\n"


# ----------------------------------------------------------------------------------------------------------------------
# trajectory (own writer; the oracle reads back exactly the strings that were written)
# ----------------------------------------------------------------------------------------------------------------------
def make_frames(case, sysd, nbs):
    """-> list of dict(box=np(3), pos=np(N,3)), file text.  Coordinates live on a 1e-5 nm lattice."""
    beads = sysd["beads"]
    N = len(beads)
    nbs = [it for it in nbs if not it.get("threebody")]
    reach = max(float(it["max"] + it["step"]) for it in nbs)
    lmin_units = int(math.ceil(2 * reach / 0.05 - 1e-9))  # box edges in units of 0.05 nm, >= 2 (max+step)
    fmt = case["fmt"]
    frames = []
    out = []
    coarse = case["posmode"] == "coarse"
    q = 0.05 if coarse else 1e-5  # coordinate lattice
    for fi, fr in enumerate(case["frames"]):
        rs = np.random.RandomState(fr["seed"])
        L = np.array([(lmin_units + e) * 0.05 for e in fr["extra"]])
        pos = np.zeros((N, 3))
        prev_mol = -1
        for i, (mol, _) in enumerate(beads):
            if mol != prev_mol:
                if case["cluster"] and i > 0 and rs.uniform() < 0.8:
                    # place the molecule near an earlier bead, at a distance inside the range of one of the interactions
                    j = rs.randint(0, i)
                    it = nbs[rs.randint(0, len(nbs))]
                    lo_d = max(0.02, float(it["min"]) - 0.5 * float(it["step"]))
                    v = rs.normal(size=3)
                    pos[i] = pos[j] + v / np.linalg.norm(v) * rs.uniform(lo_d, float(it["max"]) + 0.5 * float(it["step"]))
                else:
                    pos[i] = rs.uniform(0, 1, 3) * L
            else:
                v = rs.normal(size=3)
                pos[i] = pos[i - 1] + v / np.linalg.norm(v) * rs.uniform(0.08, 0.5)
            prev_mol = mol
        pos = pos - np.floor(pos / L) * L
        if case["images"]:
            pos = pos + rs.randint(-1, 2, (N, 3)) * L
        ipos = np.round(pos / q).astype(np.int64)
        if fmt == "gro":
            lines = [f"frame {fi}", f"{N}"]
            strs = []
            for i in range(N):
                c = ["%8.5f" % (ipos[i, k] * q) for k in range(3)]
                if any(len(s) != 8 for s in c):
                    raise ValueError("gro field overflow " + repr(c))
                strs.append(c)
                lines.append("%5d%-5s%5s%5d%s%s%s" % ((beads[i][0] + 1) % 100000, "M", beads[i][1], (i + 1) % 100000, c[0], c[1], c[2]))
            bs = ["%.5f" % v for v in L]
            lines.append(" ".join(bs))
            out.append("\n".join(lines) + "\n")
            p = np.array([[float(s) for s in c] for c in strs])
            box = np.array([float(s) for s in bs])
        else:
            lo = [["0", "-5.5", "12.25"][(fr["seed"] + k) % 3] for k in range(3)]
            his = ["%.5f" % (float(lo[k]) + L[k] * 10) for k in range(3)]
            lines = ["ITEM: TIMESTEP", str(fi * 100), "ITEM: NUMBER OF ATOMS", str(N), "ITEM: BOX BOUNDS pp pp pp"]
            for k in range(3):
                lines.append(f"{lo[k]} {his[k]}")
            lines.append("ITEM: ATOMS id type x y z")
            strs = []
            for i in range(N):
                c = ["%.4f" % (ipos[i, k] * q * 10) for k in range(3)]
                strs.append(c)
                lines.append(f"{i + 1} {1 + TYPES.index(beads[i][1])} {c[0]} {c[1]} {c[2]}")
            out.append("\n".join(lines) + "\n")
            p = np.array([[float(s) * 0.1 for s in c] for c in strs])  # Angstrom -> nm
            box = np.array([(float(his[k]) - float(lo[k])) * 0.1 for k in range(3)])
        frames.append(dict(box=box, pos=p))
    return frames, "".join(out)


# ----------------------------------------------------------------------------------------------------------------------
# oracle
# ----------------------------------------------------------------------------------------------------------------------
class Degenerate(Exception):
    pass


def min_image(v, box):
    return v - box * np.round(v / box)


def mi_strict(v, box):
    """minimum image of a bonded arm; a component at exactly half a box edge is a tie of the image choice (the angle depends on it)"""
    q = v / box
    if np.any(np.abs(np.abs(q - np.round(q)) - 0.5) < 1e-9):
        raise Degenerate()
    return v - box * np.round(q)


def bonded_value(kind, tp, pos, box):
    """-> (value, extra absolute band from the conditioning of acos in the implementation under test)"""
    p = [pos[i] for i in tp]
    if kind == "bond":
        d = np.linalg.norm(min_image(p[1] - p[0], box))
        return d, 0.0
    if kind == "angle":
        v1 = mi_strict(p[0] - p[1], box)
        v2 = mi_strict(p[2] - p[1], box)
        if np.linalg.norm(v1) < 1e-6 or np.linalg.norm(v2) < 1e-6:
            raise Degenerate()
        s = np.linalg.norm(np.cross(v1, v2)) / (np.linalg.norm(v1) * np.linalg.norm(v2))
        if s < 1e-6:
            raise Degenerate()
        return math.atan2(np.linalg.norm(np.cross(v1, v2)), np.dot(v1, v2)), 4e-16 / s
    b1 = mi_strict(p[1] - p[0], box)
    b2 = mi_strict(p[2] - p[1], box)
    b3 = mi_strict(p[3] - p[2], box)
    n1 = np.cross(b1, b2)
    n2 = np.cross(b2, b3)
    if min(np.linalg.norm(b1), np.linalg.norm(b2), np.linalg.norm(b3)) < 1e-6:
        raise Degenerate()
    if np.linalg.norm(n1) < 1e-7 or np.linalg.norm(n2) < 1e-7:
        raise Degenerate()
    y = np.linalg.norm(b2) * np.dot(b1, n2)
    x = np.dot(n1, n2)
    phi = math.atan2(y, x)  # IUPAC sign: positive when b1 . (b2 x b3) > 0
    s = abs(math.sin(phi))
    if s < 1e-6:
        raise Degenerate()  # cis/trans planar: the sign (hence the bin near +-pi) is a tie
    return phi, 4e-16 / s


def bin_values(vals, bands, mn, step, nbins):
    """nearest bin centre mn+i*step.  -> lo, hi count arrays and the number of edge-ambiguous values"""
    lo = np.zeros(nbins)
    hi = np.zeros(nbins)
    amb = 0
    for v, bd in zip(vals, bands):
        t = (v - mn) / step + 0.5
        k = round(t)
        if abs(t - k) <= 1e-9 * max(1.0, abs(t)) + bd / step + 1e-9 * abs(v) / step:
            amb += 1
            for i in (k - 1, k):
                if 0 <= i < nbins:
                    hi[i] += 1
        else:
            i = math.floor(t)
            if 0 <= i < nbins:
                lo[i] += 1
                hi[i] += 1
    return lo, hi, amb


def frame_hist(fr, sysd, it, include_intra):
    pos, box = fr["pos"], fr["box"]
    mn, step, nbins = float(it["min"]), float(it["step"]), it["nbins"]
    if it["bonded"]:
        kind, lst = sysd["bonded"][it["name"]]
        vb = [bonded_value(kind, tp, pos, box) for tp in lst]
        return bin_values([v for v, _ in vb], [b for _, b in vb], mn, step, nbins)
    beads = sysd["beads"]
    if it.get("threebody"):
        return threebody_hist(fr, sysd, it)
    i1 = [i for i, (_, t) in enumerate(beads) if t == it["t1"]]
    i2 = [i for i, (_, t) in enumerate(beads) if t == it["t2"]]
    pairs = []
    if it["t1"] == it["t2"]:
        for a in range(len(i1)):
            for b in range(a + 1, len(i1)):
                pairs.append((i1[a], i1[b]))
    else:
        pairs = [(a, b) for a in i1 for b in i2]
    if not include_intra:
        pairs = [p for p in pairs if frozenset(p) not in sysd["excl"]]
    if not pairs:
        return np.zeros(nbins), np.zeros(nbins), 0
    pa = np.array(pairs)
    dv = pos[pa[:, 0]] - pos[pa[:, 1]]
    dv = dv - box * np.round(dv / box)
    d = np.sqrt((dv * dv).sum(axis=1))
    d = d[d < float(it["max"]) + 2 * step]
    return bin_values(d, np.zeros(len(d)), mn, step, nbins)


def threebody_hist(fr, sysd, it):
    """centre bead of type1, neighbours of type2 / type3 closer than cut; a triple is dropped when any of its pairs is excluded"""
    pos, box = fr["pos"], fr["box"]
    beads = sysd["beads"]
    cut = float(it["cut"])
    T1 = [i for i, (_, t) in enumerate(beads) if t == it["t1"]]
    T2 = [i for i, (_, t) in enumerate(beads) if t == it["t2"]]
    T3 = [i for i, (_, t) in enumerate(beads) if t == it["t3"]]
    vals, bands = [], []
    edge = 0

    def near(i, lst):
        out = []
        nonlocal edge
        for j in lst:
            if j == i:
                continue
            v = min_image(pos[j] - pos[i], box)
            dd = np.linalg.norm(v)
            if abs(dd - cut) <= 1e-9 * cut:
                edge += 1
            if dd < cut:
                out.append((j, v))
        return out

    for i in T1:
        J = near(i, T2)
        K = near(i, T3)
        if it["t2"] == it["t3"]:
            cand = [(J[a], J[b]) for a in range(len(J)) for b in range(a + 1, len(J))]
        else:
            cand = [(a, b) for a in J for b in K]
        for (j, vj), (k, vk) in cand:
            if j == k:
                continue
            if any(frozenset(p) in sysd["excl"] for p in ((i, j), (i, k), (j, k))):
                continue
            nj, nk = np.linalg.norm(vj), np.linalg.norm(vk)
            if nj < 1e-6 or nk < 1e-6:
                raise Degenerate()
            sn = np.linalg.norm(np.cross(vj, vk)) / (nj * nk)
            if sn < 1e-6:
                raise Degenerate()
            vals.append(math.atan2(np.linalg.norm(np.cross(vj, vk)), np.dot(vj, vk)))
            bands.append(4e-16 / sn)
    lo, hi, amb = bin_values(vals, bands, float(it["min"]), float(it["step"]), it["nbins"])
    return lo, hi, amb + edge


def shell_volumes(it):
    x = float(it["min"]) + np.arange(it["nbins"]) * float(it["step"])
    x1 = x - 0.5 * float(it["step"])
    x2 = x1 + float(it["step"])
    sh = 4.0 / 3.0 * math.pi * (x2 ** 3 - x1 ** 3)
    neg = x1 < -1e-12
    return x, np.where(neg, 0.0, sh), neg


def norm_of(it, sysd):
    n1 = sum(1 for _, t in sysd["beads"] if t == it["t1"])
    n2 = sum(1 for _, t in sysd["beads"] if t == it["t2"])
    return (2.0 if it["t1"] == it["t2"] else 1.0) / (n1 * n2)


def read_table(path, ncol=3):
    if not os.path.exists(path):
        return None
    rows = []
    for line in open(path, errors="replace"):
        t = line.strip()
        if not t or t[0] in "#@":
            continue
        p = t.split()
        rows.append(p)
    return rows


def check_dist(r, d, fname, it, sysd, hists, vol, keypfx, ctx, volume_sensitive_known=False):
    """hists: list over frames of (lo, hi, amb).  Returns number of ambiguous values or None on failure."""
    rows = read_table(f"{d}/{fname}")
    if rows is None:
        r.fail(f"{keypfx}/missing-output", f"{fname} not written")
        return None
    nbins = it["nbins"]
    if len(rows) != nbins or any(len(p) != 3 for p in rows):
        r.fail(f"{keypfx}/grid", f"{fname}: {len(rows)} rows, expected {nbins} bins of 'x y flag'")
        return None
    x = float(it["min"]) + np.arange(nbins) * float(it["step"])
    gx = np.array([float(p[0]) for p in rows])
    gy = np.array([float(p[1]) for p in rows])
    if not np.all(np.abs(gx - x) <= 1e-9 * np.maximum(np.abs(x), float(it["step"]))):
        i = int(np.argmax(np.abs(gx - x)))
        r.fail(f"{keypfx}/grid", f"{fname}: bin {i} at x={gx[i]!r}, expected {x[i]!r}")
        return None
    if any(p[2] != "i" for p in rows):
        r.fail(f"{keypfx}/flag", f"{fname}: flag other than i")
        return None
    lo = np.mean([h[0] for h in hists], axis=0)
    hi = np.mean([h[1] for h in hists], axis=0)
    amb = sum(h[2] for h in hists)
    if it["bonded"] or it.get("threebody"):
        if amb:
            return amb  # normalisation itself is ambiguous: not compared
        tot = lo.sum() * float(it["step"])
        exp = lo / tot if tot > 0 else lo
        bad = ~(np.abs(gy - exp) <= 2e-9 * np.abs(exp) + 1e-300)
        if bad.any():
            i = int(np.argmax(bad))
            r.fail(f"{keypfx}/{'threebody' if it.get('threebody') else 'bonded'}-distribution", f"{fname} ({it.get('kind', 'threebody')}) bin {i} x={x[i]:.6g}: got {gy[i]!r} expected {exp[i]!r}; "
                                                    f"avg counts {lo.tolist()}")
            return None
        return 0
    _, sh, neg = shell_volumes(it)
    nrm = norm_of(it, sysd)
    with np.errstate(all="ignore"):
        glo = np.where(neg, 0.0, vol * nrm * lo / np.where(sh > 0, sh, 1.0))
        ghi = np.where(neg, 0.0, vol * nrm * hi / np.where(sh > 0, sh, 1.0))
    bad = ~((gy >= glo * (1 - 2e-9) - 1e-300) & (gy <= ghi * (1 + 2e-9) + 1e-300))
    if bad.any():
        if volume_sensitive_known:
            return amb
        i = int(np.argmax(bad))
        r.fail(f"{keypfx}/rdf", f"{fname} ({it['t1']}-{it['t2']}) bin {i} x={x[i]:.6g}: got {gy[i]!r} expected [{glo[i]!r},{ghi[i]!r}]; "
                                f"<V>={vol!r} norm={nrm!r} <n>={lo[i]!r} shell={sh[i]!r}")
        return None
    return amb


def check_imc(r, d, grp, suffix, items, sysd, hists_by_name, vol, tgts, keypfx, ctx, skip_ds_nb=False):
    """items: interactions of the group in options order.  hists_by_name[name] = list over frames of (lo,hi,amb)."""
    if any(h[2] for it in items for h in hists_by_name[it["name"]]):
        r.cls("imc-skipped-ambiguous")
        return True
    F = len(hists_by_name[items[0]["name"]])
    S = np.array([np.concatenate([hists_by_name[it["name"]][f][0] for it in items]) for f in range(F)])
    Sm = S.mean(axis=0)
    SS = (S[:, :, None] * S[:, None, :]).mean(axis=0)
    gmc = -(SS - np.outer(Sm, Sm))
    n = S.shape[1]
    # ---- idx
    idx = read_table(f"{d}/{grp}{suffix}.idx")
    exp_idx = []
    b = 1
    for it in items:
        exp_idx.append([it["name"], f"{b}:{b + it['nbins'] - 1}"])
        b += it["nbins"]
    if idx != exp_idx:
        r.fail(f"{keypfx}/idx", f"{grp}{suffix}.idx: got {idx} expected {exp_idx}")
        return False
    # ---- gmc
    rows = read_table(f"{d}/{grp}{suffix}.gmc")
    if rows is None or len(rows) != n or any(len(p) != n for p in rows):
        r.fail(f"{keypfx}/gmc-shape", f"{grp}{suffix}.gmc: expected {n}x{n}, got {None if rows is None else (len(rows), len(rows[0]) if rows else 0)}")
        return False
    G = np.array([[float(v) for v in p] for p in rows])
    tol = 2e-7 * np.abs(gmc) + 1e-12 * (np.abs(SS) + np.abs(np.outer(Sm, Sm))) + 1e-300
    bad = ~(np.abs(G - gmc) <= tol)
    if bad.any():
        i, j = np.unravel_index(int(np.argmax(bad)), bad.shape)
        r.fail(f"{keypfx}/gmc", f"{grp}{suffix}.gmc[{i},{j}]: got {G[i, j]!r} expected {gmc[i, j]!r} (<SiSj>={SS[i, j]!r} <Si>={Sm[i]!r} <Sj>={Sm[j]!r}); "
                                f"transpose entry {G[j, i]!r}")
        return False
    # ---- dS
    rows = read_table(f"{d}/{grp}{suffix}.imc")
    if rows is None or len(rows) != n or any(len(p) != 2 for p in rows):
        r.fail(f"{keypfx}/imc-shape", f"{grp}{suffix}.imc: expected {n} rows 'r dS'")
        return False
    gr = np.array([float(p[0]) for p in rows])
    gd = np.array([float(p[1]) for p in rows])
    off = 0
    for it in items:
        nb = it["nbins"]
        x = float(it["min"]) + np.arange(nb) * float(it["step"])
        if not np.all(np.abs(gr[off:off + nb] - x) <= 2e-7 * np.maximum(np.abs(x), float(it["step"]))):
            r.fail(f"{keypfx}/imc-r", f"{grp}{suffix}.imc rows of {it['name']}: r column {gr[off:off + nb].tolist()} expected {x.tolist()}")
            return False
        sm = Sm[off:off + nb]
        tg = tgts[it["name"]]
        if it["bonded"]:
            T = tg * sm.sum() * float(it["step"])  # inverse of the unit-integral normalisation of the written distribution
            key = KEY_BONDED_DS
        else:
            _, sh, _ = shell_volumes(it)
            T = tg * sh / (vol * norm_of(it, sysd))
            key = f"{keypfx}/dS"
        exp = sm - T
        tol = 2e-7 * np.abs(exp) + 1e-12 * (np.abs(sm) + np.abs(T)) + 1e-300
        bad = ~(np.abs(gd[off:off + nb] - exp) <= tol)
        if bad.any():
            if key in ctx.known and it["bonded"]:
                r.cls("excluded-known:bonded-dS")
            elif skip_ds_nb and not it["bonded"]:
                pass
            else:
                i = int(np.argmax(bad))
                r.fail(key, f"{grp}{suffix}.imc {it['name']} bin {i} r={x[i]:.6g}: got {gd[off + i]!r} expected {exp[i]!r} = <S>={sm[i]!r} - target {T[i]!r} "
                            f"(target value {tg[i]!r})")
                return False
        off += nb
    return True


# ----------------------------------------------------------------------------------------------------------------------
# the run
# ----------------------------------------------------------------------------------------------------------------------
def sh_retry(ctx, args, d):
    """ctx.sh with escalating time-outs: a time-out (-999) on a loaded machine is retried, a persistent one is reported"""
    rc, out = -999, "timeout"
    for to in (300, 900, 2400):
        rc, out = ctx.sh(args, cwd=d, timeout=to)
        if rc != -999:
            break
    return rc, out


def run_case(case, ctx, d):
    r = R()
    sysd = build_system(case)
    nbs, bds = interactions(case, sysd)
    imc = case["mode"] == "imc"
    include_intra = case["include_intra"] and not imc
    frames, trj = make_frames(case, sysd, nbs)
    F = len(frames)
    ext = case["ext"] or "dist.new"
    open(f"{d}/topol.xml", "w").write(sysd["xml"])
    open(f"{d}/opt.xml", "w").write(options_xml(nbs, bds, imc, include_intra))
    trjname = "traj." + case["fmt"]
    open(f"{d}/{trjname}", "w").write(trj)
    items = nbs + bds
    tgts = {}
    if imc:
        for it in items:
            rs = np.random.RandomState(case["tseed"] + len(tgts))
            y = ["%.8g" % v for v in rs.uniform(0.0, 2.0, it["nbins"])]
            tgts[it["name"]] = np.array([float(v) for v in y])
            with open(f"{d}/{it['name']}.dist.tgt", "w") as f:
                for i in range(it["nbins"]):
                    f.write(f"{dec(it['min'] + it['step'] * i)} {y[i]} i\n")
    # frame selection
    ff = case["first_frame"]
    f0 = max(1, ff) if ff is not None else 1
    f0 = min(f0, F)
    nfr = case["nframes"]
    sel = list(range(f0 - 1, F))
    if nfr is not None:
        nfr = max(1, min(nfr, len(sel)))
        sel = sel[:nfr]
    args = ["csg_stat", "--top", "topol.xml", "--trj", trjname, "--options", "opt.xml"]
    if ff is not None:
        args += ["--first-frame", str(min(ff, F))]
    if nfr is not None:
        args += ["--nframes", str(nfr)]
    if imc:
        args += ["--do-imc"]
    if include_intra:
        args += ["--include-intra"]
    if case["ext"]:
        args += ["--ext", case["ext"]]
    bl = case["block"]
    if bl is not None:
        bl = max(1, min(bl, len(sel)))
        args += ["--block-length", str(bl)]
    try:
        hists = {it["name"]: [frame_hist(frames[f], sysd, it, include_intra) for f in sel] for it in items}
    except Degenerate:
        r.discard = True
        return r
    vols = [float(np.prod(frames[f]["box"])) for f in sel]
    rc, out = sh_retry(ctx, args, d)
    if sanitizer_report(out):
        return r.fail("csg_stat/sanitizer", out[-1500:])
    if rc != 0:
        return r.fail("csg_stat/nonzero-exit", f"{' '.join(args)} -> exit {rc}: {out[-1200:]}")
    groups = {}
    for it in items:
        if imc and it["group"] != "none":
            groups.setdefault(it["group"], []).append(it)
    amb_total = 0
    nonempty = True
    volvar = len(set(vols)) > 1
    if bl is None:
        vol = float(np.mean(vols))
        for it in items:
            a = check_dist(r, d, f"{it['name']}.{ext}", it, sysd, hists[it["name"]], vol, "csg_stat", ctx)
            if a is None:
                return r
            amb_total += a
            if np.sum([h[0] for h in hists[it["name"]]]) == 0:
                nonempty = False
        for grp, its in sorted(groups.items()):
            if not check_imc(r, d, grp, "", its, sysd, hists, vol, tgts, "csg_stat/imc", ctx):
                return r
        # nothing invented: no block files in a run without --block-length
        extra = [f for f in os.listdir(d) if f.endswith("." + ext) and "_" in f]
        if extra:
            return r.fail("csg_stat/unexpected-output", f"unexpected files {extra}")
    else:
        nblocks = len(sel) // bl
        known_vol = KEY_BLOCKVOL in ctx.known
        for k in range(1, nblocks + 1):
            fs = list(range((k - 1) * bl, k * bl))
            vol = float(np.mean([vols[f] for f in fs]))
            vol_running = float(np.mean(vols[:k * bl]))
            affected = k > 1 and abs(vol_running - vol) > 1e-12 * vol
            for it in items:
                hk = [hists[it["name"]][f] for f in fs]
                if np.sum([h[0] for h in hk]) == 0:
                    nonempty = False
                pr = R()
                a = check_dist(pr, d, f"{it['name']}_{k}.{ext}", it, sysd, hk, vol, "csg_stat/block", ctx)
                if a is None:
                    if affected and not it["bonded"] and pr.key == "csg_stat/block/rdf":
                        # does the running volume average (never cleared) explain the file?
                        pr2 = R()
                        if check_dist(pr2, d, f"{it['name']}_{k}.{ext}", it, sysd, hk, vol_running, "csg_stat/block", ctx) is not None:
                            if known_vol:
                                r.cls("excluded-known:block-volume")
                                continue
                            return r.fail(KEY_BLOCKVOL, f"block {k} (frames {fs[0] + 1}..{fs[-1] + 1} of the processed ones, block length {bl}): "
                                                        f"{it['name']}_{k}.{ext} is normalised with <V>={vol_running!r} = average over ALL frames so far, "
                                                        f"the block's own average volume is {vol!r}. " + pr.msg)
                    return r.fail(pr.key, pr.msg)
                amb_total += a
            for grp, its in sorted(groups.items()):
                if affected:
                    pr = R()
                    if not check_imc(pr, d, grp, f"_{k}.{ext}", its, sysd, {n: [h[f] for f in fs] for n, h in hists.items()}, vol, tgts,
                                     "csg_stat/block/imc", ctx):
                        pr2 = R()
                        if pr.key == "csg_stat/block/imc/dS" and check_imc(pr2, d, grp, f"_{k}.{ext}", its, sysd,
                                                                            {n: [h[f] for f in fs] for n, h in hists.items()}, vol_running, tgts,
                                                                            "csg_stat/block/imc", ctx):
                            if known_vol:
                                r.cls("excluded-known:block-volume")
                                continue
                            return r.fail(KEY_BLOCKVOL, f"block {k}: {grp}_{k}.{ext}.imc de-normalises the target with the volume averaged over all "
                                                        f"frames so far ({vol_running!r}) instead of the block's ({vol!r}). " + pr.msg)
                        return r.fail(pr.key, pr.msg)
                elif not check_imc(r, d, grp, f"_{k}.{ext}", its, sysd, {n: [h[f] for f in fs] for n, h in hists.items()}, vol, tgts,
                                   "csg_stat/block/imc", ctx):
                    return r
        # both directions: exactly the complete blocks are written, and no un-blocked output
        for it in items:
            if os.path.exists(f"{d}/{it['name']}_{nblocks + 1}.{ext}"):
                return r.fail("csg_stat/block/extra-block", f"{it['name']}_{nblocks + 1}.{ext} written but only {nblocks} complete blocks")
        # metamorphic: block k equals a separate run restricted to its frames
        if nblocks >= 1:
            k = 1 + case["mblock"] % nblocks
            d2 = os.path.join(d, "sub")
            os.makedirs(d2)
            for fn in os.listdir(d):
                if fn.endswith(".dist.tgt") or fn in ("topol.xml", "opt.xml", trjname):
                    os.symlink(os.path.join(d, fn), os.path.join(d2, fn))
            a2 = ["csg_stat", "--top", "topol.xml", "--trj", trjname, "--options", "opt.xml", "--first-frame", str(f0 + (k - 1) * bl),
                  "--nframes", str(bl)] + (["--do-imc"] if imc else []) + (["--include-intra"] if include_intra else [])
            rc2, out2 = sh_retry(ctx, a2, d2)
            if rc2 != 0 or sanitizer_report(out2):
                return r.fail("csg_stat/nonzero-exit", f"{' '.join(a2)} -> exit {rc2}: {out2[-1200:]}")
            vol = float(np.mean([vols[f] for f in range((k - 1) * bl, k * bl)]))
            vol_running = float(np.mean(vols[:k * bl]))
            affected = k > 1 and abs(vol_running - vol) > 1e-12 * vol
            pairs = [(f"{it['name']}_{k}.{ext}", f"{it['name']}.dist.new", (not it["bonded"] and not it.get("threebody"))) for it in items]
            for grp in sorted(groups):
                pairs.append((f"{grp}_{k}.{ext}.imc", f"{grp}.imc", True))
                pairs.append((f"{grp}_{k}.{ext}.gmc", f"{grp}.gmc", False))
            for fa, fb, volsens in pairs:
                ra, rb = read_table(f"{d}/{fa}"), read_table(f"{d2}/{fb}")
                if ra is None or rb is None:
                    return r.fail("csg_stat/block/metamorphic-missing", f"{fa} / {fb} missing")
                A = np.array([[float(v) for v in p if v not in "iou"] for p in ra])
                B = np.array([[float(v) for v in p if v not in "iou"] for p in rb])
                tolr = 4e-9 if fa.endswith(ext) else 4e-7
                if A.shape != B.shape or not np.all(np.abs(A - B) <= tolr * np.maximum(np.abs(A), np.abs(B)) + 1e-11):
                    if affected and volsens:
                        if known_vol:
                            r.cls("excluded-known:block-volume")
                            continue
                        return r.fail(KEY_BLOCKVOL, f"block {k} file {fa} differs from a separate run on frames {f0 + (k - 1) * bl}.."
                                                    f"{f0 + k * bl - 1} ({fb}); <V> block {vol!r}, running {vol_running!r}")
                    return r.fail("csg_stat/block/metamorphic", f"block {k} file {fa} differs from a separate run on its frames ({fb})")
            r.cls("metamorphic-block-compared")
        r.cls(f"blocks:{min(nblocks, 3)}{'+' if nblocks > 3 else ''}")
        if len(sel) % bl:
            r.cls("incomplete-last-block")
    # ---- classes / non-triviality
    r.cls("fmt:" + case["fmt"])
    r.cls(f"frames:{len(sel)}")
    r.cls("beads<=20" if len(sysd["beads"]) <= 20 else "beads<=50" if len(sysd["beads"]) <= 50 else "beads>50")
    if volvar:
        r.cls("volume-varies")
    if amb_total:
        r.cls("ambiguous-edge")
    if include_intra:
        r.cls("include-intra")
    if sysd["excl"] and not include_intra:
        r.cls("has-exclusions")
    if any(it.get("threebody") for it in nbs):
        r.cls("threebody")
    if any(it["t1"] != it["t2"] for it in nbs if not it.get("threebody")):
        r.cls("cross-type")
    if any(it["t1"] == it["t2"] for it in nbs if not it.get("threebody")):
        r.cls("same-type")
    if any(float(it["min"]) == 0 for it in nbs if not it.get("threebody")):
        r.cls("range-from-0")
    for it in bds:
        r.cls("bonded:" + it["kind"])
    if ff is not None or nfr is not None:
        r.cls("frame-selection")
    if case["images"]:
        r.cls("image-shifted-coordinates")
    if imc:
        r.cls(f"imc-groups:{len(groups)}")
        if any(it["bonded"] for its in groups.values() for it in its):
            r.cls("imc-with-bonded")
        if any(len(its) > 1 for its in groups.values()):
            r.cls("imc-multi-interaction-group")
    if not nonempty:
        r.cls("some-interaction-empty")
    r.nontrivial = len(sel) >= 2 and volvar and nonempty and amb_total == 0
    return r


# ----------------------------------------------------------------------------------------------------------------------
# strategies
# ----------------------------------------------------------------------------------------------------------------------
ST_MOL = st.fixed_dictionaries(dict(nmols=st.integers(1, 16), types=st.lists(st.integers(0, 2), min_size=1, max_size=5),
                                    bonds=st.sampled_from([0, 1, 1, 2]), angles=st.booleans(), dihedrals=st.booleans()))
ST_NB = st.fixed_dictionaries(dict(t1=st.integers(0, 2), t2=st.integers(0, 2), st=st.integers(0, 3), imin=st.integers(0, 3),
                                   nbins1=st.integers(1, 10), group=st.sampled_from(["g1", "g1", "g2", "none"])))
ST_BSEL = st.fixed_dictionaries(dict(use=st.sampled_from([True, True, False]), st=st.integers(0, 3), imin=st.integers(0, 3),
                                     nb=st.integers(0, 12), group=st.sampled_from(["g1", "g2", "none", "none"])))
ST_FRAME = st.fixed_dictionaries(dict(extra=st.lists(st.integers(0, 40), min_size=3, max_size=3), seed=st.integers(0, 2 ** 20)))


def st_case(mode):
    return st.fixed_dictionaries(dict(
        mode=st.just(mode),
        mols=st.lists(ST_MOL, min_size=1, max_size=3),
        nb=st.lists(ST_NB, min_size=1, max_size=3),
        bsel=st.lists(ST_BSEL, min_size=1, max_size=3),
        frames=st.one_of(st.lists(ST_FRAME, min_size=(2 if mode != "plain" else 1), max_size=2), st.lists(ST_FRAME, min_size=2, max_size=4),
                         st.lists(ST_FRAME, min_size=3, max_size=6)),
        fmt=st.sampled_from(["gro", "dump"]),
        posmode=st.sampled_from(["fine", "fine", "fine", "coarse"]),
        cluster=st.sampled_from([True, True, True, False]), images=st.booleans(),
        include_intra=st.booleans() if mode != "imc" else st.just(False),
        first_frame=st.one_of(st.none(), st.integers(0, 4)),
        nframes=st.one_of(st.none(), st.integers(1, 6)),
        block=(st.integers(1, 3) if mode == "blocks" else st.one_of(st.none(), st.none(), st.integers(1, 3)) if mode == "imc" else st.none()),
        mblock=st.integers(0, 5),
        ext=st.sampled_from([None, None, "rdf"]) if mode != "blocks" else st.none(),
        tb=st.one_of(st.none(), st.none(), st.fixed_dictionaries(dict(t1=st.integers(0, 2), t2=st.integers(0, 2), t3=st.integers(0, 2),
                                                                       cutk=st.integers(0, 2), st=st.integers(0, 2)))),
        tseed=st.integers(0, 9999)))


SUBS = [
    dict(name="rdf_bonded", strategy=st_case("plain"), run=run_case, share=1.2),
    dict(name="blocks", strategy=st_case("blocks"), run=run_case, share=0.8),
    dict(name="imc", strategy=st_case("imc"), run=run_case, share=1.0),
]
