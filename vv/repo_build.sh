#!/bin/bash
# Configure (once) and incrementally build the ASan+UBSan, hooks-on build of /repo's working tree.
# usage: repo_build.sh [ninja targets...]
set -e
SRC=${VV_REPO:-/repo}
B=${VV_RB:-/verif/build/repo-asan}
mkdir -p /verif/build
exec 9>$B.lock
flock 9
FLAGS="${VV_OPT:--O1} -g1 -fno-omit-frame-pointer -fsanitize=address,undefined -fno-sanitize-recover=undefined -DVOTCA_VERIF"
if [ ! -f $B/build.ninja ]; then
  cmake -G Ninja -S $SRC -B $B -DCMAKE_BUILD_TYPE=None \
    -DCMAKE_CXX_FLAGS="$FLAGS" -DCMAKE_EXE_LINKER_FLAGS="-fsanitize=address,undefined" \
    -DBUILD_SHARED_LIBS=OFF -DBUILD_TESTING=OFF -DBUILD_MANPAGES=OFF \
    -DENABLE_WARNING_FLAGS=OFF -DINJECT_MARCH_NATIVE=OFF -DBUILD_XTP=OFF \
    -DCMAKE_DISABLE_FIND_PACKAGE_GROMACS=ON -DCMAKE_DISABLE_FIND_PACKAGE_SPHINX=ON > $B.cmake.log 2>&1 || { cat $B.cmake.log; exit 2; }
fi
ninja -C $B "$@" > $B.ninja.log 2>&1 || { tail -50 $B.ninja.log; exit 2; }
