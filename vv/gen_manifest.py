"""Regenerate /verif/MANIFEST.json from the registry (vv/props/*.py)."""
import json
import sys

sys.path.insert(0, "/verif")
from vv import registry, core  # noqa: E402

ALL = [f"C{i:02d}" for i in range(1, 21)]

TECH = {"rc": "rapidcheck property-based testing (generated cases, shrinking, JSON replay) against an independent oracle",
        "py": "Hypothesis property-based testing of the real executables/scripts against numpy/scipy oracles",
        "fz": "libFuzzer coverage-guided fuzzing with the semantic oracle inside the target"}


def main():
    checks = []
    na = []
    ready = set(json.load(open("/verif/vv/ready.json")))
    for pid in ALL:
        P = registry.PROPS.get(pid)
        if pid not in ready:
            na.append(dict(property_id=pid, reason="check still under construction in this round (not a limitation of the technique); see DESIGN.md section 4"))
            continue
        if not P or P.get("disabled"):
            na.append(dict(property_id=pid, reason=(P or {}).get("disabled", "check not built yet (work in progress)")))
            continue
        engines = []
        for p in P["parts"]:
            if p["engine"] not in engines:
                engines.append(p["engine"])
        tech = P.get("technique") or "; ".join(TECH[e] for e in engines)
        level = P.get("level", "exploration")
        checks.append(dict(
            property_id=pid,
            quick_cmd=f"./check {pid} --tier quick",
            thorough_cmd=f"./check {pid} --tier thorough",
            evidence_file=f"/verif/evidence/{pid}.json",
            replay_cmd_template=f"./check {pid} --replay {{path}}",
            engine="+".join(engines),
            level_claimed=dict(category=level, text=P.get("level_text") or (
                "Generated-input search with an explicit independent oracle: the property held on every generated / enumerated case "
                "of the classes counted in the evidence file; shrunk counter-examples are replayable files. This is the level the "
                "technique family (property-based testing and fuzzing) can give: strong evidence over the stated input classes, "
                "never absence of violations."), design_ref=f"DESIGN.md section 4, {pid}"),
            level_note=P.get("level_note") or ("; ".join(P["assumptions"])),
            technique=tech))
    man = dict(
        version=1,
        setup_cmd="./vv/setup.sh",
        hooks=dict(guard="VOTCA_VERIF",
                   enable="checks build /repo's working tree with -DVOTCA_VERIF (vv/repo_build.sh: cmake CMAKE_CXX_FLAGS; harness/xtp objects via vv/core.py CXXFLAGS)",
                   baseline_off_cmd="./vv/baseline_off.sh",
                   source_commits=json.load(open("/verif/hook_commits.json")),
                   add_only=True),
        engines=[dict(name="rc", path="/verif/harness", kind_free_text="rapidcheck harnesses linked to the ASan+UBSan build of /repo",
                      serves_properties=[c["property_id"] for c in checks if "rc" in c["engine"]]),
                 dict(name="py", path="/verif/vv", kind_free_text="Hypothesis driving the ASan executables and perl scripts, numpy/scipy oracles",
                      serves_properties=[c["property_id"] for c in checks if "py" in c["engine"]]),
                 dict(name="fz", path="/verif/fuzz", kind_free_text="libFuzzer targets (clang, ASan+UBSan) with oracle inside",
                      serves_properties=[c["property_id"] for c in checks if "fz" in c["engine"]])],
        checks=checks,
        not_applicable=na,
        notes="Driver: ./check <id> [--tier quick|thorough] [--replay file]. Known/fixed findings: known_findings.json. See DESIGN.md.")
    with open("/verif/MANIFEST.json", "w") as f:
        json.dump(man, f, indent=1)
    print(f"{len(checks)} checks, {len(na)} not_applicable")


if __name__ == "__main__":
    main()
