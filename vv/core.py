"""Build orchestration, harness runner, known-finding matching, evidence writer."""
import fcntl
import glob
import hashlib
import json
import os
import shutil
import subprocess
import sys
import tempfile
import time

VERIF = "/verif"
# VV_REPO=<scratch worktree> runs the same machinery against another tree (mutation testing) with its own build dirs;
# registered checks never set it and therefore always build /repo's working tree.
REPO = os.environ.get("VV_REPO", "/repo").rstrip("/")
BUILD = f"{VERIF}/build"
_TAG = "" if REPO == "/repo" else "-" + hashlib.sha1(REPO.encode()).hexdigest()[:8]
RB = f"{BUILD}/repo-asan{_TAG}"
HB = f"{BUILD}/h{_TAG}"
EVID = os.environ.get("VV_EVID_DIR") or (f"{VERIF}/evidence" if not _TAG else f"{BUILD}/evidence{_TAG}")  # VV_EVID_DIR: sensitivity runs on a patched /repo only
WORK = f"{BUILD}/work"
FOUND = os.environ.get("VV_FOUND_DIR") or f"{VERIF}/replays/found"

SAN = "-fsanitize=address,undefined -fno-sanitize-recover=undefined"
# VV_OPT: development aid (soundness experiment "same code, other code generation"); registered commands never set it
OPT = os.environ.get("VV_OPT", "-O1")
CXXFLAGS = (f"-std=gnu++17 {OPT} -g1 -fno-omit-frame-pointer {SAN} -DVOTCA_VERIF "
            f"-I{VERIF}/harness -I{REPO}/tools/include -I{REPO}/csg/include -I{RB}/tools/include -I{RB}/tools/include/votca/tools "
            f"-I{RB}/csg/include -I{RB}/csg/src/libcsg -I/usr/include/eigen3 -I/usr/include/hdf5/serial "
            f"-I{REPO}/xtp/include -I{HB}/xtpcfg -Wno-deprecated-declarations")
SYSLIBS = ("-L/usr/lib/x86_64-linux-gnu/hdf5/serial -lhdf5_cpp -lhdf5 -lexpat -lfftw3 -lboost_program_options "
           "-lboost_filesystem -lboost_system -lboost_regex -lboost_timer -lgomp -lpthread -ldl -lm")

# xtp sources that compile without libint/libxc/ecpint (see DESIGN 2.2)
XTP_SRC = ["davidsonsolver", "matrixfreeoperator", "progressobserver", "job", "gnode", "rate_engine", "qmpair",
           "segment", "atom", "qmstate", "eeinteractor", "staticsite", "polarsite", "checkpoint", "IndexParser",
           "kmccalculator", "topology", "qmnblist", "jobtopology", "region", "polarregion", "staticregion",
           "qmregion"]
XTP_SRC = XTP_SRC[:16]

ENV_RUN = {
    "ASAN_OPTIONS": "detect_leaks=0:detect_container_overflow=0:handle_abort=0:allocator_may_return_null=1:exitcode=86:quarantine_size_mb=16:malloc_context_size=4",
    "UBSAN_OPTIONS": "print_stacktrace=1:exitcode=86",
}


def log(*a):
    print(*a, flush=True)


class Lock:
    def __init__(self, path):
        self.path = path

    def __enter__(self):
        os.makedirs(os.path.dirname(self.path), exist_ok=True)
        self.f = open(self.path, "w")
        fcntl.flock(self.f, fcntl.LOCK_EX)

    def __exit__(self, *a):
        fcntl.flock(self.f, fcntl.LOCK_UN)
        self.f.close()


def build_repo(targets=()):
    """(Re)build the hooks-on sanitizer build of /repo's working tree. Raises on failure."""
    t0 = time.time()
    r = subprocess.run([f"{VERIF}/vv/repo_build.sh", *targets], stdout=subprocess.PIPE, stderr=subprocess.STDOUT,
                       text=True, env=dict(os.environ, VV_REPO=REPO, VV_RB=RB))
    if r.returncode != 0:
        log(r.stdout[-6000:])
        raise BuildError("repo build failed")
    return time.time() - t0


class BuildError(Exception):
    pass


# harness name -> (sources relative to /verif, libs among csg/tools/xtp, extra cflags, compiler)
HARNESSES = {}


def harness(name, srcs, libs=("tools",), extra="", cxx="g++", link_extra="", fz="", norc=False):
    HARNESSES[name] = dict(srcs=srcs, libs=libs, extra=extra, cxx=cxx, link_extra=link_extra, fz=fz, norc=norc)


def fuzz_target(name, srcs, extra=""):
    """libFuzzer target built with clang from fuzz/<name>.cc plus the few /repo sources it needs (absolute paths)."""
    harness(name, srcs, libs=(), extra="-fsanitize=fuzzer-no-link -I/verif/fuzz " + extra, cxx="clang++",
            fz="-fsanitize=fuzzer", norc=True)


def _write_if_changed(path, text):
    if os.path.exists(path) and open(path).read() == text:
        return
    os.makedirs(os.path.dirname(path), exist_ok=True)
    with open(path, "w") as f:
        f.write(text)


def gen_harness_ninja():
    os.makedirs(HB, exist_ok=True)
    # hand-made xtp config header (from the .in of the working tree)
    cfg_in = f"{REPO}/xtp/include/votca/xtp/votca_xtp_config.h.in"
    cfg = ""
    if os.path.exists(cfg_in):
        for line in open(cfg_in):
            if line.startswith("#cmakedefine"):
                continue
            cfg += line.replace("@PROJECT_VERSION@", "verif").replace("@PROJECT_CONTACT@", "verif")
    _write_if_changed(f"{HB}/xtpcfg/votca/xtp/votca_xtp_config.h", cfg)
    _write_if_changed(f"{HB}/xtpcfg/votca_xtp_config.h", cfg)  # xtp/eigen.h includes it without the directory
    out = []
    out.append(f"cflags = {CXXFLAGS}")
    out.append("rule cxx\n  command = $cxx $cflags $extra -MD -MF $out.d -c $in -o $out\n  depfile = $out.d\n  deps = gcc\n"
               "  description = CXX $out")
    out.append("rule link\n  command = $cxx -fsanitize=address,undefined $fz -o $out $in $libs\n  description = LINK $out")
    out.append("rule ar\n  command = rm -f $out && ar crs $out $in\n  description = AR $out")
    xtp_objs = []
    for s in XTP_SRC:
        o = f"xtp/{s}.o"
        out.append(f"build {o}: cxx {REPO}/xtp/src/libxtp/{s}.cc\n  cxx = g++\n  extra = -I{REPO}/xtp/src/libxtp")
        xtp_objs.append(o)
    out.append(f"build libvv_xtp.a: ar {' '.join(xtp_objs)}")
    for name, h in HARNESSES.items():
        objs = []
        for s in h["srcs"]:
            src = s if s.startswith("/") else f"{VERIF}/{s}"
            o = f"obj/{name}/{os.path.basename(s)}.o"
            out.append(f"build {o}: cxx {src}\n  cxx = {h['cxx']}\n  extra = {h['extra']}")
            objs.append(o)
        libs = []
        if "xtp" in h["libs"]:
            libs.append("libvv_xtp.a")
        if "csg" in h["libs"]:
            libs.append(f"{RB}/csg/src/libcsg/libvotca_csg.a")
        if "tools" in h["libs"] or "csg" in h["libs"] or "xtp" in h["libs"]:
            libs.append(f"{RB}/tools/src/libtools/libvotca_tools.a")
        rc = "" if h.get("norc") else "-lrapidcheck"
        out.append(f"build {name}: link {' '.join(objs)} | {' '.join(libs)}\n  cxx = {h['cxx']}\n"
                   f"  libs = {' '.join(libs)} {rc} {SYSLIBS} {h['link_extra']}\n  fz = {h.get('fz', '')}")
    _write_if_changed(f"{HB}/build.ninja", "\n".join(out) + "\n")


def build_harness(names):
    with Lock(f"{BUILD}/.h-build{_TAG}.lock"):
        gen_harness_ninja()
        r = subprocess.run(["ninja", "-C", HB, *names], stdout=subprocess.PIPE, stderr=subprocess.STDOUT, text=True)
        if r.returncode != 0:
            log(r.stdout[-8000:])
            raise BuildError("harness build failed: " + " ".join(names))


def prepare_share():
    pass


# ------------------------------------------------------------------ known findings
def load_known():
    p = f"{VERIF}/known_findings.json"
    if not os.path.exists(p):
        return []
    return json.load(open(p)).get("findings", [])


def known_for(prop):
    return [k for k in load_known() if k["property"] == prop and k.get("status") == "known"]


# ------------------------------------------------------------------ running rapidcheck harnesses
def mkwork(prop):
    os.makedirs(WORK, exist_ok=True)
    return tempfile.mkdtemp(prefix=f"{prop}-", dir=WORK)


def run_env(prop, extra=None):
    env = dict(os.environ)
    env.update(ENV_RUN)
    env["VV_KNOWN"] = ",".join([k["key"] for k in known_for(prop)] +
                               [k for k in os.environ.get("VV_KNOWN_EXTRA", "").split(",") if k])
    env["VV_REPO"] = REPO
    env["VV_RB"] = RB
    env["PATH"] = f"{RB}/csg/src/tools:{RB}/csg/src/csg_boltzmann:{RB}/tools/src/tools:{REPO}/csg/scripts:" + env["PATH"]
    env["VOTCASHARE"] = f"{REPO}/csg/share"
    env["VOTCA_CSG_DEFAULTS"] = f"{RB}/csg/share/xml/csg_defaults.xml"
    env["PERL5LIB"] = f"{REPO}/csg/share/scripts/inverse"
    if extra:
        env.update(extra)
    return env


def replay_rc(prop, hname, path, times=3, timeout=300, extra_env=None):
    """Replay a saved case `times` times. Returns (n_fail, last_output)."""
    nfail = 0
    outp = ""
    for _ in range(times):
        try:
            r = subprocess.run([f"{HB}/{hname}", "--replay", path], stdout=subprocess.PIPE, stderr=subprocess.STDOUT,
                               text=True, env=run_env(prop, extra_env), timeout=timeout, errors="replace")
            outp = r.stdout
            if r.returncode != 0:
                nfail += 1
        except subprocess.TimeoutExpired:
            outp = "timeout"
    return nfail, outp


def run_rc(prop, hname, seed, cases, procs, workdir, budget_s, extra_args=(), max_size=None):
    """Run a rapidcheck harness in `procs` processes. Returns dict(stats=merged, failures=[...], budget_exhausted)."""
    ps = []
    per = max(1, cases // procs)
    for k in range(procs):
        out = f"{workdir}/{hname}.stats.{k}.json"
        crash = f"{workdir}/{hname}.crash.{k}.json"
        logf = open(f"{workdir}/{hname}.log.{k}", "w")
        args = [f"{HB}/{hname}", "--seed", str(seed * 1000 + k), "--cases", str(per), "--out", out, "--crash", crash,
                "--shard", str(k), str(procs), *extra_args]
        if max_size is not None:
            args += ["--max-size", str(max_size)]
        p = subprocess.Popen(args, stdout=logf, stderr=subprocess.STDOUT, env=run_env(prop), cwd=workdir)
        ps.append((p, out, crash, logf, args))
    t0 = time.time()
    exhausted = False
    for p, *_ in ps:
        left = budget_s - (time.time() - t0)
        try:
            p.wait(timeout=max(1, left))
        except subprocess.TimeoutExpired:
            exhausted = True
            p.kill()
            p.wait()
    merged = {}
    failures = []
    for k, (p, out, crash, logf, pargs) in enumerate(ps):
        logf.close()
        st = None
        if os.path.exists(out):
            try:
                st = json.load(open(out))
            except Exception:
                st = None
        if st:
            for sn, s in st["subs"].items():
                m = merged.setdefault(sn, dict(evaluations=0, discards=0, excluded_known=0, hashes=set(), nt_count=0,
                                               classes={}, samples=[]))
                m["evaluations"] += s["evaluations"]
                m["discards"] += s["discards"]
                m["excluded_known"] += s.get("excluded_known", 0)
                m["hashes"].update(s["nt_hashes"])
                m["nt_count"] += max(0, s["distinct_nontrivial"] - len(s["nt_hashes"]))
                for c, n in s["classes"].items():
                    m["classes"][c] = m["classes"].get(c, 0) + n
                if len(m["samples"]) < 3:
                    m["samples"].extend(s["samples"][: 3 - len(m["samples"])])
            for f in st["failures"]:
                f["harness"] = hname
                # the whole generated campaign of this process is reproducible from its arguments: used when a failure
                # depends on the calls made before it (state kept by the code under test) and its single case passes alone
                f["campaign"] = [a for a in pargs[1:] if a not in (out, crash)]
                failures.append(f)
        if os.path.exists(crash):  # written only by the death callback / SIGABRT handler (sanitizers exit with code 86, see ENV_RUN)
            try:
                cj = json.load(open(crash))
            except Exception:
                cj = dict(property=prop, sub="?", case=None)
            tail = open(f"{workdir}/{hname}.log.{k}", errors="replace").read()[-3000:]
            key = "no-termination-within-cpu-budget" if cj.get("cpu_budget") else "sanitizer-or-abort"
            failures.append(dict(property=prop, sub=cj.get("sub"), key=key, msg="process died: " + tail, case=cj.get("case"),
                                 harness=hname, crash=True))
        elif p.returncode not in (0, 1, -9) and not exhausted:
            tail = open(f"{workdir}/{hname}.log.{k}", errors="replace").read()[-3000:]
            failures.append(dict(property=prop, sub="?", key="harness-died", msg=f"exit {p.returncode}: {tail}",
                                 case=None, harness=hname, crash=True))
    return dict(stats=merged, failures=failures, budget_exhausted=exhausted)


def replay_campaign(prop, hname, campaign, sub, key, timeout=3600):
    """Re-run a generated campaign (same seed/cases/shard) restricted to `sub`; True if it fails again with `key`."""
    wd = tempfile.mkdtemp(prefix=f"{prop}-camp-", dir=WORK)
    out = os.path.join(wd, "stats.json")
    args = []
    skip = False
    for a in campaign:  # drop the --out/--crash options whose values were removed
        if skip:
            skip = False
            continue
        if a in ("--out", "--crash"):
            continue
        args.append(a)
    cmd = [f"{HB}/{hname}", *args, "--out", out, "--crash", os.path.join(wd, "crash.json")] + (["--sub", sub] if sub else [])
    try:
        subprocess.run(cmd, stdout=subprocess.DEVNULL, stderr=subprocess.DEVNULL, env=run_env(prop), cwd=wd, timeout=timeout)
        st = json.load(open(out)) if os.path.exists(out) else {"failures": []}
        hit = any(x.get("key") == key for x in st.get("failures", []))
    except Exception:
        hit = False
    shutil.rmtree(wd, ignore_errors=True)
    return hit


def save_replay(prop, f):
    os.makedirs(FOUND, exist_ok=True)
    extra = {"artifact": f["artifact"]} if f.get("artifact") else {}
    if f.get("campaign_replay"):
        extra["campaign"] = f["campaign"]
        extra["campaign_sub"] = f.get("campaign_sub")
        f = dict(f, engine="rc-campaign")
    body = json.dumps(dict(**extra, property=prop, sub=f.get("sub"), key=f.get("key"), msg=(f.get("msg") or "")[:2000],
                           harness=f.get("harness"), engine=f.get("engine", "rc"), case=f.get("case")), indent=1)
    h = hashlib.sha1(body.encode()).hexdigest()[:10]
    path = f"{FOUND}/{prop}-{f.get('sub')}-{h}.json"
    with open(path, "w") as fh:
        fh.write(body)
    return path


# ------------------------------------------------------------------ evidence
def write_evidence(prop, tier, seed, level, rule, merged, assumptions, wall, violations, extra=None):
    evaluations = sum(m["evaluations"] for m in merged.values())
    dn = sum(len(m["hashes"]) + m.get("nt_count", 0) for m in merged.values())
    samples = []
    per_sub = {}
    for sn, m in merged.items():
        for s in m["samples"][:2]:
            samples.append(dict(sub=sn, case=s))
        per_sub[sn] = dict(evaluations=m["evaluations"], distinct_nontrivial=len(m["hashes"]) + m.get("nt_count", 0),
                           discards=m["discards"], excluded_known=m.get("excluded_known", 0), classes=m["classes"])
    cov = dict(evaluations=evaluations, distinct_nontrivial=dn, rule=rule, samples=samples[:24], per_sub=per_sub)
    if extra:
        cov.update(extra)
    ev = dict(property_id=prop, tier=tier, seed=int(seed), level=level, coverage=cov, assumptions=assumptions,
              wall_s=round(wall, 2), violations=int(violations))
    os.makedirs(EVID, exist_ok=True)
    tmp = f"{EVID}/{prop}.json.tmp"
    with open(tmp, "w") as f:
        json.dump(ev, f, indent=1, default=str)
    os.replace(tmp, f"{EVID}/{prop}.json")
    return ev
