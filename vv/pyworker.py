import sys
sys.path.insert(0, "/verif")
from vv import pyx  # noqa: E402

if __name__ == "__main__":
    mod, seed, cases, wd, out = sys.argv[1:6]
    known = [k for k in (sys.argv[6] if len(sys.argv) > 6 else "").split(",") if k]
    pyx.worker(mod, int(seed), int(cases), wd, out, known)
