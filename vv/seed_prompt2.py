"""Round-2 prompt: same as seed_prompt.py, three changes, steering away from the obvious single-site slips."""
import subprocess
import sys

pid = sys.argv[1]
t = subprocess.run([sys.executable, "/verif/vv/seed_prompt.py", pid], capture_output=True, text=True).stdout
t = t.replace(f"/tmp/seed/{pid}", f"/tmp/seed2/{pid}")
t = t.replace("Produce TWO independent source changes", "Produce THREE independent source changes")
R2 = """SECOND ROUND. Obvious single-site slips in the main formula (a flipped sign, an off-by-one in the central loop, a wrong constant) are considered covered; do not spend your changes on them. Prefer mechanisms of these kinds, as far as they fit this property: (a) state carried over between calls / an object that is reused or reconfigured (second call, second solve, second file, rebuilt structure); (b) two handles, instances, readers or writers alive at the same time; (c) multi-frame, multi-block or multi-step sequences where only a later step goes wrong; (d) rarely used but supported options, overloads, alternative code paths or input flavours of the same feature; (e) format and syntax corners (field widths, optional columns, unusual but legal spellings, boundary counts); (f) the error clauses of the property (what must be rejected / reported) and behaviour right at a documented limit; (g) two cooperating sites that each look reasonable alone.

"""
t = t.replace("For each change also write a DEMONSTRATION", R2 + "For each change also write a DEMONSTRATION")
t = t.replace("change1.diff, change2.diff   ", "change1.diff, change2.diff, change3.diff   ")
t = t.replace("demo1/, demo2/               ", "demo1/, demo2/, demo3/               ")
t = t.replace("list of two objects", "list of three objects")
t = t.replace("If you cannot make two, deliver one good one rather than a weak second.", "If you cannot make three good ones, deliver fewer good ones rather than weak ones.")
print(t)
