#!/bin/bash
# usage: r4_pipeline.sh <pid> <mutdir>   confirm the round-4 seeded changes of <pid> (building the agent's tree if it did not), then run the quick check against each
pid=$1; mut=$2; W=/tmp/seed4/$pid
cd /verif
if [ ! -f $W/_b/build.ninja ]; then
  /tmp/seed4/lk cmake -G Ninja -S $W -B $W/_b -DCMAKE_BUILD_TYPE=Release -DCMAKE_CXX_FLAGS=-Wno-error -DBUILD_TESTING=ON -DBUILD_XTP=OFF -DBUILD_MANPAGES=OFF > $W/out/my_cmake.log 2>&1
fi
git -C $W checkout -q -- . ; /tmp/seed4/lk ninja -j6 -C $W/_b > $W/out/my_build.log 2>&1
for n in 1 2; do
  [ -f $W/out/change$n.diff ] || continue
  echo "== confirm $pid r4-$n"
  SEED_BASE=/tmp/seed4 DEST_TAG=r4- ./vv/seed_confirm.sh $pid $n 2>&1 | tail -2
done
MUT_DIR=$mut python3-vt vv/mutest.py --seeded $pid-r4- 2>&1 | grep -E "^seeded|SUMMARY|DOES NOT"
