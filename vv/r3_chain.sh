#!/bin/bash
# usage: r3_chain.sh <mutdir> id...   round-3 pipelines one after the other on one scratch tree
mut=$1; shift
for id in "$@"; do /verif/vv/r3_pipeline.sh $id $mut > /verif/build/r3_$id.log 2>&1; done
