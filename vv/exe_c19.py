"""C19 — inverse-script table tools implement their documented point-wise formulas.

Executable-level check (Hypothesis): the perl scripts under csg/share/scripts/inverse are run directly with perl on
generated table files, their outputs are parsed and compared with closed-form numpy oracles written from the scripts'
--help texts and the property statement.  No VOTCA code is used by the oracles.

Conventions shared by all subs
* a case is a small JSON spec (grid, function kind + integer parameters, zero regions, flag spec, options); the
  table itself is built deterministically from the spec in `run`, values are written as '%.10g' strings and the
  oracle parses the very same strings (so input rounding is not part of any tolerance).
* values are either exactly 0 or |v| >= 1e-6, so that the scripts' 1e-10 thresholds are never ambiguous.
* perl prints numbers with 15 significant digits -> relative 5e-15 on every printed result; each comparison adds the
  rounding of the operation itself (stated where used).  csg_resample prints 10 significant digits -> 5e-10.
"""
import math
import os
from decimal import Decimal

import numpy as np
from hypothesis import strategies as st

from vv.pyx import R

REPO = os.environ.get("VV_REPO", "/repo")
S = f"{REPO}/csg/share/scripts/inverse"

# grid steps h = k * 10^-e  (decimal, so the x column is written exactly and reproduced verbatim by perl)
H = [(1, 3), (2, 3), (5, 3), (1, 2), (2, 2), (5, 2), (1, 1), (25, 2)]


# ----------------------------------------------------------------------------------------------------------------------
# generic helpers
# ----------------------------------------------------------------------------------------------------------------------
def grid_strings(n, hs, i0):
    k, e = H[hs]
    out = []
    for i in range(n):
        d = Decimal(k * (i0 + i)).scaleb(-e)
        s = format(d, "f")
        if "." in s:
            s = s.rstrip("0").rstrip(".")
        if s in ("", "-0"):
            s = "0"
        out.append(s)
    return out


def hval(hs):
    k, e = H[hs]
    return float(Decimal(k).scaleb(-e))


def hstr(hs):
    k, e = H[hs]
    s = format(Decimal(k).scaleb(-e), "f")
    return s.rstrip("0").rstrip(".") if "." in s else s


def fmt(v):
    """value -> table string: exactly '0' or |v| >= 1e-6, at most 10 significant digits"""
    if not np.isfinite(v) or abs(v) < 1e-6:
        return "0"
    s = "%.10g" % v
    if abs(float(s)) < 1e-6:
        return "0"
    return s


def eval_signed(fn, x):
    kind = fn["kind"]
    a, b, c, s = fn["a"], fn["b"], fn["c"], fn["s"]
    n = len(x)
    if kind == "const":
        y = np.full(n, a / 4.0)
    elif kind == "lin":
        y = a / 4.0 + b / 8.0 * x
    elif kind == "quad":
        y = a / 4.0 + b / 8.0 * x + (c - 6) / 4.0 * x * x
    elif kind == "sin":
        y = (a / 4.0 if a else 1.0) * np.sin((c + 1) * x + b / 4.0)
    elif kind == "exp":
        y = (a / 4.0) * np.exp(-(c / 4.0) * x) + b / 8.0
    elif kind == "lj":
        sig = 0.2 + c / 40.0
        eps = abs(a) / 8.0 + 0.1
        with np.errstate(all="ignore"):
            q = np.where(np.abs(x) > 0, sig / np.where(np.abs(x) > 0, np.abs(x), 1.0), 1e3)
            y = 4 * eps * (q ** 12 - q ** 6)
        y = np.clip(np.nan_to_num(y, nan=1e6, posinf=1e6, neginf=-1e6), -1e6, 1e6)
    elif kind == "rough":
        y = np.random.RandomState(s).uniform(-abs(a) - 1.0, abs(a) + 1.0, n)
    elif kind == "spike":
        y = np.zeros(n)
        rs = np.random.RandomState(s)
        for _ in range(1 + c % 4):
            y[rs.randint(0, n)] = (a if a else 3) / 4.0 * (1 + rs.randint(0, 5))
    else:
        raise ValueError(kind)
    return y


def eval_positive(fn, x):
    """RDF / distribution like, >= 0"""
    kind = fn["kind"]
    a, b, c, s = abs(fn["a"]), abs(fn["b"]), fn["c"], fn["s"]
    n = len(x)
    if kind == "rdf":
        sig = 0.15 + c / 30.0
        eps = 0.2 + a / 10.0
        with np.errstate(all="ignore"):
            ax = np.abs(x)
            q = np.where(ax > 0, sig / np.where(ax > 0, ax, 1.0), 1e3)
            u = 4 * eps * (q ** 12 - q ** 6)
            y = np.exp(-np.clip(u, -50, 700)) * (1 + 0.3 * np.cos((b + 1) * x) * np.exp(-ax))
        y = np.nan_to_num(y, nan=0.0, posinf=0.0)
    elif kind == "gauss":
        mu = x[0] + (x[-1] - x[0]) * (c % 11) / 10.0
        w = (x[-1] - x[0]) * (1 + b) / 40.0 + 1e-3
        y = (0.5 + a / 4.0) * np.exp(-((x - mu) / w) ** 2)
    elif kind == "const":
        y = np.full(n, 0.25 + a / 4.0)
    elif kind == "rough":
        y = np.random.RandomState(s).uniform(0.01, 2.0 + a, n)
    elif kind == "wave":
        y = 1.0 + (0.9 * (b % 10) / 10.0) * np.cos((c + 1) * x)
    else:
        raise ValueError(kind)
    return np.maximum(y, 0.0)


def apply_zero_regions(vals, zr):
    n = len(vals)
    for pos, ln in zr:
        st0 = pos * n // 1000
        for i in range(st0, min(n, st0 + 1 + ln * n // 1000)):
            vals[i] = "0"
    return vals


def make_flags(n, fs):
    mode = fs["mode"]
    if mode == "all":
        return ["i"] * n
    if mode == "edges":
        lead = min(fs["lead"] * n // 100, n)
        trail = min(fs["trail"] * n // 100, n - lead)
        f = ["i"] * n
        for i in range(lead):
            f[i] = fs["lf"]
        for i in range(n - trail, n):
            f[i] = fs["tf"]
        return f
    rs = np.random.RandomState(fs["seed"])
    p = fs["pct"] / 100.0
    r = rs.uniform(0, 1, n)
    k = rs.randint(0, 2, n)
    return [("ou"[k[i]] if r[i] < p else "i") for i in range(n)]


def write_table(path, xs, ys, flags, errs=None, deco=0):
    # deco 3..5 = deco 0..2 plus an error column the tool is not asked to use ("x y yerr flag" as written by csg_stat /
    # csg_fmatch / --with-errors runs; the readers document "the last column is the flag")
    if deco >= 3:
        deco -= 3
        if errs is None:
            errs = [f"{0.5 + 0.125 * (i % 5):g}" for i in range(len(xs))]
    with open(path, "w") as f:
        if deco >= 1:
            f.write("# generated table\n")
        for i in range(len(xs)):
            lead = "  " if deco == 2 and i % 3 == 0 else ""
            if errs is None:
                f.write(f"{lead}{xs[i]} {ys[i]} {flags[i]}\n")
            else:
                f.write(f"{lead}{xs[i]} {ys[i]} {errs[i]} {flags[i]}\n")
        if deco == 2:
            f.write("\n")


def parse_table(path, ncol):
    """Strict parse: returns (rows, problem).  rows = list of token lists with exactly ncol tokens."""
    if not os.path.exists(path):
        return None, "output file missing"
    rows = []
    for ln, line in enumerate(open(path, errors="replace")):
        t = line.strip()
        if not t or t[0] in "#@":
            continue
        p = t.split()
        if len(p) != ncol:
            return None, f"line {ln + 1} has {len(p)} columns, expected {ncol}: {line!r}"
        rows.append(p)
    return rows, None


def fl(tok):
    try:
        return float(tok)
    except ValueError:
        return float("nan")


def sh_retry(ctx, args, d):
    """ctx.sh with escalating time-outs: a time-out (-999) on a loaded machine is retried, a persistent one is reported"""
    rc, out = -999, "timeout"
    for to in (120, 400, 1200):
        rc, out = ctx.sh(args, cwd=d, timeout=to)
        if rc != -999:
            break
    return rc, out


def run_perl(ctx, d, script, args):
    return sh_retry(ctx, ["perl", f"{S}/{script}"] + [str(a) for a in args], d)


def common_out(r, key, rc, out, path, ncol, xs, want_flags=None, check_x=True):
    """exit status, well-formed table, same number of rows, same grid (verbatim), flags.  Returns rows or None."""
    if rc != 0:
        r.fail(f"{key}/nonzero-exit", f"exit {rc}: {out[-800:]}")
        return None
    rows, prob = parse_table(path, ncol)
    if rows is None:
        r.fail(f"{key}/malformed-output", prob + " :: " + out[-300:])
        return None
    if len(rows) != len(xs):
        r.fail(f"{key}/row-count", f"{len(rows)} rows written, {len(xs)} read")
        return None
    if check_x:
        for i, row in enumerate(rows):
            if row[0] != xs[i] and fl(row[0]) != float(xs[i]):
                r.fail(f"{key}/grid-changed", f"row {i}: x={row[0]} expected {xs[i]}")
                return None
    for i, row in enumerate(rows):
        if row[-1] not in ("i", "o", "u"):
            r.fail(f"{key}/bad-flag", f"row {i}: flag {row[-1]!r}")
            return None
        if want_flags is not None and row[-1] != want_flags[i]:
            r.fail(f"{key}/flag", f"row {i} (x={xs[i]}): flag {row[-1]} expected {want_flags[i]}")
            return None
    return rows


def cmp_vals(r, key, got, exp, tol, xs, what="y"):
    got = np.asarray(got, float)
    exp = np.asarray(exp, float)
    tol = np.asarray(tol, float) + 1e-300
    bad = ~(np.abs(got - exp) <= tol)
    if bad.any():
        i = int(np.argmax(bad))
        r.fail(key, f"{what}[{i}] (x={xs[i]}): got {got[i]!r} expected {exp[i]!r} tol {float(np.broadcast_to(tol, got.shape)[i]):.3g}"
                    f" ({int(bad.sum())} of {len(got)} rows differ)")
        return False
    return True


def size_cls(r, n):
    r.cls("n<10" if n < 10 else "n<100" if n < 100 else "n>=100")


# ----------------------------------------------------------------------------------------------------------------------
# strategies
# ----------------------------------------------------------------------------------------------------------------------
def st_n(lo=3, hi=1000):
    return st.one_of(st.integers(lo, min(hi, 14)), st.integers(lo, min(hi, 80)), st.integers(lo, hi))


def st_grid(lo=3, hi=1000, i0lo=-20, i0hi=20):
    return st.fixed_dictionaries(dict(n=st_n(lo, hi), hs=st.integers(0, len(H) - 1), i0=st.integers(i0lo, i0hi)))


SIGNED = ["const", "lin", "quad", "sin", "exp", "lj", "rough", "spike"]
POSITIVE = ["rdf", "gauss", "const", "rough", "wave"]


def st_fn(kinds):
    return st.fixed_dictionaries(dict(kind=st.sampled_from(kinds), a=st.integers(-20, 20), b=st.integers(-20, 20),
                                      c=st.integers(0, 12), s=st.integers(0, 65535)))


st_zr = st.lists(st.tuples(st.integers(0, 999), st.integers(0, 300)), max_size=3)

st_flags = st.one_of(
    st.just(dict(mode="all")),
    st.fixed_dictionaries(dict(mode=st.just("edges"), lead=st.integers(0, 40), trail=st.integers(0, 40),
                               lf=st.sampled_from("ou"), tf=st.sampled_from("ou"))),
    st.fixed_dictionaries(dict(mode=st.just("scatter"), seed=st.integers(0, 65535), pct=st.integers(1, 60))))

st_deco = st.sampled_from([0, 1, 2, 0, 1, 2, 3, 4, 5])


def st_num(lo, hi, den):
    """decimal number k/den as a short string (den a power of ten)"""
    return st.integers(lo, hi).map(lambda k: "%g" % (k / den))


def signed_table(case, key="fn", zkey="zr"):
    g = case["grid"]
    xs = grid_strings(g["n"], g["hs"], g["i0"])
    x = np.array([float(s) for s in xs])
    ys = [fmt(v) for v in eval_signed(case[key], x)]
    if zkey in case:
        ys = apply_zero_regions(ys, case[zkey])
    return xs, x, ys


# ----------------------------------------------------------------------------------------------------------------------
# 1. update_ibi_pot.pl
# ----------------------------------------------------------------------------------------------------------------------
def run_ibi(case, ctx, d):
    r = R()
    g = case["grid"]
    n = g["n"]
    xs = grid_strings(n, g["hs"], g["i0"])
    x = np.array([float(s) for s in xs])
    tg = apply_zero_regions([fmt(v) for v in eval_positive(case["tgt"], x)], case["ztgt"])
    if case["same"]:
        cu = list(tg)
    else:
        cu = apply_zero_regions([fmt(v) for v in eval_positive(case["cur"], x)], case["zcur"])
    pf = make_flags(n, case["pflags"])
    pot = [fmt(v) for v in eval_signed(case["pot"], x)]
    kT = case["kT"]
    write_table(f"{d}/tgt.tab", xs, tg, ["i" if v != "0" else case["zflag"] for v in tg], deco=case["deco"])
    write_table(f"{d}/cur.tab", xs, cu, ["i" if v != "0" else case["zflag"] for v in cu])
    write_table(f"{d}/pot.tab", xs, pot, pf)
    rc, out = run_perl(ctx, d, "update_ibi_pot.pl", ["tgt.tab", "cur.tab", "pot.tab", "out.tab", kT])
    t = np.array([float(v) for v in tg])
    c = np.array([float(v) for v in cu])
    k = float(kT)
    valid = (t > 1e-10) & (c > 1e-10) & np.array([f != "u" for f in pf])
    want_flags = ["i" if v else "o" for v in valid]
    rows = common_out(r, "update_ibi_pot", rc, out, f"{d}/out.tab", 3, xs, want_flags)
    if rows is None:
        return r
    got = np.array([fl(p[1]) for p in rows])
    with np.errstate(all="ignore"):
        dU = np.where(valid, k * np.log(np.where(valid, c, 1.0) / np.where(valid, t, 1.0)), 0.0)
    tol = 1e-14 * np.abs(dU) + 1e-15 * k
    # defined points: dU = kT ln(g_cur/g_tgt), exactly 0 where the two values coincide
    for i in np.nonzero(valid)[0]:
        if cu[i] == tg[i]:
            if got[i] != 0.0:
                return r.fail("update_ibi_pot/not-exactly-zero", f"x={xs[i]} identical g={cu[i]} but dU={got[i]!r}")
        elif not abs(got[i] - dU[i]) <= tol[i]:
            return r.fail("update_ibi_pot/value", f"x={xs[i]} g_cur={cu[i]} g_tgt={tg[i]} kT={kT}: got {got[i]!r} expected {dU[i]!r}")
    # undefined points: last valid value met when walking outward from the maximum of g_cur (0 before any valid one)
    cmax = c.max()
    cands = [int(j) for j in np.nonzero(c == cmax)[0]] if cmax > 0 else [0]
    if len(cands) > 16:  # plateau: first, last and a sample of the tied positions
        cands = sorted(set([cands[0], cands[-1]] + cands[::max(1, len(cands) // 14)]))
    vidx = np.nonzero(valid)[0]
    ambiguous = False
    acc = [set() for _ in range(n)]
    for m in cands:
        val = 0.0
        for i in range(m, n):
            if valid[i]:
                val = float(dU[i])
            else:
                acc[i].add(val)
        val, seen = 0.0, False
        for i in range(m - 1, -1, -1):
            if valid[i]:
                val, seen = float(dU[i]), True
            else:
                acc[i].add(val)  # the script restarts from 0 left of the maximum ...
                if not seen and valid[m]:
                    acc[i].add(float(dU[m]))  # ... a reader of the statement may also expect the value at the maximum
                    ambiguous = True
    for i in np.nonzero(~valid)[0]:
        if not any(abs(got[i] - v) <= 1e-14 * abs(v) + 1e-15 * k for v in acc[i]):
            return r.fail("update_ibi_pot/continuation", f"x={xs[i]} (undefined point): got {got[i]!r}, acceptable {sorted(acc[i])}")
    nu = int((~valid).sum())
    r.nontrivial = nu > 0 and len(vidx) > 0
    size_cls(r, n)
    if case["same"]:
        r.cls("identical-inputs")
    if nu:
        r.cls("has-undefined")
        inner = [i for i in np.nonzero(~valid)[0] if len(vidx) and vidx[0] < i < vidx[-1]]
        if inner:
            r.cls("interior-hole")
    if "u" in pf:
        r.cls("pot-flag-u")
    if ambiguous:
        r.cls("ambiguous-left-of-max-gap")
    if len(cands) > 1:
        r.cls("tied-maximum")
    if not len(vidx):
        r.cls("no-valid-point")
    return r


ST_IBI = st.fixed_dictionaries(dict(
    grid=st_grid(i0lo=0), tgt=st_fn(POSITIVE), cur=st_fn(POSITIVE), same=st.sampled_from([False, False, False, True]),
    ztgt=st_zr, zcur=st_zr, pflags=st_flags, pot=st_fn(SIGNED), kT=st_num(10, 1000, 100), zflag=st.sampled_from("iou"),
    deco=st_deco))


# ----------------------------------------------------------------------------------------------------------------------
# 2. dist_boltzmann_invert.pl
# ----------------------------------------------------------------------------------------------------------------------
def run_boltz(case, ctx, d):
    r = R()
    g = dict(case["grid"])
    typ = case["type"]
    h = hval(g["hs"])
    if typ in ("bond", "angle"):
        g["i0"] = max(1, abs(g["i0"]))  # r > 0 (norm r^2), 0 < theta
    if typ == "angle":
        if (g["i0"] + 2) * h >= 3.14:
            g["hs"] = 3
            h = hval(3)
        g["n"] = max(3, min(g["n"], int(3.14 / h) - g["i0"]))  # theta < pi (norm sin theta > 0)
    if typ == "non-bonded":
        g["i0"] = abs(g["i0"])
    n = g["n"]
    xs = grid_strings(n, g["hs"], g["i0"])
    x = np.array([float(s) for s in xs])
    dist_min = 1e-10 if case["min"] is None else float(case["min"])
    raw = eval_positive(case["fn"], x)
    ys = []
    for i, v in enumerate(raw):
        s = fmt(v)
        if s != "0" and case["min"] is not None and float(s) < 10 * dist_min:
            # never within a factor 10 of the user threshold: clearly below it (min/100) or exactly 0
            s = fmt(dist_min / 100) if i % 2 else "0"
        ys.append(s)
    ys = apply_zero_regions(ys, case["zr"])
    fin = make_flags(n, case["flags"])
    write_table(f"{d}/in.tab", xs, ys, fin, deco=case["deco"])
    args = ["--kbT", case["kT"]]
    if typ != "non-bonded" or case["explicit_type"]:
        args += ["--type", typ]
    if case["min"] is not None:
        args += ["--min", case["min"]]
    rc, out = run_perl(ctx, d, "dist_boltzmann_invert.pl", args + ["in.tab", "out.tab"])
    y = np.array([float(v) for v in ys])
    k = float(case["kT"])
    defined = (y > dist_min) & np.array([f != "u" for f in fin])
    fi = [i for i in range(n) if defined[i] and fin[i] == "i"]
    size_cls(r, n)
    r.cls("type:" + typ)
    # length of the contiguous defined run that contains the first valid point
    run_len = 0
    if fi:
        a = fi[0]
        b = a
        while b + 1 < n and defined[b + 1]:
            b += 1
        while a - 1 >= 0 and defined[a - 1]:
            a -= 1
        run_len = b - a + 1
    if rc != 0:
        if not fi and "are invalid after Boltzmann inversion" in out:
            r.cls("rejected:no-valid-point")
            return r
        if run_len < 10 and "points are valid after Boltzmann inversion" in out:
            r.cls("rejected:fewer-than-10-valid")
            return r
        return r.fail("dist_boltzmann_invert/nonzero-exit", f"exit {rc} with {len(fi)} valid points (run {run_len}): {out[-600:]}")
    if not fi:
        return r.fail("dist_boltzmann_invert/accepts-all-invalid", "no valid point but exit 0")
    want_flags = [(fin[i] if defined[i] else "o") for i in range(n)]
    rows = common_out(r, "dist_boltzmann_invert", rc, out, f"{d}/out.tab", 3, xs, want_flags)
    if rows is None:
        return r
    got = np.array([fl(p[1]) for p in rows])
    if not np.isfinite(got).all():
        i = int(np.argmin(np.isfinite(got)))
        return r.fail("dist_boltzmann_invert/non-finite", f"x={xs[i]}: {rows[i][1]}")
    norm = np.ones(n)
    if typ == "bond":
        norm = x * x
    elif typ == "angle":
        norm = np.sin(x)
    with np.errstate(all="ignore"):
        pot = np.where(defined, -k * np.log(np.where(defined, y, 1.0) / norm), 0.0)
    di = np.nonzero(defined)[0]
    ref = di[int(np.argmin(np.abs(pot[di])))]
    cst = got[ref] - pot[ref]  # the statement allows an additive constant; taken at the point of smallest |F|
    tol = 1e-14 * (np.abs(pot) + abs(pot[ref]) + abs(cst)) + 1e-15 * k
    if not cmp_vals(r, "dist_boltzmann_invert/value", got[di] - cst, pot[di], tol[di], [xs[i] for i in di], "F"):
        return r
    r.cls("constant-is-zero" if abs(cst) <= tol[ref] else "constant-nonzero")
    # undefined runs: continued with a neighbouring value
    i = 0
    nruns = 0
    interior = False
    while i < n:
        if defined[i]:
            i += 1
            continue
        a = i
        while i < n and not defined[i]:
            i += 1
        b = i - 1
        nruns += 1
        cand = []
        if a > 0:
            cand.append(got[a - 1])
        if b < n - 1:
            cand.append(got[b + 1])
        if a > 0 and b < n - 1:
            interior = True
        for j in range(a, b + 1):
            if not any(got[j] == v for v in cand):
                return r.fail("dist_boltzmann_invert/continuation",
                              f"x={xs[j]} undefined (P={ys[j]} flag {fin[j]}): got {got[j]!r}, neighbours of the undefined run {cand}")
    r.nontrivial = nruns > 0
    if nruns:
        r.cls("has-undefined")
    if interior:
        r.cls("interior-hole")
    if case["min"] is not None:
        r.cls("explicit-min")
    if any(f != "i" for f in fin):
        r.cls("input-non-i-flags")
    return r


ST_BOLTZ = st.fixed_dictionaries(dict(
    grid=st.fixed_dictionaries(dict(n=st.one_of(st.integers(3, 14), st.integers(12, 80), st.integers(12, 400), st.integers(12, 1000)),
                                    hs=st.integers(0, len(H) - 1), i0=st.integers(-20, 20))),
    fn=st_fn(POSITIVE), zr=st.lists(st.tuples(st.integers(0, 999), st.integers(0, 150)), max_size=3), flags=st_flags,
    kT=st_num(10, 1000, 100), type=st.sampled_from(["non-bonded", "bond", "angle", "dihedral"]), explicit_type=st.booleans(),
    min=st.sampled_from([None, None, "1e-10", "0.001", "0.01", "0.3"]), deco=st_deco))


# ----------------------------------------------------------------------------------------------------------------------
# 3. table_linearop.pl
# ----------------------------------------------------------------------------------------------------------------------
def run_linearop(case, ctx, d):
    r = R()
    xs, x, ys = signed_table(case)
    n = len(xs)
    fin = make_flags(n, case["flags"])
    we = case["with_errors"]
    es = [fmt(v) for v in eval_positive(case["err"], x)] if we else None
    write_table(f"{d}/in.tab", xs, ys, fin, errs=es, deco=case["deco"])
    a, b = case["a"], case["b"]
    args = []
    if case["withflag"]:
        args += ["--withflag", case["withflag"]]
    if we:
        args += ["--with-errors"]
    if case["on_x"]:
        args += ["--on-x"]
    rc, out = run_perl(ctx, d, "table_linearop.pl", args + ["in.tab", "out.tab", a, b])
    rows = common_out(r, "table_linearop", rc, out, f"{d}/out.tab", 4 if we else 3, xs, fin, check_x=not case["on_x"])
    if rows is None:
        return r
    af, bf = float(a), float(b)
    sel = np.array([(not case["withflag"]) or (f in case["withflag"]) for f in fin])
    y = np.array([float(v) for v in ys])
    gx = np.array([fl(p[0]) for p in rows])
    gy = np.array([fl(p[1]) for p in rows])
    if case["on_x"]:
        ex = np.where(sel, af * x + bf, x)
        if not cmp_vals(r, "table_linearop/on-x", gx, ex, np.where(sel, 1e-14 * (np.abs(af * x) + abs(bf)), 0.0), xs, "x"):
            return r
        if not cmp_vals(r, "table_linearop/on-x-changes-y", gy, y, 0.0, xs):
            return r
    else:
        ey = np.where(sel, af * y + bf, y)
        if not cmp_vals(r, "table_linearop/value", gy, ey, np.where(sel, 1e-14 * (np.abs(af * y) + abs(bf)), 0.0), xs):
            return r
    if we:
        e = np.array([float(v) for v in es])
        ge = np.array([fl(p[2]) for p in rows])
        scaled = sel & (not case["on_x"])
        # sigma(a*y+b) = |a| sigma(y); magnitude first, then the sign (a standard deviation is non-negative)
        if not cmp_vals(r, "table_linearop/error-magnitude", np.abs(ge), np.where(scaled, abs(af) * e, e), 1e-14 * np.abs(af * e), xs, "err"):
            return r
        if (ge < 0).any():
            if "table_linearop/with-errors-negative-sigma" in ctx.known:
                r.cls("excluded-known:negative-sigma")
            else:
                i = int(np.argmax(ge < 0))
                return r.fail("table_linearop/with-errors-negative-sigma",
                              f"a={a}: error column at x={xs[i]} is {ge[i]!r} (input error {es[i]}), expected |a|*err = {abs(af) * e[i]!r}")
    size_cls(r, n)
    r.nontrivial = any(f != "i" for f in fin)
    for o in ("withflag", "with_errors", "on_x"):
        if case[o]:
            r.cls(o)
    if case["withflag"] and not sel.all() and sel.any():
        r.cls("withflag-proper-subset")
    if af < 0:
        r.cls("a<0")
    return r


ST_LINEAROP = st.fixed_dictionaries(dict(
    grid=st_grid(), fn=st_fn(SIGNED), zr=st_zr, flags=st_flags, err=st_fn(["rough", "const", "wave"]),
    a=st_num(-300, 300, 100), b=st_num(-300, 300, 100), withflag=st.sampled_from([None, None, "i", "o", "u", "io", "ou"]),
    with_errors=st.booleans(), on_x=st.sampled_from([False, False, True]), deco=st_deco))


# ----------------------------------------------------------------------------------------------------------------------
# 4. table_combine.pl
# ----------------------------------------------------------------------------------------------------------------------
def run_combine(case, ctx, d):
    r = R()
    xs, x, y1s = signed_table(case, "fn1", "zr1")
    n = len(xs)
    op = case["op"]
    y2s = [fmt(v) for v in eval_signed(case["fn2"], x)]
    if op == "/":
        y2s = [v if v != "0" else "1" for v in y2s]  # division by zero is outside the domain
    f1 = make_flags(n, case["flags"])
    f2 = list(f1)
    if op == "=":
        # decided cases only: identical entries, or entries that differ by far more than the relative error
        rs = np.random.RandomState(case["eqseed"])
        y2s = list(y1s)
        if case["eqmode"] != "same":
            for i in range(n):
                if rs.uniform() < 0.3:
                    v = float(y1s[i])
                    y2s[i] = fmt(v + max(0.5 * abs(v), 1.0))  # |difference| >= 1 and relative difference >= 1/3
    flagmis = case["flagmis"] and n > 0
    if flagmis:
        j = case["eqseed"] % n
        f2[j] = "o" if f1[j] != "o" else "i"
    write_table(f"{d}/a.tab", xs, y1s, f1, deco=case["deco"])
    write_table(f"{d}/b.tab", xs, y2s, f2)
    args = ["--op", op]
    if case["scale"] is not None:
        args += ["--scale", case["scale"]]
    if case["noflags"]:
        args += ["--no-flags"]
    wf = case["withflag"] if not case["noflags"] else None
    if wf:
        args += ["--withflag", wf]
    die = case["die"] and op == "="
    if die:
        args += ["--die"]
    dosum = case["sum"] and not die
    if dosum:
        args += ["--sum"]
    rc, out = run_perl(ctx, d, "table_combine.pl", args + ["a.tab", "b.tab"] + ([] if (die or dosum) else ["out.tab"]))
    size_cls(r, n)
    r.cls("op:" + op)
    if flagmis and not case["noflags"]:
        # flags are checked unless --no-flags is given
        if rc == 0:
            return r.fail("table_combine/flag-mismatch-accepted", f"flags differ at row {case['eqseed'] % n} but exit 0")
        r.cls("flag-mismatch-rejected")
        return r
    a = np.array([float(v) for v in y1s])
    b = np.array([float(v) for v in y2s])
    sc = 1.0 if case["scale"] is None else float(case["scale"])
    sel = np.array([(not wf) or (f in wf) for f in f1])
    with np.errstate(all="ignore"):
        if op == "+":
            v, mag = a + b, np.abs(a) + np.abs(b)
        elif op == "-":
            v, mag = a - b, np.abs(a) + np.abs(b)
        elif op in ("*", "x"):
            v = a * b
            mag = np.abs(v)
        elif op == "/":
            v = a / b
            mag = np.abs(v)
        elif op == "d":
            v, mag = np.abs(a - b), np.abs(a) + np.abs(b)
        elif op == "d2":
            v = (a - b) * (a - b)
            mag = (np.abs(a) + np.abs(b)) ** 2
        else:
            v = np.array([0.0 if y1s[i] == y2s[i] else 1.0 for i in range(n)])
            mag = v
    v = v * sc
    mag = mag * abs(sc)
    if die:
        differ = bool((v[sel] != 0).any())
        if differ != (rc != 0):
            return r.fail("table_combine/die", f"tables {'differ' if differ else 'are equal'} but exit {rc}: {out[-300:]}")
        r.cls("die:" + ("differ" if differ else "equal"))
        r.nontrivial = differ
        return r
    if rc != 0:
        return r.fail("table_combine/nonzero-exit", f"exit {rc}: {out[-600:]}")
    r.nontrivial = any(f != "i" for f in f1)
    if case["scale"] is not None:
        r.cls("scale")
    if case["noflags"]:
        r.cls("no-flags")
    if wf:
        r.cls("withflag")
    if dosum:
        r.cls("sum")
        got = None
        for ln in reversed(out.strip().splitlines()):
            try:
                got = float(ln.strip())
                break
            except ValueError:
                continue
        if got is None:
            return r.fail("table_combine/sum-output", f"no number printed: {out[-300:]}")
        if op == "=":  # only 'no difference <=> 0' is documented
            differ = bool((v[sel] != 0).any())
            if differ != (got != 0):
                return r.fail("table_combine/sum-eq", f"tables {'differ' if differ else 'are equal'} but --sum prints {got!r}")
            return r
        exp = float(np.sum(v[sel]))
        tol = 2.3e-16 * (n + 4) * float(np.sum(np.abs(v[sel]))) + 2e-14 * float(np.sum(mag[sel])) + 1e-300
        if not abs(got - exp) <= tol:
            return r.fail("table_combine/sum", f"--sum --op {op}: got {got!r} expected {exp!r} tol {tol:.3g}")
        return r
    if wf and not sel.all():
        r.cls("withflag-proper-subset")
        if "table_combine/withflag-empty-value" in ctx.known:
            r.cls("excluded-known:withflag-empty-value")
            return r
        rows, prob = parse_table(f"{d}/out.tab", 3)
        if rows is None:
            return r.fail("table_combine/withflag-empty-value",
                          f"--withflag {wf} without --sum writes a table that cannot be read back: {prob}")
    rows = common_out(r, "table_combine", rc, out, f"{d}/out.tab", 3, xs, f1)
    if rows is None:
        return r
    got = np.array([fl(p[1]) for p in rows])
    if op == "=":  # only 'entry equal <=> 0' is documented
        bad = (got[sel] != 0) != (v[sel] != 0)
        if bad.any():
            return r.fail("table_combine/eq-table", f"{int(bad.sum())} entries misclassified by --op =")
        return r
    cmp_vals(r, "table_combine/value", got[sel], v[sel], 2e-14 * mag[sel], [xs[i] for i in np.nonzero(sel)[0]])
    return r


ST_COMBINE = st.fixed_dictionaries(dict(
    grid=st_grid(), fn1=st_fn(SIGNED), fn2=st_fn(SIGNED), zr1=st_zr, flags=st_flags,
    op=st.sampled_from(["+", "-", "*", "/", "d", "d2", "x", "="]), scale=st.one_of(st.none(), st_num(-300, 300, 100)),
    noflags=st.sampled_from([False, False, True]), withflag=st.sampled_from([None, None, None, "i", "o", "iu"]),
    die=st.booleans(), sum=st.sampled_from([False, False, True]), flagmis=st.sampled_from([False] * 7 + [True]),
    eqmode=st.sampled_from(["same", "differ"]), eqseed=st.integers(0, 65535), deco=st_deco))


# ----------------------------------------------------------------------------------------------------------------------
# 5. table_scale.pl
# ----------------------------------------------------------------------------------------------------------------------
def run_scale(case, ctx, d):
    r = R()
    xs, x, ys = signed_table(case)
    n = len(xs)
    fin = make_flags(n, case["flags"])
    write_table(f"{d}/in.tab", xs, ys, fin, deco=case["deco"])
    rc, out = run_perl(ctx, d, "table_scale.pl", ["in.tab", "out.tab", case["p1"], case["p2"]])
    rows = common_out(r, "table_scale", rc, out, f"{d}/out.tab", 3, xs, fin)
    if rows is None:
        return r
    y = np.array([float(v) for v in ys])
    p1, p2 = float(case["p1"]), float(case["p2"])
    t = np.arange(n) / (n - 1.0)
    exp = y * (p1 * (1 - t) + p2 * t)
    tol = 2e-14 * np.abs(y) * (abs(p1) + abs(p2))
    cmp_vals(r, "table_scale/value", [fl(p[1]) for p in rows], exp, tol, xs)
    size_cls(r, n)
    r.nontrivial = any(f != "i" for f in fin) and p1 != p2
    if p1 == p2:
        r.cls("p1==p2")
    return r


ST_SCALE = st.fixed_dictionaries(dict(grid=st_grid(), fn=st_fn(SIGNED), zr=st_zr, flags=st_flags, p1=st_num(-300, 300, 100),
                                      p2=st_num(-300, 300, 100), deco=st_deco))


# ----------------------------------------------------------------------------------------------------------------------
# 6. potential_shift.pl
# ----------------------------------------------------------------------------------------------------------------------
def run_shift(case, ctx, d):
    r = R()
    xs, x, ys = signed_table(case)
    n = len(xs)
    fin = make_flags(n, case["flags"])
    typ = case["type"]
    write_table(f"{d}/in.tab", xs, ys, fin, deco=case["deco"])
    args = [] if typ is None else ["--type", typ]
    rc, out = run_perl(ctx, d, "potential_shift.pl", args + ["in.tab", "out.tab"])
    y = np.array([float(v) for v in ys])
    size_cls(r, n)
    r.cls("type:" + str(typ))
    if typ in (None, "non-bonded"):
        zero = y[-1]
    else:
        vi = [y[i] for i in range(n) if fin[i] == "i"]
        if not vi:
            if rc == 0:
                return r.fail("potential_shift/no-valid-accepted", "no point with flag i but exit 0")
            r.cls("rejected:no-valid-point")
            return r
        zero = min(vi)
        if zero > y.min():
            r.cls("global-min-at-non-i-point")
    rows = common_out(r, "potential_shift", rc, out, f"{d}/out.tab", 3, xs, fin)
    if rows is None:
        return r
    got = np.array([fl(p[1]) for p in rows])
    cmp_vals(r, "potential_shift/value", got, y - zero, 1e-14 * (np.abs(y) + abs(zero)), xs)
    r.nontrivial = any(f != "i" for f in fin) and zero != 0
    return r


ST_SHIFT = st.fixed_dictionaries(dict(grid=st_grid(), fn=st_fn(SIGNED), zr=st_zr, flags=st_flags, deco=st_deco,
                                      type=st.sampled_from([None, "non-bonded", "bond", "angle", "dihedral", "bonded"])))


# ----------------------------------------------------------------------------------------------------------------------
# 7. table_smooth.pl
# ----------------------------------------------------------------------------------------------------------------------
def run_smooth(case, ctx, d):
    r = R()
    xs, x, ys = signed_table(case)
    n = len(xs)
    fin = make_flags(n, case["flags"])
    write_table(f"{d}/in.tab", xs, ys, fin, deco=case["deco"])
    rc, out = run_perl(ctx, d, "table_smooth.pl", ["in.tab", "out.tab"])
    rows = common_out(r, "table_smooth", rc, out, f"{d}/out.tab", 3, xs, fin)
    if rows is None:
        return r
    y = np.array([float(v) for v in ys])
    got = np.array([fl(p[1]) for p in rows])
    size_cls(r, n)
    for i in range(n):
        lo_i, hi_i = max(0, i - 1), min(n - 1, i + 1)
        nb = y[lo_i:hi_i + 1]
        m = np.abs(nb).max()
        if fin[i] != "i":
            if got[i] != y[i]:
                return r.fail("table_smooth/non-i-point-changed", f"x={xs[i]} flag {fin[i]}: {ys[i]} -> {got[i]!r}")
            continue
        if not (nb.min() - 1e-14 * m <= got[i] <= nb.max() + 1e-14 * m):
            return r.fail("table_smooth/outside-local-range", f"x={xs[i]}: {got[i]!r} not in [{nb.min()},{nb.max()}]")
        if 0 < i < n - 1:
            e = 0.25 * y[i - 1] + 0.5 * y[i] + 0.25 * y[i + 1]
            if not abs(got[i] - e) <= 2e-14 * m:
                return r.fail("table_smooth/kernel", f"x={xs[i]}: got {got[i]!r} expected (1/4,1/2,1/4) average {e!r}")
    if len(set(ys)) == 1:
        r.cls("constant-table")
        if not np.all(np.abs(got - y) <= 1e-14 * np.abs(y)):
            return r.fail("table_smooth/constant-changed", "a constant table is not reproduced")
    r.nontrivial = any(f != "i" for f in fin) and len(set(ys)) > 1
    return r


ST_SMOOTH = st.fixed_dictionaries(dict(grid=st_grid(), fn=st_fn(SIGNED), zr=st_zr, flags=st_flags, deco=st_deco))


# ----------------------------------------------------------------------------------------------------------------------
# 8. table_extrapolate.pl
# ----------------------------------------------------------------------------------------------------------------------
def extrap(fn, x0, y0, m, x, C):
    """formulas of the help text; returns (value, magnitude for the tolerance)"""
    if fn == "constant":
        return y0, abs(y0)
    if fn in ("linear", "periodic"):
        return m * (x - x0) + y0, abs(m * (x - x0)) + abs(y0)
    if fn == "quadratic":
        a = m / (2 * C) - x0
        b = y0 - m * m / (4 * C)
        return C * (x + a) ** 2 + b, abs(C) * (abs(x) + abs(x0) + abs(m / (2 * C))) ** 2 + abs(y0) + m * m / abs(4 * C)
    if fn == "exponential":
        a = y0 * math.exp(-m * x0 / y0)
        b = m / y0
        v = a * math.exp(b * x)
        return v, abs(v) * (abs(m * x0 / y0) + abs(b * x) + 8) / 8.0
    if fn == "sasha":
        a = m * m / (4 * y0)
        b = x0 - 2 * y0 / m
        return a * (x - b) ** 2, abs(a) * (abs(x) + abs(x0) + abs(2 * y0 / m)) ** 2
    raise ValueError(fn)


def run_extrapolate(case, ctx, d):
    r = R()
    xs, x, ys = signed_table(case)
    n = len(xs)
    A = case["avg"]
    fn = case["function"]
    region = case["region"]
    # flags: leading non-i run, valid middle of at least A+1 points, trailing non-i run
    if n < A + 1:
        A = n - 1
    room = n - (A + 1)
    lead = min(case["lead"] * n // 100, room)
    trail = min(case["trail"] * n // 100, room - lead)
    fin = [case["lf"]] * lead + ["i"] * (n - lead - trail) + [case["tf"]] * trail
    if case["hole"] and n - lead - trail > 2 * A + 3:
        fin[lead + A + 1] = "o"  # interior non-i point outside the gradient stencils: must stay untouched
    y = np.array([float(v) for v in ys])
    first, last = lead, n - 1 - trail
    do_left = region in (None, "left", "leftright")
    do_right = region in (None, "right", "leftright")
    C = 10000.0 if case["curv"] is None else float(case["curv"])
    size_cls(r, n)
    r.cls("function:" + str(fn))
    # domain of the formulas: y0 != 0 (exponential, sasha), m != 0 (sasha)
    f_eff = fn or "quadratic"
    mL = 0.0 if f_eff == "constant" else (y[first + A] - y[first]) / (x[first + A] - x[first])
    mR = 0.0 if f_eff == "constant" else (y[last] - y[last - A]) / (x[last] - x[last - A])
    for side, on, y0, m, cnt in (("L", do_left, y[first], mL, lead), ("R", do_right, y[last], mR, trail)):
        if on and cnt > 0:
            if f_eff in ("exponential", "sasha") and y0 == 0:
                r.discard = True
                return r
            if f_eff == "sasha" and m == 0:
                r.discard = True
                return r
            if f_eff == "exponential" and (abs(m / y0) * max(abs(x[0]), abs(x[-1])) > 200):
                r.discard = True
                return r
    write_table(f"{d}/in.tab", xs, ys, fin, deco=case["deco"])
    args = []
    if case["avg_explicit"] or A != 3:
        args += ["--avgpoints", A]
    if fn is not None:
        args += ["--function", fn]
    if region is not None:
        args += ["--region", region]
    if case["curv"] is not None:
        args += ["--curvature", case["curv"]]
    if case["noflagupdate"]:
        args += ["--no-flagupdate"]
    rc, out = run_perl(ctx, d, "table_extrapolate.pl", args + ["in.tab", "out.tab"])
    exp = y.copy()
    mag = np.zeros(n)
    wf = list(fin)
    changed = np.zeros(n, bool)
    if do_left:
        for i in range(first):
            exp[i], mag[i] = extrap(f_eff, x[first], y[first], mL, x[i], C)
            changed[i] = True
            if not case["noflagupdate"]:
                wf[i] = "i"
    if do_right:
        m = mR
        if f_eff == "periodic":
            # 'extrapolates right side to end at first point of left side' (the first point after the left extrapolation)
            m = 0.0 if last == n - 1 else (exp[0] - y[last]) / (x[n - 1] - x[last])
        for i in range(last + 1, n):
            exp[i], mag[i] = extrap(f_eff, x[last], y[last], m, x[i], C)
            if f_eff == "periodic":
                mag[i] += abs(exp[0])
            changed[i] = True
            if not case["noflagupdate"]:
                wf[i] = "i"
    rows = common_out(r, "table_extrapolate", rc, out, f"{d}/out.tab", 3, xs, wf)
    if rows is None:
        return r
    got = np.array([fl(p[1]) for p in rows])
    if not cmp_vals(r, "table_extrapolate/untouched-point-changed", got[~changed], y[~changed], 0.0, [xs[i] for i in np.nonzero(~changed)[0]]):
        return r
    if not cmp_vals(r, f"table_extrapolate/{f_eff}", got[changed], exp[changed], 4e-14 * mag[changed], [xs[i] for i in np.nonzero(changed)[0]]):
        return r
    if f_eff == "periodic" and do_right and trail > 0:
        r.cls("periodic-closes")
        if not abs(got[-1] - got[0]) <= 4e-14 * (mag[-1] + abs(got[0])):
            return r.fail("table_extrapolate/periodic-not-closed", f"last {got[-1]!r} != first {got[0]!r}")
    r.nontrivial = bool(changed.any())
    if case["noflagupdate"]:
        r.cls("no-flagupdate")
    r.cls("region:" + str(region))
    if lead and do_left:
        r.cls("left-extrapolated")
    if trail and do_right:
        r.cls("right-extrapolated")
    return r


ST_EXTRAP = st.fixed_dictionaries(dict(
    grid=st_grid(lo=3), fn=st_fn(["const", "lin", "quad", "sin", "exp", "lj", "rough"]), flags=st.just(dict(mode="all")),
    avg=st.integers(1, 6), avg_explicit=st.booleans(), lead=st.integers(0, 45), trail=st.integers(0, 45),
    lf=st.sampled_from("ou"), tf=st.sampled_from("ou"), hole=st.booleans(),
    function=st.sampled_from([None, "constant", "linear", "quadratic", "exponential", "sasha", "periodic"]),
    region=st.sampled_from([None, "left", "right", "leftright"]),
    curv=st.sampled_from([None, None, "1", "100", "-50", "2.5", "10000"]), noflagupdate=st.sampled_from([False, False, True]),
    deco=st_deco))


# ----------------------------------------------------------------------------------------------------------------------
# 9. table_integrate.pl (trapezoid rule on the table, options)
# ----------------------------------------------------------------------------------------------------------------------
def run_integrate(case, ctx, d):
    r = R()
    g = dict(case["grid"])
    mode = case["mode"]
    if mode in ("withS", "sphere"):
        g["i0"] = max(1, abs(g["i0"]))  # r > 0
    case = dict(case, grid=g)
    xs, x, ys = signed_table(case)
    n = len(xs)
    fin = make_flags(n, case["flags"])
    we = mode == "errors"
    es = [fmt(v) for v in eval_positive(case["err"], x)] if we else None
    write_table(f"{d}/in.tab", xs, ys, fin, errs=es, deco=case["deco"])
    args = []
    if we:
        args += ["--with-errors"]
    if mode == "withS":
        args += ["--with-S", "--kbT", case["kT"]]
    if mode == "sphere":
        args += ["--sphere"]
    frm = case["from"]
    if frm is not None:
        args += ["--from", frm]
    rc, out = run_perl(ctx, d, "table_integrate.pl", args + ["in.tab", "out.tab"])
    rows = common_out(r, "table_integrate", rc, out, f"{d}/out.tab", 4 if we else 3, xs, fin)
    if rows is None:
        return r
    f = np.array([float(v) for v in ys])
    fmag = np.abs(f)  # magnitude of the operands (the rounding of f_i + f_{i+1} is relative to these, not to the sum)
    if mode == "withS":
        fmag = fmag + np.abs(2 * float(case["kT"]) / x)
        f = f + 2 * float(case["kT"]) / x
    if mode == "sphere":
        f = f * x * x
        fmag = fmag * x * x
    dx = np.diff(x)
    terms = 0.5 * dx * (f[1:] + f[:-1])
    tmag = 0.5 * np.abs(dx) * (fmag[1:] + fmag[:-1])
    left = frm == "left"
    if left:
        F = np.concatenate([[0.0], np.cumsum(terms)])
        acc = np.concatenate([[0.0], np.cumsum(tmag)])
    else:  # zero point at the right end: F(x_i) = -int_{x_i}^{x_max} f
        F = -np.concatenate([np.cumsum(terms[::-1])[::-1], [0.0]])
        acc = np.concatenate([np.cumsum(tmag[::-1])[::-1], [0.0]])
    got = np.array([fl(p[1]) for p in rows])
    tol = 2.3e-16 * (n + 8) * acc + 1e-14 * np.abs(F)
    if not cmp_vals(r, "table_integrate/value", got, F, tol, xs, "F"):
        return r
    if we:
        e = np.array([float(v) for v in es])
        ge = np.array([fl(p[2]) for p in rows])
        # independent errors, trapezoid weights: Var F_j = (h/2 s_a)^2 + sum_inner (h s_k)^2 + (h/2 s_j)^2, zero at the zero point
        hw = np.zeros(n)
        hw[:-1] += 0.5 * dx
        hw[1:] += 0.5 * dx
        var = np.zeros(n)
        if left:
            for j in range(1, n):
                var[j] = (0.5 * dx[0] * e[0]) ** 2 + np.sum((hw[1:j] * e[1:j]) ** 2) + (0.5 * dx[j - 1] * e[j]) ** 2
            z = 0
        else:
            for j in range(n - 2, -1, -1):
                var[j] = (0.5 * dx[-1] * e[-1]) ** 2 + np.sum((hw[j + 1:n - 1] * e[j + 1:n - 1]) ** 2) + (0.5 * dx[j] * e[j]) ** 2
            z = n - 1
        sig = np.sqrt(var)
        idx = [j for j in range(n) if j != z]
        zero_alt = 0.5 * (dx[0] if left else dx[-1]) * e[z]  # the script attributes half a step to the zero point itself
        if not (abs(ge[z]) <= 1e-300 or abs(ge[z] - zero_alt) <= 1e-12 * zero_alt):
            return r.fail("table_integrate/error-at-zero-point", f"x={xs[z]}: error {ge[z]!r}, expected 0 (or {zero_alt!r})")
        key = "table_integrate/with-errors-from-left" if left else "table_integrate/with-errors"
        if key in ctx.known:
            r.cls("excluded-known:" + key.split("/")[1])
        elif not cmp_vals(r, key, ge[idx], sig[idx], 1e-12 * sig[idx] + 1e-300, [xs[j] for j in idx], "err"):
            return r
    size_cls(r, n)
    r.cls("mode:" + mode)
    r.cls("from:" + str(frm))
    r.nontrivial = any(fl_ != "i" for fl_ in fin) and bool(np.any(f != 0))
    return r


ST_INTEGRATE = st.fixed_dictionaries(dict(
    grid=st_grid(), fn=st_fn(SIGNED), zr=st_zr, flags=st_flags, err=st_fn(["rough", "const", "wave"]),
    mode=st.sampled_from(["plain", "plain", "withS", "sphere", "errors"]), kT=st_num(10, 1000, 100),
    **{"from": st.sampled_from([None, "left", "right"])}, deco=st_deco))


# ----------------------------------------------------------------------------------------------------------------------
# 10. integration o differentiation (table_integrate.pl and csg_resample --derivative)
# ----------------------------------------------------------------------------------------------------------------------
def smooth_eval(sp, x):
    c0, c1, c2, c3 = [v / 4.0 for v in sp["poly"]]
    A, w, ph = sp["A"] / 4.0, sp["w"] / 2.0, sp["ph"] / 4.0
    B, k = sp["B"] / 4.0, sp["k"] / 4.0
    return c0 + c1 * x + c2 * x * x + c3 * x ** 3 + A * np.sin(w * x + ph) + B * np.exp(k * x)


def smooth_bounds(sp, a, b):
    """max |f'|, |f''|, |f'''| on [a,b] (triangle inequality over the components)"""
    c0, c1, c2, c3 = [abs(v) / 4.0 for v in sp["poly"]]
    A, w = abs(sp["A"]) / 4.0, sp["w"] / 2.0
    B, k = abs(sp["B"]) / 4.0, sp["k"] / 4.0
    X = max(abs(a), abs(b))
    E = math.exp(max(k * a, k * b))
    M1 = c1 + 2 * c2 * X + 3 * c3 * X * X + A * w + B * abs(k) * E
    M2 = 2 * c2 + 6 * c3 * X + A * w * w + B * k * k * E
    M3 = 6 * c3 + A * w ** 3 + B * abs(k) ** 3 * E
    return M1, M2, M3


def run_intdiff(case, ctx, d):
    r = R()
    g = dict(case["grid"])
    h = hval(g["hs"])
    g["n"] = max(5, min(g["n"], int(4.0 / h) - g["i0"]))  # x <= 4 (csg_resample matches flags with |dx| < 1e-12)
    n = g["n"]
    xs = grid_strings(n, g["hs"], g["i0"])
    x = np.array([float(s) for s in xs])
    sp = case["sp"]
    fs = ["%.10g" % v for v in smooth_eval(sp, x)]
    f = np.array([float(v) for v in fs])
    fin = make_flags(n, case["flags"])
    typ = case["type"]
    frm = case["from"]
    M1, M2, M3 = smooth_bounds(sp, x[0], x[-1])
    fmax = float(np.abs(f).max())
    dfl = 5e-10 * fmax  # rounding of the written input values
    gridarg = f"{xs[0]}:{hstr(g['hs'])}:{xs[-1]}"
    write_table(f"{d}/f.tab", xs, fs, fin)
    size_cls(r, n)
    r.cls("type:" + typ)
    r.cls("order:" + case["order"])

    def check_resampled(path, what):
        rows, prob = parse_table(path, 3)
        if rows is None:
            r.fail("csg_resample/malformed-output", f"{what}: {prob}")
            return None
        if len(rows) != n:
            r.fail("csg_resample/row-count", f"{what}: {len(rows)} rows for grid {gridarg}, expected {n}")
            return None
        for i, row in enumerate(rows):
            if not abs(fl(row[0]) - x[i]) <= 1e-9 * max(abs(x[i]), h):
                r.fail("csg_resample/grid", f"{what} row {i}: x={row[0]} expected {xs[i]}")
                return None
            if row[2] != fin[i]:
                r.fail("csg_resample/flag", f"{what} row {i} x={xs[i]}: flag {row[2]} expected {fin[i]}")
                return None
        return np.array([fl(p[1]) for p in rows])

    if case["order"] == "diff-of-int":
        rc, out = run_perl(ctx, d, "table_integrate.pl", ["--from", frm, "f.tab", "F.tab"])
        rowsF = common_out(r, "table_integrate", rc, out, f"{d}/F.tab", 3, xs, fin)
        if rowsF is None:
            return r
        F = np.array([fl(p[1]) for p in rowsF])
        Fmax = float(np.abs(F).max())
        rc, out = sh_retry(ctx, ["csg_resample", "--in", "F.tab", "--out", "G.tab", "--grid", gridarg, "--derivative", "D.tab",
                                 "--type", typ], d)
        if rc != 0:
            return r.fail("csg_resample/nonzero-exit", f"exit {rc}: {out[-600:]}")
        G = check_resampled(f"{d}/G.tab", "out")
        if G is None:
            return r
        D = check_resampled(f"{d}/D.tab", "derivative")
        if D is None:
            return r
        # resampling onto the same grid reproduces the table (splines interpolate)
        if not cmp_vals(r, "csg_resample/same-grid-not-identity", G, F, 1e-9 * Fmax + 1e-12, xs, "F"):
            return r
        # derivative of the trapezoid integral: knot slopes of the interpolant, see the derivation in the module notes
        if typ == "cubic":
            disc = np.full(n, max(0.5 * h * M1, 0.5 * h * h * M2))
        elif typ == "linear":
            disc = np.full(n, 0.5 * h * M1)
        else:
            disc = np.full(n, 0.5 * h * M1)
            disc[:2] = 3 * h * M1
            disc[-2:] = 3 * h * M1
        slack = 6 * (dfl + 1e-14 * Fmax / h) + 1e-9 * np.abs(D) + 1e-12
        bound = disc + slack
        if not cmp_vals(r, "integrate-differentiate/not-inverse", D, f, bound, xs, "d/dx int f"):
            return r
    else:
        rc, out = sh_retry(ctx, ["csg_resample", "--in", "f.tab", "--out", "G.tab", "--grid", gridarg, "--derivative", "D.tab",
                                 "--type", typ], d)
        if rc != 0:
            return r.fail("csg_resample/nonzero-exit", f"exit {rc}: {out[-600:]}")
        G = check_resampled(f"{d}/G.tab", "out")
        if G is None:
            return r
        D = check_resampled(f"{d}/D.tab", "derivative")
        if D is None:
            return r
        if not cmp_vals(r, "csg_resample/same-grid-not-identity", G, f, 1e-9 * fmax + 1e-12, xs, "f"):
            return r
        rc, out = run_perl(ctx, d, "table_integrate.pl", ["--from", frm, "D.tab", "F.tab"])
        rowsD, _ = parse_table(f"{d}/D.tab", 3)
        rowsF = common_out(r, "table_integrate", rc, out, f"{d}/F.tab", 3, [p[0] for p in rowsD], fin)
        if rowsF is None:
            return r
        F = np.array([fl(p[1]) for p in rowsF])
        ref = f - (f[0] if frm == "left" else f[-1])
        L = np.abs(x - (x[0] if frm == "left" else x[-1]))
        Dmax = float(np.abs(D).max())
        disc = L * (3 * h * M2 + 2.1 * h * h * M3)
        slack = L * (6 * dfl / h + 1e-9 * Dmax) + 2 * dfl + 1e-12
        bound = disc + slack
        if not cmp_vals(r, "differentiate-integrate/not-inverse", F, ref, bound, xs, "int d/dx f"):
            return r
    spread = float(f.max() - f.min())
    tight = float(np.max(bound)) <= 0.2 * spread
    r.nontrivial = tight and M1 > 0
    r.cls("discriminating-bound" if tight else "loose-bound")
    if any(v != "i" for v in fin):
        r.cls("non-i-flags")
    return r


ST_SMOOTHFN = st.fixed_dictionaries(dict(poly=st.lists(st.integers(-8, 8), min_size=4, max_size=4), A=st.integers(0, 8),
                                         w=st.integers(1, 12), ph=st.integers(0, 25), B=st.integers(-4, 4), k=st.integers(-6, 4)))
ST_INTDIFF = st.fixed_dictionaries(dict(
    grid=st.fixed_dictionaries(dict(n=st.one_of(st.integers(5, 40), st.integers(5, 1000)), hs=st.integers(0, len(H) - 1),
                                    i0=st.integers(0, 20))),
    sp=ST_SMOOTHFN, flags=st.one_of(st.just(dict(mode="all")), st.fixed_dictionaries(dict(
        mode=st.just("edges"), lead=st.integers(0, 40), trail=st.integers(0, 40), lf=st.sampled_from("ou"), tf=st.sampled_from("ou")))),
    type=st.sampled_from(["cubic", "akima", "linear"]), order=st.sampled_from(["diff-of-int", "int-of-diff"]),
    **{"from": st.sampled_from(["left", "right"])}))


# ----------------------------------------------------------------------------------------------------------------------
# 11. csg_call / csg_table dispatch
# ----------------------------------------------------------------------------------------------------------------------
DISPATCH = {
    "table integrate": ("table_integrate.pl", ["in.tab", "out.tab"]),
    "table extrapolate": ("table_extrapolate.pl", ["--function", "linear", "in.tab", "out.tab"]),
    "table smooth": ("table_smooth.pl", ["in.tab", "out.tab"]),
    "table linearop": ("table_linearop.pl", ["in.tab", "out.tab", "-2", "0.5"]),
    "table combine": ("table_combine.pl", ["--op", "+", "in.tab", "in.tab", "out.tab"]),
    "table scale": ("table_scale.pl", ["in.tab", "out.tab", "1", "2"]),
    "potential shift": ("potential_shift.pl", ["--type", "bond", "in.tab", "out.tab"]),
    "dist invert": ("dist_boltzmann_invert.pl", None),
    "update ibi_pot": ("update_ibi_pot.pl", None),
    "table compare": ("table_combine.pl --die --op =", None),
}


def run_dispatch(case, ctx, d):
    r = R()
    key = case["key"]
    script, args = DISPATCH[key]
    k1, k2 = key.split()
    rc, out = sh_retry(ctx, ["csg_call", "--show", k1, k2], d)
    if rc != 0:
        return r.fail("csg_call/show-fails", f"csg_call --show {key}: exit {rc}: {out[-400:]}")
    got = out.strip().splitlines()[-1].strip() if out.strip() else ""
    if got != f"{S}/{script}":
        return r.fail("csg_call/dispatch", f"'{key}' resolves to {got!r}, expected {S}/{script}")
    r.cls("key:" + key)
    if args is None:
        return r
    xs, x, ys = signed_table(case)
    n = len(xs)
    lead = n // 4
    fin = ["o"] * lead + ["i"] * (n - lead)
    write_table(f"{d}/in.tab", xs, ys, fin)
    rc1, out1 = sh_retry(ctx, ["csg_call", k1, k2] + args, d)
    a = [ln for ln in open(f"{d}/out.tab")] if os.path.exists(f"{d}/out.tab") else None
    if os.path.exists(f"{d}/out.tab"):
        os.remove(f"{d}/out.tab")
    rc2, out2 = run_perl(ctx, d, script, args)
    b = [ln for ln in open(f"{d}/out.tab")] if os.path.exists(f"{d}/out.tab") else None
    if (rc1 == 0) != (rc2 == 0) or a != b:
        return r.fail("csg_call/run-differs", f"csg_call {key}: exit {rc1} vs direct exit {rc2}; outputs equal: {a == b}; {out1[-300:]}")
    r.nontrivial = rc1 == 0 and a is not None
    r.cls("executed")
    return r


ST_DISPATCH = st.fixed_dictionaries(dict(key=st.sampled_from(sorted(DISPATCH)), grid=st_grid(lo=8, hi=40, i0lo=1),
                                         fn=st_fn(["lin", "quad", "sin", "exp"])))


def _with_layout_class(run):
    def wrapped(case, ctx, d):
        r = run(case, ctx, d)
        if isinstance(case, dict) and case.get("deco", 0) >= 3:
            r.cls("input-with-error-column-not-asked-for")
        return r
    return wrapped


SUBS = [
    dict(name="update_ibi_pot", strategy=ST_IBI, run=run_ibi, share=1.6),
    dict(name="dist_boltzmann_invert", strategy=ST_BOLTZ, run=run_boltz, share=1.4),
    dict(name="table_linearop", strategy=ST_LINEAROP, run=run_linearop, share=1.0),
    dict(name="table_combine", strategy=ST_COMBINE, run=run_combine, share=1.6),
    dict(name="table_scale", strategy=ST_SCALE, run=run_scale, share=0.5),
    dict(name="potential_shift", strategy=ST_SHIFT, run=run_shift, share=0.7),
    dict(name="table_smooth", strategy=ST_SMOOTH, run=run_smooth, share=0.7),
    dict(name="table_extrapolate", strategy=ST_EXTRAP, run=run_extrapolate, share=1.6),
    dict(name="table_integrate", strategy=ST_INTEGRATE, run=run_integrate, share=1.2),
    dict(name="integrate_differentiate", strategy=ST_INTDIFF, run=run_intdiff, share=1.0),
    dict(name="csg_call_dispatch", strategy=ST_DISPATCH, run=run_dispatch, share=0.15),
]
for _s in SUBS:
    _s["run"] = _with_layout_class(_s["run"])
