"""Build named harnesses (development aid): python3-vt vv/build_h.py h_c12 ..."""
import glob
import importlib
import sys

sys.path.insert(0, "/verif")
from vv import core  # noqa: E402

for f in sorted(glob.glob("/verif/vv/props/c*.py")):
    importlib.import_module("vv.props." + f.split("/")[-1][:-3])
core.build_repo()
core.build_harness(sys.argv[1:])
print("built", sys.argv[1:])
