#!/bin/bash
# Pinned test suite on a guard-OFF build of /repo's working tree (scratch build dir, removed afterwards).
set -e
B=$(mktemp -d /verif/build/baseline-off.XXXXXX)
trap 'rm -rf "$B"' EXIT
cmake -G Ninja -S /repo -B "$B" -DCMAKE_BUILD_TYPE=RelWithDebInfo -DCMAKE_CXX_FLAGS="-Wno-error" -DBUILD_TESTING=ON -DBUILD_XTP=OFF -DBUILD_MANPAGES=OFF > "$B/cmake.log" 2>&1 || { cat "$B/cmake.log"; exit 2; }
cmake --build "$B" > "$B/build.log" 2>&1 || { tail -50 "$B/build.log"; exit 2; }
ctest --test-dir "$B" -j8 --timeout 900 -E '^memory_test' --output-junit "$B/junit.xml" | tail -15
