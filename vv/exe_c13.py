"""C13, executable level: csg_density --axis x|y|z on UNWRAPPED coordinates.

The ASan/assert-enabled csg_density is run on a pure-XML topology + a .gro trajectory written here (GRO fixes three
decimals; every coordinate is a multiple of 0.001 nm and the oracle uses the value as printed).  Beads sit inside the
box, many boxes away (+-1, +-2, +-50, +-100 periods), exactly at -L, -2L, ... and on bin edges.

Oracle (numpy-free, exact rational arithmetic with fractions.Fraction, written from the help text "mass/number density
distribution along a box axis" and the HistogramNew class documentation: periodic bin-centred histogram of nbin =
floor(L/step) bins of width L/nbin):
    k = floor(x / (L/nbin) + 1/2) mod nbin        (never discarded: the axis is periodic)
    density_i * area * (L/nbin) * frames / scale = sum of the weights of the beads in bin i
    sum_i density_i * area * (L/nbin) * frames = total weight * scale
Ambiguity band 1e-9 + 2e-15*|q| around bin edges (the tool evaluates q in double): either neighbour accepted.
The run must be clean under ASan/UBSan/assert.
"""
import math
import os
from fractions import Fraction

from hypothesis import strategies as st

from vv import pyx

KEY_WRAP = "HistogramNew::Process/periodic-wrap-negative-multiple-of-nbins"

MASSES = [1.0, 1.5, 2.0, 12.011]
STEPS = ["0.125", "0.25", "0.5", "0.1", "0.3", "0.05", "0.7", "L", "L/2", "L/3"]


@st.composite
def cases(draw):
    L = [draw(st.integers(8, 40)) / 8.0 for _ in range(3)]
    axis = draw(st.sampled_from(["x", "y", "z"]))
    ax = "xyz".index(axis)
    step = draw(st.sampled_from(STEPS))
    nmols = draw(st.integers(1, 3))
    nb = draw(st.integers(1, 3))
    masses = [draw(st.sampled_from(MASSES)) for _ in range(nb)]
    nframes = draw(st.integers(1, 3))
    La = L[ax]
    # numeric step as the tool will see it
    if step == "L":
        stepv = La
    elif step == "L/2":
        stepv = La / 2
    elif step == "L/3":
        stepv = round(La / 3, 6)
    else:
        stepv = float(step)
    if stepv > La:
        stepv = La
    nbin = int(math.floor(La / stepv))
    sh = La / nbin
    frames = []
    for _ in range(nframes):
        fr = []
        for _ in range(nmols * nb):
            kind = draw(st.integers(0, 7))
            if kind <= 1:  # inside the box
                x = draw(st.integers(0, int(La * 1000) - 1)) / 1000.0
            elif kind == 2:  # some periods away, arbitrary phase
                x = draw(st.integers(0, int(La * 1000) - 1)) / 1000.0 + draw(st.sampled_from([-100, -50, -2, -1, 1, 2, 50, 100])) * La
            elif kind == 3:  # exactly a negative multiple of the box length
                x = -draw(st.integers(1, 6)) * La
            elif kind == 4:  # exactly a positive multiple
                x = draw(st.integers(1, 6)) * La
            elif kind == 5:  # bin centre k*step_h in some period
                x = draw(st.integers(-3 * nbin, 3 * nbin)) * sh
            elif kind == 6:  # bin edge (k+1/2)*step_h
                x = (draw(st.integers(-3 * nbin, 3 * nbin)) + 0.5) * sh
            else:  # just left / right of the origin
                x = draw(st.integers(-600, 600)) / 1000.0
            x = max(-990.0, min(990.0, x))
            pos = [draw(st.integers(-10000, 10000)) / 1000.0 for _ in range(3)]
            pos[ax] = float("%.3f" % x)
            fr.append(pos)
        frames.append(fr)
    return dict(L=L, axis=axis, step=repr(stepv), nmols=nmols, masses=masses, frames=frames,
                type=draw(st.sampled_from(["number", "mass"])), scale=draw(st.sampled_from([1.0, 2.5, 0.5])))


def _write_inputs(case, d, frames):
    nb = len(case["masses"])
    with open(os.path.join(d, "top.xml"), "w") as f:
        f.write('<topology>\n <molecules>\n  <molecule name="M" nmols="%d" nbeads="%d">\n' % (case["nmols"], nb))
        for i, m in enumerate(case["masses"]):
            f.write('   <bead name="B%d" type="T%d" mass="%r" q="0"/>\n' % (i, i, m))
        f.write("  </molecule>\n </molecules>\n</topology>\n")
    with open(os.path.join(d, "traj.gro"), "w") as f:
        for fr in frames:
            f.write("generated\n%5d\n" % len(fr))
            for i, p in enumerate(fr):
                f.write("%5d%-5s%5s%5d%8.3f%8.3f%8.3f\n" % (1 + i // nb, "M", "B%d" % (i % nb), (i + 1) % 100000, p[0], p[1], p[2]))
            f.write("%10.5f%10.5f%10.5f\n" % tuple(case["L"]))


def _mimic_index(x, sh):
    return math.floor(x / sh + 0.5)


def run(case, ctx, d):
    r = pyx.R()
    L = case["L"]
    ax = "xyz".index(case["axis"])
    La = L[ax]
    stepv = float(case["step"])
    if not (0 < stepv <= La):
        r.discard = True
        return r
    nbin = int(math.floor(La / stepv))
    if nbin < 1:
        r.discard = True
        return r
    sh = La / nbin
    area = 1.0
    for i in range(3):
        if i != ax:
            area *= L[i]
    nb = len(case["masses"])
    frames = [[[float("%.3f" % c) for c in p] for p in fr] for fr in case["frames"]]
    # death prediction from the tool's own double expression (not an oracle); HistogramNew forces step=1 for one bin
    sh_impl = 1.0 if nbin == 1 else sh
    predicted = []
    for fr in frames:
        for p in fr:
            i = _mimic_index(p[ax], sh_impl)
            if i < 0 and (-i) % nbin == 0:
                predicted.append(p)
    if predicted and KEY_WRAP in ctx.known:
        r.cls("excluded-known:" + KEY_WRAP)
        for p in predicted:
            for _ in range(8):
                if nbin == 1:
                    p[ax] = float("%.3f" % (p[ax] - La * math.floor(p[ax] / La) + 0.001))
                else:
                    p[ax] = float("%.3f" % (p[ax] + sh))
                i = _mimic_index(p[ax], sh_impl)
                if not (i < 0 and (-i) % nbin == 0):
                    break
            else:
                r.discard = True
                return r
        predicted = []
    _write_inputs(case, d, frames)
    rc, out = ctx.sh(["csg_density", "--top", "top.xml", "--trj", "traj.gro", "--axis", case["axis"], "--step", case["step"],
                      "--out", "dens.out", "--type", case["type"], "--scale", repr(case["scale"])], cwd=d, timeout=900)
    if rc == -999:  # wall-clock timeout of the tool on an overloaded machine: inconclusive, never a verdict
        r.discard = True
        return r
    r.cls("axis:" + case["axis"])
    r.cls("nbin=1" if nbin == 1 else ("nbin<=4" if nbin <= 4 else "nbin>4"))
    if pyx.sanitizer_report(out) or rc != 0:
        why = [ln for ln in out.splitlines() if "runtime error" in ln or "Assertion" in ln or "AddressSanitizer" in ln or "what()" in ln]
        if predicted:
            return r.fail(KEY_WRAP, "csg_density --axis %s, box %r, step %s (nbin=%d): bead at %s=%r (a negative multiple of the bin "
                          "count away) kills the tool: rc=%d %s" % (case["axis"], L, case["step"], nbin, case["axis"], predicted[0][ax], rc,
                                                                     (why or [out[-300:]])[0][:400]))
        return r.fail("csg_density/abort", "rc=%d: %s" % (rc, (why or [out[-600:]])[0][:600]))
    rows = []
    for ln in open(os.path.join(d, "dens.out")):
        if ln.startswith("#") or not ln.strip():
            continue
        t = ln.split()
        rows.append((float(t[0]), float(t[1])))
    if len(rows) != nbin:
        return r.fail("csg_density/nbin", "output has %d rows, floor(L/step) = floor(%r/%r) = %d" % (len(rows), La, stepv, nbin))
    # reference binning, exact rationals
    lo = [Fraction(0)] * nbin
    amb = [Fraction(0)] * nbin
    total = Fraction(0)
    nt = False
    shq = Fraction(La) / nbin
    for fr in frames:
        for bi, p in enumerate(fr):
            w = Fraction(case["masses"][bi % nb]) if case["type"] == "mass" else Fraction(1)
            total += w
            q = Fraction(p[ax]) / shq + Fraction(1, 2)
            k = math.floor(q)
            frac = q - k
            band = Fraction(1, 10 ** 9) + Fraction(2, 10 ** 15) * abs(q)
            outside = not (0 <= k < nbin)
            if frac < band or frac > 1 - band:
                k2 = k - 1 if frac < band else k + 1
                r.cls("ambiguous-edge")
                if k % nbin == k2 % nbin:
                    lo[k % nbin] += w
                else:
                    amb[k % nbin] += w
                    amb[k2 % nbin] += w
            else:
                lo[k % nbin] += w
                if outside:
                    nt = True
                    r.cls("outside-box")
                    if abs(k) >= 20 * nbin:
                        r.cls("many-boxes-away")
    r.nontrivial = nt
    nfr = len(frames)
    fac = nfr * area * sh / case["scale"]
    s = 0.0
    for i, (x, y) in enumerate(rows):
        if abs(x - i * sh) > 1e-9 * (1 + abs(i * sh)):
            return r.fail("csg_density/grid", "row %d: x=%r, expected %r" % (i, x, i * sh))
        cnt = y * fac
        s += cnt
        tol = 2e-9 * (1 + float(lo[i] + amb[i]))
        if cnt < float(lo[i]) - tol or cnt > float(lo[i] + amb[i]) + tol:
            return r.fail("csg_density/bin", "bin %d (x=%r): density*area*step*frames/scale = %r, weight of the beads belonging there %r..%r "
                          "(box %r, axis %s, nbin %d)" % (i, x, cnt, float(lo[i]), float(lo[i] + amb[i]), L, case["axis"], nbin))
    if abs(s - float(total)) > 2e-9 * nbin * (1 + float(total)):
        return r.fail("csg_density/conservation", "sum density*area*step*frames/scale = %r, total weight %r" % (s, float(total)))
    return r


SUBS = [dict(name="csg_density", strategy=cases(), run=run, share=1.0)]
