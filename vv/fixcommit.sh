#!/bin/bash
# usage: fixcommit.sh "<commit message>"   -- rebuilds /repo/_build, runs the pinned suite, commits the working-tree change if all pass
set -e
cd /repo
ninja -C _build > /tmp/fix_build.log 2>&1 || { tail -30 /tmp/fix_build.log; echo BUILD-FAILED; exit 1; }
ctest --test-dir _build -j16 --timeout 900 -E '^memory_test' > /tmp/fix_ctest.log 2>&1 || { tail -30 /tmp/fix_ctest.log; echo TESTS-FAILED; exit 1; }
grep "tests passed" /tmp/fix_ctest.log
git add -u
git commit -q -m "$1"
git log --oneline | head -1
