#!/bin/bash
# usage: vv/sweep.sh <tier> "<seeds>" [ids...]   runs ./check for every id x seed on /repo, one line per run in build/sweep_<tier>.log
tier=$1; seeds=$2; shift 2
ids=${@:-C01 C02 C03 C04 C05 C06 C07 C08 C09 C10 C11 C12 C13 C14 C15 C16 C17 C18 C19 C20}
cd /verif
for s in $seeds; do for id in $ids; do
  t0=$(date +%s)
  VERIF_SEED=$s ./check $id --tier $tier > build/sweep_${tier}_${id}_$s.log 2>&1; rc=$?
  echo "$id tier=$tier seed=$s exit=$rc viol=$(grep -c '^VIOLATION' build/sweep_${tier}_${id}_$s.log) flaky=$(grep -c '^FLAKY' build/sweep_${tier}_${id}_$s.log) wall=$(( $(date +%s) - t0 ))s $(grep -h '^property=' build/sweep_${tier}_${id}_$s.log | tail -1 | cut -d' ' -f4)" >> build/sweep_${tier}.log
done; done
