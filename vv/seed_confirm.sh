#!/bin/bash
# Confirm a seeded change delivered by a sub-agent in /tmp/seed/<pid>/out: builds, suite passes, demo fails with / passes without.
# usage: seed_confirm.sh <pid> <n>     (writes /verif/seeded/<pid>-<n>/ when confirmed)
pid=$1; n=$2; W=${SEED_BASE:-/tmp/seed}/$pid; TAG=${DEST_TAG:-}
cd $W || exit 2
git checkout -q -- . 
git apply out/change$n.diff || { echo "APPLY-FAIL"; exit 2; }
ninja -C _b > out/confirm_build_$n.log 2>&1 || { echo "BUILD-FAIL"; git checkout -q -- .; exit 2; }
ctest --test-dir _b -j8 -E '^memory_test' --timeout 900 > out/confirm_ctest_$n.log 2>&1; ct=$?
tail -3 out/confirm_ctest_$n.log
bash out/demo$n/run.sh $W > out/confirm_demo_with_$n.log 2>&1; with=$?
git checkout -q -- .
ninja -C _b > /dev/null 2>&1
bash out/demo$n/run.sh $W > out/confirm_demo_without_$n.log 2>&1; without=$?
echo "ctest_exit=$ct demo_with_change_exit=$with demo_without_exit=$without"
if [ $ct -eq 0 ] && [ $with -ne 0 ] && [ $without -eq 0 ]; then
  D=/verif/seeded/$pid-$TAG$n; mkdir -p $D
  cp out/change$n.diff $D/patch.diff
  rm -rf $D/demo; cp -r out/demo$n $D/demo
  find $D/demo -type f \( -name "*.o" -o -perm -u+x ! -name "*.sh" ! -name "*.py" ! -name "*.pl" \) -size +100k -delete 2>/dev/null
  python3 - <<PY
import json
m=json.load(open("$W/out/meta.json"))
e=[x for x in m if x.get("change")=="change$n.diff"]
e=e[0] if e else m[$n-1]
e["confirmed_by_me"]="applied in scratch worktree $W: ninja build ok, ctest -E memory_test all passed (exit $ct), demo exit with change=$with, without change=$without"
json.dump(e,open("$D/meta.json","w"),indent=1)
PY
  echo CONFIRMED $D
else
  echo NOT-CONFIRMED
fi
