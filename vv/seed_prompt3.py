"""Round-3 prompt: same as seed_prompt.py (two changes), steering towards small deviations, overlooked clauses, option combinations, thresholds."""
import subprocess
import sys

pid = sys.argv[1]
t = subprocess.run([sys.executable, "/verif/vv/seed_prompt.py", pid], capture_output=True, text=True).stdout
t = t.replace(f"/tmp/seed/{pid}", f"/tmp/seed3/{pid}")
R3 = """THIRD ROUND. Gross errors in the main formula, and slips that only need one unusual input or one reused object to show, are considered covered; do not spend your changes on them. Prefer mechanisms of these kinds, as far as they fit this property: (a) deviations that are numerically SMALL (relative error somewhere between 1e-9 and 1e-3: a truncated constant, a float where a double was, a slightly wrong tolerance or rounding, a changed order of floating-point operations, an accumulated rounding error) or that affect only one element / row / column / frame at the edge of a result; (b) a clause of the property that is easy to overlook (flags, ordering, a secondary quantity or its unit, what must be rejected or reported, what must stay unchanged); (c) a specific COMBINATION of two or three options or inputs of the command-line tools or of the API, each of which is fine alone; (d) behaviour that changes when a size crosses an internal threshold (block, buffer or cache sizes, a switch between two algorithms, thread counts, large counts, long names); (e) for properties about concurrency, crashes or files: rarer interleavings, fault points or open/close sequences than the simplest one.

"""
t = t.replace("For each change also write a DEMONSTRATION", R3 + "For each change also write a DEMONSTRATION")
print(t)
