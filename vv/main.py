"""./check <Cxx> [--tier quick|thorough] [--replay file]   (see DESIGN.md section 2)"""
import argparse
import glob
import importlib
import json
import os
import shutil
import subprocess
import sys
import time

sys.path.insert(0, "/verif")
from vv import core  # noqa: E402
from vv.core import log  # noqa: E402
from vv import registry  # noqa: E402


def replay_case(prop, path, no_known=False):
    """Replay one saved case file once per call. Returns (failed: bool, output).
    no_known: run without the known-finding exclusions (used to see whether a listed finding still fails)."""
    j = json.load(open(path))
    eng = j.get("engine", "rc")
    extra = {"VV_KNOWN": ""} if no_known else None
    if eng == "rc":
        n, out = core.replay_rc(prop, j["harness"], path, times=1, extra_env=extra)
        return n > 0, out
    if eng == "py":
        from vv import pyx
        ok, msg = pyx.replay(j["harness"], j, core.run_env(prop, extra))
        return (not ok), msg
    if eng == "rc-campaign":
        hit = core.replay_campaign(prop, j["harness"], j["campaign"], j.get("campaign_sub"), j.get("key"))
        return hit, "campaign replay " + ("fails again" if hit else "passes")
    if eng == "fz":
        r = subprocess.run([f"{core.HB}/{j['harness']}", j["artifact"]], stdout=subprocess.PIPE, stderr=subprocess.STDOUT,
                           text=True, errors="replace", env=core.run_env(prop))
        return r.returncode != 0, r.stdout[-2000:]
    raise ValueError(eng)


def main():
    ap = argparse.ArgumentParser()
    ap.add_argument("prop")
    ap.add_argument("--tier", default=os.environ.get("VERIF_TIER", "quick"))
    ap.add_argument("--replay")
    ap.add_argument("--no-build", action="store_true")
    ap.add_argument("--only", help="run only the named part (harness/module)")
    a = ap.parse_args()
    prop = a.prop
    tier = a.tier if a.tier in ("quick", "thorough") else "quick"
    seed = int(os.environ.get("VERIF_SEED", "1") or 1)
    if seed == 0:
        seed = 1
    P = registry.PROPS[prop]
    t0 = time.time()

    parts = P["parts"]
    hnames = sorted({p["harness"] for p in parts if p["engine"] in ("rc", "fz")} |
                    {h for p in parts for h in p.get("needs_harness", [])})
    try:
        if not a.no_build:
            core.build_repo(P.get("repo_targets", ()))
            core.prepare_share()
            if hnames:
                core.build_harness(hnames)
    except core.BuildError as e:
        # a tree that does not build is not a property verdict; report loudly and fail the check
        log(f"BUILD-ERROR property={prop}: {e}")
        sys.exit(2)

    if a.replay:
        failed, out = replay_case(prop, a.replay)
        log(out)
        log("REPLAY-FAIL" if failed else "REPLAY-PASS")
        sys.exit(1 if failed else 0)

    work = core.mkwork(prop)
    merged = {}
    failures = []
    exhausted = []
    known = core.known_for(prop)
    known_keys = {k["key"] for k in known}
    dev_known = {k for k in os.environ.get("VV_KNOWN_EXTRA", "").split(",") if k}  # development aid only
    known_keys |= dev_known

    # ---- replay tier: regression inputs of fixed findings and earlier shrunk cases
    n_replayed = 0
    for path in sorted(glob.glob(f"{core.VERIF}/replays/{prop}/*.json")):
        j = json.load(open(path))
        if any(os.path.abspath(path) == os.path.abspath(os.path.join(core.VERIF, k["replay"])) for k in known):
            continue
        n_replayed += 1
        failed, out = replay_case(prop, path)
        if failed:
            failures.append(dict(property=prop, sub=j.get("sub"), key=j.get("key"), msg="regression replay fails: " + out[-1500:],
                                 case=j.get("case"), harness=j.get("harness"), engine=j.get("engine", "rc"),
                                 artifact=j.get("artifact"), path=path))

    # ---- generated campaigns
    if a.only and not any(a.only in (p.get("harness"), p.get("name")) for p in parts):
        print(f"HARNESS-PROBLEM property={prop} --only {a.only}: no such part (have: " + ", ".join(p.get("harness") or p.get("name") for p in parts) + ")")
        return 3
    for p in parts:
        if a.only and a.only not in (p.get("harness"), p.get("name")):
            continue
        cfg = dict(p[tier])
        if os.environ.get("VV_BUDGET_CAP_S"):  # development aid: bounded dry runs of the thorough tier
            cfg["budget_s"] = min(cfg.get("budget_s", 3600), int(os.environ["VV_BUDGET_CAP_S"]))
        left = P.get("budget", {}).get(tier, 100000)
        if p["engine"] == "rc":
            res = core.run_rc(prop, p["harness"], seed, cfg["cases"], cfg.get("procs", 1), work,
                              cfg.get("budget_s", 3600), extra_args=cfg.get("args", ()), max_size=cfg.get("max_size"))
        elif p["engine"] == "py":
            from vv import pyx
            res = pyx.run(p["harness"], tier, seed, work, cfg, core.run_env(prop), known_keys)
        elif p["engine"] == "fz":
            from vv import fuzz
            res = fuzz.run(prop, p, cfg, seed, work)
        else:
            raise ValueError(p["engine"])
        for sn, m in res["stats"].items():
            name = sn if sn not in merged else f"{p['harness']}:{sn}"
            merged[name] = m
        failures.extend(res["failures"])
        if res.get("budget_exhausted"):
            exhausted.append(p["harness"])
        if any(not f.get("gave_up") for f in failures):
            break  # a failure is already on the table: triage it instead of spending the budget of the other parts

    # ---- a part that executed nothing decides nothing: report it loudly instead of passing silently
    empty_parts = [n for n, m in merged.items() if m["evaluations"] == 0 and not (a.only) and not failures]
    # ---- triage
    violations = 0
    flaky = []
    known_hits = set()
    seen_keys = set()
    for f in failures:
        if f.get("gave_up"):
            log(f"NOTE property={prop} sub={f.get('sub')} generator gave up: {f.get('msg')}")
            continue
        path = f.get("path") or core.save_replay(prop, f)
        if f.get("case") is None and not f.get("artifact"):
            # died without a recorded case (should not happen): cannot replay -> report as harness problem
            log(f"HARNESS-PROBLEM property={prop} {f.get('msg')[:3000]}")
            violations += 1
            log(f"VIOLATION property={prop} replay={path}")
            continue
        nfail = sum(1 for _ in range(3) if replay_case(prop, path)[0])
        if nfail < 3 and f.get("campaign") and f.get("engine", "rc") == "rc" and not f.get("crash"):
            # the single case passes on its own: does the failure come back when the generated history before it is
            # replayed (same seed and case count)?  Then the history is the failing input.
            for subsel in (f.get("sub"), None):
                if all(core.replay_campaign(prop, f["harness"], f["campaign"], subsel, f.get("key")) for _ in range(3)):
                    f["campaign_replay"] = True
                    f["campaign_sub"] = subsel
                    path = core.save_replay(prop, f)
                    nfail = 3
                    log(f"NOTE property={prop} key={f.get('key')}: the shrunk case passes alone, the failure reproduces 3/3 when the "
                        f"generated history before it is replayed (state carried between calls)")
                    break
        if nfail < 3:
            flaky.append(dict(path=path, nfail=nfail, key=f.get("key")))
            log(f"FLAKY property={prop} key={f.get('key')} replay={path} failed {nfail}/3 replays (not reported as violation)")
            continue
        if f.get("key") in known_keys:
            known_hits.add(f["key"])
            continue
        dk = (f.get("sub"), f.get("key"))
        if dk in seen_keys:
            continue
        seen_keys.add(dk)
        violations += 1
        log(f"FAILURE property={prop} sub={f.get('sub')} key={f.get('key')} :: {(f.get('msg') or '')[:1500]}")
        log(f"VIOLATION property={prop} replay={path}")

    # ---- known findings: re-run their replays; the line is printed only while they still fail
    for k in sorted(dev_known & known_hits):
        log(f"DEV-KNOWN (VV_KNOWN_EXTRA): property={prop} key={k}")
    for k in known:
        path = os.path.join(core.VERIF, k["replay"])
        still = replay_case(prop, path, no_known=True)[0] if os.path.exists(path) else (k["key"] in known_hits)
        if still or k["key"] in known_hits:
            log(f"KNOWN-FINDING: property={prop} {k['what']}")

    wall = time.time() - t0
    extra = dict(replayed_regression_files=n_replayed, budget_exhausted=exhausted, flaky=flaky,
                 known_findings_active=[k["key"] for k in known], tier_config={p["harness"]: p[tier] for p in parts})
    if P.get("exhaustive_in") == tier or P.get("exhaustive_in") == "both":
        extra["exhaustive"] = True
        extra["exhaustive_note"] = P.get("exhaustive_note", "")
    core.write_evidence(prop, tier, seed, P.get("level", "exploration"), P["rule"], merged, P["assumptions"], wall,
                        violations, extra)
    shutil.rmtree(work, ignore_errors=True)
    ev = sum(m["evaluations"] for m in merged.values())
    log(f"property={prop} tier={tier} seed={seed} evaluations={ev} violations={violations} wall={wall:.1f}s")
    if empty_parts and not violations:
        log(f"HARNESS-PROBLEM property={prop}: no case was executed for {empty_parts} (generator gave up / harness error); not a verdict")
        sys.exit(3)
    sys.exit(1 if violations else 0)


if __name__ == "__main__":
    main()
