#!/bin/bash
# Build the framework from files on disk only: sanitizer + hooks-on build of /repo, then the harnesses of all claimed checks.
set -e
cd /verif
./vv/repo_build.sh
python3-vt -c "
import sys, json; sys.path.insert(0,'/verif')
from vv import core, registry
ready = json.load(open('/verif/vv/ready.json'))
names = set()
for pid in ready:
    for p in registry.PROPS[pid]['parts']:
        if p['engine'] in ('rc', 'fz'): names.add(p['harness'])
        names.update(p.get('needs_harness', []))
core.build_harness(sorted(names))
print('setup ok:', sorted(names))
"
