#!/bin/bash
# Build the framework from files on disk only: sanitizer + hooks-on build of /repo, then all harnesses.
set -e
cd /verif
./vv/repo_build.sh
python3-vt -c "
import sys; sys.path.insert(0,'/verif')
from vv import core, registry
core.build_harness(sorted(core.HARNESSES))
"
