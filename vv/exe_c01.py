"""C01 (exe) — csg_map on generated top.xml / map.xml / trajectory text files vs a numpy recomputation from the same files.

Inputs are written by this module (not by VOTCA writers): .gro (x, v; orthorhombic or GROMACS-reduced triclinic box) and
LAMMPS .dump (x [v] [f]; orthorhombic).  Outputs (.gro / .dump) are parsed here as plain text; bead values must agree with
the recomputation within the output format's printed precision.  The box line of the output is not inspected (C08).
"""
import itertools
import math
import os

import numpy as np
from hypothesis import strategies as st

from vv.pyx import R, sanitizer_report

KCAL2KJ = 4.18679994   # only used to bound rounding; forces go in and out in the same unit, the factor cancels


def is_known(ctx, key):
    return key in ctx.known or key in [k for k in ctx.env.get("VV_KNOWN", "").split(",") if k]


@st.composite
def map_cases(draw):
    fin = draw(st.sampled_from(["gro", "gro", "dump"]))
    fout = draw(st.sampled_from(["gro", "dump", "gro", "dump", "xyz", "pdb"]))
    tric = fin == "gro" and draw(st.booleans())
    ed = st.integers(30, 400)       # edge in 0.05 nm units: 1.5 .. 20 nm
    ax, by, cz = draw(ed) * 0.05, draw(ed) * 0.05, draw(ed) * 0.05
    sk = st.integers(-4, 4)
    box = [ax, 0.0, by, 0.0, 0.0, cz]
    if tric:
        box = [ax, round(ax / 2 * draw(sk) / 4, 5), by, round(ax / 2 * draw(sk) / 4, 5), round(by / 2 * draw(sk) / 4, 5), cz]
    ntypes = draw(st.integers(1, 2))
    types = []
    for t in range(ntypes):
        na = draw(st.integers(1, 6))
        masses = [draw(st.sampled_from([1.008, 12.011, 15.9994, 14.0067, 32.06, 1.0, 2.5])) for _ in range(na)]
        nb = draw(st.integers(1, 3))
        beads = []
        for b in range(nb):
            par = list(draw(st.permutations(list(range(na)))))[:draw(st.integers(1, na))]
            ell = len(par) >= 3 and draw(st.integers(0, 4)) == 0
            w = [draw(st.sampled_from([0, 1, 1, 2, 3, 12, 16, 0.5, 1.008, 15.9994])) for _ in par]
            if sum(w) == 0:
                w[0] = 1
            d = None
            if draw(st.integers(0, 2)) == 0:
                d = [0 if wi == 0 else draw(st.sampled_from([1, 2, 3, 0.25, 5])) for wi in w]
                if sum(d) == 0:
                    d = None
            beads.append(dict(parents=par, sym=3 if ell else 1, w=w, d=d))
        types.append(dict(atoms=masses, beads=beads, nmols=draw(st.integers(1, 5))))
    nfr = draw(st.integers(1, 3))
    has_v = draw(st.booleans()) or fin == "gro"     # .gro input always carries velocities here (column layout)
    has_f = fin == "dump" and draw(st.booleans())
    opt_vel = draw(st.booleans())
    opt_force = draw(st.booleans())
    seed = draw(st.integers(0, 10 ** 6))
    rad = draw(st.sampled_from([0.02, 0.1, 0.2]))
    wrap = draw(st.sampled_from(["raw", "wrapped", "shifted"]))
    return dict(fin=fin, fout=fout, box=box, types=types, nfr=nfr, has_v=has_v, has_f=has_f, opt_vel=opt_vel, opt_force=opt_force, seed=seed,
                rad=rad, wrap=wrap)


def box_matrix(b):
    return np.array([[b[0], b[1], b[3]], [0.0, b[2], b[4]], [0.0, 0.0, b[5]]])


def hmin_of(M):
    a, b, c = M[:, 0], M[:, 1], M[:, 2]
    vol = abs(np.dot(a, np.cross(b, c)))
    return min(vol / np.linalg.norm(np.cross(b, c)), vol / np.linalg.norm(np.cross(c, a)), vol / np.linalg.norm(np.cross(a, b)))


def nearest_image(M, dvec):
    """brute force over 5^3 lattice translations around the rounded fractional coordinates (cells here have aspect <= 14 and the
    molecules are compact, |d| < h_min/2, so the nearest image is within +-1; +-2 searched)"""
    s = np.linalg.solve(M, dvec)
    n0 = np.round(s)
    best, bn = None, None
    for n in itertools.product((-2, -1, 0, 1, 2), repeat=3):
        nn = n0 + np.array(n)
        v = dvec - M @ nn
        l = np.linalg.norm(v)
        if best is None or l < best:
            best, bv, bn = l, v, nn
    return bv, bn


def gen_frames(case):
    rng = np.random.RandomState(case["seed"])
    M = box_matrix(case["box"])
    hmin = hmin_of(M)
    frames = []
    q = 1e-3 if case["fin"] == "gro" else 1e-5
    for fr in range(case["nfr"]):
        X, V, F = [], [], []
        for t in case["types"]:
            for m in range(t["nmols"]):
                ctr = M @ rng.uniform(0, 1, size=3)
                for a in range(len(t["atoms"])):
                    o = rng.normal(size=3)
                    o = o / np.linalg.norm(o) * rng.uniform(0, 1) ** (1 / 3.0)
                    p = ctr + case["rad"] * hmin * o
                    if case["wrap"] != "raw":
                        s = np.linalg.solve(M, p)
                        p = p - M @ np.floor(s)
                    if case["wrap"] == "shifted":
                        p = p + M @ rng.randint(-1, 2, size=3)
                    X.append(np.round(p / q) * q)
                    V.append(np.round(rng.uniform(-5, 5, size=3), 4))
                    F.append(np.round(rng.uniform(-500, 500, size=3), 3))
        frames.append((np.array(X), np.array(V), np.array(F)))
    return frames


def write_inputs(case, frames, d):
    with open(os.path.join(d, "top.xml"), "w") as f:
        f.write("<topology>\n <molecules>\n")
        for ti, t in enumerate(case["types"]):
            f.write(f'  <molecule name="T{ti}" nmols="{t["nmols"]}" nbeads="{len(t["atoms"])}">\n')
            for a, m in enumerate(t["atoms"]):
                f.write(f'   <bead name="A{a}" type="t{a % 3}" mass="{m!r}" q="0"/>\n')
            f.write("  </molecule>\n")
        f.write(" </molecules>\n</topology>\n")
    names = []
    for ti, t in enumerate(case["types"]):
        fn = f"map{ti}.xml"
        names.append(fn)
        with open(os.path.join(d, fn), "w") as f:
            f.write(f"<cg_molecule>\n <name>CG{ti}</name>\n <ident>T{ti}</ident>\n <topology>\n  <cg_beads>\n")
            for bi, b in enumerate(t["beads"]):
                f.write(f"   <cg_bead>\n    <name>B{bi}</name>\n    <type>C{bi}</type>\n")
                if b["sym"] == 3:
                    f.write("    <symmetry>3</symmetry>\n")
                f.write(f"    <mapping>M{bi}</mapping>\n    <beads>" + " ".join(f"1:T{ti}:A{p}" for p in b["parents"]) + "</beads>\n   </cg_bead>\n")
            f.write("  </cg_beads>\n </topology>\n <maps>\n")
            for bi, b in enumerate(t["beads"]):
                f.write(f"  <map>\n   <name>M{bi}</name>\n   <weights>" + " ".join(repr(float(w)) for w in b["w"]) + "</weights>\n")
                if b["d"] is not None:
                    f.write("   <d>" + " ".join(repr(float(w)) for w in b["d"]) + "</d>\n")
                f.write("  </map>\n")
            f.write(" </maps>\n</cg_molecule>\n")
    bx = case["box"]
    nat = len(frames[0][0])
    if case["fin"] == "gro":
        with open(os.path.join(d, "traj.gro"), "w") as f:
            for X, V, F in frames:
                f.write("generated\n%5d\n" % nat)
                i = 0
                resnr = 0
                for ti, t in enumerate(case["types"]):
                    for m in range(t["nmols"]):
                        resnr += 1
                        for a in range(len(t["atoms"])):
                            f.write("%5d%-5s%5s%5d%8.3f%8.3f%8.3f%8.4f%8.4f%8.4f\n" % (resnr % 100000, f"T{ti}", f"A{a}", (i + 1) % 100000,
                                                                                     X[i][0], X[i][1], X[i][2], V[i][0], V[i][1], V[i][2]))
                            i += 1
                if bx[1] == 0 and bx[3] == 0 and bx[4] == 0:
                    f.write("%10.5f%10.5f%10.5f\n" % (bx[0], bx[2], bx[5]))
                else:
                    f.write("%10.5f%10.5f%10.5f%10.5f%10.5f%10.5f%10.5f%10.5f%10.5f\n" % (bx[0], bx[2], bx[5], 0, 0, bx[1], 0, bx[3], bx[4]))
        return names, "traj.gro"
    with open(os.path.join(d, "traj.dump"), "w") as f:
        for k, (X, V, F) in enumerate(frames):
            f.write("ITEM: TIMESTEP\n%d\nITEM: NUMBER OF ATOMS\n%d\nITEM: BOX BOUNDS pp pp pp\n" % (k, nat))
            f.write("0 %.6f\n0 %.6f\n0 %.6f\n" % (bx[0] * 10, bx[2] * 10, bx[5] * 10))
            f.write("ITEM: ATOMS id type x y z" + (" vx vy vz" if case["has_v"] else "") + (" fx fy fz" if case["has_f"] else "") + "\n")
            for i in range(nat):
                ln = "%d 1 %.4f %.4f %.4f" % (i + 1, X[i][0] * 10, X[i][1] * 10, X[i][2] * 10)
                if case["has_v"]:
                    ln += " %.4f %.4f %.4f" % tuple(V[i] * 10)
                if case["has_f"]:
                    ln += " %.4f %.4f %.4f" % tuple(F[i])
                f.write(ln + "\n")
    return names, "traj.dump"


def read_inputs(case, d, trj):
    """parse my own text files back (what the tool sees) -> list of (X, V or None, F or None) in nm, nm/ps-like, input force unit"""
    out = []
    lines = open(os.path.join(d, trj)).read().split("\n")
    if trj.endswith(".gro"):
        p = 0
        while p < len(lines) and lines[p].strip():
            n = int(lines[p + 1])
            X = np.array([[float(l[20:28]), float(l[28:36]), float(l[36:44])] for l in lines[p + 2:p + 2 + n]])
            V = np.array([[float(l[44:52]), float(l[52:60]), float(l[60:68])] for l in lines[p + 2:p + 2 + n]])
            out.append((X, V, None))
            p += n + 3
        return out
    p = 0
    while p < len(lines) and lines[p].startswith("ITEM: TIMESTEP"):
        n = int(lines[p + 3])
        cols = lines[p + 8].split()[2:]
        rows = np.array([[float(x) for x in l.split()] for l in lines[p + 9:p + 9 + n]])
        X = rows[:, [cols.index(c) for c in "xyz"]] * 0.1
        V = rows[:, [cols.index(c) for c in ("vx", "vy", "vz")]] * 0.1 if "vx" in cols else None
        F = rows[:, [cols.index(c) for c in ("fx", "fy", "fz")]] if "fx" in cols else None
        out.append((X, V, F))
        p += 9 + n
    return out


def parse_output(fout, path):
    """-> list of frames: dict(x=, v= or None, f= or None) of CG beads, in the output file's own units converted to nm / input force unit"""
    lines = open(path).read().split("\n")
    frames = []
    if fout == "gro":
        p = 0
        while p + 1 < len(lines) and lines[p + 1].strip():
            n = int(lines[p + 1])
            rows = lines[p + 2:p + 2 + n]
            X = np.array([[float(l[20:28]), float(l[28:36]), float(l[36:44])] for l in rows])
            V = None
            if all(len(l) >= 68 for l in rows) and n:
                V = np.array([[float(l[44:52]), float(l[52:60]), float(l[60:68])] for l in rows])
            frames.append(dict(x=X, v=V, f=None))
            p += n + 3
        return frames
    if fout == "xyz":
        # <n> / comment / n lines 'name%10.5f%10.5f%10.5f' in Angstrom
        p = 0
        while p < len(lines) and lines[p].strip():
            n = int(lines[p])
            rows = lines[p + 2:p + 2 + n]
            X = np.array([[float(l[-30:-20]), float(l[-20:-10]), float(l[-10:])] for l in rows]).reshape(n, 3) * 0.1
            frames.append(dict(x=X, v=None, f=None))
            p += n + 2
        return frames
    if fout == "pdb":
        # MODEL .. ENDMDL blocks, ATOM lines with %8.3f coordinates (columns 31-54) in Angstrom
        cur = None
        for l in lines:
            if l.startswith("MODEL"):
                cur = []
            elif l.startswith("ATOM"):   # HETATM lines carry the orientation vectors of ellipsoidal beads (REU / REV), not beads
                if cur is None:
                    cur = []
                cur.append([float(l[30:38]), float(l[38:46]), float(l[46:54])])
            elif l.startswith("ENDMDL"):
                frames.append(dict(x=np.array(cur).reshape(len(cur), 3) * 0.1, v=None, f=None))
                cur = None
        if cur:
            frames.append(dict(x=np.array(cur).reshape(len(cur), 3) * 0.1, v=None, f=None))
        return frames
    p = 0
    while p < len(lines) and lines[p].startswith("ITEM: TIMESTEP"):
        n = int(lines[p + 3])
        cols = lines[p + 8].split()[2:]
        rows = np.array([[float(x) for x in l.split()] for l in lines[p + 9:p + 9 + n]]).reshape(n, len(cols))
        ids = rows[:, cols.index("id")].astype(int)
        order = np.argsort(ids)
        rows = rows[order]
        X = rows[:, [cols.index(c) for c in "xyz"]] * 0.1
        V = rows[:, [cols.index(c) for c in ("vx", "vy", "vz")]] * 0.1 if "vx" in cols else None
        F = rows[:, [cols.index(c) for c in ("fx", "fy", "fz")]] if "fx" in cols else None
        frames.append(dict(x=X, v=V, f=F))
        p += 9 + n
    return frames


def run_map(case, ctx, d):
    r = R()
    M = box_matrix(case["box"])
    hmin = hmin_of(M)
    frames = gen_frames(case)
    mapfiles, trj = write_inputs(case, frames, d)
    fin_frames = read_inputs(case, d, trj)
    has_v = fin_frames[0][1] is not None
    has_f = fin_frames[0][2] is not None
    out = "out." + case["fout"]
    args = ["csg_map", "--top", "top.xml", "--trj", trj, "--cg", ";".join(mapfiles), "--out", out]
    # --vel / --force write mapped velocities / forces "(if available)" (csg_map --help)
    use_vel = case["opt_vel"] and has_v
    use_force = case["opt_force"] and has_f
    flag_without_data = (case["opt_vel"] and not has_v) or (case["opt_force"] and not has_f)
    if flag_without_data and is_known(ctx, "csg_map/vel-force-flag-without-data"):
        flag_without_data = False      # class excluded: the flag is only passed when the data exist
        r.cls("excluded-known:csg_map/vel-force-flag-without-data")
    if use_vel or (flag_without_data and case["opt_vel"]):
        args.append("--vel")
    if use_force or (flag_without_data and case["opt_force"]):
        args.append("--force")
    rcode, txt = ctx.sh(args, cwd=d)
    tric = not (case["box"][1] == 0 and case["box"][3] == 0 and case["box"][4] == 0)
    r.cls(f"{case['fin']}->{case['fout']}")
    r.cls("box:triclinic" if tric else "box:ortho")
    r.cls("frames:%d" % case["nfr"])
    r.cls("wrap:" + case["wrap"])
    r.cls("in:" + "x" + ("v" if has_v else "") + ("f" if has_f else ""))
    r.cls("opts:" + ("vel" if use_vel else "") + ("+force" if use_force else ""))
    if flag_without_data:
        r.cls("flag-without-data")
        if sanitizer_report(txt) or rcode != 0:
            return r.fail("csg_map/vel-force-flag-without-data", "--vel/--force on a trajectory without velocities/forces (help text: 'if available'): "
                          + txt[-600:])
    if sanitizer_report(txt):
        return r.fail("csg_map/sanitizer", txt[-2000:])
    if rcode != 0:
        return r.fail("csg_map/exit", f"exit {rcode}: {txt[-1000:]}")
    got = parse_output(case["fout"], os.path.join(d, out))
    if len(got) != len(fin_frames):
        return r.fail("csg_map/frame-count", f"{len(got)} frames written, {len(fin_frames)} read")
    # ---- expected beads
    any_nt = False
    known_ell = is_known(ctx, "Map_Ellipsoid/mass-not-set")
    for k, (X, V, F) in enumerate(fin_frames):
        exp_x, exp_v, exp_f = [], [], []
        base = 0
        for t in case["types"]:
            na = len(t["atoms"])
            for m in range(t["nmols"]):
                for b in t["beads"]:
                    w = np.array(b["w"], float)
                    wt = w / w.sum()
                    dd = np.array(b["d"], float) if b["d"] is not None else w
                    dt = dd / dd.sum()
                    fw = np.where(w != 0, dt / np.where(w != 0, wt, 1.0), 0.0)
                    idx = [base + p for p in b["parents"]]
                    r0 = X[idx[0]]
                    pos = np.zeros(3)
                    shifted = False
                    for i, wi in zip(idx, wt):
                        v, n = nearest_image(M, X[i] - r0)
                        if np.any(n != 0):
                            shifted = True
                        pos += wi * (r0 + v)
                    if shifted and len(idx) >= 2 and len(set(b["w"])) > 1:
                        any_nt = True
                    exp_x.append(pos)
                    if V is not None:
                        exp_v.append(sum(wi * V[i] for i, wi in zip(idx, wt)))
                    if F is not None:
                        exp_f.append(sum(fi * F[i] for i, fi in zip(idx, fw)))
                base += na
        G = got[k]
        exp_x = np.array(exp_x)
        if len(G["x"]) != len(exp_x):
            return r.fail("csg_map/bead-count", f"frame {k}: {len(G['x'])} beads written, mapping defines {len(exp_x)}")
        # printed precision: .gro 3 decimals (nm) / 4 for velocities; .dump 6 decimals in Angstrom (x, v) and kcal/mol/A (f)
        # .xyz 5 decimals in Angstrom, .pdb 3 decimals in Angstrom
        px = {"gro": 0.5e-3, "dump": 0.5e-7, "xyz": 0.5e-6, "pdb": 0.5e-4}[case["fout"]]
        tol = px * 1.02 + 1e-9 * (np.abs(exp_x).max() + 1)
        dev = np.abs(G["x"] - exp_x).max()
        if dev > tol:
            i = int(np.argmax(np.abs(G["x"] - exp_x).max(axis=1)))
            return r.fail("csg_map/position", f"frame {k} bead {i}: written {G['x'][i]}, expected {exp_x[i]} (tol {tol:.3g})")
        if use_vel and case["fout"] in ("gro", "dump"):
            if G["v"] is None:
                return r.fail("csg_map/velocity-missing", f"frame {k}: --vel given, input has velocities, output has none")
            pv = 0.5e-4 if case["fout"] == "gro" else 0.5e-7
            ev = np.array(exp_v)
            if np.abs(G["v"] - ev).max() > pv * 1.02 + 1e-9 * (np.abs(ev).max() + 1):
                i = int(np.argmax(np.abs(G["v"] - ev).max(axis=1)))
                return r.fail("csg_map/velocity", f"frame {k} bead {i}: written v {G['v'][i]}, expected {ev[i]}")
        elif G["v"] is not None and not has_v:
            return r.fail("csg_map/vel-force-flag-without-data", f"frame {k}: velocities written although the input trajectory has none")
        elif G["v"] is not None and not case["opt_vel"]:
            return r.fail("csg_map/velocity-invented", f"frame {k}: velocities written without --vel")
        if use_force and case["fout"] == "dump":
            if G["f"] is None:
                return r.fail("csg_map/force-missing", f"frame {k}: --force given, input has forces, output has none")
            ef = np.array(exp_f)
            # in: kcal/mol/A -> kJ/mol/nm -> out kcal/mol/A: same unit, 6 decimals
            if np.abs(G["f"] - ef).max() > 0.5e-6 * 1.02 + 1e-9 * (np.abs(ef).max() + 1):
                i = int(np.argmax(np.abs(G["f"] - ef).max(axis=1)))
                return r.fail("csg_map/force", f"frame {k} bead {i}: written f {G['f'][i]}, expected {ef[i]}")
        elif G["f"] is not None and not has_f:
            return r.fail("csg_map/vel-force-flag-without-data", f"frame {k}: forces written although the input trajectory has none")
        elif G["f"] is not None and not case["opt_force"]:
            return r.fail("csg_map/force-invented", f"frame {k}: forces written without --force")
    r.nontrivial = any_nt
    _ = known_ell, hmin, math
    return r


SUBS = [dict(name="csg_map", strategy=map_cases(), run=run_map, share=1.0)]
