"""Round-4 prompt: same as seed_prompt.py (two changes), steering towards what rounds 1-3 left: rejection / error paths, secondary entry points, cooperating sites, domain extremes, feature interplay."""
import subprocess
import sys

pid = sys.argv[1]
t = subprocess.run([sys.executable, "/verif/vv/seed_prompt.py", pid], capture_output=True, text=True).stdout
t = t.replace(f"/tmp/seed/{pid}", f"/tmp/seed4/{pid}")
R4 = """FOURTH ROUND. Considered covered already, do not spend your changes on them: gross errors in the main formula; slips that need one unusual input value; an object reused for a second call; a float where a double was or a truncated constant; a dropped flag column. Prefer mechanisms of these kinds, as far as they fit this property: (a) TWO COOPERATING SITES: a change in one function that is harmless on its own path but breaks the property through another caller / another tool / another overload that shares it (read the callers of the anchored code and every public entry point of the anchored files, including the less used ones); (b) the EXTREMES of the quantified domain: empty, one element, exactly at a documented limit, the largest sizes the quantifier admits, values that sit exactly on a boundary between two internal cases; (c) clauses about what must be REJECTED, reported or left untouched, and clean failure (an error path that now half-completes, leaves partial state or a partial file behind, or accepts what it must refuse) ; (d) INTERPLAY of two features the quantifier lists separately (e.g. two options, two kinds of input, two modes) where each alone still works; (e) ORDER dependence: results that change with the order of input entries, of definitions in an input file, of calls that should commute; (f) for properties about concurrency, crashes or files: rarer interleavings or fault points than the simplest one, several steps apart. The change must still be small and plausible.

BUILD SLOTS: twenty jobs like yours share this machine. Run EVERY build and test-suite command through the queue wrapper and with 4 jobs: `/tmp/seed4/lk ninja -j4 -C ...`, `/tmp/seed4/lk ctest -j4 ...`, `/tmp/seed4/lk cmake ...` (it waits for a free slot, then runs the command). Compiling and running your small demonstration does not need the wrapper.

"""
t = t.replace("`cmake -G Ninja", "`/tmp/seed4/lk cmake -G Ninja").replace("&& ninja -C", "&& /tmp/seed4/lk ninja -j4 -C").replace("`ctest --test-dir", "`/tmp/seed4/lk ctest --test-dir").replace(" -j8 ", " -j4 ")
t = t.replace("For each change also write a DEMONSTRATION", R4 + "For each change also write a DEMONSTRATION")
print(t)
