#!/bin/bash
# Final pass on an idle machine: every registered quick command at VERIF_SEED=1, manifest regenerated, manifest and evidence validated.
cd /verif
export VERIF_SEED=1 VERIF_TIER=quick
: > build/final.log
for i in $(seq -w 1 20); do
  id=C$i; t0=$(date +%s)
  rm -f evidence/$id.json
  ./check $id > build/final_$id.log 2>&1; rc=$?
  echo "$id exit=$rc viol=$(grep -c '^VIOLATION' build/final_$id.log) flaky=$(grep -c '^FLAKY' build/final_$id.log) known=$(grep -c '^KNOWN-FINDING' build/final_$id.log) wall=$(( $(date +%s) - t0 ))s $(grep -h '^property=' build/final_$id.log | tail -1 | cut -d' ' -f4)" | tee -a build/final.log
done
python3-vt vv/gen_manifest.py | tail -1
python3-vt - <<'PY'
import json, glob, jsonschema
ms = json.load(open('/root/.vp/MANIFEST.schema.json')); jsonschema.validate(json.load(open('/verif/MANIFEST.json')), ms)
es = json.load(open('/root/.vp/EVIDENCE.schema.json'))
n = 0
for f in sorted(glob.glob('/verif/evidence/C*.json')):
    jsonschema.validate(json.load(open(f)), es); n += 1
print('manifest + %d evidence files valid' % n)
PY
