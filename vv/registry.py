"""Per-property configuration lives in vv/props/cXX.py (one file per property); this module loads them all."""
import glob
import importlib
import os

COMMON_ASSUME = [
    "the sanitizer (ASan+UBSan, -O1, asserts on, -DVOTCA_VERIF) build of /repo's working tree behaves like the release build",
    "generated-input search: absence of a counter-example among the explored cases, not a proof",
]

PROPS = {}


def rc(hname, quick, thorough):
    return dict(engine="rc", harness=hname, quick=quick, thorough=thorough)


def py(mod, quick, thorough, needs=()):
    return dict(engine="py", harness=mod, quick=quick, thorough=thorough, needs_harness=list(needs))


def fz(target, quick, thorough, **kw):
    d = dict(engine="fz", harness=target, quick=quick, thorough=thorough)
    d.update(kw)
    return d


for _f in sorted(glob.glob(os.path.join(os.path.dirname(__file__), "props", "c*.py"))):
    try:
        importlib.import_module("vv.props." + os.path.basename(_f)[:-3])
    except Exception as _e:  # a broken props file must not take the other properties down
        import sys
        print(f"WARNING: cannot load {_f}: {_e!r}", file=sys.stderr)
