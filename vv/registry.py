"""Per-property configuration: harnesses, tiers, non-triviality rules, assumptions."""
from vv.core import harness

COMMON_ASSUME = [
    "the sanitizer (ASan+UBSan, -O1, asserts on, -DVOTCA_VERIF) build of /repo's working tree behaves like the release build",
    "generated-input search: absence of a counter-example among the explored cases, not a proof",
]

PROPS = {}


def rc(hname, quick, thorough):
    return dict(engine="rc", harness=hname, quick=quick, thorough=thorough)


def py(mod, quick, thorough, needs=()):
    return dict(engine="py", harness=mod, quick=quick, thorough=thorough, needs_harness=list(needs))


def fz(target, quick, thorough, **kw):
    d = dict(engine="fz", harness=target, quick=quick, thorough=thorough)
    d.update(kw)
    return d


# ---------------------------------------------------------------- C18
harness("h_c18", ["harness/h_c18.cc"], libs=("csg", "xtp"))
PROPS["C18"] = dict(
    parts=[rc("h_c18", quick=dict(cases=60000, procs=2, args=["--enum", "5"], budget_s=600),
              thorough=dict(cases=3000000, procs=16, args=["--enum", "6"], budget_s=3000))],
    rule=("wildcmp: exhaustive (pattern over {a,b,*,?}, string over {a,b}, length<=5 quick / <=6 thorough) + generated pairs up to "
          "length 40 derived from the pattern and mutated, oracle = DP glob matcher; non-trivial = pattern has '*' followed later by a literal. "
          "range: exhaustive b[:s]:e with b,s,e in -5..5 (quick) / -6..6 (thorough) + generated comma lists with blanks, negative strides and "
          "malformed mutants, oracle = direct enumeration of the grammar with a 10^4 step budget; non-trivial = |stride| != 1 or not well-formed. "
          "index: generated index multisets <-> strings, oracle = std::set; non-trivial = has a consecutive run and duplicates. "
          "beadselect: generated topologies + type / name: patterns vs DP matcher; non-trivial = wildcard pattern selecting a proper non-empty subset."),
    assumptions=COMMON_ASSUME + ["range expressions with an empty begin/end field, empty blocks or an empty string are treated as 'either accepted or rejected' (only termination is required)"],
    exhaustive_in="both",
    exhaustive_note="the small-scope enumerations are complete; the generated part is a sample",
)
