"""C12, executable part: Hypothesis on the ASan build of csg_resample, numpy/scipy oracles.

Clauses of the statement checked here
  * output on the input grid returns the input values and keeps the point flags (also on coarser / finer / offset grids, at
    the output points that coincide with input points),
  * the --derivative output is the derivative of the value output (piece-wise exact differentiation of a finer resample),
  * differential: natural cubic == scipy CubicSpline(bc_type='natural'), linear == own formula, Akima == scipy
    Akima1DInterpolator on the interior pieces; periodic: equal end slopes,
  * --fitgrid: a function of the spline space of the fit grid is reproduced; all --type/--boundaries/--fitgrid combinations
    either work or are rejected with the documented message; never a sanitizer report.

All abscissae live on a 1e-6 decimal lattice (integers), so "output point coincides with input point" is decided exactly.
"""
import math
import os

import numpy as np
from hypothesis import strategies as st
from scipy.interpolate import Akima1DInterpolator, CubicSpline

from vv.pyx import R, sanitizer_report

LAT = 10 ** 6  # abscissae are integers / LAT
PKEY_CUBIC = "CubicSpline::Interpolate/periodic"
PKEY_AKIMA = "AkimaSpline::Interpolate/periodic-slope"
PKEY_LEFT = "csg_resample/grid-left-of-data"
PRINT_REL = 0.51e-9  # operator<<(Table): precision(10) -> 10 significant digits


def dec(k):
    """exact decimal text of k/LAT"""
    s = "-" if k < 0 else ""
    k = abs(k)
    return f"{s}{k // LAT}.{k % LAT:06d}"


# ----------------------------------------------------------------------------------------------- strategies
@st.composite
def ordinates(draw, xs):
    n = len(xs)
    x = np.array(xs, dtype=float) / LAT
    L = x[-1] - x[0]
    kind = draw(st.sampled_from(["poly3", "trig", "exp", "noise", "spikes", "line", "lj", "offset"]))
    if kind == "poly3":
        c = [draw(st.integers(-20, 20)) / 4 for _ in range(4)]
        t = (x - x[0]) / L - 0.5
        y = c[0] + t * (c[1] + t * (c[2] + t * c[3]))
    elif kind == "trig":
        w = draw(st.integers(1, 12)) / 4
        y = draw(st.integers(1, 40)) / 4 * np.sin(2 * math.pi * w * (x - x[0]) / L + draw(st.integers(0, 16)) / 8)
    elif kind == "exp":
        y = np.exp(draw(st.integers(-12, 12)) / 4 * (x - x[0]) / L)
    elif kind == "noise":
        y = np.array([draw(st.integers(-1000, 1000)) / 1000 for _ in range(n)])
    elif kind == "spikes":
        y = np.zeros(n)
        for _ in range(draw(st.integers(1, 3))):
            y[draw(st.integers(0, n - 1))] = draw(st.integers(-40, 40)) / 4
    elif kind == "line":
        y = draw(st.integers(-40, 40)) / 8 * x + draw(st.integers(-40, 40)) / 8
    elif kind == "lj":
        t = 0.8 + 1.7 * (x - x[0]) / L
        y = 4 * (t ** -12 - t ** -6)
    else:
        y = 1000.0 + np.array([draw(st.integers(-1000, 1000)) / 1000 for _ in range(n)])
    # the table is written with 12 significant digits; the oracle uses the values as written
    return kind, [float(f"{v:.12g}") for v in y]


@st.composite
def interp_case(draw):
    typ = draw(st.sampled_from(["linear", "cubic", "cubic", "akima", "akima"]))
    bnd = draw(st.sampled_from([None, None, "natural", "periodic", "periodic", "derivativezero"]))
    n = draw(st.one_of(st.integers(3, 12), st.integers(4, 60), st.integers(4, 60), st.integers(2, 5)))
    x0 = draw(st.sampled_from([0, 0, 250000, -3000000, 1000000, 17500000]))
    uniform = draw(st.booleans()) or draw(st.booleans())
    if uniform:
        step = draw(st.sampled_from([1000, 2000, 5000, 10000, 20000, 50000, 100000, 250000, 12500, 31250]))
        if n >= 3 and draw(st.integers(0, 3)) == 0:  # angle-like table: the grid crosses x = 0 at a knot
            x0 = -step * draw(st.integers(1, n - 2))
        xs = [x0 + i * step for i in range(n)]
    else:
        base = draw(st.sampled_from([1000, 4000, 10000, 50000]))
        xs = [x0]
        for _ in range(n - 1):
            xs.append(xs[-1] + base * draw(st.integers(1, 20)))
    ykind, ys = draw(ordinates(xs))
    if bnd == "periodic":
        ys[-1] = ys[0]
    flags = draw(st.one_of(st.just("i" * n), st.text(alphabet="iou", min_size=n, max_size=n),
                           st.builds(lambda a, b: ("o" * a + "i" * n)[:n - b] + "u" * b, st.integers(0, n // 2), st.integers(0, n // 2))))
    # output grid
    gk = draw(st.sampled_from(["same", "same", "coarser", "finer", "offset", "sub", "beyond", "left"] if uniform else
                              ["finer", "offset", "sub", "beyond", "cover"]))
    hmin = min(b - a for a, b in zip(xs, xs[1:]))
    if uniform and gk == "same":
        g0, gs, gn = xs[0], step, n - 1
    elif uniform and gk == "coarser":
        m = draw(st.integers(2, 4))
        g0, gs, gn = xs[0], step * m, max(1, (n - 1) // m)
    elif gk == "finer":
        m = draw(st.sampled_from([2, 4, 5, 8]))
        gs = max(1, hmin // m)
        g0 = xs[0]
        gn = min(2000, (xs[-1] - xs[0]) // gs)
    elif gk == "offset":
        gs = max(2, hmin // draw(st.sampled_from([1, 2, 4])))
        g0 = xs[0] + draw(st.integers(1, gs - 1))
        gn = min(2000, max(1, (xs[-1] - g0) // gs))
    elif gk == "sub":
        gs = max(1, hmin // draw(st.sampled_from([1, 2])))
        lo = draw(st.integers(0, n - 2))
        g0 = xs[lo]
        gn = min(2000, max(1, (xs[draw(st.integers(lo + 1, n - 1))] - g0) // gs))
    elif gk == "beyond":  # starts before the data and/or ends after them
        gs = hmin
        before, after = draw(st.integers(0, 3)), draw(st.integers(0, 3))
        g0 = xs[0] - before * gs
        gn = min(2000, (xs[-1] - g0) // gs + after)
    elif gk == "left":  # entirely left of the data
        gs = step
        gn = draw(st.integers(1, 5))
        g0 = xs[0] - (gn + draw(st.integers(1, 3))) * gs
    else:  # cover: whole range with a step unrelated to the knots
        gn = draw(st.integers(3, 200))
        gs = max(1, (xs[-1] - xs[0]) // gn)
        g0 = xs[0]
        gn = (xs[-1] - xs[0]) // gs
    gn = max(1, int(gn))
    return dict(type=typ, boundaries=bnd, x=xs, y=ys, ykind=ykind, flags=flags, grid=[int(g0), int(gs), int(gn)], gridkind=gk,
                comment=draw(st.booleans()),
                # input file layout: "x y flag" | "x y yerr flag" (as written by csg_stat / csg_fmatch) | with a leading row count
                layout=draw(st.sampled_from(["xyf", "xyf", "xyef", "n+xyf", "n+xyef"])))


@st.composite
def fit_case(draw):
    typ = draw(st.sampled_from(["cubic", "cubic", "linear", "akima"]))
    bnd = draw(st.sampled_from([None, None, "natural", "periodic", "derivativezero"]))
    nint = draw(st.integers(2, 12))
    f0 = draw(st.sampled_from([0, 250000, -2000000, 1000000]))
    fs = draw(st.sampled_from([50000, 100000, 200000, 250000, 500000]))
    short = draw(st.sampled_from([0, 0, 1, 2, 3]))  # last interval = short/4 of a step (0: step divides the range)
    f1 = f0 + nint * fs + short * fs // 4
    kv = [draw(st.integers(-64, 64)) / 16 for _ in range(nint + 2)]
    if draw(st.integers(0, 4)) == 0:
        kv = [v + 100.0 for v in kv]
    per = draw(st.sampled_from([4, 5, 8, 10]))  # data points per fit interval
    ds = fs // per
    extra_l, extra_r = draw(st.integers(0, 3)), draw(st.integers(0, 3))  # data beyond the fit grid (cut off by default)
    d0 = f0 - extra_l * ds
    dn = (f1 - d0) // ds + extra_r
    # output grid inside the fit grid
    gs = draw(st.sampled_from([ds, ds // 2, fs, ds * 3]))
    goff = draw(st.integers(0, 3)) * ds
    g0 = f0 + goff
    gn = max(1, (f1 - g0) // gs)
    return dict(type=typ, boundaries=bnd, fitgrid=[f0, fs, f1], knotvalues=kv, data=[int(d0), int(ds), int(dn)],
                grid=[int(g0), int(gs), int(gn)], nocut=draw(st.booleans()) and extra_l == 0 and extra_r == 0)


# ----------------------------------------------------------------------------------------------- helpers
def write_table(path, xs, ys, flags, layout="xyf"):
    with open(path, "w") as f:
        if layout.startswith("n+"):
            f.write(f"{len(xs)}\n")
        for i, (k, y, fl) in enumerate(zip(xs, ys, flags)):
            if layout.endswith("xyef"):
                f.write(f"{dec(k)} {y:.12g} {0.001 * (i % 7 + 1):.6g} {fl}\n")
            else:
                f.write(f"{dec(k)} {y:.12g} {fl}\n")


def read_table(path):
    xs, ys, fl = [], [], []
    for line in open(path):
        line = line.split("#")[0].strip()
        if not line:
            continue
        t = line.split()
        xs.append(float(t[0]))
        ys.append(float(t[1]))
        fl.append(t[2] if len(t) > 2 else "")
    return np.array(xs), np.array(ys), fl


def grid_points(g0, gs, gn):
    """the requested grid min:step:max with max = min + n*step: n+1 points; exact lattice integers and doubles"""
    ks = [g0 + i * gs for i in range(gn + 1)]
    return ks, np.array(ks, dtype=float) / LAT


def accumulated(gmin, gmax, n):
    """what a sequential r += spacing loop produces (used only for the flag ambiguity band)"""
    sp = (gmax - gmin) / (n - 1) if n > 1 else 0.0
    out, r = [], gmin
    for _ in range(n - 1):
        out.append(r)
        r += sp
    out.append(gmax)
    return out


def run_resample(ctx, d, case_args):
    rc, out = ctx.sh(["csg_resample"] + case_args, cwd=d, timeout=120)
    return rc, out


def lagrange_derivative(nodes, vals, x):
    """derivative at x of the polynomial through (nodes, vals); returns (d, sum |w_i v_i|-type noise weights w)"""
    nodes = np.asarray(nodes, dtype=np.longdouble)
    x = np.longdouble(x)
    m = len(nodes)
    w = np.zeros(m, dtype=np.longdouble)
    for i in range(m):
        s = np.longdouble(0)
        for j in range(m):
            if j == i:
                continue
            p = np.longdouble(1) / (nodes[i] - nodes[j])
            for k in range(m):
                if k != i and k != j:
                    p *= (x - nodes[k]) / (nodes[i] - nodes[k])
            s += p
        w[i] = s
    return float(np.sum(w * np.asarray(vals, dtype=np.longdouble))), np.abs(w).astype(float)


def derivative_check(r, key, knots, typ, xf, yf, xd, yd):
    """yd(xd) must be the derivative of the piecewise polynomial sampled as yf(xf). knots: break points (float array).
    Pieces 0 and last continue to -inf/+inf.  At a break point either side is accepted (linear splines have a kink)."""
    nk = len(knots)
    deg = 1 if typ == "linear" else 3
    ymax = float(np.max(np.abs(yf))) if len(yf) else 0.0
    checked = 0
    for x, d in zip(xd, yd):
        j = int(np.searchsorted(knots, x, side="right")) - 1
        j = min(max(j, 0), nk - 2)
        cands = [j]
        hk = knots[j + 1] - knots[j]
        if j > 0 and abs(x - knots[j]) <= 1e-9 * hk:
            cands.append(j - 1)
        if j < nk - 2 and abs(x - knots[j + 1]) <= 1e-9 * hk:
            cands.append(j + 1)
        ok, msgs, usable, all_usable = False, [], False, True
        for p in cands:
            # a table row that nominally sits on a break point may have been evaluated on either side (accumulated abscissa):
            # harmless for C1 splines (second order), a first-order error at the kinks of a linear spline -> interior rows only
            pad = -1e-9 * hk if typ == "linear" else 1e-9 * hk
            lo = -math.inf if p == 0 else knots[p] - pad
            hi = math.inf if p == nk - 2 else knots[p + 1] + pad
            idx = np.nonzero((xf >= lo) & (xf <= hi))[0]
            # nodes: spread over the piece but not farther than 2 piece lengths from x (end pieces are unbounded)
            span = 2 * (knots[p + 1] - knots[p])
            idx = idx[(xf[idx] >= x - span) & (xf[idx] <= x + span)]
            sel = sorted(set(int(round(t)) for t in np.linspace(0, len(idx) - 1, deg + 1))) if len(idx) >= deg + 1 else []
            if len(sel) < deg + 1:
                all_usable = False
                continue
            nodes, vals = xf[idx[sel]], yf[idx[sel]]
            usable = True
            est, w = lagrange_derivative(nodes, vals, x)
            # printed digits of the values and of d; the abscissae of the finer table are accumulated sums (<= 1e-12 off)
            smax = float(np.max(np.abs(np.diff(yf[idx]) / np.diff(xf[idx])))) if len(idx) > 1 else 0.0
            tol = (float(np.sum(w * (PRINT_REL * np.abs(vals) + 1e-300))) + PRINT_REL * abs(d) + 1e-7 * abs(est) + 1e-12 * ymax / max(hk, 1e-12) +
                   1e-12 * float(np.sum(w)) * smax)
            msgs.append(f"piece {p}: numerical {est:.10g} tol {tol:.3g}")
            if abs(est - d) <= tol:
                ok = True
        # at a kink (linear spline) the reported derivative is one of the one-sided ones: undecided unless both sides are sampled
        if usable and not ok and typ == "linear" and not all_usable:
            continue
        if usable:
            checked += 1
            if not ok:
                r.fail(key, f"--derivative at x={x:.10g} is {d:.10g}; derivative of the value output: " + "; ".join(msgs))
                return checked
    return checked


def expect_grid(r, xo, gx, what):
    if len(xo) != len(gx):
        r.fail("csg_resample/grid", f"{what}: {len(xo)} rows, requested grid has {len(gx)} points ({gx[0]:.8g}:{gx[-1]:.8g})")
        return False
    if not np.all(np.abs(xo - gx) <= 2 * PRINT_REL * np.abs(gx) + 1e-12 * (1 + float(np.max(np.abs(gx))))):
        i = int(np.argmax(np.abs(xo - gx)))
        r.fail("csg_resample/grid", f"{what}: row {i} has x={xo[i]:.12g}, grid point {gx[i]:.12g}")
        return False
    return True


def akima_ambiguous_knots(x, y):
    """knots whose Akima slope is decided by a tie rule (both weight differences vanish while the two central slopes differ)"""
    m = np.diff(y) / np.diff(x)
    n = len(x)
    amb = set()
    mm = np.max(np.abs(m)) if len(m) else 0.0
    for i in range(2, n - 2):
        f12 = abs(m[i + 1] - m[i]) + abs(m[i - 1] - m[i - 2])
        if f12 <= 1e-6 * mm and abs(m[i - 1] - m[i]) > 1e-12 * mm:
            amb.add(i)
    return amb


# ----------------------------------------------------------------------------------------------- interpolation
def run_interp(case, ctx, d):
    r = R()
    typ, bnd = case["type"], case["boundaries"]
    xs, ys, flags = case["x"], case["y"], case["flags"]
    n = len(xs)
    x = np.array(xs, dtype=float) / LAT
    y = np.array(ys, dtype=float)
    g0, gs, gn = case["grid"]
    gk, gx = grid_points(g0, gs, gn)
    left = gk[-1] < xs[0]
    if left and PKEY_LEFT in ctx.known:
        r.discard = True
        return r
    if typ == "cubic" and bnd == "periodic" and PKEY_CUBIC in ctx.known:
        r.cls("excluded-known:" + PKEY_CUBIC)
        r.discard = True
        return r
    write_table(os.path.join(d, "in.tab"), xs, ys, flags, case.get("layout", "xyf"))
    r.cls("input-layout:" + case.get("layout", "xyf"))
    if xs[0] < 0 < xs[-1] and 0 in xs:
        r.cls("grid-crosses-zero-at-a-knot")
    args = ["--in", "in.tab", "--out", "out.tab", "--grid", f"{dec(gk[0])}:{dec(gs)}:{dec(gk[-1])}", "--type", typ, "--derivative", "der.tab"]
    if bnd:
        args += ["--boundaries", bnd]
    if case.get("comment"):
        args += ["--comment", "made by exe_c12"]
    rc, out = run_resample(ctx, d, args)
    r.cls(f"{typ}/{bnd or 'default'}")
    r.cls("grid:" + case["gridkind"])
    uniform = len(set(b - a for a, b in zip(xs, xs[1:]))) == 1
    r.nontrivial = (not uniform) or any(k in set(xs[1:-1]) for k in gk)
    if sanitizer_report(out) or rc in (-6, 134, -11, 139):
        key = PKEY_LEFT if left else "csg_resample/sanitizer"
        return r.fail(key, f"csg_resample {' '.join(args)} died (rc={rc}): {out[-1500:]}")
    minpts = dict(linear=2, cubic=3, akima=4)[typ]
    if n < minpts:
        if rc == 0:
            return r.fail("csg_resample/too-few-points", f"{n} points accepted for --type {typ}")
        r.cls("rejected:too-few-points")
        return r
    if bnd == "derivativezero" and typ != "linear":
        if rc != 0 and "not implemented" in out:
            r.cls("rejected:derivativezero-interpolation")
            return r
        return r.fail("csg_resample/derivativezero", f"rc={rc}: {out[-500:]}")
    if rc != 0:
        return r.fail("csg_resample/fails", f"csg_resample {' '.join(args)} -> rc={rc}: {out[-800:]}")
    xo, yo, fo = read_table(os.path.join(d, "out.tab"))
    xd, yd, fd = read_table(os.path.join(d, "der.tab"))
    if not expect_grid(r, xo, gx, "--out") or not expect_grid(r, xd, gx, "--derivative"):
        return r
    periodic_cubic = typ == "cubic" and bnd == "periodic"
    key_of = (lambda k: PKEY_CUBIC) if periodic_cubic else (lambda k: k)
    Y = float(np.max(np.abs(y)))
    slopes = np.abs(np.diff(y) / np.diff(x))
    M = float(np.max(slopes))
    hmin, hmax = float(np.min(np.diff(x))), float(np.max(np.diff(x)))
    rho2 = (hmax / hmin) ** 2
    if not (np.all(np.isfinite(yo)) and np.all(np.isfinite(yd))):
        return r.fail(key_of("csg_resample/non-finite"), "output contains nan/inf")
    # ---- (1) output points that coincide with input points: value and flag
    pos = {k: j for j, k in enumerate(xs)}
    acc = accumulated(gx[0], gx[-1], len(gx))
    nmatch = 0
    for i, k in enumerate(gk):
        j = pos.get(k)
        if j is None:
            continue
        nmatch += 1
        tol = 2 * PRINT_REL * abs(y[j]) + 1e-11 * 16 * M + 1e-12 * Y + 1e-300
        if abs(yo[i] - y[j]) > tol:
            return r.fail(key_of("csg_resample/value-on-input-grid"), f"{typ}/{bnd}: output at x={gx[i]:.10g} is {yo[i]:.12g}, input value {y[j]:.12g} (tol {tol:.3g})")
        exp = {flags[j]}
        if j == 0 and acc[i] < x[0]:
            # tie: the accumulated grid point is a few ulp left of the first input point; csg_resample then treats it as
            # "before the data" (flag o) - its 1e-12 window is only applied to the later points.  Rule 2: either outcome.
            exp.add("o")
            r.cls("ambiguous-flag")
        if acc[i] - x[j] > 2e-13 and j + 1 < n:  # accumulated grid point lands right of the input point by about the code's 1e-12 window
            exp.add(flags[j + 1])
            r.cls("ambiguous-flag")
        if fo[i] not in exp or fd[i] not in exp:
            return r.fail("csg_resample/flag-on-input-grid", f"output at x={gx[i]:.10g}: flag '{fo[i]}' (derivative table '{fd[i]}'), input point has '{flags[j]}'")
    if nmatch:
        r.cls("points-on-input-grid")
    # ---- (2) differential
    inside = (gx >= x[0]) & (gx <= x[-1])
    if typ == "linear":
        j = np.clip(np.searchsorted(x, gx, side="right") - 1, 0, n - 2)
        ref = y[j] + (y[j + 1] - y[j]) / (x[j + 1] - x[j]) * (gx - x[j])
        tol = 2 * PRINT_REL * np.abs(ref) + 1e-12 * (Y + M * (np.max(np.abs(x)) + hmax))
        bad = np.nonzero(np.abs(yo - ref) > tol)[0]
        if len(bad):
            i = int(bad[0])
            return r.fail("csg_resample/linear-differential", f"x={gx[i]:.10g}: {yo[i]:.12g}, linear interpolation gives {ref[i]:.12g}")
    elif typ == "cubic" and bnd != "periodic":
        cs = CubicSpline(x, y, bc_type="natural")
        ref = cs(gx)
        # outside the grid the end polynomial is continued (both implementations); the bound grows with the distance
        ext = np.maximum(1.0, np.maximum((x[0] - gx) / hmin, (gx - x[-1]) / hmin) + 1) ** 3
        tol = 2 * PRINT_REL * np.abs(ref) + 1e-10 * Y * (1 + rho2) * ext
        bad = np.nonzero(np.abs(yo - ref) > tol)[0]
        if len(bad):
            i = int(bad[0])
            return r.fail("csg_resample/cubic-differential", f"x={gx[i]:.10g}: {yo[i]:.12g}, scipy natural CubicSpline gives {ref[i]:.12g} (tol {tol[i]:.3g})")
    elif typ == "cubic":
        cs = CubicSpline(x, y, bc_type="periodic")
        ref = cs(gx)
        tol = 2 * PRINT_REL * np.abs(ref) + 1e-10 * Y * (1 + rho2)
        bad = np.nonzero((np.abs(yo - ref) > tol) & inside)[0]
        if len(bad):
            i = int(bad[0])
            return r.fail(PKEY_CUBIC, f"--boundaries periodic, {n} points: x={gx[i]:.10g}: {yo[i]:.12g}, scipy periodic CubicSpline gives {ref[i]:.12g}")
    else:
        ak = Akima1DInterpolator(x, y)
        amb = akima_ambiguous_knots(x, y)
        piece = np.clip(np.searchsorted(x, gx, side="right") - 1, 0, n - 2)
        use = inside & (piece >= 2) & (piece <= n - 4)
        for a in amb:
            use &= ~((piece == a) | (piece == a - 1))
        if amb:
            r.cls("ambiguous-akima-weights")
        if np.any(use):
            ref = ak(gx[use])
            tol = 2 * PRINT_REL * np.abs(ref) + 1e-9 * (Y + M * hmax)
            bad = np.nonzero(np.abs(yo[use] - ref) > tol)[0]
            if len(bad):
                i = int(bad[0])
                return r.fail("csg_resample/akima-differential", f"x={gx[use][i]:.10g}: {yo[use][i]:.12g}, scipy Akima1DInterpolator gives {ref[i]:.12g}")
            r.cls("akima-interior-compared")
    # ---- (3) periodic: equal slope at the two ends (needs both end points in the derivative table)
    if bnd == "periodic" and typ != "linear" and gk[0] == xs[0] and gk[-1] == xs[-1]:
        key = PKEY_CUBIC if typ == "cubic" else PKEY_AKIMA
        if key in ctx.known:
            r.cls("excluded-known:" + key)
        else:
            amb = False
            if typ == "akima":
                m = np.diff(y) / np.diff(x)
                w = abs(m[1] - m[0]) + abs(m[-1] - m[-2])
                amb = w <= 1e-6 * (abs(m[0]) + abs(m[-1])) + 1e-300
            # (+ the rounding noise of a slope: values of size Y over the shortest interval; constant data have M = 0)
            tol = 2 * PRINT_REL * max(abs(yd[0]), abs(yd[-1])) + 1e-9 * M + 64 * 2.3e-16 * Y / hmin
            if not amb and abs(yd[0] - yd[-1]) > tol:
                return r.fail(key, f"--type {typ} --boundaries periodic, {n} points: derivative {yd[0]:.10g} at the first point, {yd[-1]:.10g} at the last")
    # ---- (4) the derivative table is the derivative of the value table: finer resample of the same spline
    fs = max(1, min(gs // 4 if gs >= 4 else 1, int(hmin * LAT) // 4))
    nf = (gk[-1] - gk[0]) // fs + 8  # 4 more steps on both sides so that the pieces next to the end points are sampled
    if nf > 40000 or nf < 4:
        r.cls("derivative-check-skipped(size)")
        return r
    fk, fx = grid_points(gk[0] - 4 * fs, fs, nf)
    args2 = ["--in", "in.tab", "--out", "fine.tab", "--grid", f"{dec(fk[0])}:{dec(fs)}:{dec(fk[-1])}", "--type", typ]
    if bnd:
        args2 += ["--boundaries", bnd]
    rc2, out2 = run_resample(ctx, d, args2)
    if sanitizer_report(out2) or rc2 != 0:
        return r.fail(key_of("csg_resample/fails"), f"finer grid: rc={rc2}: {out2[-800:]}")
    xf, yf, _ = read_table(os.path.join(d, "fine.tab"))
    if not expect_grid(r, xf, fx, "--out (finer grid)"):
        return r
    # the coarse value output is a subset of the finer one
    sub = {k: i for i, k in enumerate(fk)}
    for i, k in enumerate(gk):
        if k in sub and abs(yo[i] - yf[sub[k]]) > 2 * PRINT_REL * abs(yo[i]) + 1e-11 * 16 * M + 1e-12 * Y:
            return r.fail(key_of("csg_resample/grid-dependence"), f"value at x={gx[i]:.10g} depends on the output grid: {yo[i]:.12g} vs {yf[sub[k]]:.12g}")
    nchk = derivative_check(r, key_of("csg_resample/derivative"), x, typ, fx, yf, gx, yd)
    if nchk:
        r.cls("derivative-compared")
    return r


# ----------------------------------------------------------------------------------------------- fit
def run_fit(case, ctx, d):
    r = R()
    typ, bnd = case["type"], case["boundaries"]
    f0, fs, f1 = case["fitgrid"]
    # knots of the fit grid min:step:max: n = floor((max-min)/step) + 1 points, min + k*step, the last one pinned at max
    # (GenerateGrid(0,9,2) = 0,2,4,6,9 in the unit test: the remainder lengthens the last interval)
    nfit = (f1 - f0) // fs + 1
    kk = [f0 + i * fs for i in range(nfit - 1)] + [f1]
    knots = np.array(kk, dtype=float) / LAT
    nk = len(knots)
    kv = np.array(case["knotvalues"][:nk], dtype=float)
    if len(kv) < nk:
        r.discard = True
        return r
    if typ == "linear":
        target = lambda t: np.interp(t, knots, kv)
    else:
        cs = CubicSpline(knots, kv, bc_type="natural")
        target = cs
    d0, ds, dn = case["data"]
    dk, dx = grid_points(d0, ds, dn)
    ytab = [float(f"{v:.12g}") for v in target(np.clip(dx, knots[0], knots[-1]))]
    write_table(os.path.join(d, "in.tab"), dk, ytab, "i" * len(dk))
    g0, gs, gn = case["grid"]
    gk, gx = grid_points(g0, gs, gn)
    args = ["--in", "in.tab", "--out", "out.tab", "--grid", f"{dec(gk[0])}:{dec(gs)}:{dec(gk[-1])}", "--type", typ,
            "--fitgrid", f"{dec(f0)}:{dec(fs)}:{dec(f1)}", "--derivative", "der.tab"]
    if bnd:
        args += ["--boundaries", bnd]
    if case.get("nocut"):
        args += ["--nocut"]
    rc, out = run_resample(ctx, d, args)
    r.cls(f"fit:{typ}/{bnd or 'default'}")
    r.nontrivial = nk >= 3
    if sanitizer_report(out) or rc in (-6, 134, -11, 139):
        return r.fail("csg_resample/sanitizer", f"csg_resample {' '.join(args)} died (rc={rc}): {out[-1500:]}")
    if typ == "akima":
        if rc != 0 and "Akima fit not implemented" in out:
            r.cls("rejected:akima-fit")
            return r
        return r.fail("csg_resample/akima-fit", f"rc={rc}: {out[-500:]}")
    if rc != 0:
        return r.fail("csg_resample/fit-fails", f"csg_resample {' '.join(args)} -> rc={rc}: {out[-800:]}")
    xo, yo, _ = read_table(os.path.join(d, "out.tab"))
    xd, yd, _ = read_table(os.path.join(d, "der.tab"))
    if not expect_grid(r, xo, gx, "--out") or not expect_grid(r, xd, gx, "--derivative"):
        return r
    Y = float(np.max(np.abs(kv))) + 1e-300
    natural = bnd in (None, "natural") or typ == "linear"
    if natural:
        # the data lie in the spline space of the fit grid (up to the 12 printed digits): reproduced
        ref = target(gx)
        tol = 1e-8 * Y * (1 + (fs / max(1, f1 - kk[-2])) ** 2) + 2 * PRINT_REL * np.abs(ref)
        bad = np.nonzero(np.abs(yo - ref) > tol)[0]
        if len(bad):
            i = int(bad[0])
            return r.fail("csg_resample/fit-reproduction", f"{typ} fit, {nk} knots: x={gx[i]:.10g}: {yo[i]:.12g}, function of the spline space {ref[i]:.12g}")
        r.cls("fit-reproduction-compared")
    # derivative table = derivative of the value table (knots of the fitted spline = fit grid)
    ff = max(1, min(gs // 4, min(fs, f1 - kk[-2]) // 4))
    nf = (gk[-1] - gk[0]) // ff
    if nf > 40000 or nf < 4:
        return r
    fk, fx = grid_points(gk[0], ff, nf)
    args2 = [a for a in args]
    args2[args2.index("--out") + 1] = "fine.tab"
    args2[args2.index("--grid") + 1] = f"{dec(fk[0])}:{dec(ff)}:{dec(fk[-1])}"
    i = args2.index("--derivative")
    del args2[i:i + 2]
    rc2, out2 = run_resample(ctx, d, args2)
    if sanitizer_report(out2) or rc2 != 0:
        return r.fail("csg_resample/fit-fails", f"finer grid: rc={rc2}: {out2[-800:]}")
    xf, yf, _ = read_table(os.path.join(d, "fine.tab"))
    if not expect_grid(r, xf, fx, "--out (finer grid)"):
        return r
    if derivative_check(r, "csg_resample/derivative", knots, typ, fx, yf, gx, yd):
        r.cls("derivative-compared")
    return r


SUBS = [
    dict(name="interp", strategy=interp_case(), run=run_interp, share=2.0),
    dict(name="fit", strategy=fit_case(), run=run_fit, share=1.0),
]
