"""C06 (a) csg_fmatch and (b) csg_imc_solve on the real executables; oracles in numpy/scipy.

imc_solve: generated non-symmetric dyadic A, b, regularisation, multi-interaction index files -> residual of
           (A^T A + r I) x = -A^T b and exact index split, everything recomputed from the written files.
fmatch   : synthetic force fields that lie inside csg_fmatch's fit space (natural cubic splines on the fit grid):
           pair, bond, angle, dihedral (plain and fmatch.periodic) force functions; reference forces analytic (own gradients), written as a
           DL_POLY HISTORY (.dlph) trajectory; the written *.force tables must reproduce the generating functions.
"""
import glob
import math
import os

import numpy as np
from hypothesis import strategies as st
from scipy.interpolate import CubicSpline

from vv.pyx import R, sanitizer_report

EPS = 2.220446049250313e-16


def is_known(ctx, key):
    return key in ctx.known or key in [k for k in ctx.env.get("VV_KNOWN", "").split(",") if k]


# =====================================================================================================================
# (b) csg_imc_solve
# =====================================================================================================================
NAMES = ["A-A", "A-B", "B-B", "LJ1-LJ2", "CG-CG", "X1-Y2"]


@st.composite
def imc_cases(draw):
    n = draw(st.integers(2, 30))
    k = draw(st.integers(0, 4))
    style = draw(st.sampled_from(["dense", "dense", "dense", "band", "symmetric", "near-symmetric", "rank-deficient"]))
    ent = st.integers(-64, 64)
    A = [[draw(ent) for _ in range(n)] for _ in range(n)]
    if style == "band":
        w = draw(st.integers(1, 3))
        A = [[A[i][j] if abs(i - j) <= w else 0 for j in range(n)] for i in range(n)]
    elif style == "symmetric":
        A = [[A[min(i, j)][max(i, j)] for j in range(n)] for i in range(n)]
    elif style == "near-symmetric":
        A = [[8 * A[min(i, j)][max(i, j)] + (1 if i < j and (i + j) % 3 == 0 else 0) for j in range(n)] for i in range(n)]
    elif style == "rank-deficient":
        A[n - 1] = list(A[0])
    b = [draw(st.integers(-800, 800)) for _ in range(n)]
    rho_m = draw(st.integers(1, 99))
    rho_e = draw(st.integers(-7, 2))
    # index: partition of 1..n into m chunks
    m = draw(st.integers(1, min(4, n)))
    cuts = sorted(draw(st.lists(st.integers(1, n - 1), min_size=m - 1, max_size=m - 1, unique=True))) if m > 1 else []
    bounds = [0] + cuts + [n]
    names = draw(st.permutations(NAMES))[:m]
    order = draw(st.permutations(list(range(m))))
    forms = [draw(st.sampled_from(["a:b", "a:b", "a:b", "a:1:b", "split", "blank"])) for _ in range(m)]
    strided = draw(st.booleans()) and m == 2 and n >= 4 and draw(st.integers(0, 3)) == 0
    x0 = draw(st.integers(0, 100))
    dx = draw(st.sampled_from([1, 2, 5, 10, 25]))
    # physical units of the matrix entries: A and b in units of 10^u (the solution does not depend on u when r scales with |A^T A|)
    units = draw(st.sampled_from([0, 0, 0, 0, 0, 0, -7, -7, -6, 3]))
    return dict(n=n, k=k, style=style, A=A, b=b, rho=[rho_m, rho_e], bounds=bounds, names=list(names), order=list(order), forms=forms,
                strided=strided, x0=x0, dx=dx, units=units)


def _imc_index(case):
    """-> list of (name, range text, [1-based indices]) in file order"""
    n = case["n"]
    ent = []
    m = len(case["bounds"]) - 1
    for c in range(m):
        lo, hi = case["bounds"][c] + 1, case["bounds"][c + 1]
        idx = list(range(lo, hi + 1))
        form = case["forms"][c]
        if form == "a:1:b":
            txt = f"{lo}:1:{hi}"
        elif form == "split" and hi - lo >= 1:
            mid = (lo + hi) // 2
            txt = f"{lo}:{mid},{mid + 1}:{hi}"
        elif form == "blank":
            txt = f" {lo}:{hi}"
        else:
            txt = f"{lo}:{hi}"
        ent.append([case["names"][c], txt, idx])
    if case["strided"]:
        last = n if n % 2 == 1 else n - 1
        laste = n if n % 2 == 0 else n - 1
        ent = [[case["names"][0], f"1:2:{last}", list(range(1, n + 1, 2))], [case["names"][1], f"2:2:{laste}", list(range(2, n + 1, 2))]]
    return [ent[i] for i in case["order"]] if not case["strided"] else ent


def run_imc(case, ctx, d):
    r = R()
    n = case["n"]
    usc = 10.0 ** case.get("units", 0)
    A = np.array(case["A"], dtype=float) / 2.0 ** case["k"] * usc
    b = np.array(case["b"], dtype=float) / 8.0 * usc
    nonsym = np.linalg.norm(A - A.T) > 0.1 * max(np.linalg.norm(A), 1e-300)
    exactly_sym = np.array_equal(A, A.T)
    symmetrised = False
    if not exactly_sym and is_known(ctx, "imcio_read_matrix/transposed"):
        symmetrised = True
        # class excluded by construction while the finding is open: use the symmetric part
        A = (A + A.T) / 2.0
        nonsym = False
        r.cls("excluded-known:imcio_read_matrix/transposed(symmetrised)")
    ata = A.T @ A
    nrm = np.linalg.norm(ata, 2)
    if nrm == 0:
        r.discard = True
        return r
    reg = case["rho"][0] * 10.0 ** case["rho"][1] * nrm
    xg = [(29 + case["x0"]) / 100.0 + i * case["dx"] / 100.0 for i in range(n)]
    xg = [float("%.8g" % v) for v in xg]
    with open(os.path.join(d, "in.gmc"), "w") as f:
        for i in range(n):
            f.write(" ".join("%.17g" % v for v in A[i]) + " \n")
    with open(os.path.join(d, "in.imc"), "w") as f:
        for i in range(n):
            f.write("%.8g %.17g i\n" % (xg[i], b[i]))
    index = _imc_index(case)
    with open(os.path.join(d, "in.idx"), "w") as f:
        for name, txt, _ in index:
            f.write(f"{name} {txt}\n")
    regs = "%.17g" % reg
    rcode, out = ctx.sh(["csg_imc_solve", "-r", regs, "-i", "in.imc", "-g", "in.gmc", "-n", "in.idx"], cwd=d)

    # ---- oracle from the files
    Af = np.loadtxt(os.path.join(d, "in.gmc"), ndmin=2)
    bt = np.loadtxt(os.path.join(d, "in.imc"), usecols=(0, 1), ndmin=2)
    xf, bf = bt[:, 0], bt[:, 1]
    regf = float(regs)
    M = Af.T @ Af + regf * np.eye(n)
    rhs = -Af.T @ bf
    cond = np.linalg.cond(M)
    if not np.isfinite(cond) or cond > 1e9:
        r.discard = True
        return r
    xs = np.linalg.solve(M, rhs)
    xs = xs + np.linalg.solve(M, rhs - M @ xs)
    if case.get("units", 0):
        r.cls("units:1e%d" % case["units"])
        # the tool documents a fall-back (pseudo inverse + warning) when an eigenvalue + r is below 1e-12 in absolute terms
        if np.min(np.abs(np.linalg.eigvalsh(Af.T @ Af) + regf)) < 4e-12:
            r.cls("documented-pseudo-inverse-domain(not asserted)")
            r.discard = True
            return r
        if np.min(np.linalg.eigvalsh(Af.T @ Af)) < 1e-12:
            r.cls("eigenvalues-below-1e-12-with-r-above")
    r.cls("style:" + case["style"])
    r.cls("nonsymmetric" if nonsym else "symmetric-ish")
    r.cls("interactions:%d" % len(index))
    if case["strided"]:
        r.cls("strided-index")
    r.cls("cond<1e3" if cond < 1e3 else "cond<1e6" if cond < 1e6 else "cond<1e9")
    r.nontrivial = bool((nonsym or symmetrised) and len(index) >= 2)
    if sanitizer_report(out):
        return r.fail("csg_imc_solve/sanitizer", out[-1500:])
    if rcode != 0:
        return r.fail("csg_imc_solve/exit", f"exit {rcode}: {out[-800:]}")
    expected_files = {name + ".dpot.imc" for name, _, _ in index}
    got_files = {os.path.basename(p) for p in glob.glob(os.path.join(d, "*.dpot.imc"))}
    if got_files != expected_files:
        return r.fail("csg_imc_solve/files", f"written {sorted(got_files)}, index names {sorted(expected_files)}")
    x = np.full(n, np.nan)
    for name, txt, idx in index:
        rows = [ln.split() for ln in open(os.path.join(d, name + ".dpot.imc")) if ln.strip() and not ln.startswith("#")]
        if len(rows) != len(idx):
            return r.fail("csg_imc_solve/index-split", f"{name} ({txt}): {len(rows)} rows, range denotes {len(idx)}")
        for row, i1 in zip(rows, idx):
            if abs(float(row[0]) - xf[i1 - 1]) > 1e-9 * max(1.0, abs(xf[i1 - 1])):
                return r.fail("csg_imc_solve/index-split", f"{name} ({txt}): row for index {i1} has x={row[0]}, grid has {xf[i1 - 1]}")
            if len(row) < 3 or row[-1] != "i":
                return r.fail("csg_imc_solve/flag", f"{name}: row {row} lacks flag i")
            x[i1 - 1] = float(row[1])
    if np.isnan(x).any():
        r.discard = True  # index did not cover 1..n (not generated)
        return r
    # residual of the normal equations; tolerance: 10 printed digits of x + conditioning of the solve
    res = np.linalg.norm(M @ x + Af.T @ bf)
    scale = np.linalg.norm(M, 2) * np.linalg.norm(x) + np.linalg.norm(Af.T @ bf)
    tol_res = (2e-9 + 200 * n * EPS * cond) * scale
    err = np.linalg.norm(x - xs)
    tol_x = (2e-9 + 200 * n * EPS * cond) * max(np.linalg.norm(xs), 1e-300)
    if res > tol_res or err > tol_x:
        # attribute: does the output solve the problem for the transposed matrix?
        Mt = Af @ Af.T + regf * np.eye(n)
        xt = np.linalg.solve(Mt, -Af @ bf)
        key = "csg_imc_solve/solution"
        if np.linalg.norm(x - xt) <= (2e-9 + 200 * n * EPS * np.linalg.cond(Mt)) * max(np.linalg.norm(xt), 1e-300) and not np.array_equal(Af, Af.T):
            key = "imcio_read_matrix/transposed"
        return r.fail(key, f"n={n} r={regs}: |(A^T A + rI)x + A^T b| = {res:.6g} (tol {tol_res:.3g}), |x - x*| = {err:.6g} (tol {tol_x:.3g}); "
                           f"x[:4]={x[:4]}, x*[:4]={xs[:4]}" + ("; output equals the solution for A^T" if key.endswith("transposed") else ""))
    return r


# =====================================================================================================================
# (a) csg_fmatch
# =====================================================================================================================
def nat_spline(knots, vals):
    return CubicSpline(np.asarray(knots, float), np.asarray(vals, float), bc_type="natural")


def spline_design(knots, x):
    """textbook cubic spline in values f_i and second derivatives f''_i: row = coefficients w.r.t. (f_0..f_{n-1}, f''_0..f''_{n-1})"""
    knots = np.asarray(knots, float)
    n = len(knots)
    x = np.asarray(x, float)
    i = np.clip(np.searchsorted(knots, x, side="right") - 1, 0, n - 2)
    h = knots[i + 1] - knots[i]
    a = (knots[i + 1] - x) / h
    bb = 1.0 - a
    c = (a ** 3 - a) * h * h / 6.0
    dd = (bb ** 3 - bb) * h * h / 6.0
    return i, a, bb, c, dd


def spline_constraints(knots, periodic=False):
    """n rows: natural ends + continuity of the first derivative at interior knots; periodic: n+1 rows, equal end values,
    equal end curvatures, knot values summing to zero (the documented meaning of fmatch.periodic) + the interior rows"""
    knots = np.asarray(knots, float)
    n = len(knots)
    B = np.zeros((n + (1 if periodic else 0), 2 * n))
    if periodic:
        B[0, 0], B[0, n - 1] = 1.0, -1.0
        B[n - 1, n], B[n - 1, 2 * n - 1] = 1.0, -1.0
        B[n, :n] = 1.0
    else:
        B[0, n] = 1.0
        B[n - 1, 2 * n - 1] = 1.0
    for i in range(1, n - 1):
        h0 = knots[i] - knots[i - 1]
        h1 = knots[i + 1] - knots[i]
        B[i, i - 1] = 1.0 / h0
        B[i, i] = -1.0 / h0 - 1.0 / h1
        B[i, i + 1] = 1.0 / h1
        B[i, n + i - 1] = -h0 / 6.0
        B[i, n + i] = -(h0 + h1) / 3.0
        B[i, n + i + 1] = -h1 / 6.0
    return B


def rot_matrix(rng):
    q, rr = np.linalg.qr(rng.normal(size=(3, 3)))
    q = q * np.sign(np.diag(rr))
    if np.linalg.det(q) < 0:
        q[:, 0] = -q[:, 0]
    return q


def place_chain(nb, bl, th, ph):
    """internal coordinates -> positions (bond lengths bl[0..], angles th[0..] at the middle beads, dihedral ph)"""
    p = [np.zeros(3)]
    if nb >= 2:
        p.append(np.array([bl[0], 0.0, 0.0]))
    if nb >= 3:
        # angle th0 at p1 between p0-p1 and p2-p1
        p.append(p[1] + bl[1] * np.array([-math.cos(th[0]), math.sin(th[0]), 0.0]))
    if nb >= 4:
        b, c = p[1], p[2]
        bc = (c - b) / np.linalg.norm(c - b)
        nrm = np.cross(b - p[0], bc)
        nrm /= np.linalg.norm(nrm)
        m = np.cross(nrm, bc)
        d2 = np.array([-bl[2] * math.cos(th[1]), bl[2] * math.sin(th[1]) * math.cos(ph), bl[2] * math.sin(th[1]) * math.sin(ph)])
        p.append(c + d2[0] * bc + d2[1] * m + d2[2] * nrm)
    return np.array(p)


def mimg(dv, L):
    return dv - L * np.round(dv / L)


def q_bond(x, L):
    d = mimg(x[1] - x[0], L)
    q = np.linalg.norm(d)
    return q, [-d / q, d / q]


def q_angle(x, L):
    v1 = mimg(x[0] - x[1], L)
    v2 = mimg(x[2] - x[1], L)
    n1, n2 = np.linalg.norm(v1), np.linalg.norm(v2)
    cs = np.dot(v1, v2) / (n1 * n2)
    th = math.acos(max(-1.0, min(1.0, cs)))
    sn = math.sqrt(max(1e-300, 1 - cs * cs))
    g0 = -(v2 / (n1 * n2) - cs * v1 / (n1 * n1)) / sn
    g2 = -(v1 / (n1 * n2) - cs * v2 / (n2 * n2)) / sn
    return th, [g0, -(g0 + g2), g2]


def q_dihedral(x, L):
    # IUPAC: phi = atan2(|b2| b1.(b2 x b3), (b1 x b2).(b2 x b3)); gradients after Blondel & Karplus
    b1 = mimg(x[1] - x[0], L)
    b2 = mimg(x[2] - x[1], L)
    b3 = mimg(x[3] - x[2], L)
    n1 = np.cross(b1, b2)
    n2 = np.cross(b2, b3)
    lb2 = np.linalg.norm(b2)
    phi = math.atan2(lb2 * np.dot(b1, n2), np.dot(n1, n2))
    g0 = -lb2 / np.dot(n1, n1) * n1
    g3 = lb2 / np.dot(n2, n2) * n2
    s12 = np.dot(b1, b2) / (lb2 * lb2)
    s32 = np.dot(b3, b2) / (lb2 * lb2)
    g1 = -g0 - s12 * g0 + s32 * g3
    g2 = -g3 + s12 * g0 - s32 * g3
    return phi, [g0, g1, g2, g3]


def _numgrad_selfcheck():
    """the oracle's own gradients against central differences (run once at import; guards the oracle, not VOTCA)"""
    rng = np.random.RandomState(7)
    L = 50.0
    for fn, nb in ((q_bond, 2), (q_angle, 3), (q_dihedral, 4)):
        for _ in range(5):
            x = rng.normal(size=(nb, 3))
            q, g = fn(x, L)
            for i in range(nb):
                for c in range(3):
                    xp, xm = x.copy(), x.copy()
                    xp[i, c] += 1e-6
                    xm[i, c] -= 1e-6
                    num = (fn(xp, L)[0] - fn(xm, L)[0]) / 2e-6
                    assert abs(num - g[i][c]) < 1e-6 * max(1.0, abs(num)), (fn.__name__, i, c, num, g[i][c])


_numgrad_selfcheck()

KNOTVAL = st.integers(-40, 40)


@st.composite
def fm_cases(draw):
    kind = draw(st.sampled_from([0, 0, 1, 2, 2, 3, 3]))
    nside = draw(st.sampled_from([3, 3, 4]))
    nfr = draw(st.integers(1, 4))
    fpb = draw(st.sampled_from(["1", "2", "all"]))
    cls = draw(st.booleans())
    nb = draw(st.booleans()) or kind == 0
    angle = kind >= 2 and (draw(st.integers(0, 3)) > 0)
    dihedral = kind == 3 and (draw(st.integers(0, 3)) > 0)
    two_types = kind == 0 and draw(st.integers(0, 3)) == 0
    if two_types:
        nside = 4
    seed = draw(st.integers(0, 10 ** 6))
    spec = dict(
        nb=dict(nint=draw(st.integers(4, 24)), step=draw(st.sampled_from([10, 20, 25, 40, 50])), vals=[draw(KNOTVAL) for _ in range(3 * 25)]),
        bond=dict(lo=draw(st.sampled_from([100, 120, 150])), nint=draw(st.integers(4, 8)), step=draw(st.sampled_from([5, 10, 20])),
                  vals=[draw(KNOTVAL) for _ in range(9)]),
        angle=dict(lo=draw(st.sampled_from([1000, 1200, 1500])), nint=draw(st.integers(4, 8)), step=draw(st.sampled_from([100, 150, 200])),
                   vals=[draw(KNOTVAL) for _ in range(9)]),
        dihedral=dict(lo=draw(st.sampled_from([-2800, -2000, -1000, 0])), nint=draw(st.integers(4, 8)), step=draw(st.sampled_from([200, 300, 350])),
                      vals=[draw(KNOTVAL) for _ in range(9)]))
    return dict(kind=kind, nside=nside, nfr=nfr, fpb=fpb, cls=cls, nb=nb, angle=angle, dihedral=dihedral, two_types=two_types, seed=seed,
                spec=spec, equal_bonds=draw(st.integers(0, 5)) == 0,
                # fmatch.periodic on the dihedral ("enforces periodicity of potential"): generating function = periodic spline with
                # equal end values / curvatures and knot values summing to zero, i.e. inside that constrained spline space
                periodic=draw(st.booleans()))


class Inter:
    def __init__(self, name, typ, knots, vals, tag=None, periodic=False):
        self.name, self.typ, self.knots, self.vals, self.tag = name, typ, np.asarray(knots, float), np.asarray(vals, float), tag
        self.periodic = periodic
        if periodic:
            v = self.vals.copy()
            v[-1] = v[0]
            v -= v.sum() / len(v)
            self.vals = v
            self.f = CubicSpline(self.knots, v, bc_type="periodic")
        else:
            self.f = nat_spline(self.knots, self.vals)
        self.samples = []   # (frame, q, [(bead, grad vec)])


def build_fm(case, ctx):
    """-> dict with everything needed, or None when the drawn parameters cannot give a well-sampled problem"""
    rng = np.random.RandomState(case["seed"])
    kind, nside, nfr = case["kind"], case["nside"], case["nfr"]
    nbm = kind + 1                       # beads per molecule
    nmol = nside ** 3
    nbead = nmol * nbm
    sp = case["spec"]
    do_angle, do_dih, do_nb = case["angle"], case["dihedral"], case["nb"]
    if is_known(ctx, "fmatch/angle-gradient") and do_angle:
        do_angle = False
        excl_note = "excluded-known:fmatch/angle-gradient(angle interaction dropped)"
    else:
        excl_note = None
    # every intramolecular pair must share a bonded interaction when a non-bonded force acts (exclusions)
    if do_nb and kind == 2 and not do_angle:
        do_nb = False
    if do_nb and kind == 3 and not do_dih:
        do_nb = False
    if kind == 0:
        do_nb = True
    a = [0.5, 0.7, 0.9, 1.1][kind]
    L = round(nside * a, 5)
    # bonded grids (integers are 1e-3 units); the number of intervals is limited so that the stratified samples of ONE block
    # put >= 8 values into every interval
    fpb = {"1": 1, "2": min(2, nfr), "all": nfr}[case["fpb"]]

    def grid(spc, per_frame, hi_lim=None):
        nint = min(spc["nint"], (per_frame * fpb) // 9)
        k = spc["lo"] / 1000.0 + np.arange(nint + 1) * spc["step"] / 1000.0
        if hi_lim is not None:
            k = k[k <= hi_lim]
        return np.round(k, 6)

    bk = grid(sp["bond"], nmol * max(1, nbm - 1))
    ak = grid(sp["angle"], nmol * max(1, nbm - 2), 2.95)
    dk = grid(sp["dihedral"], nmol, 2.9)
    if len(bk) < 4 or len(ak) < 4 or len(dk) < 4:
        return None

    def strat(lo, hi, n):  # stratified uniform sample of (lo,hi), shuffled
        u = (rng.permutation(n) + rng.uniform(0.02, 0.98, size=n)) / n
        return lo + (hi - lo) * (0.001 + 0.998 * u)

    frames = []
    for fr in range(nfr):
        X = np.zeros((nbead, 3))
        b1 = strat(bk[0], bk[-1], nmol)
        b2 = b1.copy() if case["equal_bonds"] else strat(bk[0], bk[-1], nmol)
        b3 = strat(bk[0], bk[-1], nmol)
        t1 = strat(ak[0], ak[-1], nmol)
        t2 = strat(ak[0], ak[-1], nmol)
        ph = strat(dk[0], dk[-1], nmol)
        m = 0
        for ix in range(nside):
            for iy in range(nside):
                for iz in range(nside):
                    ctr = (np.array([ix, iy, iz]) + 0.5) * a + rng.uniform(-0.12, 0.12, size=3)
                    p = place_chain(nbm, [b1[m], b2[m], b3[m]], [t1[m], t2[m]], ph[m])
                    p = (p - p.mean(axis=0)) @ rot_matrix(rng).T + ctr
                    p = p - L * np.floor(p / L)        # wrap every atom into the box
                    X[m * nbm:(m + 1) * nbm] = p
                    m += 1
        X = np.round(X * 1e5) / 1e5                    # exactly printable with 4 decimals in Angstrom
        X = np.where(X >= L, X - L, X)
        frames.append(X)

    types = []
    for m in range(nmol):
        for k in range(nbm):
            types.append("B" if (case["two_types"] and m % 2 == 1) else "A")
    types = np.array(types)
    inters = []
    if kind >= 1:
        inters.append(Inter("bond", "bond", bk, sp["bond"]["vals"][:len(bk)]))
    if do_angle:
        inters.append(Inter("angle", "angle", ak, sp["angle"]["vals"][:len(ak)]))
    if do_dih:
        inters.append(Inter("dihedral", "dihedral", dk, sp["dihedral"]["vals"][:len(dk)], periodic=bool(case.get("periodic"))))
    # bonded samples
    for fr, X in enumerate(frames):
        for m in range(nmol):
            o = m * nbm
            for it in inters:
                if it.typ == "bond":
                    for k in range(nbm - 1):
                        q, g = q_bond(X[[o + k, o + k + 1]], L)
                        it.samples.append((fr, q, [(o + k, g[0]), (o + k + 1, g[1])]))
                elif it.typ == "angle":
                    for k in range(nbm - 2):
                        q, g = q_angle(X[[o + k, o + k + 1, o + k + 2]], L)
                        it.samples.append((fr, q, [(o + k + j, g[j]) for j in range(3)]))
                elif it.typ == "dihedral":
                    q, g = q_dihedral(X[[o, o + 1, o + 2, o + 3]], L)
                    it.samples.append((fr, q, [(o + j, g[j]) for j in range(4)]))
    # non-bonded pairs: all pairs of different molecules (every intramolecular pair is excluded by construction)
    nbint = []
    if do_nb:
        mol = np.repeat(np.arange(nmol), nbm)
        iu, ju = np.triu_indices(nbead, 1)
        keep = mol[iu] != mol[ju]
        iu, ju = iu[keep], ju[keep]
        pair_d = []
        for X in frames:
            dv = mimg(X[ju] - X[iu], L)
            pair_d.append((dv, np.linalg.norm(dv, axis=1)))
        rlo = min(dd.min() for _, dd in pair_d)
        lo = math.floor(rlo * 100 - 1) / 100.0
        if lo < 0.05:
            return None
        combos = [("A", "A")] if not case["two_types"] else [("A", "A"), ("A", "B"), ("B", "B")]
        sels = [((types[iu] == ta) & (types[ju] == tb)) | ((types[iu] == tb) & (types[ju] == ta)) for ta, tb in combos]
        knots = None
        for stp in [v for v in (sp["nb"]["step"], 25, 40, 50, 80, 100, 150, 200) if v >= sp["nb"]["step"]]:
            step = stp / 1000.0
            nint = min(sp["nb"]["nint"], int((L / 2 - 0.011 - lo) / step + 1e-9))
            if nint < 3:
                break
            kn = np.round(lo + np.arange(nint + 1) * step, 6)
            ok = True
            for sel in sels:
                for b0 in range(0, nfr - fpb + 1, fpb):
                    dd = np.concatenate([pair_d[fr][1][sel] for fr in range(b0, b0 + fpb)])
                    cnt = np.histogram(dd, bins=kn)[0]
                    if cnt.min() < 8:
                        ok = False
            if ok:
                knots = kn
                break
        if knots is None:
            return None
        cut = knots[-1]
        for ci, (ta, tb) in enumerate(combos):
            it = Inter(f"{ta}-{tb}", "nb", knots, sp["nb"]["vals"][ci * 25:ci * 25 + len(knots)], tag=(ta, tb))
            sel = ((types[iu] == ta) & (types[ju] == tb)) | ((types[iu] == tb) & (types[ju] == ta))
            for fr, (dv, dd) in enumerate(pair_d):
                inside = sel & (dd < cut)
                if np.any(sel & (np.abs(dd - cut) < 1e-7)):
                    return None                          # pair on the cutoff: ambiguous membership
                for i, j, v, q in zip(iu[inside], ju[inside], dv[inside], dd[inside]):
                    e = v / q
                    it.samples.append((fr, q, [(i, -e), (j, e)]))   # grad_i r = -e_ij, grad_j r = +e_ij
            nbint.append(it)
    inters = inters + nbint   # csg_fmatch orders bonded first, then non-bonded (irrelevant for the oracle)
    if not inters:
        return None
    # reference forces F_i = sum f(q) grad_i q
    F = [np.zeros((nbead, 3)) for _ in range(nfr)]
    for it in inters:
        for fr, q, gl in it.samples:
            fq = float(it.f(q))
            for bead, g in gl:
                F[fr][bead] += fq * g
    return dict(L=L, frames=frames, F=F, inters=inters, types=types, nbm=nbm, nmol=nmol, nbead=nbead, excl_note=excl_note,
                do_angle=do_angle, do_dih=do_dih, do_nb=do_nb)


def numpy_fit(S, case, frames_in_block):
    """least-squares solve of the same design problem in the (f, f'') parametrisation; returns per interaction knot values, cond"""
    inters = S["inters"]
    nbead = S["nbead"]
    off = []
    ncol = 0
    for it in inters:
        off.append(ncol)
        ncol += 2 * len(it.knots)
    rows = 3 * nbead * len(frames_in_block)
    A = np.zeros((rows, ncol))
    bvec = np.zeros(rows)
    fr_index = {fr: k for k, fr in enumerate(frames_in_block)}
    for it, o in zip(inters, off):
        n = len(it.knots)
        sm = [s for s in it.samples if s[0] in fr_index]
        if not sm:
            return None
        qs = np.array([s[1] for s in sm])
        iv, ca, cb, cc, cd = spline_design(it.knots, qs)
        cnt = np.bincount(iv, minlength=n - 1)
        if cnt.min() < 8:
            return None
        for s, i0, a_, b_, c_, d_ in zip(sm, iv, ca, cb, cc, cd):
            base = 3 * nbead * fr_index[s[0]]
            for bead, g in s[2]:
                for c in range(3):
                    row = base + 3 * bead + c
                    A[row, o + i0] += a_ * g[c]
                    A[row, o + i0 + 1] += b_ * g[c]
                    A[row, o + n + i0] += c_ * g[c]
                    A[row, o + n + i0 + 1] += d_ * g[c]
    for k, fr in enumerate(frames_in_block):
        bvec[3 * nbead * k:3 * nbead * (k + 1)] = S["F"][fr].reshape(-1)
    B = np.zeros((sum(len(it.knots) + (1 if it.periodic else 0) for it in inters), ncol))
    ro = 0
    for it, o in zip(inters, off):
        n = len(it.knots)
        Bi = spline_constraints(it.knots, it.periodic)
        B[ro:ro + len(Bi), o:o + n] = Bi[:, :n]
        B[ro:ro + len(Bi), o + n:o + 2 * n] = Bi[:, n:]
        ro += len(Bi)
    if case["cls"]:
        u, s, vt = np.linalg.svd(B)
        N = vt[len(s):].T                # orthonormal null-space basis (B has full row rank)
        if s.min() < 1e-12 * s.max():
            return None
        AN = A @ N
        sv = np.linalg.svd(AN, compute_uv=False)
        if sv.min() <= 0:
            return None
        cond = sv.max() / sv.min() * (s.max() / s.min()) ** 0.0
        z = np.linalg.lstsq(AN, bvec, rcond=None)[0]
        x = N @ z
    else:
        St = np.vstack([B, A])
        sv = np.linalg.svd(St, compute_uv=False)
        if sv.min() <= 0:
            return None
        cond = sv.max() / sv.min()
        x = np.linalg.lstsq(St, np.concatenate([np.zeros(B.shape[0]), bvec]), rcond=None)[0]
    sol = []
    for it, o in zip(inters, off):
        sol.append(x[o:o + len(it.knots)])
    return sol, cond


def write_fm_inputs(S, case, d):
    nbm, nmol = S["nbm"], S["nmol"]
    two = case["two_types"]
    with open(os.path.join(d, "top.xml"), "w") as f:
        f.write("<topology>\n <molecules>\n")
        if two:
            # alternate single-bead molecules of type A and B
            for m in range(nmol):
                t = "B" if m % 2 == 1 else "A"
                f.write(f'  <molecule name="M{t}" nmols="1" nbeads="1">\n   <bead name="{t}1" type="{t}" mass="1.0" q="0"/>\n  </molecule>\n')
        else:
            f.write(f'  <molecule name="MOL" nmols="{nmol}" nbeads="{nbm}">\n')
            for k in range(nbm):
                f.write(f'   <bead name="A{k + 1}" type="A" mass="{1.0 + k}" q="0"/>\n')
            f.write("  </molecule>\n")
        f.write(" </molecules>\n")
        if nbm >= 2:
            f.write(" <bonded>\n")
            f.write("  <bond>\n   <name>bond</name>\n   <beads>\n")
            for k in range(nbm - 1):
                f.write(f"    MOL:A{k + 1} MOL:A{k + 2}\n")
            f.write("   </beads>\n  </bond>\n")
            if S["do_angle"]:
                f.write("  <angle>\n   <name>angle</name>\n   <beads>\n")
                for k in range(nbm - 2):
                    f.write(f"    MOL:A{k + 1} MOL:A{k + 2} MOL:A{k + 3}\n")
                f.write("   </beads>\n  </angle>\n")
            if S["do_dih"]:
                f.write("  <dihedral>\n   <name>dihedral</name>\n   <beads>\n    MOL:A1 MOL:A2 MOL:A3 MOL:A4\n   </beads>\n  </dihedral>\n")
            f.write(" </bonded>\n")
        f.write("</topology>\n")
    nfr = len(S["frames"])
    fpb = {"1": 1, "2": min(2, nfr), "all": nfr}[case["fpb"]]
    with open(os.path.join(d, "fm.xml"), "w") as f:
        f.write("<cg>\n <fmatch>\n  <constrainedLS>%s</constrainedLS>\n  <frames_per_block>%d</frames_per_block>\n </fmatch>\n"
                % ("true" if case["cls"] else "false", fpb))
        for it in S["inters"]:
            step = it.knots[1] - it.knots[0]
            body = ("  <fmatch>\n   <min>%.6f</min>\n   <max>%.6f</max>\n   <step>%.6f</step>\n   <out_step>%.6f</out_step>\n  </fmatch>\n"
                    % (it.knots[0], it.knots[-1], step, step / 2))
            if it.typ == "nb":
                f.write(f" <non-bonded>\n  <name>{it.name}</name>\n  <type1>{it.tag[0]}</type1>\n  <type2>{it.tag[1]}</type2>\n{body} </non-bonded>\n")
            else:
                if it.periodic:
                    body = body.replace("  </fmatch>\n", "   <periodic>1</periodic>\n  </fmatch>\n")
                f.write(f" <bonded>\n  <name>{it.name}</name>\n{body} </bonded>\n")
        f.write("</cg>\n")
    L = S["L"]
    with open(os.path.join(d, "traj.dlph"), "w") as f:
        f.write("generated by exe_c06\n")
        f.write("%10d%10d%10d\n" % (2, 2, S["nbead"]))
        for fr in range(nfr):
            f.write("timestep %9d %9d %9d %9d %11.6f %11.6f\n" % (fr + 1, S["nbead"], 2, 2, 0.001, 0.001 * (fr + 1)))
            for i in range(3):
                row = [0.0, 0.0, 0.0]
                row[i] = L * 10.0
                f.write("%20.10f%20.10f%20.10f\n" % tuple(row))
            X, F = S["frames"][fr], S["F"][fr]
            for i in range(S["nbead"]):
                f.write("%-8s%10d%12.6f%12.6f\n" % (S["types"][i], i + 1, 1.0, 0.0))
                f.write("%20.4f%20.4f%20.4f\n" % tuple(X[i] * 10.0))
                f.write("%20.4f%20.4f%20.4f\n" % (0.0, 0.0, 0.0))
                f.write("%.13e %.13e %.13e\n" % tuple(F[i] * 10.0))
    return fpb


def run_fm(case, ctx, d):
    r = R()
    S = build_fm(case, ctx)
    if S is None:
        r.discard = True
        return r
    nfr = len(S["frames"])
    fpb = {"1": 1, "2": min(2, nfr), "all": nfr}[case["fpb"]]
    nblocks = nfr // fpb
    # independent numpy solution per block; cases it cannot recover are outside the well-posed domain
    conds = []
    for bi in range(nblocks):
        res = numpy_fit(S, case, list(range(bi * fpb, (bi + 1) * fpb)))
        if res is None:
            r.discard = True
            return r
        sol, cond = res
        if not np.isfinite(cond) or cond > 1e10:
            r.discard = True
            return r
        for it, c in zip(S["inters"], sol):
            scale = max(1.0, np.abs(it.vals).max())
            if np.abs(c - it.vals).max() > 1e-7 * scale + 100 * cond * EPS * scale:
                r.discard = True
                return r
        conds.append(cond)
    cond = max(conds)
    kinds = sorted({it.typ for it in S["inters"]})
    r.cls("interactions:" + "+".join(kinds))
    r.cls("mol-size:%d" % S["nbm"])
    r.cls("constrainedLS" if case["cls"] else "simpleLS")
    r.cls("blocks:%d" % nblocks)
    r.cls("frames_per_block:%d" % fpb)
    if case["two_types"]:
        r.cls("two-bead-types")
    has_periodic = any(it.periodic for it in S["inters"])
    if has_periodic:
        r.cls("periodic-dihedral")
    if S["excl_note"]:
        r.cls(S["excl_note"])
    r.cls("cond<1e4" if cond < 1e4 else "cond<1e7" if cond < 1e7 else "cond<1e10")
    r.nontrivial = any(k != "nb" for k in kinds)
    write_fm_inputs(S, case, d)
    rcode, out = ctx.sh(["csg_fmatch", "--top", "top.xml", "--trj", "traj.dlph", "--options", "fm.xml", "--no-map"], cwd=d, timeout=600)
    has_angle = "angle" in kinds
    has_dih = "dihedral" in kinds
    has_bond = "bond" in kinds
    where = "fmatch/periodic-constrained" if (has_periodic and case["cls"]) else "fmatch/periodic" if has_periodic else "fmatch/angle-gradient" if has_angle else "fmatch/dihedral" if has_dih else "fmatch/bond" if has_bond else "fmatch/nonbonded"
    if sanitizer_report(out):
        return r.fail("fmatch/sanitizer", out[-2000:])
    if rcode != 0:
        return r.fail("fmatch/exit", f"exit {rcode}: {out[-1200:]}")
    worst = None
    for it in S["inters"]:
        p = os.path.join(d, it.name + ".force")
        if not os.path.exists(p):
            return r.fail("fmatch/missing-table", f"{it.name}.force not written; output: {out[-600:]}")
        T = np.loadtxt(p, usecols=(0, 1), ndmin=2, comments=["#", "@"])
        if len(T) < 2 or abs(T[0, 0] - it.knots[0]) > 1e-9 or T[-1, 0] > it.knots[-1] + 1e-6 or T[-1, 0] < it.knots[-2]:
            return r.fail("fmatch/output-grid", f"{it.name}.force covers x in [{T[0, 0]}, {T[-1, 0]}] with {len(T)} points, fit grid is "
                                                f"[{it.knots[0]}, {it.knots[-1]}]")
        xs = np.minimum(T[:, 0], it.knots[-1])
        ref = it.f(xs)
        scale = max(1.0, np.abs(it.vals).max())
        tol = 1e-5 * scale + 50 * cond * (EPS + 1e-13) * scale
        dev = np.abs(T[:, 1] - ref).max()
        if not np.isfinite(dev) or dev > tol:
            if worst is None or not np.isfinite(dev) or dev / tol > worst[0]:
                k = int(np.nanargmax(np.abs(T[:, 1] - ref))) if np.isfinite(dev) else 0
                worst = (dev / tol if np.isfinite(dev) else float("inf"),
                         f"{it.name}.force deviates from the generating force function by {dev:.6g} (tol {tol:.3g}, cond {cond:.3g}) "
                         f"at x={T[k, 0]}: table {T[k, 1]}, f {ref[k]}")
    if worst:
        return r.fail(where, worst[1] + f"; interactions {kinds}, {S['nmol']} molecules of {S['nbm']} beads, {nfr} frames, "
                                        f"frames_per_block {fpb}, constrainedLS {case['cls']}")
    return r


SUBS = [
    dict(name="imc_solve", strategy=imc_cases(), run=run_imc, share=2.0),
    dict(name="fmatch", strategy=fm_cases(), run=run_fm, share=1.0),
]
