// C02 — periodic distances obey the minimum-image convention.
//
// Code under test: Topology::setBox (auto-detected / explicit type) + Topology::BCShortestConnection / getDist,
// the BoundaryCondition classes directly (setBox + Clone), BoxVolume, ShortestBoxSize.
// Oracle (h_c02_geom.h): brute force over the 5x5x5 lattice images around the fractional-rounded difference in
// long double; lattice membership via fractional coordinates; own |det| and |det|/|b_i x b_j|.
//
// Tolerances (u = 2^-52):
//   * result vectors: tol = 32 u (|p1|inf + |p2|inf) + 1e-13 Lmax.  The implementation forms r_ij = p2 - p1 and subtracts up
//     to three products (box vector * integer) of magnitude <= |r_ij|: a few u |r_ij| of rounding; 32 u leaves a factor ~8.
//   * lattice membership: |m - round(m)| <= 1e-9 (1 + |m|) per fractional component m of (r_ij - result).
//   * "shortest" is demanded for orthorhombic (diagonal) boxes always, for triclinic ones only when the brute-force
//     minimum is < 0.5 h_min (1 - 1e-9) - tol.
//   * ambiguity band: (a) two images equally short within 1e-12 relative + 4 tol -> only the length is compared;
//     (b) a component of the result within 4 tol of +-half the brick edge (ax/2, by/2, cz/2), where round() sits on a tie:
//     moving one point by a box vector may legitimately select the opposite face -> accepted, counted
//     "ambiguous", never non-trivial.  The sign change under a swap is demanded without a band (round 4, seeded C02-r4-1).
#include "h_c02_geom.h"

#include <votca/csg/openbox.h>
#include <votca/csg/orthorhombicbox.h>
#include <votca/csg/topology.h>
#include <votca/csg/triclinicbox.h>

using namespace vv;
using namespace geo;
namespace csg = votca::csg;
using BC = csg::BoundaryCondition;

static Eigen::Matrix3d eig(const Box &B) {
  Eigen::Matrix3d M;
  for (int r = 0; r < 3; ++r)
    for (int c = 0; c < 3; ++c) M(r, c) = B.m[r][c];
  return M;
}
static Eigen::Vector3d eig(const std::array<double, 3> &p) { return Eigen::Vector3d(p[0], p[1], p[2]); }
static V toV(const Eigen::Vector3d &e) { return V{ld(e[0]), ld(e[1]), ld(e[2])}; }
static V toV(const std::array<double, 3> &e) { return V{ld(e[0]), ld(e[1]), ld(e[2])}; }
static double inf_norm(const std::array<double, 3> &p) { return std::max(std::fabs(p[0]), std::max(std::fabs(p[1]), std::fabs(p[2]))); }

static BC::eBoxtype type_of(const std::string &t) {
  if (t == "ortho") return BC::typeOrthorhombic;
  if (t == "tric") return BC::typeTriclinic;
  if (t == "open") return BC::typeOpen;
  return BC::typeAuto;
}

// position = B (f + n), evaluated in double (whatever it rounds to IS the input point)
static std::array<double, 3> pos_of(const Box &B, const json &f, const json &n) {
  double s[3];
  for (int k = 0; k < 3; ++k) s[k] = f[size_t(k)].get<double>() + double(n[size_t(k)].get<long>());
  std::array<double, 3> p;
  for (int r = 0; r < 3; ++r) p[size_t(r)] = B.m[r][0] * s[0] + B.m[r][1] * s[1] + B.m[r][2] * s[2];
  return p;
}
static std::array<double, 3> moved(const Box &B, const std::array<double, 3> &p, const json &k) {
  double s[3];
  for (int i = 0; i < 3; ++i) s[i] = double(k[size_t(i)].get<long>());
  std::array<double, 3> q;
  for (int r = 0; r < 3; ++r) q[size_t(r)] = p[size_t(r)] + (B.m[r][0] * s[0] + B.m[r][1] * s[1] + B.m[r][2] * s[2]);
  return q;
}

struct Impl {
  csg::Topology top;
  std::unique_ptr<BC> direct;
  int route;
  // prior: the topology already carried another box before (history of a trajectory whose box changes class):
  // 1 orthorhombic, 2 triclinic, 3 open; the answers for the current box must not depend on it
  Impl(const Box &B, const std::string &type, int route_, int prior = 0) : route(route_) {
    BC::eBoxtype t = type_of(type);
    if (prior == 1) top.setBox(Eigen::Vector3d(3.0, 4.0, 5.0).asDiagonal());
    if (prior == 2) {
      Eigen::Matrix3d P;
      P << 3.0, 1.0, -1.0, 0.0, 4.0, 1.5, 0.0, 0.0, 5.0;
      top.setBox(P);
    }
    if (prior == 3) top.setBox(Eigen::Matrix3d::Zero());
    if (prior == 4) {
      // the SAME matrix was set before with another, explicitly chosen type
      BC::eBoxtype other = (t == BC::typeOrthorhombic || t == BC::typeAuto) ? BC::typeTriclinic : BC::typeOrthorhombic;
      bool diagonal = B.m[0][1] == 0 && B.m[0][2] == 0 && B.m[1][0] == 0 && B.m[1][2] == 0 && B.m[2][0] == 0 && B.m[2][1] == 0;
      if (other == BC::typeOrthorhombic && !diagonal) other = BC::typeOpen;  // an orthorhombic object for a tilted matrix is outside the domain
      top.setBox(eig(B), other);
    }
    if (route == 2 && t != BC::typeAuto) {
      std::unique_ptr<BC> b;
      if (t == BC::typeOrthorhombic) b = std::make_unique<csg::OrthorhombicBox>();
      if (t == BC::typeTriclinic) b = std::make_unique<csg::TriclinicBox>();
      if (t == BC::typeOpen) b = std::make_unique<csg::OpenBox>();
      if (prior > 0) {
        // history of a boundary object: it carried another box and answered a query before
        b->setBox(Eigen::Vector3d(3.0, 4.0, 5.0).asDiagonal());
        (void)b->BCShortestConnection(Eigen::Vector3d(0.1, 0.2, 0.3), Eigen::Vector3d(2.9, 3.9, 4.9));
        if (prior == 2) {
          std::unique_ptr<BC> used = b->Clone();  // a clone of a used object, given the new box
          b = std::move(used);
        }
      }
      b->setBox(eig(B));
      direct = b->Clone();  // the clone must behave like the original
    } else {
      if (route == 2) route = 0;
      top.setBox(eig(B), t);
      if (route == 1) {
        top.RegisterBeadType("T");
        top.CreateBead(csg::Bead::spherical, "b0", "T", 0, 1.0, 0.0);
        top.CreateBead(csg::Bead::spherical, "b1", "T", 0, 1.0, 0.0);
      }
    }
  }
  V conn(const std::array<double, 3> &p1, const std::array<double, 3> &p2) {
    if (direct) return toV(direct->BCShortestConnection(eig(p1), eig(p2)));
    if (route == 1) {
      top.getBead(0)->setPos(eig(p1));
      top.getBead(1)->setPos(eig(p2));
      return toV(top.getDist(0, 1));
    }
    return toV(top.BCShortestConnection(eig(p1), eig(p2)));
  }
  double volume() { return direct ? direct->BoxVolume() : top.BoxVolume(); }
  double shortest() { return direct ? direct->getShortestBoxDimension() : top.ShortestBoxSize(); }
};

static bool finite(const V &v) { return std::isfinite(double(v[0])) && std::isfinite(double(v[1])) && std::isfinite(double(v[2])); }

// is w = d - g an integer combination of the box vectors?
static bool on_lattice(const Box &B, const V &w, std::string *why) {
  V m = fractional(B, w);
  for (int k = 0; k < 3; ++k) {
    ld r = roundl(m[size_t(k)]);
    if (fabsl(m[size_t(k)] - r) > 1e-9L * (1 + fabsl(r))) {
      *why = fmt("fractional component %d of (r_ij - result) = %.12Lg is not an integer", k, m[size_t(k)]);
      return false;
    }
  }
  return true;
}

// g2 should equal sgn*g.  Returns 0 = equal within tol, 1 = differs but legitimately ambiguous, 2 = violation.
static int same_or_ambiguous(const Box &B, const V &g, const V &g2, ld sgn, ld tol, bool length_tie, ld gap) {
  V diff = g2 - sgn * g;
  if (maxabs(diff) <= tol) return 0;
  if (length_tie && fabsl(norm(g2) - norm(g)) <= 4 * tol + gap) return 1;
  for (int k = 0; k < 3; ++k) {
    ld half = fabsl(ld(B.m[k][k])) / 2;
    if (fabsl(fabsl(g[size_t(k)]) - half) <= 4 * tol && fabsl(fabsl(g2[size_t(k)]) - half) <= 4 * tol) return 1;
  }
  return 2;
}

static std::string class_of(const Box &B, const std::string &type) {
  if (type == "open") return "OpenBox";
  if (type == "ortho") return "OrthorhombicBox";
  if (type == "tric") return "TriclinicBox";
  if (B.zero()) return "OpenBox";
  return B.diagonal() ? "OrthorhombicBox" : "TriclinicBox";
}

static Result run_mic(const json &c) {
  Result r;
  Box B = box_from(c.at("box"));
  std::string type = c.at("type");
  int route = c.at("route");
  std::string K = class_of(B, type);
  bool open = (K == "OpenBox");
  std::array<double, 3> p1, p2;
  if (c.contains("p1")) {
    for (size_t k = 0; k < 3; ++k) {
      p1[k] = c["p1"][k];
      p2[k] = c["p2"][k];
    }
  } else {
    p1 = pos_of(B, c.at("f1"), c.at("n1"));
    p2 = pos_of(B, c.at("f2"), c.at("n2"));
  }
  Impl impl(B, type, route, c.value("prior", 0));
  if (c.value("prior", 0) > 0 && route != 2) r.cls("topology-had-another-box-before");
  r.cls("class=" + K);
  r.cls(type == "auto" ? "type=auto" : "type=explicit");
  r.cls(impl.direct ? "route=class+Clone" : impl.route == 1 ? "route=getDist" : "route=BCShortestConnection");

  V d = toV(p2) - toV(p1);
  V g = impl.conn(p1, p2);
  V gs = impl.conn(p2, p1);
  if (!finite(g)) {
    r.fail(K + "/finite", "result not finite " + vs(g));
    return r;
  }
  ld tol = 32 * U * (inf_norm(p1) + inf_norm(p2)) + 1e-13L * B.maxabs();

  if (open) {
    r.nontrivial = (p1 != p2) && !B.zero();
    if (B.zero()) r.cls("zero-matrix");
    ld t1 = U * maxabs(d) + 1e-300L;
    if (maxabs(g - d) > t1) r.fail("OpenBox/plain-difference", "open box: got " + vs(g) + " plain difference " + vs(d));
    if (maxabs(gs + g) > t1) r.fail("OpenBox/antisymmetry", "f(i,j)=" + vs(g) + " f(j,i)=" + vs(gs));
    return r;
  }

  bool is_ortho = B.diagonal();
  ld h = hmin(B);
  MinImage mi = min_image(B, d, 2);
  ld gap = mi.second - mi.len;
  bool tie = gap <= 1e-12L * mi.len + 4 * tol;
  bool demand_shortest = is_ortho || mi.len < 0.5L * h * (1 - 1e-9L) - tol;
  ld nmax = maxabs(mi.n);
  r.nontrivial = nmax >= 1 && !tie;
  r.cls(nmax == 0 ? "images=0" : nmax <= 2 ? "images=1-2" : nmax <= 3000 ? "images~1e3" : "images~1e6");
  if (!is_ortho) {
    r.cls(demand_shortest ? "tric:below-half-height" : "tric:beyond-half-height");
    bool bnd = std::fabs(B.m[0][1]) == B.m[0][0] / 2 || std::fabs(B.m[0][2]) == B.m[0][0] / 2 || std::fabs(B.m[1][2]) == B.m[1][1] / 2;
    if (bnd) r.cls("tric:reduction-boundary");
    if (h < 0.95L * std::min(B.m[0][0], std::min(B.m[1][1], B.m[2][2]))) r.cls("tric:h_min<0.95*min-edge");
  }
  bool ambiguous = false;

  // (1) differs from the plain difference by an integer combination of the box vectors
  std::string why;
  if (!on_lattice(B, d - g, &why)) {
    r.fail(K + "/lattice", why + "; r_ij=" + vs(d) + " result=" + vs(g));
    return r;
  }
  // (2) shortest of all periodic images
  if (demand_shortest) {
    ld lg = norm(g);
    ld allowed = (tie ? mi.second : mi.len) + tol;
    if (lg > allowed)
      r.fail(K + "/shortest", fmt("|result|=%.17Lg but an image of length %.17Lg exists (h_min=%.9Lg, tol=%.3Lg); r_ij=", lg, mi.len, h, tol) +
                                  vs(d) + " result=" + vs(g) + " shortest=" + vs(mi.v));
    else if (!tie && maxabs(g - mi.v) > tol)
      r.fail(K + "/shortest", "result " + vs(g) + " is not the unique shortest image " + vs(mi.v));
    if (tie) ambiguous = true;
  }
  // (3) sign change when the points are swapped
  {
    V ds = toV(p1) - toV(p2);
    if (!finite(gs) || !on_lattice(B, ds - gs, &why)) r.fail(K + "/lattice", "swapped points: " + why + " result=" + vs(gs));
    // no ambiguity band here: the statement demands the sign change for every pair, and an implementation whose image
    // choice is an odd function of the difference (round half away from zero) delivers it also on exact ties
    if (maxabs(gs + g) > tol) r.fail(K + "/antisymmetry", "f(i,j)=" + vs(g) + " f(j,i)=" + vs(gs));
    if (same_or_ambiguous(B, g, gs, -1, tol, tie, gap) == 1 || tie) r.cls("antisymmetry-checked-on-tie");
  }
  // (4) unchanged when either point is moved by a whole box vector
  if (c.contains("k1")) {
    std::array<double, 3> q1 = moved(B, p1, c["k1"]), q2 = moved(B, p2, c["k2"]);
    V gm = impl.conn(q1, q2);
    V dm = toV(q2) - toV(q1);
    ld tol2 = 32 * U * (inf_norm(p1) + inf_norm(p2) + inf_norm(q1) + inf_norm(q2)) + 1e-13L * B.maxabs();
    if (!finite(gm) || !on_lattice(B, dm - gm, &why))
      r.fail(K + "/lattice", "moved points: " + why + " result=" + vs(gm));
    else {
      int s = same_or_ambiguous(B, g, gm, +1, tol2, tie, gap);
      if (s == 1) ambiguous = true;
      if (s == 2)
        r.fail(K + "/invariance", "f(p1,p2)=" + vs(g) + " but after moving the points by whole box vectors f=" + vs(gm) +
                                      fmt(" (tol %.3Lg)", tol2));
    }
  }
  if (ambiguous) {
    r.cls("ambiguous");
    r.nontrivial = false;
  }
  return r;
}

// ------------------------------------------------------------------ generators
static json gen_frac() {
  int m = pick<int>({1, 2, 2, 4, 4, 4, 12, 12, 12, 12, 12, 12, 12, 20, 20, 20, 20, 20, 20, 20});
  json f = json::array();
  for (int k = 0; k < 3; ++k) f.push_back(double(ri(0, (1 << m) - 1)) / double(1 << m));
  return f;
}
static json gen_shifts(int pct_zero) { return json::array({gen_shift(pct_zero), gen_shift(pct_zero), gen_shift(pct_zero)}); }
// image regime of a case: 0 none, 1 small (+-1, +-2), 2 anything up to +-10^6
static json gen_shifts_regime(int regime) {
  if (regime == 0) return json::array({0, 0, 0});
  if (regime == 1) {
    json a = json::array();
    for (int k = 0; k < 3; ++k) a.push_back(rbool(40) ? 0 : (rbool() ? 1 : -1) * ri(1, 2));
    return a;
  }
  return gen_shifts(40);
}

static std::string gen_type(int kind) {
  // kind 1 (diagonal): auto, explicit orthorhombic, explicit triclinic (a diagonal box is a valid reduced triclinic box)
  // kind 2: auto or explicit triclinic
  int k = ri(0, 9);
  if (kind == 1) return k < 5 ? "auto" : k < 8 ? "ortho" : "tric";
  return k < 5 ? "auto" : "tric";
}

static json gen_periodic(int kind) {
  json c;
  c["box"] = gen_box(kind);
  c["type"] = gen_type(kind);
  c["route"] = ri(0, 2);
  c["prior"] = rbool(35) ? ri(1, 4) : 0;
  int regime = pick<int>({0, 1, 1, 2, 2, 2});
  c["f1"] = gen_frac();
  c["n1"] = gen_shifts_regime(regime);
  int rel = ri(0, 19);
  if (rel >= 12) {
    // second point = first + offset of length up to ~0.54 h_min (mostly below half the shortest height, where the triclinic
    // routine must return the shortest image) + whole box vectors; both points are stored as plain coordinates
    Box B = box_from(c["box"]);
    double h = double(hmin(B));
    std::array<double, 3> p1 = pos_of(B, c["f1"], c["n1"]);
    int amp = pick<int>({8, 20, 40, 40});
    std::array<double, 3> p2;
    for (size_t k = 0; k < 3; ++k) p2[k] = p1[k] + h * double(ri(-amp, amp)) / 128.0;
    p2 = moved(B, p2, gen_shifts_regime(regime));
    c["p1"] = p1;
    c["p2"] = p2;
    c["k1"] = gen_shifts_regime(regime);
    c["k2"] = gen_shifts_regime(regime);
    return c;
  }
  if (rel == 0)
    c["f2"] = c["f1"];  // same point / pure lattice translation
  else if (rel <= 2) {  // difference of exactly half a box vector along 1..3 axes: rounding tie, point on the brick face
    json f2 = c["f1"];
    int mask = ri(1, 7);
    bool near = rbool(50);
    for (int k = 0; k < 3; ++k)
      if (mask & (1 << k)) {
        double x = f2[size_t(k)].get<double>() + 0.5;
        // half of these are moved off the exact tie by +-2^-e: near-ties that still have a unique answer
        if (near) x += (rbool() ? 1.0 : -1.0) * std::ldexp(1.0, -ri(22, 45));
        f2[size_t(k)] = x >= 1 ? x - 1 : x;
      }
    c["f2"] = f2;
  } else
    c["f2"] = gen_frac();
  c["n2"] = gen_shifts_regime(regime);
  c["k1"] = gen_shifts_regime(std::max(regime, 1));
  c["k2"] = gen_shifts_regime(regime);
  return c;
}
static json gen_ortho() { return gen_periodic(1); }
static json gen_tric() { return gen_periodic(2); }

static json gen_open() {
  json c;
  int k = ri(0, 2);  // zero matrix auto / zero matrix explicit / any matrix explicit
  c["box"] = gen_box(k == 2 ? ri(1, 2) : 0);
  c["type"] = k == 0 ? "auto" : "open";
  c["route"] = ri(0, 2);
  c["prior"] = rbool(35) ? ri(1, 4) : 0;
  auto coord = [] {
    int m = ri(0, 3);
    double s = rbool() ? 1.0 : -1.0;
    if (m == 0) return s * rfrac(0, 4096, 256);
    if (m == 1) return s * rlog(-6, 8);
    if (m == 2) return 0.0;
    return s * double(ri(0, 1000000));
  };
  c["p1"] = {coord(), coord(), coord()};
  c["p2"] = {coord(), coord(), coord()};
  return c;
}

// ------------------------------------------------------------------ volume / shortest height
static Result run_volume(const json &c) {
  Result r;
  Box B = box_from(c.at("box"));
  std::string type = c.at("type");
  std::string K = class_of(B, type);
  Impl impl(B, type, c.at("route"), c.value("prior", 0));
  r.cls("class=" + K);
  r.cls(type == "auto" ? "type=auto" : "type=explicit");
  ld D = fabsl(det(B));
  double vol = impl.volume();
  // |det| of a 3x3: <= 12 roundings of products bounded by |a||b||c|
  ld scale = norm(B.col(0)) * norm(B.col(1)) * norm(B.col(2));
  if (!(fabsl(ld(vol) - D) <= 64 * U * scale))
    r.fail("BoxVolume", fmt("BoxVolume=%.17g, |det|=%.17Lg", vol, D));
  r.nontrivial = !B.diagonal();
  if (K != "OpenBox") {
    double s = impl.shortest();
    ld h = hmin(B);
    // condition: h = det/|b x c|; normalisation + dot product, errors relative to |a| (cancellation when the box is skewed)
    ld tolh = 64 * U * std::max(norm(B.col(0)), std::max(norm(B.col(1)), norm(B.col(2))));
    V hs = heights(B);
    r.cls(hs[0] <= hs[1] && hs[0] <= hs[2] ? "shortest=a" : hs[1] <= hs[2] ? "shortest=b" : "shortest=c");
    if (!(fabsl(ld(s) - h) <= tolh)) r.fail("ShortestBoxSize", fmt("ShortestBoxSize=%.17g, min_k |det|/|b_i x b_j| = %.17Lg (tol %.3Lg)", s, h, tolh));
  } else if (B.zero())
    r.cls("zero-matrix");
  return r;
}
static json gen_volume() {
  json c;
  int k = ri(0, 11);
  int kind = k == 0 ? 0 : k < 4 ? 1 : 2;
  c["box"] = gen_box(kind);
  if (kind == 0)
    c["type"] = rbool() ? "auto" : "open";
  else if (k == 11)
    c["type"] = "open";  // explicitly open, volume still that of the stored vectors
  else
    c["type"] = gen_type(kind);
  c["route"] = ri(0, 2);
  c["prior"] = rbool(35) ? ri(1, 4) : 0;
  return c;
}

int main(int argc, char **argv) {
  std::vector<Sub> subs;
  subs.push_back({"ortho", gen_ortho, run_mic, 3.0, 100, nullptr});
  subs.push_back({"triclinic", gen_tric, run_mic, 5.0, 100, nullptr});
  subs.push_back({"open", gen_open, run_mic, 1.0, 100, nullptr});
  subs.push_back({"volume", gen_volume, run_volume, 1.0, 100, nullptr});
  return harness_main(argc, argv, "C02", subs);
}
