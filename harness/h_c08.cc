// C08 — trajectory, topology and table files survive a write/read round trip; readers reject frames whose
// atom count disagrees with the topology.
//
// Sub-properties
//   gro, pdb, xyz, dump, dlph, dlpc : generated topology + frames -> TrjWriterFactory writer -> file ->
//                                     TrjReaderFactory reader into a FRESH topology -> compare with the originals.
//                                     Every case runs in a fork()ed child (the DL_POLY reader/writer keep
//                                     function-static state across files; a crash of the code under test gets a key).
//   mismatch                        : a frame whose atom count differs from the topology (more and fewer, first or a
//                                     later frame) must make the reader throw; a control file with matching counts
//                                     must be readable, otherwise the case is discarded.
//   table                           : Table::Save -> Table::Load (flags i/o/u, comment lines, error column).
//   imc_matrix, imc_index           : imcio_write_matrix/read_matrix (non-square, non-symmetric, sub-selection list),
//                                     imcio_write_index/read_index.
//
// Oracle: the generated numbers themselves; tolerance = 0.5 * 10^-digits of the unit the format prints in, converted
// to VOTCA's internal units (nm, nm/ps, kJ/mol/nm), plus 16 ulp of the value for the unit conversion; relative
// 0.5*10^-(significant digits-1) for the formats that print in general ("%g"-like) notation.
// Only what a format carries is compared (see the table `formats()`).
#include "vv_common.h"

#include <dirent.h>
#include <fcntl.h>
#include <sys/resource.h>
#include <sys/stat.h>
#include <sys/wait.h>

#include <array>
#include <cfloat>

#include <votca/csg/imcio.h>
#include <votca/csg/topology.h>
#include <votca/csg/topologyreader.h>
#include <votca/csg/trajectoryreader.h>
#include <votca/csg/trajectorywriter.h>
#include <votca/tools/rangeparser.h>
#include <votca/tools/table.h>

using namespace vv;
using votca::Index;
using votca::csg::Bead;
using votca::csg::BoundaryCondition;
using votca::csg::Topology;

// ------------------------------------------------------------------------------------------------ scratch directory
static std::string g_scratch;
static pid_t g_owner = 0;

static void rm_tree_flat(const std::string &d) {
  DIR *dir = opendir(d.c_str());
  if (!dir) return;
  while (dirent *e = readdir(dir)) {
    std::string n = e->d_name;
    if (n == "." || n == "..") continue;
    unlink((d + "/" + n).c_str());
  }
  closedir(dir);
}
static void cleanup_scratch() {
  if (g_scratch.empty() || getpid() != g_owner) return;
  rm_tree_flat(g_scratch);
  rmdir(g_scratch.c_str());
}
static const std::string &scratch() {
  if (g_scratch.empty()) {
    // the driver runs the harness inside a work directory below /verif/build/work (removed by the driver);
    // otherwise (manual runs, --replay) use /verif/build/work directly.  Removed at exit in both cases.
    char cwd[4096];
    std::string base = "/verif/build/work";
    if (getcwd(cwd, sizeof cwd) && std::string(cwd).rfind("/verif/build/work/", 0) == 0) base = cwd;
    mkdir("/verif/build", 0777);
    mkdir("/verif/build/work", 0777);
    std::string t = base + "/c08-XXXXXX";
    std::vector<char> buf(t.begin(), t.end());
    buf.push_back('\0');
    if (!mkdtemp(buf.data())) {
      perror("mkdtemp");
      exit(3);
    }
    g_scratch = buf.data();
    g_owner = getpid();
    atexit(cleanup_scratch);
  }
  return g_scratch;
}

static std::string slurp(const std::string &f) {
  std::ifstream in(f);
  std::stringstream ss;
  ss << in.rdbuf();
  return ss.str();
}
static std::vector<std::string> lines_of(const std::string &txt) {
  std::vector<std::string> v;
  std::stringstream ss(txt);
  std::string l;
  while (std::getline(ss, l)) v.push_back(l);
  return v;
}

// ------------------------------------------------------------------------------------------------ fork wrapper
static json to_json(const Result &r) {
  return json{{"ok", r.ok}, {"discard", r.discard}, {"nt", r.nontrivial}, {"key", r.key}, {"msg", r.msg}, {"classes", r.classes}};
}
static Result from_json(const json &j) {
  Result r;
  r.ok = j.at("ok");
  r.discard = j.at("discard");
  r.nontrivial = j.at("nt");
  r.key = j.at("key");
  r.msg = j.at("msg");
  r.classes = j.at("classes").get<std::vector<std::string>>();
  return r;
}

// Runs body() in a child process.  A child that dies (sanitizer report, assert, abort, signal, timeout) gives
// Result::fail(crash_key).  The child's stdout goes to /dev/null (the readers are chatty), stderr to a scratch file
// whose tail is put into the message.
// The body announces what it is doing with stage("..."): the last stage reached goes into the key of a crash.
static void stage(const char *s) {
  fprintf(stderr, "\nVV-STAGE %s\n", s);
  fflush(stderr);
}
static Result in_child(const std::function<Result()> &body, const std::function<std::string(const std::string &, const std::string &)> &crash_key) {
  const std::string errf = scratch() + "/child.stderr";
  int fd[2];
  if (pipe(fd) != 0) {
    Result r;
    r.discard = true;
    return r;
  }
  fflush(stdout);
  fflush(stderr);
  std::cout.flush();
  std::cerr.flush();
  pid_t pid = fork();
  if (pid == 0) {
    close(fd[0]);
    // the child must not touch the parent's statistics / crash files
    st().in_case = false;
    st().out.clear();
    st().crash.clear();
    int dn = open("/dev/null", O_WRONLY);
    if (dn >= 0) dup2(dn, 1);
    int ef = open(errf.c_str(), O_WRONLY | O_CREAT | O_TRUNC, 0644);
    if (ef >= 0) dup2(ef, 2);
    {
      // a hang of the code under test: 120 s of CPU time (immune to a stalled, overloaded box) or, for a blocking
      // hang, one hour of wall time
      struct rlimit rl;
      rl.rlim_cur = 120;
      rl.rlim_max = 150;
      setrlimit(RLIMIT_CPU, &rl);
      alarm(3600);
    }
    Result r;
    try {
      r = body();
    } catch (const std::exception &e) {
      r.fail("harness/unexpected-exception", std::string("unexpected exception in harness code: ") + e.what());
    }
    std::string s = to_json(r).dump();
    size_t off = 0;
    while (off < s.size()) {
      ssize_t w = write(fd[1], s.data() + off, s.size() - off);
      if (w <= 0) break;
      off += size_t(w);
    }
    close(fd[1]);
    fflush(stdout);
    _exit(0);
  }
  close(fd[1]);
  std::string buf;
  char tmp[65536];
  ssize_t n;
  while ((n = read(fd[0], tmp, sizeof tmp)) > 0) buf.append(tmp, size_t(n));
  close(fd[0]);
  int status = 0;
  waitpid(pid, &status, 0);
  Result r;
  bool clean = WIFEXITED(status) && WEXITSTATUS(status) == 0 && !buf.empty();
  if (clean) {
    try {
      r = from_json(json::parse(buf));
    } catch (const std::exception &) {
      clean = false;
    }
  }
  if (!clean) {
    std::string err = slurp(errf);
    // keep the informative head of a sanitizer report / assertion message
    r = Result();
    std::string stg = "start";
    size_t sp = err.rfind("VV-STAGE ");
    if (sp != std::string::npos) {
      size_t e = err.find('\n', sp);
      stg = err.substr(sp + 9, e == std::string::npos ? std::string::npos : e - sp - 9);
      err = e == std::string::npos ? "" : err.substr(e + 1);
    }
    if (err.size() > 1200) err = err.substr(0, 1200) + " ...";
    r.fail(crash_key(stg, err), fmt("child process died (wait status 0x%x) in stage '%s' of the code under test: ", status, stg.c_str()) + err);
  }
  unlink(errf.c_str());
  return r;
}

// ------------------------------------------------------------------------------------------------ formats
struct Fmt {
  std::string name;   // extension
  int name_max;       // bead name length that the format stores completely
  // position domain in nm: values in (-pneg, ppos) printed with a separating blank; *_full: whole field width
  // (only for readers that cut fixed columns); plat = decimals of the generation lattice (2 more than printed)
  double pneg, ppos, pneg_full, ppos_full;
  int plat;
  bool vel;
  double vneg, vpos, vneg_full, vpos_full;
  int vlat;
  bool force;
  int boxcomp;        // 0: no box stored, 3: diagonal only, 9: full matrix
  bool general_box;   // all nine components may be non-zero (not only the reduced triclinic form)
  bool multi;         // more than one frame per file
  bool step;          // step number stored
  bool boxtype;       // boundary type stored
  // absolute tolerances in internal units and relative tolerance (general notation)
  double ptol, vtol, ftol, btol, rel;
};

static const std::map<std::string, Fmt> &formats() {
  static std::map<std::string, Fmt> m = [] {
    std::map<std::string, Fmt> f;
    // gro: "%8.3f" nm positions, "%8.4f" nm/ps velocities, "%10.5f" box (free format -> needs blanks), fixed columns
    f["gro"] = Fmt{"gro", 5, 99.999, 999.999, 999.999, 9999.999, 5, true, 9.9999, 99.9999, 99.9999, 999.9999, 6, false,
                   9, true, true, false, false, 0.5e-3, 0.5e-4, 0, 0.5e-5, 0};
    // pdb: "%8.3f" Angstrom, fixed columns; Write() emits no CRYST1 record -> no box
    f["pdb"] = Fmt{"pdb", 4, 9.9999, 99.9999, 99.9999, 999.9999, 6, false, 0, 0, 0, 0, 0, false,
                   0, false, true, false, false, 0.5e-4, 0, 0, 0, 0};
    // xyz: "%10.5f" Angstrom, blank separated
    f["xyz"] = Fmt{"xyz", 3, 9.999999, 99.999999, 0, 0, 8, false, 0, 0, 0, 0, 0, false,
                   0, false, true, false, false, 0.5e-6, 0, 0, 0, 0};
    // lammps dump: "%f" (6 decimals) Angstrom, Angstrom/ps(*), kcal/mol/Angstrom; "0 L" bounds for rectangular boxes,
    // bounding box + tilt factors (reduced triclinic form only) since fix f2a9b4b2e
    f["dump"] = Fmt{"dump", 0, 1e4, 1e4, 0, 0, 9, true, 1e4, 1e4, 0, 0, 9, true,
                    9, false, true, true, false, 0.5e-7, 0.5e-7, 0.5e-6 * 41.868, 1.5e-7, 0};
    // dl_poly HISTORY: 12 significant digits, general notation
    f["dlph"] = Fmt{"dlph", 0, 1e4, 1e4, 0, 0, 9, true, 1e4, 1e4, 0, 0, 9, true,
                    9, true, true, true, true, 0, 0, 0, 0, 0.5e-11};
    // dl_poly CONFIG: one frame, cell with 10 decimals (Angstrom), vectors with 12 significant digits
    f["dlpc"] = Fmt{"dlpc", 0, 1e4, 1e4, 0, 0, 9, true, 1e4, 1e4, 0, 0, 9, true,
                    9, true, false, false, true, 0, 0, 0, 0.5e-11, 0.5e-11};
    return f;
  }();
  return m;
}

// ------------------------------------------------------------------------------------------------ generators
static double p10(int d) { return std::pow(10.0, d); }

// value k/10^lat with |value| strictly inside the printable limit (so rounding cannot widen the field)
static double coord(double neg, double pos, int lat, double typical = 10.0) {
  bool negative = rbool(40);
  double lim = negative ? neg : pos;
  double S = p10(lat);
  long kmax = long(std::floor(lim * S + 0.5)) - 1;
  if (kmax < 0) kmax = 0;
  int kind = ri(0, 19);
  long k;
  if (kind < 12)
    k = rl(0, std::min(kmax, long(typical * S)));
  else if (kind < 17)
    k = rl(0, kmax);
  else if (kind < 19)
    k = rl(0, std::min(kmax, 300L));  // a few units of the last printed digit: rounds to +-0.000
  else
    k = kmax - rl(0, std::min(kmax, 200L));  // at the field-width limit
  double v = double(k) / S;
  return negative ? -v : v;
}
// full double precision value (more digits than any of the formats prints)
static double anyreal(double scale) {
  int kind = ri(0, 9);
  double v = double(rl(-(1L << 52), (1L << 52))) / double(1L << 42);  // +-1024, resolution 2^-42
  if (kind < 6) return v * scale / 1024.0;
  if (kind < 8) return v * scale * 1e-9;
  if (kind < 9) return double(ri(-20, 20));
  return v * scale;
}

static std::string rname(int maxlen) {
  static const std::string first = "ABCDEFGHIJKLMNOPQRSTUVWXYZabcdefghijklmnopqrstuvwxyz";
  static const std::string rest = "ABCDEFGHIJKLMNOPQRSTUVWXYZabcdefghijklmnopqrstuvwxyz0123456789_+-*'";
  int n = ri(1, maxlen);
  std::string s(1, first[size_t(ri(0, int(first.size()) - 1))]);
  for (int i = 1; i < n; ++i) s += rest[size_t(ri(0, int(rest.size()) - 1))];
  return s;
}

// box matrix, row-major M(i,j); columns are the box vectors a,b,c (VOTCA convention)
// kind: 0 open, 1 orthorhombic, 2 triclinic (reduced form a=(ax,0,0) b=(bx,by,0) c=(cx,cy,cz)), 3 general
static json gen_box(int kind, int lat, bool big_ok) {
  std::array<double, 9> M{};
  if (kind == 0) return json(M);
  auto edge = [&]() -> double {
    if (big_ok && rbool(10)) return std::fabs(coord(0, 999.0, lat, 100.0)) + 0.4;
    double e = double(ri(7, 800)) / 16.0;
    if (rbool(30)) e += double(ri(1, 99999)) / p10(lat);  // digits beyond the printed precision
    return e;
  };
  double ax = edge(), by = edge(), cz = edge();
  M[0] = ax;
  M[4] = by;
  M[8] = cz;
  auto off = [&](double len, bool force_nonzero) -> double {
    // |off| <= len/2 (reduced cell), never below -99 so that "%10.5f" keeps its separating blank
    int f = ri(-4, 4);
    if (force_nonzero && f == 0) f = rbool(50) ? 4 : -3;
    double v = len * double(f) / 8.0;
    if (rbool(30)) v += double(ri(1, 999)) / p10(lat);
    if (v < -99.0) v = -99.0;
    return v;
  };
  if (kind == 2) {
    int which = ri(1, 7);  // which of bx, cx, cy are non-zero
    if (which & 1) M[1] = off(ax, true);
    if (which & 2) M[2] = off(ax, true);
    if (which & 4) M[5] = off(by, true);
  }
  if (kind == 3) {
    M[1] = off(ax, true);
    M[2] = off(ax, true);
    M[5] = off(by, true);
    M[3] = off(by, true);
    M[6] = off(cz, true);
    M[7] = off(cz, true);
  }
  return json(M);
}

static json gen_traj(const std::string &fname) {
  const Fmt &F = formats().at(fname);
  json c;
  c["fmt"] = fname;
  int n = rcount(1, 200);
  int nres = ri(1, std::min(n, 6));
  json res = json::array();
  for (int i = 0; i < nres; ++i) res.push_back(rname(fname == "pdb" ? 3 : 5));
  c["res"] = res;
  // beads: residue numbers ascending and contiguous (precondition of the gro topology reader)
  int ntypes = ri(1, 4);
  std::vector<std::string> types;
  for (int i = 0; i < ntypes; ++i) {
    std::string t;
    do t = rname(5);
    while (std::find(types.begin(), types.end(), t) != types.end());
    types.push_back(t);
  }
  json beads = json::array();
  for (int i = 0; i < n; ++i) {
    int r = int((long(i) * nres) / n);
    std::string nm = rname(F.name_max > 0 ? F.name_max : 5);
    if (rbool(30)) nm = rname(5);  // sometimes longer than the format stores (truncation expected)
    beads.push_back({nm, types[size_t(ri(0, ntypes - 1))], r, double(ri(1, 40000)) / 100.0, double(ri(-200, 200)) / 100.0});
  }
  c["beads"] = beads;
  bool hasvel = F.vel && rbool(50), hasforce = F.force && rbool(50);
  c["hasvel"] = hasvel;
  c["hasforce"] = hasforce;
  bool fullwidth = F.ppos_full > 0 && rbool(15);
  c["fullwidth"] = fullwidth;
  const bool bigmag = fname == "dump" && rbool(15);
  if (bigmag) {
    c["bigmag"] = true;
    if (rbool(70)) hasvel = hasforce = true, c["hasvel"] = true, c["hasforce"] = true;
  }
  bool free = F.rel > 0;
  int nf = F.multi ? rcount(1, 5) : 1;
  long step = rbool(10) ? rl(1, 90000000) : rl(1, 2000);
  double dt = double(ri(1, 5000)) / 1000.0;
  // the box kind is a property of the trajectory (constant shape class, changing numbers)
  int bk = 1;
  if (F.boxcomp == 3) bk = rbool(15) ? 0 : 1;
  if (F.boxcomp == 9) {
    int k = ri(0, 9);
    bk = k < 1 ? 0 : k < 4 ? 1 : (k < 8 || !F.general_box) ? 2 : 3;
  }
  c["boxkind"] = bk;
  bool explicit_type = rbool(40);
  json frames = json::array();
  for (int k = 0; k < nf; ++k) {
    json f;
    f["step"] = step;
    f["time"] = double(step) * dt;
    f["box"] = F.boxcomp ? gen_box(bk, free ? 9 : 7, fname == "gro") : gen_box(rbool(50) ? 1 : 0, 7, false);
    f["boxtype"] = explicit_type ? (bk == 0 ? "open" : bk == 1 ? "orth" : "tric") : "auto";
    std::vector<double> x, v, fo;
    if (bigmag) {
      // "%f" has no field width: 14-15 significant digits per value are legal (lines of 150 characters and more)
      auto big = [](double scale, long lo, long hi) { return (rbool(50) ? 1.0 : -1.0) * double(rl(lo, hi)) / scale; };
      for (int i = 0; i < 3 * n; ++i) x.push_back(big(1e9, 100000000000000L, 999999999999999L));
      if (hasvel)
        for (int i = 0; i < 3 * n; ++i) v.push_back(big(1e9, 100000000000000L, 999999999999999L));
      if (hasforce)
        for (int i = 0; i < 3 * n; ++i) fo.push_back(big(1e4, 100000000000L, 999999999999L));
    }
    for (int i = 0; i < 3 * n && !bigmag; ++i) {
      if (free && rbool(50))
        x.push_back(anyreal(50.0));
      else if (fullwidth)
        x.push_back(coord(F.pneg_full, F.ppos_full, F.plat));
      else
        x.push_back(coord(F.pneg, F.ppos, F.plat));
    }
    if (hasvel && !bigmag)
      for (int i = 0; i < 3 * n; ++i) {
        if (free && rbool(50))
          v.push_back(anyreal(5.0));
        else if (fullwidth)
          v.push_back(coord(F.vneg_full, F.vpos_full, F.vlat, 2.0));
        else
          v.push_back(coord(F.vneg, F.vpos, F.vlat, 2.0));
      }
    if (hasforce && !bigmag)
      for (int i = 0; i < 3 * n; ++i) fo.push_back(free && rbool(50) ? anyreal(5000.0) : coord(1e6, 1e6, 4, 3000.0));
    f["x"] = x;
    f["v"] = v;
    f["f"] = fo;
    frames.push_back(f);
    step += rl(1, 500);
  }
  c["frames"] = frames;
  if (nf >= 2 && rbool(30)) {
    c["append_at"] = ri(1, nf - 1);
    c["append_new_writer"] = rbool(50);
  }
  return c;
}

// ------------------------------------------------------------------------------------------------ topology <-> case
static void build_top(Topology &top, const json &c, long nbeads = -1) {
  for (auto &r : c.at("res")) top.CreateResidue(r.get<std::string>());
  long i = 0;
  for (auto &b : c.at("beads")) {
    if (nbeads >= 0 && i >= nbeads) break;
    std::string name = b[0], type = b[1];
    if (!top.BeadTypeExist(type)) top.RegisterBeadType(type);
    top.CreateBead(Bead::spherical, name, type, b[2].get<Index>(), b[3].get<double>(), b[4].get<double>());
    ++i;
  }
}
static Eigen::Matrix3d box_of(const json &f) {
  Eigen::Matrix3d M;
  for (int i = 0; i < 3; ++i)
    for (int j = 0; j < 3; ++j) M(i, j) = f.at("box")[size_t(3 * i + j)].get<double>();
  return M;
}
static void set_frame(Topology &top, const json &c, const json &f) {
  top.setStep(f.at("step").get<Index>());
  top.setTime(f.at("time").get<double>());
  std::string bt = f.at("boxtype");
  BoundaryCondition::eBoxtype t = BoundaryCondition::typeAuto;
  if (bt == "open") t = BoundaryCondition::typeOpen;
  if (bt == "orth") t = BoundaryCondition::typeOrthorhombic;
  if (bt == "tric") t = BoundaryCondition::typeTriclinic;
  top.setBox(box_of(f), t);
  bool hv = c.at("hasvel"), hf = c.at("hasforce");
  top.SetHasVel(hv);
  top.SetHasForce(hf);
  const json &x = f.at("x"), &v = f.at("v"), &fo = f.at("f");
  for (Index i = 0; i < top.BeadCount(); ++i) {
    Bead *b = top.getBead(i);
    size_t o = size_t(3 * i);
    b->setPos(Eigen::Vector3d(x[o].get<double>(), x[o + 1].get<double>(), x[o + 2].get<double>()));
    if (hv) b->setVel(Eigen::Vector3d(v[o].get<double>(), v[o + 1].get<double>(), v[o + 2].get<double>()));
    if (hf) b->setF(Eigen::Vector3d(fo[o].get<double>(), fo[o + 1].get<double>(), fo[o + 2].get<double>()));
  }
}

struct Snap {
  long step = 0;
  double time = 0;
  Eigen::Matrix3d box;
  int boxtype = 0;
  std::vector<double> x, v, f;
  std::vector<char> hx, hv, hf;
};
static Snap snapshot(Topology &top) {
  Snap s;
  s.step = top.getStep();
  s.time = top.getTime();
  s.box = top.getBox();
  s.boxtype = int(top.getBoxType());
  for (Index i = 0; i < top.BeadCount(); ++i) {
    Bead *b = top.getBead(i);
    s.hx.push_back(b->HasPos());
    s.hv.push_back(b->HasVel());
    s.hf.push_back(b->HasF());
    Eigen::Vector3d z = Eigen::Vector3d::Zero();
    Eigen::Vector3d p = b->HasPos() ? b->getPos() : z, v = b->HasVel() ? b->getVel() : z, f = b->HasF() ? b->getF() : z;
    for (int k = 0; k < 3; ++k) {
      s.x.push_back(p[k]);
      s.v.push_back(v[k]);
      s.f.push_back(f[k]);
    }
  }
  return s;
}
static void forget(Topology &top) {
  // stale data of the previous frame must not be able to pass for data of the next one
  for (Index i = 0; i < top.BeadCount(); ++i) {
    Bead *b = top.getBead(i);
    b->HasPos(false);
    b->HasVel(false);
    b->HasF(false);
  }
}

// reads up to maxframes frames the way CsgApplication does (FirstFrame, then NextFrame until it returns false)
static std::vector<Snap> read_all(const std::string &file, Topology &top, size_t maxframes) {
  std::vector<Snap> out;
  std::unique_ptr<votca::csg::TrajectoryReader> rd = votca::csg::TrjReaderFactory().Create(file);
  rd->Open(file);
  forget(top);
  bool ok = rd->FirstFrame(top);
  while (ok && out.size() < maxframes) {
    out.push_back(snapshot(top));
    forget(top);
    ok = rd->NextFrame(top);
  }
  rd->Close();
  return out;
}

// VV_C08_TOLSCALE (default 1) scales the format tolerances: a self-test of the harness.  With 0.4 every round-trip sub
// must fail (the rounding error of a correct writer reaches 0.5 units of the last printed digit), which shows that the
// comparisons are live and the tolerances are not loose.
static double tolscale() {
  static double s = getenv("VV_C08_TOLSCALE") ? atof(getenv("VV_C08_TOLSCALE")) : 1.0;
  return s;
}
static bool within(double got, double exp, double abs_tol, double rel_tol) {
  if (!(std::isfinite(got))) return false;
  abs_tol *= tolscale();
  rel_tol *= tolscale();
  double tol = abs_tol * (1 + 1e-9) + rel_tol * std::fabs(exp) * (1 + 1e-6) + 16 * DBL_EPSILON * std::fabs(exp);
  return std::fabs(got - exp) <= tol;
}

static void plugins() {
  static bool done = false;
  if (done) return;
  done = true;
  votca::csg::TrajectoryWriter::RegisterPlugins();
  votca::csg::TrajectoryReader::RegisterPlugins();
  votca::csg::TopologyReader::RegisterPlugins();
}

// own writers (independent of VOTCA's) for the formats whose VOTCA writer output VOTCA cannot read at present
static std::string own_xyz_frame(const std::vector<std::string> &names, const std::vector<double> &x_nm, long step) {
  std::string s = fmt("%zu\nframe %ld written by the harness\n", names.size(), step);
  for (size_t i = 0; i < names.size(); ++i)
    s += fmt("%-3.3s %11.5f %11.5f %11.5f\n", names[i].c_str(), x_nm[3 * i] * 10, x_nm[3 * i + 1] * 10, x_nm[3 * i + 2] * 10);
  return s;
}
static std::string own_pdb_frame(const std::vector<std::string> &names, const std::vector<double> &x_nm, long step) {
  std::string s = fmt("MODEL     %4ld\n", step % 10000);
  for (size_t i = 0; i < names.size(); ++i)
    s += fmt("ATOM  %5zu %-4.4s %-3.3s %1s%4d    %8.3f%8.3f%8.3f%6.2f%6.2f          %2s%2s\n", (i + 1) % 100000, names[i].c_str(),
             "RES", "A", 1, x_nm[3 * i] * 10, x_nm[3 * i + 1] * 10, x_nm[3 * i + 2] * 10, 1.0, 0.0, "", "");
  s += "ENDMDL\n";
  return s;
}

// ------------------------------------------------------------------------------------------------ round trip
static Result roundtrip_body(const json &c) {
  plugins();
  Result r;
  const std::string fname = c.at("fmt");
  const Fmt &F = formats().at(fname);
  const std::string FN = fname == "gro" ? "GRO" : fname == "pdb" ? "PDB" : fname == "xyz" ? "XYZ" : fname == "dump" ? "LAMMPSDump" : "DLPOLY";
  const std::string file = scratch() + "/t." + fname;
  const json &frames = c.at("frames");
  const size_t nf = frames.size();
  const Index n = Index(c.at("beads").size());
  const bool hv = c.at("hasvel"), hf = c.at("hasforce");
  const int bk = c.at("boxkind");
  // what the format can carry for this case
  bool carry_v = F.vel && hv, carry_f = F.force && hf;
  if (fname == "dlph" || fname == "dlpc") {
    // keytrj: 0 = positions, 1 = +velocities, 2 = +forces; forces without velocities cannot be stored
    carry_f = hv && hf;
  }
  r.cls(nf > 1 ? "frames>=2" : "frames=1");
  if (F.boxcomp) r.cls(bk == 0 ? "box-open" : bk == 1 ? "box-orthorhombic" : bk == 2 ? "box-triclinic" : "box-general-9");
  if (carry_v) r.cls("velocities");
  if (carry_f) r.cls("forces");
  if (hf && !carry_f && F.force) r.cls("forces-without-velocities(not storable)");
  if (c.at("fullwidth").get<bool>()) r.cls("full-field-width");
  if (fname == "dump") r.cls("dump:reduced-triclinic-form-only");
  if (fname == "pdb") r.cls("restriction:no-box(Write emits no CRYST1)");
  if (n >= 100) r.cls("beads>=100");
  if (c.value("bigmag", false)) r.cls("dump:14-15-digit-values(long lines)");
  r.nontrivial = nf >= 2 || (F.boxcomp == 9 && bk >= 2) || (carry_v && carry_f);

  // ---- write
  stage("write");
  {
    Topology top;
    build_top(top, c);
    std::unique_ptr<votca::csg::TrajectoryWriter> w = votca::csg::TrjWriterFactory().Create(file);
    try {
      // append_at = k > 0: the file is closed after k frames and opened again for appending (same or new writer object)
      const size_t append_at = c.value("append_at", 0);
      const bool can_append = fname != "dlph" && fname != "dlpc";  // DL_POLY: "appending ... not implemented" (documented throw)
      w->Open(file);
      size_t k = 0;
      for (auto &f : frames) {
        if (can_append && append_at > 0 && k > 0 && k % append_at == 0) {
          w->Close();
          if (c.value("append_new_writer", false)) w = votca::csg::TrjWriterFactory().Create(file);
          w->Open(file, true);
          r.cls("reopened-for-append");
        }
        set_frame(top, c, f);
        w->Write(&top);
        ++k;
      }
      w->Close();
    } catch (const std::exception &e) {
      r.fail(FN + "Writer/throws", std::string("writer threw on a valid trajectory: ") + e.what());
      return r;
    }
  }

  // ---- repairs that stand in for a confirmed writer/reader defect, so that the search continues behind it
  if (fname == "xyz" && known("XYZWriter/header-blank-line")) {
    std::string out;
    for (auto &l : lines_of(slurp(file)))
      if (!l.empty()) out += l + "\n";
    std::ofstream(file) << out;
    r.cls("excluded-known:XYZWriter/header-blank-line(blank line removed before reading)");
  }
  if (fname == "pdb" && known("PDB/reader-rejects-writer-output")) {
    std::string out;
    for (auto &l : lines_of(slurp(file))) {
      std::string p = l;
      if (p.rfind("ATOM", 0) == 0 && p.size() < 80) p.resize(80, ' ');
      out += p + "\n";
    }
    std::ofstream(file) << out;
    r.cls("excluded-known:PDB/reader-rejects-writer-output(ATOM lines padded to 80 columns before reading)");
  }

  // ---- read into a fresh topology
  stage("read");
  std::vector<Snap> got;
  {
    Topology top2;
    build_top(top2, c);
    try {
      got = read_all(file, top2, nf + 2);
    } catch (const std::exception &e) {
      std::string what = e.what();
      std::vector<std::string> L = lines_of(slurp(file));
      std::string key = FN + "Reader/rejects-writer-output";
      if (fname == "pdb" && what.find("Misformated pdb file in atom line") != std::string::npos) key = "PDB/reader-rejects-writer-output";
      if (fname == "xyz" && L.size() > 2 && L[2].empty()) key = "XYZWriter/header-blank-line";
      std::string head;
      for (size_t i = 0; i < L.size() && i < 4; ++i) head += L[i] + "\\n";
      r.fail(key, "reader threw on the file its own writer produced: " + what.substr(0, 300) + " ; file starts: " + head);
      return r;
    }
  }
  if (got.size() != nf) {
    r.fail(FN + "/frame-count", fmt("%zu frames written, %zu frames read", nf, got.size()));
    return r;
  }

  // ---- compare frame by frame
  for (size_t k = 0; k < nf; ++k) {
    const json &f = frames[k];
    const Snap &s = got[k];
    if (Index(s.hx.size()) != n) {
      r.fail(FN + "/bead-count", fmt("frame %zu: %ld beads written, %zu read", k, long(n), s.hx.size()));
      return r;
    }
    if (F.step && s.step != f.at("step").get<long>()) {
      r.fail(FN + "/step", fmt("frame %zu: step %ld written, %ld read (frame order / step number)", k, f.at("step").get<long>(), s.step));
      return r;
    }
    if (fname == "dlph")  // not asserted (the statement does not list time); HISTORY stores step and dt of the first frame
      r.cls(within(s.time, f.at("time").get<double>(), 0, 0.5e-8) ? "time-equal-to-9-digits" : "time-differs");
    // positions
    bool skip_pos = fname == "xyz" && known("XYZWriter/topology-units");
    if (skip_pos) r.cls("excluded-known:XYZWriter/topology-units(positions not compared)");
    for (Index i = 0; i < n && !skip_pos; ++i) {
      if (!s.hx[size_t(i)]) {
        r.fail(FN + "/positions-missing", fmt("frame %zu bead %ld: reader did not set a position", k, long(i)));
        return r;
      }
      for (int d = 0; d < 3; ++d) {
        double e = f.at("x")[size_t(3 * i + d)].get<double>(), g = s.x[size_t(3 * i + d)];
        if (!within(g, e, F.ptol, F.rel)) {
          std::string key = FN + "/positions";
          if (fname == "xyz") {
            // bohr->Angstrom factor applied to nm?  (x_nm * 0.529177 printed, read back /10)
            double wrong = e * 0.52917721 / 10.0;
            if (std::fabs(g - wrong) <= 1e-5 * std::fabs(wrong) + 1e-6) key = "XYZWriter/topology-units";
          }
          r.fail(key, fmt("frame %zu bead %ld comp %d: wrote %.17g nm, read %.17g nm, |diff| %.3g > tol %.3g", k, long(i), d, e, g,
                          std::fabs(g - e), F.ptol + F.rel * std::fabs(e)));
          return r;
        }
      }
    }
    // velocities
    if (carry_v)
      for (Index i = 0; i < n; ++i) {
        if (!s.hv[size_t(i)]) {
          r.fail(FN + "/velocities-missing", fmt("frame %zu bead %ld: velocities written but not read", k, long(i)));
          return r;
        }
        for (int d = 0; d < 3; ++d) {
          double e = f.at("v")[size_t(3 * i + d)].get<double>(), g = s.v[size_t(3 * i + d)];
          if (!within(g, e, F.vtol, F.rel)) {
            r.fail(FN + "/velocities", fmt("frame %zu bead %ld comp %d: wrote %.17g nm/ps, read %.17g, |diff| %.3g > tol %.3g", k, long(i), d,
                                            e, g, std::fabs(g - e), F.vtol + F.rel * std::fabs(e)));
            return r;
          }
        }
      }
    // forces
    if (carry_f)
      for (Index i = 0; i < n; ++i) {
        if (!s.hf[size_t(i)]) {
          r.fail(FN + "/forces-missing", fmt("frame %zu bead %ld: forces written but not read", k, long(i)));
          return r;
        }
        for (int d = 0; d < 3; ++d) {
          double e = f.at("f")[size_t(3 * i + d)].get<double>(), g = s.f[size_t(3 * i + d)];
          if (!within(g, e, F.ftol, F.rel)) {
            r.fail(FN + "/forces", fmt("frame %zu bead %ld comp %d: wrote %.17g kJ/mol/nm, read %.17g, |diff| %.3g > tol %.3g", k, long(i),
                                        d, e, g, std::fabs(g - e), F.ftol + F.rel * std::fabs(e)));
            return r;
          }
        }
      }
    // box
    if (F.boxcomp) {
      Eigen::Matrix3d B = box_of(f);
      bool offdiag = false;
      for (int i = 0; i < 3; ++i)
        for (int j = 0; j < 3; ++j)
          if (i != j && B(i, j) != 0) offdiag = true;
      bool skip_off = false;
      if (fname == "gro" && offdiag && known("GROWriter/triclinic-box")) skip_off = true;
      if ((fname == "dlph" || fname == "dlpc") && offdiag && known("DLPOLY/box-transposed")) skip_off = true;
      if (skip_off) r.cls("excluded-known:box-off-diagonals-not-compared");
      for (int i = 0; i < 3; ++i)
        for (int j = 0; j < 3; ++j) {
          if (F.boxcomp == 3 && i != j) continue;
          if (skip_off && i != j) continue;
          double e = B(i, j), g = s.box(i, j);
          double rel = (fname == "dlpc") ? 0.0 : F.rel;
          if (within(g, e, F.btol, rel)) continue;
          std::string key = FN + "/box";
          if (i != j && fname == "gro" && g == 0.0 && e != 0.0) key = "GROWriter/triclinic-box";
          if (i != j && FN == "DLPOLY" && within(g, B(j, i), F.btol, rel)) key = "DLPOLY/box-transposed";
          r.fail(key, fmt("frame %zu box(%d,%d): wrote %.17g nm, read %.17g nm (box written [%g %g %g; %g %g %g; %g %g %g], read [%g %g %g; %g "
                          "%g %g; %g %g %g], rows of the matrix whose columns are a,b,c)",
                          k, i, j, e, g, B(0, 0), B(0, 1), B(0, 2), B(1, 0), B(1, 1), B(1, 2), B(2, 0), B(2, 1), B(2, 2), s.box(0, 0),
                          s.box(0, 1), s.box(0, 2), s.box(1, 0), s.box(1, 1), s.box(1, 2), s.box(2, 0), s.box(2, 1), s.box(2, 2)));
          return r;
        }
      if (F.boxtype) {
        // imcon stores the boundary type the writer saw
        Topology t0;
        t0.setBox(B, f.at("boxtype") == "open"   ? BoundaryCondition::typeOpen
                     : f.at("boxtype") == "orth" ? BoundaryCondition::typeOrthorhombic
                     : f.at("boxtype") == "tric" ? BoundaryCondition::typeTriclinic
                                                 : BoundaryCondition::typeAuto);
        if (int(t0.getBoxType()) != s.boxtype) {
          r.fail(FN + "/boxtype", fmt("frame %zu: boundary type %d written, %d read", k, int(t0.getBoxType()), s.boxtype));
          return r;
        }
      }
    }
  }

  // ---- names / types as far as the format stores them (topology read from the first frame of the same file)
  stage("compare-done");
  if (fname == "dump" && known("LAMMPSDumpReader/topology-type-id-0")) {
    r.cls("excluded-known:LAMMPSDumpReader/topology-type-id-0(types not checked)");
    return r;
  }
  if (fname == "gro" || fname == "xyz" || fname == "dump") {
    stage("topology-read");
    Topology t3;
    try {
      std::unique_ptr<votca::csg::TopologyReader> tr = votca::csg::TopReaderFactory().Create(file);
      tr->ReadTopology(file, t3);
    } catch (const std::exception &e) {
      r.fail(FN + "Reader/topology-from-own-file", std::string("ReadTopology threw on the writer's file: ") + e.what());
      return r;
    }
    if (t3.BeadCount() != n) {
      r.fail(FN + "/topology-bead-count", fmt("%ld beads written, topology read from the file has %ld", long(n), long(t3.BeadCount())));
      return r;
    }
    std::map<std::string, std::string> fwd, bwd;
    bool skip_names = fname == "xyz" && known("XYZWriter/topology-units");
    for (Index i = 0; i < n && !skip_names; ++i) {
      std::string name = c.at("beads")[size_t(i)][0], type = c.at("beads")[size_t(i)][1];
      Bead *b = t3.getBead(i);
      if (fname == "gro") {
        std::string e = name.substr(0, 5);
        Index res = c.at("beads")[size_t(i)][2].get<Index>();
        std::string rn = c.at("res")[size_t(res)].get<std::string>().substr(0, 5);
        if (b->getName() != e || b->getResnr() != res || t3.getResidue(b->getResnr()).getName() != rn) {
          r.fail("GRO/names", fmt("bead %ld: wrote name '%s' residue %ld '%s', read name '%s' residue %ld '%s'", long(i), e.c_str(), long(res),
                                  rn.c_str(), b->getName().c_str(), long(b->getResnr()), t3.getResidue(b->getResnr()).getName().c_str()));
          return r;
        }
      } else if (fname == "xyz") {
        std::string e = name.substr(0, 3);
        if (b->getType() != e) {
          r.fail(b->getType() == "una" ? "XYZWriter/topology-units" : "XYZ/names",
                 fmt("bead %ld: wrote name '%s' (xyz stores 3 characters: '%s'), read '%s'", long(i), name.c_str(), e.c_str(), b->getType().c_str()));
          return r;
        }
      } else {  // dump stores a type id: equal types <-> equal ids
        std::string g = b->getType();
        if ((fwd.count(type) && fwd[type] != g) || (bwd.count(g) && bwd[g] != type)) {
          r.fail("LAMMPSDump/types", fmt("bead %ld: type '%s' read as '%s' is inconsistent with earlier beads (type partition not preserved)",
                                        long(i), type.c_str(), g.c_str()));
          return r;
        }
        fwd[type] = g;
        bwd[g] = type;
      }
    }
    r.cls(skip_names ? "excluded-known:XYZWriter/topology-units(names not compared)" : "names-checked");
  }
  return r;
}

static Result run_traj(const json &c) {
  const std::string fname = c.at("fmt");
  const std::string FN = fname == "gro" ? "GRO" : fname == "pdb" ? "PDB" : fname == "xyz" ? "XYZ" : fname == "dump" ? "LAMMPSDump" : "DLPOLY";
  Result r = in_child([&] { return roundtrip_body(c); },
                      [&](const std::string &stg, const std::string &err) -> std::string {
                        // the dump writer numbers types from 0, the dump topology reader reserves id 0 for its dummy type
                        if (fname == "dump" && stg == "topology-read" && err.find("RegisterBeadType") != std::string::npos)
                          return "LAMMPSDumpReader/topology-type-id-0";
                        return FN + "/crash-in-" + stg;
                      });
  unlink((scratch() + "/t." + fname).c_str());
  return r;
}

// ------------------------------------------------------------------------------------------------ mismatch
static json gen_mismatch() {
  static const std::vector<std::string> fm{"gro", "pdb", "xyz", "dump", "dlph", "dlpc"};
  json c;
  std::string fname = pickv(fm);
  // confirmed defects are avoided by construction (run_mismatch discards what still gets here, e.g. from a replay file)
  if (fname == "dump" && known("LAMMPSDumpReader/natoms-mismatch-accepted")) fname = pick<std::string>({"gro", "xyz", "dlph", "dlpc", "pdb"});
  c["fmt"] = fname;
  int n = ri(1, 30);
  bool more = rbool(50);
  int m = more ? n + (rbool(70) ? ri(1, 3) : ri(4, 40)) : n - (rbool(70) ? ri(1, std::min(3, n)) : ri(1, n));
  if (m < 1) {  // a frame with zero atoms is not a frame in most formats
    m = n + 1;
    more = true;
  }
  if (fname == "pdb" && m > n && known("PDBReader/natoms-mismatch-overrun")) {
    if (n == 1) n = ri(2, 30);
    m = n - ri(1, n - 1);
    more = false;
  }
  c["n_top"] = n;
  c["n_frame"] = m;
  int nf = (fname == "dlpc") ? 1 : ri(1, 3);
  c["nframes"] = nf;
  c["bad"] = ri(0, nf - 1);
  // VOTCA's writer or the harness' own writer (xyz, pdb only)
  bool own = (fname == "xyz" || fname == "pdb") ? rbool(85) : false;
  if (fname == "xyz" && (known("XYZWriter/header-blank-line") || known("XYZWriter/topology-units"))) own = true;
  if (fname == "pdb" && known("PDB/reader-rejects-writer-output")) own = true;
  c["own_writer"] = own;
  if (fname == "pdb" && own) {
    c["pdb_end"] = pick<std::string>({"ENDMDL", "ENDMDL", "END", "none", "none", "none-nonl"});
    if (rbool(60)) c["bad"] = nf - 1;  // the unterminated model is the mismatching one
  }
  c["hasvel"] = (fname == "gro" || fname == "dump" || fname == "dlph" || fname == "dlpc") && rbool(40);
  int nmax = std::max(n, m);
  std::vector<double> x;
  for (int i = 0; i < 3 * nmax * nf; ++i) x.push_back(double(ri(-9000, 9000)) / 1000.0);
  c["x"] = x;
  c["edge"] = double(ri(16, 160)) / 16.0;
  return c;
}

// phase 0: control file (all frames match); phase 1: the mismatching file.  Separate children, because the DL_POLY
// writer writes its file header only for the first frame the PROCESS writes.
static Result mismatch_body(const json &c, int phase) {
  plugins();
  Result r;
  const std::string fname = c.at("fmt");
  const std::string RN = fname == "gro" ? "GROReader" : fname == "pdb" ? "PDBReader" : fname == "xyz" ? "XYZReader" : fname == "dump" ? "LAMMPSDumpReader" : "DLPOLYTrajectoryReader";
  const int n = c.at("n_top"), m = c.at("n_frame"), nf = c.at("nframes"), bad = c.at("bad");
  const bool own = c.at("own_writer"), hv = c.at("hasvel");
  const std::string pdb_end = c.value("pdb_end", "ENDMDL");
  const std::vector<double> X = c.at("x").get<std::vector<double>>();
  const int nmax = std::max(n, m);
  const double edge = c.at("edge");
  if (phase == 1) {
    r.cls(fname);
    r.cls(m > n ? "frame-has-more-atoms" : "frame-has-fewer-atoms");
    r.cls(bad == 0 ? "first-frame" : "later-frame");
    r.cls(own ? "own-writer" : "votca-writer");
    if (fname == "pdb" && own) r.cls("pdb-last-model-closed-by:" + pdb_end);
    r.nontrivial = true;
  }

  auto make_top = [&](Topology &top, int count) {
    top.CreateResidue("RES");
    top.RegisterBeadType("T");
    for (int i = 0; i < count; ++i) top.CreateBead(Bead::spherical, "C", "T", 0, 12.0, 0.0);
  };
  auto fill = [&](Topology &top, int frame) {
    top.setStep(frame + 1);
    top.setTime(0.5 * (frame + 1));
    top.setBox(edge * Eigen::Matrix3d::Identity());
    top.SetHasVel(hv);
    top.SetHasForce(false);
    for (Index i = 0; i < top.BeadCount(); ++i) {
      size_t o = size_t(3 * (frame * nmax + int(i)));
      top.getBead(i)->setPos(Eigen::Vector3d(X[o], X[o + 1], X[o + 2]));
      if (hv) top.getBead(i)->setVel(Eigen::Vector3d(X[o + 2], X[o], X[o + 1]) * 0.1);
    }
  };
  // writes a file whose frame `bad` has `count_bad` atoms, all others n
  auto write_file = [&](const std::string &file, int count_bad) {
    if (own) {
      std::string txt;
      for (int k = 0; k < nf; ++k) {
        int cnt = (k == bad) ? count_bad : n;
        std::vector<std::string> names(size_t(cnt), "C");
        std::vector<double> x(X.begin() + 3 * k * nmax, X.begin() + 3 * k * nmax + 3 * cnt);
        txt += fname == "xyz" ? own_xyz_frame(names, x, k + 1) : own_pdb_frame(names, x, k + 1);
        // the last model of a pdb file may be closed by ENDMDL, by END, or by nothing at all (single-structure files,
        // files written through a writer's container interface, truncated downloads)
        if (fname == "pdb" && k == nf - 1 && pdb_end != "ENDMDL") {
          txt.resize(txt.size() - std::string("ENDMDL\n").size());
          if (pdb_end == "END") txt += "END\n";
          if (pdb_end == "none-nonl") txt.pop_back();
        }
      }
      std::ofstream(file) << txt;
      return;
    }
    Topology tn, tb;
    make_top(tn, n);
    make_top(tb, count_bad);
    std::unique_ptr<votca::csg::TrajectoryWriter> w = votca::csg::TrjWriterFactory().Create(file);
    w->Open(file);
    for (int k = 0; k < nf; ++k) {
      Topology &t = (k == bad) ? tb : tn;
      fill(t, k);
      w->Write(&t);
    }
    w->Close();
  };

  const std::string good = scratch() + "/good." + fname, badf = scratch() + "/bad." + fname;
  // ---- control: all frames have n atoms -> must be readable with the n-bead topology
  if (phase == 0) {
  stage("control-file");
  try {
    write_file(good, n);
    Topology t;
    make_top(t, n);
    std::vector<Snap> g = read_all(good, t, size_t(nf) + 2);
    // (a last model that is closed by nothing is delivered, but NextFrame reports the end of the file with it: such a
    // file is foreign input, its frame count is not part of the statement)
    const bool open_end = fname == "pdb" && own && pdb_end.rfind("none", 0) == 0;
    if (int(g.size()) != nf && !(open_end && int(g.size()) == nf - 1))
      throw std::runtime_error(fmt("control: %d frames written, %zu read", nf, g.size()));
    if (own) {
      // reader-only check on a file VOTCA's writers had no part in: positions in nm
      double tol = fname == "xyz" ? 0.5e-6 : 0.5e-4;
      for (int k = 0; k < int(g.size()); ++k)
        for (int i = 0; i < 3 * n; ++i) {
          double e = X[size_t(3 * k * nmax + i)], gg = g[size_t(k)].x[size_t(i)];
          if (!within(gg, e, tol, 0)) {
            r.fail(RN + "/positions-of-foreign-file", fmt("frame %d value %d: file holds %.6f nm, reader returned %.17g nm", k, i, e, gg));
            return r;
          }
        }
      r.cls("own-file-values-checked");
    }
  } catch (const std::exception &e) {
    // the matching file is not readable: that is the round-trip defect of this format, reported by its own sub
    r.discard = true;
    return r;
  }
  return r;
  }
  // ---- the mismatching file
  stage("write-mismatching-file");
  write_file(badf, m);
  stage("read-mismatching-file");
  Topology t;
  make_top(t, n);
  std::unique_ptr<votca::csg::TrajectoryReader> rd = votca::csg::TrjReaderFactory().Create(badf);
  rd->Open(badf);
  bool threw = false;
  std::string what;
  int reached = -1;
  try {
    for (int k = 0; k <= bad; ++k) {
      reached = k;
      bool ok = (k == 0) ? rd->FirstFrame(t) : rd->NextFrame(t);
      if (k < bad && !ok) {
        r.fail(RN + "/frame-count", fmt("matching frame %d of %d not delivered", k, nf));
        return r;
      }
    }
  } catch (const std::exception &e) {
    threw = true;
    what = e.what();
  }
  if (threw && reached < bad) {
    r.fail(RN + "/rejects-matching-frame", fmt("frame %d has the topology's atom count but the reader threw: %s", reached, what.c_str()));
    return r;
  }
  if (!threw) {
    r.fail(RN + "/natoms-mismatch-accepted",
           fmt("%s frame %d holds %d atoms, topology has %d beads: reader returned without raising an error", fname.c_str(), bad, m, n));
    return r;
  }
  r.cls("rejected-by-exception");
  return r;
}

static Result run_mismatch(const json &c) {
  const std::string fname = c.at("fmt");
  const std::string RN = fname == "gro" ? "GROReader" : fname == "pdb" ? "PDBReader" : fname == "xyz" ? "XYZReader" : fname == "dump" ? "LAMMPSDumpReader" : "DLPOLYTrajectoryReader";
  const int n = c.at("n_top"), m = c.at("n_frame");
  Result pre;
  // confirmed defects: excluded by construction
  if (fname == "dump" && known("LAMMPSDumpReader/natoms-mismatch-accepted")) {
    pre.discard = true;
    return pre;
  }
  if (fname == "pdb" && m > n && known("PDBReader/natoms-mismatch-overrun")) {
    pre.discard = true;
    return pre;
  }
  // a reader that walks past the end of the bead container dies with a sanitizer report / assertion instead of an
  // exception; the missing or late check is the root cause, so it gets the reader's mismatch key
  std::string crash_key = RN + "/natoms-mismatch-accepted";
  if (fname == "pdb") crash_key = "PDBReader/natoms-mismatch-overrun";
  auto keyf = [&](const std::string &stg, const std::string &) -> std::string {
    return stg == "read-mismatching-file" ? crash_key : RN + "/crash-in-" + stg;
  };
  Result r0 = in_child([&] { return mismatch_body(c, 0); }, keyf);
  unlink((scratch() + "/good." + fname).c_str());
  if (r0.discard) return r0;
  if (!r0.ok) {
    // a crash while reading the matching control file is the round-trip defect of that format, reported by its own sub
    if (r0.key.find("/crash-in-") != std::string::npos) r0 = Result(), r0.discard = true;
    return r0;
  }
  Result r = in_child([&] { return mismatch_body(c, 1); }, keyf);
  unlink((scratch() + "/bad." + fname).c_str());
  for (auto &cl : r0.classes) r.cls(cl);
  return r;
}

// ------------------------------------------------------------------------------------------------ tables
struct Quiet {  // the imcio writers report on std::cout
  std::ostringstream sink;
  std::streambuf *old;
  Quiet() : sink(), old(std::cout.rdbuf(sink.rdbuf())) {}
  ~Quiet() { std::cout.rdbuf(old); }
};

static double gen_value() {
  int k = ri(0, 9);
  if (k == 0) return 0.0;
  double m = double(rl(-99999999999L, 99999999999L)) / 1e10;  // 11 significant digits: rounding at 10 is exercised
  if (k < 5) return m;
  if (k < 8) return m * p10(ri(-12, 12));
  return double(ri(-1000, 1000)) / 8.0;
}

static json gen_table() {
  json c;
  int n = rcount(0, 60);
  std::vector<double> x, y, e;
  std::string flags;
  bool uniform = rbool(60);
  double x0 = double(ri(-400, 400)) / 100.0, dx = double(ri(1, 500)) / 1000.0, cur = x0;
  for (int i = 0; i < n; ++i) {
    x.push_back(uniform ? x0 + i * dx : cur);
    cur += double(ri(1, 5000)) / 10000.0;
    y.push_back(gen_value());
    {
      double ev = std::fabs(gen_value());
      e.push_back(ev == 0 ? 0.25 : ev);  // never 0: a dropped column must not pass by accident
    }
    flags += pick<char>({'i', 'o', 'u'});
  }
  // tables whose flags were never set (blank): the writer then omits the flag column, lines are "x y" / "x y yerr"
  if (rbool(25)) flags = std::string(flags.size(), ' ');
  c["x"] = x;
  c["y"] = y;
  c["yerr"] = e;
  c["flags"] = flags;
  c["has_yerr"] = rbool(50);
  if (rbool(50)) {
    static const std::vector<std::string> parts{"created by: csg_stat", "\n", "\\n", "# already a comment", "@ xmgrace", "  ", "x y flag", "1 2 3", ""};
    std::string cm;
    int np = ri(1, 4);
    for (int i = 0; i < np; ++i) cm += pickv(parts);
    c["comment"] = cm;
  } else
    c["comment"] = nullptr;
  return c;
}

static Result run_table(const json &c) {
  Result r;
  std::vector<double> x = c.at("x"), y = c.at("y"), e = c.at("yerr");
  std::string flags = c.at("flags");
  bool he = c.at("has_yerr");
  const Index n = Index(x.size());
  const std::string file = scratch() + "/t.tab";
  votca::tools::Table t;
  t.SetHasYErr(he);
  t.resize(n);
  for (Index i = 0; i < n; ++i) {
    if (he)
      t.set(i, x[size_t(i)], y[size_t(i)], flags[size_t(i)], e[size_t(i)]);
    else
      t.set(i, x[size_t(i)], y[size_t(i)], flags[size_t(i)]);
  }
  if (!c.at("comment").is_null()) {
    t.set_comment(c.at("comment").get<std::string>());
    r.cls("comment-lines");
  }
  r.cls(he ? "with-error-column" : "no-error-column");
  if (n > 0 && flags[0] == ' ') r.cls(he ? "flags-unset(x y yerr lines)" : "flags-unset(x y lines)");
  if (n == 0) r.cls("empty");
  bool mixed = flags.find('o') != std::string::npos || flags.find('u') != std::string::npos;
  r.nontrivial = n >= 2 && mixed;
  t.Save(file);
  votca::tools::Table u;
  u.SetHasYErr(he);
  try {
    u.Load(file);
  } catch (const std::exception &ex) {
    r.fail("Table/load-rejects-saved-file", std::string("Load threw on a file written by Save: ") + ex.what());
    unlink(file.c_str());
    return r;
  }
  unlink(file.c_str());
  if (u.size() != n) {
    r.fail("Table/size", fmt("%ld rows saved, %ld loaded", long(n), long(u.size())));
    return r;
  }
  for (Index i = 0; i < n; ++i) {
    // 10 significant digits
    if (!within(u.x(i), x[size_t(i)], 0, 0.5e-9) || !within(u.y(i), y[size_t(i)], 0, 0.5e-9)) {
      r.fail("Table/values", fmt("row %ld: saved (%.17g, %.17g), loaded (%.17g, %.17g)", long(i), x[size_t(i)], y[size_t(i)], u.x(i), u.y(i)));
      return r;
    }
    // an unset (blank) flag is not written; the reader's default for a line without flag is 'i'
    if (flags[size_t(i)] == ' ' ? (u.flags(i) != 'i' && u.flags(i) != ' ') : (u.flags(i) != flags[size_t(i)])) {
      r.fail("Table/flags", fmt("row %ld: flag '%c' saved, '%c' loaded", long(i), flags[size_t(i)], u.flags(i)));
      return r;
    }
  }
  if (he && n > 0) {
    if (known("Table/yerr-dropped")) {
      r.cls("excluded-known:Table/yerr-dropped(error column not compared)");
    } else {
      if (u.yerr().size() != n) {
        r.fail("Table/yerr-dropped", fmt("%ld rows with error column saved, loaded table has %ld error entries", long(n), long(u.yerr().size())));
        return r;
      }
      for (Index i = 0; i < n; ++i)
        if (!within(u.yerr(i), e[size_t(i)], 0, 0.5e-9)) {
          r.fail("Table/yerr-dropped", fmt("row %ld: error %.17g saved (third column of the file), %.17g loaded into a table with SetHasYErr(true)",
                                            long(i), e[size_t(i)], u.yerr(i)));
          return r;
        }
    }
  }
  return r;
}

// ------------------------------------------------------------------------------------------------ imc matrix / index
static json gen_matrix() {
  json c;
  int m = rcount(1, 12), n = rbool(35) ? m : rcount(1, 12);
  bool sym = (m == n) && rbool(35);
  std::vector<std::vector<double>> A;
  A.assign(static_cast<size_t>(m), std::vector<double>(static_cast<size_t>(n), 0.0));
  for (int i = 0; i < m; ++i)
    for (int j = 0; j < n; ++j) {
      int k = ri(0, 9);
      double v = double(rl(-999999999L, 999999999L)) / 1e8;  // 9 digits: rounding at 8 is exercised
      if (k == 0) v = 0;
      if (k >= 7) v *= p10(ri(-8, 8));
      A[size_t(i)][size_t(j)] = v;
    }
  if (sym)
    for (int i = 0; i < m; ++i)
      for (int j = 0; j < i; ++j) A[size_t(i)][size_t(j)] = A[size_t(j)][size_t(i)];
  c["A"] = A;
  // optional sub-selection list (square matrices only, as in csg_imc_solve)
  json list = nullptr;
  if (m == n && rbool(30)) {
    std::vector<int> l;
    auto p = rperm(m);
    int cnt = ri(1, m);
    for (int i = 0; i < cnt; ++i) l.push_back(p[size_t(i)]);
    list = l;
  }
  c["list"] = list;
  return c;
}

static Result run_matrix(const json &c) {
  Result r;
  std::vector<std::vector<double>> A = c.at("A");
  Index m = Index(A.size()), n = Index(A[0].size());
  Eigen::MatrixXd M(m, n);
  for (Index i = 0; i < m; ++i)
    for (Index j = 0; j < n; ++j) M(i, j) = A[size_t(i)][size_t(j)];
  std::vector<std::vector<double>> E = A;  // expected content
  std::list<Index> lst;
  if (!c.at("list").is_null()) {
    std::vector<int> l = c.at("list");
    lst.assign(l.begin(), l.end());
    E.assign(l.size(), std::vector<double>(l.size()));
    for (size_t i = 0; i < l.size(); ++i)
      for (size_t j = 0; j < l.size(); ++j) E[i][j] = A[size_t(l[i])][size_t(l[j])];
    r.cls("sub-selection-list");
  }
  Index em = Index(E.size()), en = Index(E[0].size());
  bool sym = em == en;
  for (Index i = 0; i < em && sym; ++i)
    for (Index j = 0; j < i; ++j)
      if (E[size_t(i)][size_t(j)] != E[size_t(j)][size_t(i)]) sym = false;
  r.cls(em != en ? "non-square" : sym ? "square-symmetric" : "square-non-symmetric");
  r.nontrivial = !sym && em > 1 && en > 1;
  const std::string file = scratch() + "/m.gmc";
  Eigen::MatrixXd R;
  try {
    Quiet q;
    votca::csg::imcio_write_matrix(file, M, lst.empty() ? nullptr : &lst);
    R = votca::csg::imcio_read_matrix(file);
  } catch (const std::exception &ex) {
    unlink(file.c_str());
    r.fail("imcio_matrix/throws", std::string("write/read of a matrix threw: ") + ex.what());
    return r;
  }
  unlink(file.c_str());
  if (R.rows() != em || R.cols() != en) {
    r.fail("imcio_matrix/shape", fmt("%ldx%ld written, %ldx%ld read", long(em), long(en), long(R.rows()), long(R.cols())));
    return r;
  }
  if (!sym && known("imcio_read_matrix/transposed")) {
    r.cls("excluded-known:imcio_read_matrix/transposed(entries not compared)");
    return r;
  }
  for (Index i = 0; i < em; ++i)
    for (Index j = 0; j < en; ++j)
      if (!within(R(i, j), E[size_t(i)][size_t(j)], 0, 0.5e-7)) {
        // does the result equal the row-major text reinterpreted column-major?
        bool scrambled = true;
        for (Index a = 0; a < em && scrambled; ++a)
          for (Index b = 0; b < en; ++b) {
            Index flat = b * em + a;  // column-major position of (a,b) in an em x en matrix
            if (!within(R(a, b), E[size_t(flat / en)][size_t(flat % en)], 0, 0.5e-7)) {
              scrambled = false;
              break;
            }
          }
        r.fail(scrambled ? "imcio_read_matrix/transposed" : "imcio_matrix/values",
               fmt("%ldx%ld matrix: entry (%ld,%ld) written %.10g, read %.10g%s", long(em), long(en), long(i), long(j), E[size_t(i)][size_t(j)],
                   R(i, j), scrambled ? " (the rows of the file were filled into the matrix column by column)" : ""));
        return r;
      }
  return r;
}

static json gen_index() {
  json c;
  int n = rcount(1, 8);
  json groups = json::array();
  static const std::string chars = "ABCDEFGHIJKLMNOPQRSTUVWXYZabcdefghijklmnopqrstuvwxyz0123456789_-.";
  long next = 1;
  for (int g = 0; g < n; ++g) {
    std::string name;
    int L = ri(1, 10);
    for (int i = 0; i < L; ++i) name += chars[size_t(ri(0, int(chars.size()) - 1))];
    json blocks = json::array();
    int nb = rbool(70) ? 1 : ri(2, 3);
    for (int b = 0; b < nb; ++b) {
      long beg = rbool(70) ? next : rl(0, 5000);
      long stride = rbool(80) ? 1 : rl(2, 7);
      long cnt = rl(0, 60);
      long end = beg + stride * cnt + (stride > 1 ? rl(0, stride - 1) : 0);
      blocks.push_back({beg, end, stride});
      next = end + 1;
    }
    groups.push_back({name, blocks});
  }
  c["groups"] = groups;
  return c;
}

static Result run_index(const json &c) {
  Result r;
  std::vector<std::pair<std::string, votca::tools::RangeParser>> w;
  std::vector<std::vector<long>> exp;
  bool strided = false, multi = false;
  for (auto &g : c.at("groups")) {
    votca::tools::RangeParser rp;
    std::vector<long> e;
    for (auto &b : g[1]) {
      long beg = b[0], end = b[1], stride = b[2];
      rp.Add(beg, end, stride);
      for (long v = beg; v <= end; v += stride) e.push_back(v);
      if (stride != 1) strided = true;
    }
    if (g[1].size() > 1) multi = true;
    w.emplace_back(g[0].get<std::string>(), rp);
    exp.push_back(e);
  }
  if (strided) r.cls("strided");
  if (multi) r.cls("multi-block");
  r.nontrivial = w.size() >= 2;
  const std::string file = scratch() + "/i.idx";
  std::vector<std::pair<std::string, votca::tools::RangeParser>> got;
  try {
    Quiet q;
    votca::csg::imcio_write_index(file, w);
    got = votca::csg::imcio_read_index(file);
  } catch (const std::exception &ex) {
    unlink(file.c_str());
    r.fail("imcio_index/throws", std::string("write/read of an index threw: ") + ex.what());
    return r;
  }
  unlink(file.c_str());
  if (got.size() != w.size()) {
    r.fail("imcio_index/count", fmt("%zu groups written, %zu read", w.size(), got.size()));
    return r;
  }
  for (size_t i = 0; i < w.size(); ++i) {
    if (got[i].first != w[i].first) {
      r.fail("imcio_index/name", "group name '" + w[i].first + "' read as '" + got[i].first + "'");
      return r;
    }
    std::vector<long> g;
    long steps = 0;
    for (auto it = got[i].second.begin(); it != got[i].second.end(); ++it) {
      if (++steps > 100000) break;
      g.push_back(*it);
    }
    if (g != exp[i]) {
      r.fail("imcio_index/range", fmt("group '%s': %zu indices written, %zu read (first written %ld, first read %ld)", w[i].first.c_str(),
                                      exp[i].size(), g.size(), exp[i].empty() ? -1L : exp[i][0], g.empty() ? -1L : g[0]));
      return r;
    }
  }
  return r;
}


// ------------------------------------------------------------------------------------------------ xml topology
// A topology description (molecule types x replicas x beads with name/type/mass/q, bonded groups, box) is written as a
// pure-xml topology by my own writer and read through TopReaderFactory("xml"); the Topology must be the description.
static std::string xname(int maxlen) {
  static const std::string a = "ABCDEFGHIJKLMNOPQRSTUVWXYZabcdefghijklmnopqrstuvwxyz0123456789_";
  std::string n(1, a[size_t(ri(0, 51))]);
  int L = ri(0, maxlen - 1);
  for (int i = 0; i < L; ++i) n += a[size_t(ri(0, int(a.size()) - 1))];
  return n;
}
static json gen_xmltop_one() {
  json t;
  int nm = rcount(1, 4);
  json mols = json::array();
  std::set<std::string> mnames;
  std::vector<std::string> types;
  for (int m = 0; m < nm; ++m) {
    std::string mn;
    do mn = xname(4);
    while (mnames.count(mn));
    mnames.insert(mn);
    int nb = rcount(1, 7);
    json beads = json::array();
    std::set<std::string> bn;
    for (int b = 0; b < nb; ++b) {
      std::string name;
      do name = xname(3);
      while (bn.count(name));
      bn.insert(name);
      std::string type = (!types.empty() && rbool(60)) ? types[size_t(ri(0, int(types.size()) - 1))] : xname(3);
      types.push_back(type);
      json bead{{"name", name}, {"type", type}};
      if (rbool(70)) bead["mass"] = double(ri(1, 400000)) / 1000.0;
      if (rbool(60)) bead["q"] = double(ri(-3000, 3000)) / 1000.0;
      beads.push_back(bead);
    }
    mols.push_back({{"name", mn}, {"nmols", ri(1, 4)}, {"beads", beads}});
  }
  t["mols"] = mols;
  json bonded = json::array();
  int ng = rcount(0, 4);
  for (int g = 0; g < ng; ++g) {
    int kind = ri(2, 4);  // beads per interaction
    json tuples = json::array();
    int nt = rcount(1, 4);
    for (int k = 0; k < nt; ++k) {
      const json &m = mols[size_t(ri(0, nm - 1))];
      int nb = int(m["beads"].size());
      if (nb < kind) continue;
      // kind distinct beads of the molecule, any order
      std::vector<int> idx;
      while (int(idx.size()) < kind) {
        int x = ri(0, nb - 1);
        if (std::find(idx.begin(), idx.end(), x) == idx.end()) idx.push_back(x);
      }
      json tu = json::array();
      for (int x : idx) tu.push_back(m["beads"][size_t(x)]["name"]);
      tuples.push_back({m["name"], tu});
    }
    if (tuples.empty()) continue;
    bonded.push_back({{"kind", kind}, {"name", xname(5)}, {"tuples", tuples}, {"sep", ri(0, 2)}});
  }
  t["bonded"] = bonded;
  if (rbool(50)) t["box"] = {double(ri(1, 800)) / 16.0, double(ri(1, 800)) / 16.0, double(ri(1, 800)) / 16.0};
  t["box_first"] = rbool(50);
  return t;
}
static json gen_xmltop() {
  json c;
  c["top"] = gen_xmltop_one();
  if (rbool(30)) c["before"] = gen_xmltop_one();  // the same reader object read this topology first (one reader serves all worker threads)
  return c;
}
static std::string xmltop_text(const json &t) {
  std::ostringstream o;
  o.precision(17);
  o << "<topology>\n";
  auto box = [&] {
    if (t.contains("box")) o << "  <box xx=\"" << double(t["box"][0]) << "\" yy=\"" << double(t["box"][1]) << "\" zz=\"" << double(t["box"][2]) << "\"/>\n";
  };
  if (t.at("box_first")) box();
  o << "  <molecules>\n";
  for (auto &m : t.at("mols")) {
    o << "    <molecule name=\"" << m["name"].get<std::string>() << "\" nmols=\"" << int(m["nmols"]) << "\" nbeads=\"" << m["beads"].size() << "\">\n";
    for (auto &b : m["beads"]) {
      o << "      <bead name=\"" << b["name"].get<std::string>() << "\" type=\"" << b["type"].get<std::string>() << "\"";
      if (b.contains("mass")) o << " mass=\"" << double(b["mass"]) << "\"";
      if (b.contains("q")) o << " q=\"" << double(b["q"]) << "\"";
      o << "/>\n";
    }
    o << "    </molecule>\n";
  }
  o << "  </molecules>\n";
  if (!t.at("bonded").empty()) {
    o << "  <bonded>\n";
    for (auto &g : t.at("bonded")) {
      const char *tag = int(g["kind"]) == 2 ? "bond" : int(g["kind"]) == 3 ? "angle" : "dihedral";
      const char *sep = int(g["sep"]) == 0 ? " " : int(g["sep"]) == 1 ? "\n        " : "\t";
      o << "    <" << tag << ">\n      <name>" << g["name"].get<std::string>() << "</name>\n      <beads>\n       ";
      for (auto &tu : g["tuples"]) {
        for (auto &bn : tu[1]) o << sep << tu[0].get<std::string>() << ":" << bn.get<std::string>();
        o << "\n       ";
      }
      o << "\n      </beads>\n    </" << tag << ">\n";
    }
    o << "  </bonded>\n";
  }
  if (!t.at("box_first")) box();
  o << "</topology>\n";
  return o.str();
}
static Result xmltop_body(const json &c) {
  Result r;
  plugins();
  const json &t = c.at("top");
  const std::string file = scratch() + "/t.xml", file0 = scratch() + "/t0.xml";
  { std::ofstream f(file); f << xmltop_text(t); }
  std::unique_ptr<votca::csg::TopologyReader> rd = votca::csg::TopReaderFactory().Create(file);
  if (!rd) {
    r.fail("xmltop/no-reader", "no topology reader for .xml");
    return r;
  }
  Topology top_before, top_fresh;
  Topology *top = &top_fresh;
  try {
    if (c.contains("before")) {
      r.cls("reader-reused");
      { std::ofstream f(file0); f << xmltop_text(c["before"]); }
      rd->ReadTopology(file0, top_before);
    }
    rd->ReadTopology(file, *top);
  } catch (const std::exception &ex) {
    r.fail("xmltop/throws", std::string("reading a valid xml topology threw: ") + ex.what());
    return r;
  }
  // expected beads, molecules, interactions
  struct EB { std::string name, type; double mass, q; long mol; };
  std::vector<EB> eb;
  std::vector<std::pair<std::string, std::vector<long>>> emol;
  std::map<std::string, std::vector<long>> replicas;  // molecule name -> molecule ids
  for (auto &m : t.at("mols"))
    for (int k = 0; k < int(m["nmols"]); ++k) {
      std::vector<long> ids;
      for (auto &b : m["beads"]) {
        ids.push_back(long(eb.size()));
        eb.push_back({b["name"], b["type"], b.contains("mass") ? double(b["mass"]) : 1.0, b.contains("q") ? double(b["q"]) : 0.0, long(emol.size())});
      }
      replicas[m["name"]].push_back(long(emol.size()));
      emol.emplace_back(m["name"].get<std::string>(), ids);
    }
  if (long(top->BeadCount()) != long(eb.size())) {
    r.fail("xmltop/bead-count", fmt("%zu beads described, %ld read", eb.size(), long(top->BeadCount())));
    return r;
  }
  if (long(top->MoleculeCount()) != long(emol.size())) {
    r.fail("xmltop/molecule-count", fmt("%zu molecules described, %ld read", emol.size(), long(top->MoleculeCount())));
    return r;
  }
  for (size_t i = 0; i < eb.size(); ++i) {
    Bead *b = top->getBead(Index(i));
    if (b->getName() != eb[i].name || b->getType() != eb[i].type)
      return r.fail("xmltop/bead-name-type", fmt("bead %zu: described %s/%s, read %s/%s", i, eb[i].name.c_str(), eb[i].type.c_str(), b->getName().c_str(), b->getType().c_str())), r;
    if (b->getMass() != eb[i].mass || b->getQ() != eb[i].q)
      return r.fail("xmltop/bead-mass-charge", fmt("bead %zu: described mass %.17g q %.17g, read %.17g %.17g", i, eb[i].mass, eb[i].q, b->getMass(), b->getQ())), r;
    if (long(b->getMoleculeId()) != eb[i].mol)
      return r.fail("xmltop/bead-molecule", fmt("bead %zu belongs to molecule %ld, read %ld", i, eb[i].mol, long(b->getMoleculeId()))), r;
  }
  for (size_t m = 0; m < emol.size(); ++m) {
    votca::csg::Molecule *mi = top->MoleculeByIndex(Index(m));
    if (mi->getName() != emol[m].first || long(mi->BeadCount()) != long(emol[m].second.size()))
      return r.fail("xmltop/molecule", fmt("molecule %zu: described %s with %zu beads, read %s with %ld", m, emol[m].first.c_str(), emol[m].second.size(), mi->getName().c_str(), long(mi->BeadCount()))), r;
    for (size_t k = 0; k < emol[m].second.size(); ++k)
      if (long(mi->getBeadId(Index(k))) != emol[m].second[k]) return r.fail("xmltop/molecule-beads", fmt("molecule %zu bead %zu", m, k)), r;
  }
  // interactions as a multiset of (group, molecule, bead ids)
  typedef std::tuple<std::string, long, std::vector<long>> IA;
  std::multiset<IA> exp_ia, got_ia;
  std::set<std::pair<long, long>> exp_excl;
  for (auto &g : t.at("bonded"))
    for (auto &tu : g["tuples"])
      for (long mid : replicas[tu[0]]) {
        std::vector<long> ids;
        for (auto &bn : tu[1]) {
          const auto &mb = emol[size_t(mid)].second;
          for (long id : mb)
            if (eb[size_t(id)].name == bn.get<std::string>()) ids.push_back(id);
        }
        exp_ia.insert(IA(g["name"], mid, ids));
        for (long a : ids)
          for (long b2 : ids)
            if (a < b2) exp_excl.insert({a, b2});
      }
  for (auto *ic : top->BondedInteractions()) {
    std::vector<long> ids;
    for (Index k = 0; k < ic->BeadCount(); ++k) ids.push_back(long(ic->getBeadId(k)));
    got_ia.insert(IA(ic->getGroup(), long(ic->getMolecule()), ids));
  }
  if (exp_ia != got_ia) {
    std::string what;
    for (auto &x : exp_ia)
      if (!got_ia.count(x)) { what = "missing " + std::get<0>(x) + fmt(" in molecule %ld", std::get<1>(x)); break; }
    if (what.empty())
      for (auto &x : got_ia)
        if (exp_ia.count(x) != got_ia.count(x)) { what = "invented / duplicated " + std::get<0>(x) + fmt(" in molecule %ld", std::get<1>(x)); break; }
    return r.fail("xmltop/bonded", fmt("%zu interactions described, %zu read: ", exp_ia.size(), got_ia.size()) + what), r;
  }
  for (size_t a = 0; a < eb.size(); ++a)
    for (size_t b2 = a + 1; b2 < eb.size(); ++b2) {
      bool e = exp_excl.count({long(a), long(b2)}) > 0;
      bool g1 = top->getExclusions().IsExcluded(top->getBead(Index(a)), top->getBead(Index(b2)));
      bool g2 = top->getExclusions().IsExcluded(top->getBead(Index(b2)), top->getBead(Index(a)));
      if (g1 != e || g2 != e) return r.fail("xmltop/exclusions", fmt("beads %zu,%zu: share an interaction %d, excluded %d/%d", a, b2, int(e), int(g1), int(g2))), r;
    }
  if (t.contains("box")) {
    Eigen::Matrix3d B = top->getBox();
    for (int i = 0; i < 3; ++i)
      for (int j = 0; j < 3; ++j)
        if (B(i, j) != (i == j ? double(t["box"][size_t(i)]) : 0.0)) return r.fail("xmltop/box", fmt("box(%d,%d) = %.17g", i, j, B(i, j))), r;
    r.cls("box");
  }
  size_t multi = 0;
  for (auto &m : t.at("mols"))
    if (int(m["nmols"]) >= 2) ++multi;
  if (!exp_ia.empty()) r.cls("bonded");
  r.nontrivial = t.at("mols").size() >= 2 && multi >= 1 && !exp_ia.empty();
  return r;
}
static Result run_xmltop(const json &c) {
  return in_child([c] { return xmltop_body(c); }, [](const std::string &, const std::string &) { return std::string("xmltop/crash"); });
}

// ------------------------------------------------------------------------------------------------ bead counts at the
// width of the fixed atom-number columns (gro, pdb: five digits wrap at 100000).  The case is compact; beads and
// coordinates are a pure function of it, expanded into the ordinary trajectory case.
static json expand_large(const json &c) {
  std::string fname = c.at("fmt");
  const Fmt &F = formats().at(fname);
  long n = c.at("n");
  json full;
  full["fmt"] = fname;
  full["res"] = json::array({"RESA", "RESB"});
  json beads = json::array();
  static const char *nm[] = {"A", "B1", "C2", "DD", "E"};
  static const char *ty[] = {"TA", "TB", "TC"};
  for (long i = 0; i < n; ++i) beads.push_back({nm[i % 5], ty[i % 3], int((i * 2) / n), 1.0 + double(i % 7), 0.0});
  full["beads"] = beads;
  bool hasvel = F.vel && c.at("hasvel").get<bool>();
  full["hasvel"] = hasvel;
  full["hasforce"] = false;
  full["fullwidth"] = false;
  full["boxkind"] = 1;
  json frames = json::array();
  long mul = c.at("mul");
  for (int k = 0; k < int(c.at("nframes")); ++k) {
    json f;
    f["step"] = 10 + k;
    f["time"] = double(10 + k) * 0.5;
    f["box"] = F.boxcomp ? json::array({30.0, 0.0, 0.0, 0.0, 30.0, 0.0, 0.0, 0.0, 30.0}) : json::array({0.0, 0.0, 0.0, 0.0, 0.0, 0.0, 0.0, 0.0, 0.0});
    f["boxtype"] = "auto";
    std::vector<double> x, v;
    double lim = std::min(F.ppos, 9.0);
    for (long i = 0; i < 3 * n; ++i) x.push_back(double(((i + k) * mul) % 2000) / 2000.0 * 2 * lim * 0.9 - lim * 0.9);
    if (hasvel)
      for (long i = 0; i < 3 * n; ++i) v.push_back(double(((i + k) * (mul + 2)) % 1000) / 1000.0 - 0.5);
    f["x"] = x;
    f["v"] = v;
    f["f"] = std::vector<double>();
    frames.push_back(f);
  }
  full["frames"] = frames;
  return full;
}
static Result run_traj(const json &c);
static Result run_large(const json &c) {
  Result r = run_traj(expand_large(c));
  r.cls("n=" + std::to_string(long(c.at("n"))));
  r.nontrivial = true;
  return r;
}
static json gen_large() {
  json c;
  c["fmt"] = pick<std::string>({"gro", "gro", "pdb"});
  c["n"] = pick<long>({99999, 100000, 100001, 100003, 131072});
  c["hasvel"] = rbool(30);
  c["nframes"] = ri(1, 2);
  c["mul"] = pick<long>({7, 13, 37, 101});
  return c;
}

int main(int argc, char **argv) {
  std::vector<Sub> subs;
  // cheap, in-process subs first: their statistics survive a budget kill of the forking subs on a loaded box
  subs.push_back({"table", gen_table, run_table, 2.0, 100, nullptr});
  subs.push_back({"imc_matrix", gen_matrix, run_matrix, 2.0, 100, nullptr});
  subs.push_back({"imc_index", gen_index, run_index, 1.0, 100, nullptr});
  subs.push_back({"mismatch", gen_mismatch, run_mismatch, 1.5, 100, nullptr});
  subs.push_back({"xmltop", gen_xmltop, run_xmltop, 1.5, 100, nullptr});
  for (const char *f : {"dlpc", "dlph", "gro", "pdb", "xyz", "dump"}) {
    std::string fn = f;
    subs.push_back({fn, [fn] { return gen_traj(fn); }, run_traj, 1.0, 100, nullptr});
  }
  // a handful of cases per run (share ~0): bead counts around the five-digit atom-number columns
  subs.push_back({"fieldwidth_beadcount", gen_large, run_large, 0.0004, 100, nullptr});
  return harness_main(argc, argv, "C08", subs);
}
