// Shared by h_c07.cc (spline derivative part) and h_c12.cc: data-set generators, numerical differentiation,
// long-double reference solvers for natural / periodic cubic splines, tolerance models.
#pragma once
#include "vv_common.h"

#include <votca/tools/akimaspline.h>
#include <votca/tools/cubicspline.h>
#include <votca/tools/linspline.h>

#include <cfloat>
#include <memory>

namespace c12 {
using namespace vv;
using ld = long double;
static const double EPS = DBL_EPSILON;  // 2.2e-16

// ------------------------------------------------------------------ numerical differentiation
struct ND {
  ld d = 0, err = 0;     // estimate, |difference of the last two extrapolation levels|
  ld fmag = 0;           // largest |f| seen (for the rounding-noise term)
  double hmin = 0;       // smallest step used
  bool finite = true;
};

// secant slope with the steps that are really taken (x+s and x-s are rounded)
template <class F>
static ld secant(F &f, double x, double s, ND &nd) {
  volatile double xp = x + s, xm = x - s;
  double fp = f(xp), fm = f(xm);
  if (!std::isfinite(fp) || !std::isfinite(fm)) nd.finite = false;
  nd.fmag = std::max(nd.fmag, std::max((ld)std::fabs(fp), (ld)std::fabs(fm)));
  return ((ld)fp - (ld)fm) / ((ld)xp - (ld)xm);
}

// central differences, Richardson extrapolation over h, h/2, h/4 (error O(h^6)); err = |R2 - R1| which is the
// error estimate of the O(h^4) level, i.e. a conservative estimate for the value returned.
template <class F>
static ND nd_central(F f, double x, double h) {
  ND nd;
  ld d0 = secant(f, x, h, nd), d1 = secant(f, x, h / 2, nd), d2 = secant(f, x, h / 4, nd);
  ld r1 = (4 * d1 - d0) / 3, r2 = (4 * d2 - d1) / 3;
  nd.d = (16 * r2 - r1) / 15;
  nd.err = fabsl(r2 - r1);
  nd.hmin = h / 4;
  return nd;
}

// one-sided 4-point formula (exact for cubics), direction = sign of h; two step sizes, err = their difference.
template <class F>
static ND nd_onesided(F f, double x, double h) {
  ND nd;
  auto st = [&](double s) {
    volatile double x1 = x + s, x2 = x + 2 * s, x3 = x + 3 * s;
    // Lagrange derivative weights at x for nodes x, x1, x2, x3 (really taken nodes)
    ld t[4] = {(ld)x, (ld)x1, (ld)x2, (ld)x3};
    double fv[4] = {f(x), f(x1), f(x2), f(x3)};
    ld d = 0;
    for (int i = 0; i < 4; ++i) {
      if (!std::isfinite(fv[i])) nd.finite = false;
      nd.fmag = std::max(nd.fmag, (ld)std::fabs(fv[i]));
      ld w;
      if (i == 0) {
        w = 0;
        for (int k = 1; k < 4; ++k) w += 1 / (t[0] - t[k]);
      } else {
        w = 1 / (t[i] - t[0]);
        for (int k = 1; k < 4; ++k)
          if (k != i) w *= (t[0] - t[k]) / (t[i] - t[k]);
      }
      d += w * (ld)fv[i];
    }
    return d;
  };
  ld a = st(h), b = st(h / 2);
  nd.d = b;
  nd.err = fabsl(a - b);
  nd.hmin = std::fabs(h / 2);
  return nd;
}

// ------------------------------------------------------------------ splines under test
inline std::unique_ptr<votca::tools::Spline> make_spline(const std::string &type, const std::string &bc) {
  std::unique_ptr<votca::tools::Spline> s;
  if (type == "linear")
    s = std::make_unique<votca::tools::LinSpline>();
  else if (type == "cubic")
    s = std::make_unique<votca::tools::CubicSpline>();
  else
    s = std::make_unique<votca::tools::AkimaSpline>();
  s->setBC(bc == "periodic" ? votca::tools::Spline::splinePeriodic : votca::tools::Spline::splineNormal);
  return s;
}
inline Eigen::VectorXd to_eigen(const std::vector<double> &v) {
  Eigen::VectorXd e(static_cast<Eigen::Index>(v.size()));
  for (size_t i = 0; i < v.size(); ++i) e(static_cast<Eigen::Index>(i)) = v[i];
  return e;
}
inline size_t min_points(const std::string &type) { return type == "linear" ? 2 : (type == "cubic" ? 3 : 4); }

// ------------------------------------------------------------------ grid description
struct Grid {
  std::vector<double> x;
  double hmin = 0, hmax = 0, xabs = 0;
  bool uniform = true;
  bool valid = true;  // strictly increasing, finite
};
inline Grid analyse(const std::vector<double> &x) {
  Grid g;
  g.x = x;
  g.hmin = HUGE_VAL;
  for (size_t i = 0; i < x.size(); ++i) {
    if (!std::isfinite(x[i])) g.valid = false;
    g.xabs = std::max(g.xabs, std::fabs(x[i]));
    if (i + 1 < x.size()) {
      double h = x[i + 1] - x[i];
      if (!(h > 0)) g.valid = false;
      g.hmin = std::min(g.hmin, h);
      g.hmax = std::max(g.hmax, h);
    }
  }
  if (x.size() < 2) g.valid = false;
  // intervals must be resolvable: h >= 64 ulp(x), otherwise "strictly increasing" is only nominal
  if (g.valid && g.hmin < 64 * EPS * g.xabs) g.valid = false;
  g.uniform = g.valid && (g.hmax - g.hmin) <= 1e-9 * g.hmax;
  return g;
}
inline double vmaxabs(const std::vector<double> &y) {
  double m = 0;
  for (double v : y) m = std::max(m, std::fabs(v));
  return m;
}

// ------------------------------------------------------------------ generators (rapidcheck context only)
// strictly increasing grid with n points
inline std::vector<double> gen_grid(int n, std::string &kind) {
  std::vector<double> x(static_cast<size_t>(n));
  double x0 = pick<double>({0.0, 0.0, 0.0, 0.25, -3.0, 1.0, 17.5, -100.0, 100.0});
  int k = ri(0, 9);
  if (k < 4) {  // uniform, step = m/2^q or decimal
    double step = rbool(50) ? double(ri(1, 64)) / double(1 << ri(2, 8)) : double(ri(1, 200)) / 1000.0;
    for (int i = 0; i < n; ++i) x[size_t(i)] = x0 + double(i) * step;
    kind = "uniform";
  } else if (k < 7) {  // mildly non-uniform: neighbouring ratios up to 4
    double h = double(ri(1, 64)) / 64.0, cur = x0;
    for (int i = 0; i < n; ++i) {
      x[size_t(i)] = cur;
      cur += h * double(ri(16, 64)) / 16.0;
    }
    kind = "nonuniform-mild";
  } else if (k < 9) {  // strongly non-uniform: interval lengths over three decades
    double h = double(ri(1, 16)) / 1024.0, cur = x0;
    for (int i = 0; i < n; ++i) {
      x[size_t(i)] = cur;
      cur += h * std::pow(10.0, double(ri(0, 24)) / 8.0);
    }
    kind = "nonuniform-1e3";
  } else {  // clustered: pairs of close points
    double h = double(ri(1, 64)) / 64.0, cur = x0;
    for (int i = 0; i < n; ++i) {
      x[size_t(i)] = cur;
      cur += (i % 2 == 0) ? h / double(ri(50, 1000)) : h;
    }
    kind = "clustered";
  }
  return x;
}

// ordinates from a small basis
inline std::vector<double> gen_ordinates(const std::vector<double> &x, std::string &kind, int force = -1) {
  size_t n = x.size();
  std::vector<double> y(n);
  int k = force >= 0 ? force : ri(0, 8);
  double xm = 0.5 * (x.front() + x.back()), L = x.back() - x.front();
  switch (k) {
    case 0: {  // polynomial degree <= 3 in the scaled variable
      double c0 = rfrac(-20, 20, 4), c1 = rfrac(-20, 20, 4), c2 = rfrac(-20, 20, 4), c3 = rfrac(-20, 20, 4);
      for (size_t i = 0; i < n; ++i) {
        double t = (x[i] - xm) / L;
        y[i] = c0 + t * (c1 + t * (c2 + t * c3));
      }
      kind = "poly3";
      break;
    }
    case 1: {
      double w = double(ri(1, 24)) / 4.0, ph = rfrac(0, 16, 8), a = rfrac(1, 40, 4);
      for (size_t i = 0; i < n; ++i) y[i] = a * std::sin(2 * M_PI * w * (x[i] - x.front()) / L + ph);
      kind = "trig";
      break;
    }
    case 2: {
      double a = rfrac(-12, 12, 4);
      for (size_t i = 0; i < n; ++i) y[i] = std::exp(a * (x[i] - x.front()) / L);
      kind = "exp";
      break;
    }
    case 3: {
      for (size_t i = 0; i < n; ++i) y[i] = double(ri(-1000, 1000)) / 1000.0;
      kind = "noise";
      break;
    }
    case 4: {
      for (size_t i = 0; i < n; ++i) y[i] = 0;
      int ns = ri(1, 3);
      for (int s = 0; s < ns; ++s) y[size_t(ri(0, int(n) - 1))] = rfrac(-40, 40, 4);
      kind = "spikes";
      break;
    }
    case 5: {  // large offset + small variation (cancellation in slope differences)
      double off = pick<double>({1000.0, -1.0e6, 12345.678});
      for (size_t i = 0; i < n; ++i) y[i] = off + double(ri(-1000, 1000)) / 1000.0;
      kind = "offset-noise";
      break;
    }
    case 6: {  // straight line
      double a = rfrac(-40, 40, 8), b = rfrac(-40, 40, 8);
      for (size_t i = 0; i < n; ++i) y[i] = a * x[i] + b;
      kind = "line";
      break;
    }
    case 7: {  // piecewise linear with kinks (Akima's degenerate branch)
      double a = rfrac(-16, 16, 4);
      size_t kink = size_t(ri(0, int(n) - 1));
      for (size_t i = 0; i < n; ++i) y[i] = (i < kink) ? 0.0 : a * (x[i] - x[kink]);
      kind = "kink";
      break;
    }
    default: {  // tabulated-potential like: steep repulsion + well
      for (size_t i = 0; i < n; ++i) {
        double t = 0.8 + 1.7 * (x[i] - x.front()) / L;
        y[i] = 4 * (std::pow(t, -12.0) - std::pow(t, -6.0));
      }
      kind = "lj-like";
      break;
    }
  }
  return y;
}

inline int gen_npoints(int lo) {
  int k = ri(0, 9);
  int hi = k < 6 ? 12 : (k < 9 ? 60 : 300);
  return ri(lo, std::max(lo, hi));
}

// extra evaluation points: fractions inside intervals, +-1ulp at knots, slightly outside
inline std::vector<double> gen_eval(const std::vector<double> &x) {
  std::vector<double> ev;
  int m = ri(1, 8);
  int n = int(x.size());
  for (int j = 0; j < m; ++j) {
    int k = ri(0, 5);
    int i = ri(0, n - 2);
    double h = x[size_t(i) + 1] - x[size_t(i)];
    if (k == 0)
      ev.push_back(x[size_t(i)] + h * double(ri(1, 63)) / 64.0);
    else if (k == 1)
      ev.push_back(std::nextafter(x[size_t(ri(0, n - 1))], HUGE_VAL));
    else if (k == 2)
      ev.push_back(std::nextafter(x[size_t(ri(0, n - 1))], -HUGE_VAL));
    else if (k == 3)
      ev.push_back(x[size_t(i)] + h * double(ri(1, 1023)) / 1024.0);
    else if (k == 4)
      ev.push_back(x.front() - (x[1] - x[0]) * double(ri(1, 32)) / 64.0);
    else
      ev.push_back(x.back() + (x[size_t(n) - 1] - x[size_t(n) - 2]) * double(ri(1, 32)) / 64.0);
  }
  return ev;
}

// ------------------------------------------------------------------ reference cubic splines (long double)
// second derivatives of the natural (bc=0) or periodic (bc=1, y[0]==y[n-1]) interpolating cubic spline
inline std::vector<ld> ref_f2(const std::vector<double> &x, const std::vector<double> &y, bool periodic) {
  const size_t n = x.size();
  std::vector<ld> f2(n, 0);
  if (n < 3) return f2;
  auto h = [&](size_t i) { return (ld)x[i + 1] - (ld)x[i]; };
  auto dl = [&](size_t i) { return ((ld)y[i + 1] - (ld)y[i]) / h(i); };
  if (!periodic) {
    // Thomas algorithm on rows 1..n-2
    size_t m = n - 2;
    std::vector<ld> a(m), b(m), c(m), d(m);
    for (size_t i = 0; i < m; ++i) {
      a[i] = h(i) / 6;
      b[i] = (h(i) + h(i + 1)) / 3;
      c[i] = h(i + 1) / 6;
      d[i] = dl(i + 1) - dl(i);
    }
    for (size_t i = 1; i < m; ++i) {
      ld w = a[i] / b[i - 1];
      b[i] -= w * c[i - 1];
      d[i] -= w * d[i - 1];
    }
    std::vector<ld> s(m);
    for (size_t i = m; i-- > 0;) {
      s[i] = (d[i] - (i + 1 < m ? c[i] * s[i + 1] : 0)) / b[i];
    }
    for (size_t i = 0; i < m; ++i) f2[i + 1] = s[i];
    return f2;
  }
  // periodic: unknowns f2[0..n-2], f2[n-1]=f2[0]; dense Gaussian elimination with partial pivoting
  size_t m = n - 1;
  std::vector<std::vector<ld>> A(m, std::vector<ld>(m + 1, 0));
  for (size_t i = 0; i < m; ++i) {
    size_t im = (i + m - 1) % m, ip = (i + 1) % m;
    ld hl = h(im), hr = h(i);  // interval left of knot i is im (wraps), right is i
    A[i][im] += hl / 6;
    A[i][i] += (hl + hr) / 3;
    A[i][ip] += hr / 6;
    A[i][m] = dl(i) - dl(im);
  }
  for (size_t col = 0; col < m; ++col) {
    size_t p = col;
    for (size_t r = col + 1; r < m; ++r)
      if (fabsl(A[r][col]) > fabsl(A[p][col])) p = r;
    std::swap(A[p], A[col]);
    for (size_t r = col + 1; r < m; ++r) {
      ld w = A[r][col] / A[col][col];
      if (w == 0) continue;
      for (size_t k = col; k <= m; ++k) A[r][k] -= w * A[col][k];
    }
  }
  for (size_t i = m; i-- > 0;) {
    ld s = A[i][m];
    for (size_t k = i + 1; k < m; ++k) s -= A[i][k] * f2[k];
    f2[i] = s / A[i][i];
  }
  f2[n - 1] = f2[0];
  return f2;
}

// value / derivative of the reference spline (x inside [x0,xN]; outside = cubic continuation of the end piece)
inline size_t ref_interval(const std::vector<double> &x, ld r) {
  size_t n = x.size();
  if (r <= (ld)x[0]) return 0;
  if (r >= (ld)x[n - 2]) return n - 2;
  size_t lo = 0, hi = n - 1;
  while (hi - lo > 1) {
    size_t mid = (lo + hi) / 2;
    if ((ld)x[mid] <= r)
      lo = mid;
    else
      hi = mid;
  }
  return lo;
}
inline ld ref_eval(const std::vector<double> &x, const std::vector<ld> &f, const std::vector<ld> &f2, ld r, int der = 0) {
  size_t i = ref_interval(x, r);
  ld h = (ld)x[i + 1] - (ld)x[i], a = ((ld)x[i + 1] - r) / h, b = (r - (ld)x[i]) / h;
  if (der == 0) return a * f[i] + b * f[i + 1] + ((a * a * a - a) * f2[i] + (b * b * b - b) * f2[i + 1]) * h * h / 6;
  return (f[i + 1] - f[i]) / h + (-(3 * a * a - 1) * f2[i] + (3 * b * b - 1) * f2[i + 1]) * h / 6;
}

// ------------------------------------------------------------------ tolerance model for cubic interpolation
// The code builds rows  h_i/6 f2_i + (h_i+h_{i+1})/3 f2_{i+1} + h_{i+1}/6 f2_{i+2} = rhs with
// rhs = -( -y_i/h_i + (1/h_i+1/h_{i+1}) y_{i+1} - y_{i+2}/h_{i+1} ), each product rounded: |d rhs| <= 8 eps Y / min(h_i,h_{i+1}).
// Diagonal dominance gives |d f2| <= 6 |d rhs| / (h_i+h_{i+1}).  The dense Householder QR (no row equilibration, boundary
// rows of size 1 next to rows of size h) adds a relative error of up to c N eps max(1,hmax)/min(1,hmin) on f2.
struct CubicTol {
  double Y = 0, F2 = 0, dF2 = 0;  // max|y|, max|f2_ref|, bound on |f2 - f2_ref|
  double val(double h) const { return 32 * EPS * (Y + h * h * F2) + h * h * dF2; }
  double der(double h) const { return 32 * EPS * (Y / h + h * F2) + h * dF2; }
  double cur() const { return 32 * EPS * F2 + dF2; }
};
inline CubicTol cubic_tol(const Grid &g, const std::vector<double> &y, const std::vector<ld> &f2ref) {
  CubicTol t;
  t.Y = vmaxabs(y);
  for (ld v : f2ref) t.F2 = std::max(t.F2, double(fabsl(v)));
  double e = 0;
  for (size_t i = 0; i + 2 < g.x.size(); ++i) {
    double h0 = g.x[i + 1] - g.x[i], h1 = g.x[i + 2] - g.x[i + 1];
    e = std::max(e, 48 * EPS * t.Y / (std::min(h0, h1) * (h0 + h1)));
  }
  double n = double(g.x.size());
  double rowscale = std::max(1.0, g.hmax) / std::min(1.0, g.hmin);
  t.dF2 = 4 * e + 16 * n * EPS * rowscale * (t.F2 + 4 * e);
  return t;
}

}  // namespace c12
