// C05 — threaded trajectory analysis is schedule- and thread-count independent.
// One case = (threads, frames, --first-frame, --nframes, ordered|unordered, choice sequence).  The real
// CsgApplication::Run / ProcessData / Worker::Run code runs in a fork()ed child under the controlled
// scheduler (vv_sched.h) with a harness-side trajectory-reader plugin that yields inside NextFrame, so
// the interleaving is owned by the generated choice sequence.  Oracle = invariants over the history.
#include "vv_common.h"
#include "vv_sched.h"

#include <poll.h>
#include <sys/wait.h>
#include <votca/csg/csgapplication.h>
#include <votca/csg/topologyreader.h>
#include <votca/csg/trajectoryreader.h>

using namespace vv;
using namespace votca::csg;

extern "C" long votca_verif_event(int kind, const void *obj, long arg) { return vvs::sched().event(kind, obj, arg); }

namespace {

struct Hist {
  std::vector<std::array<long, 3>> evals;  // worker id, step, data-consistent(0/1)
  std::vector<long> merges;                // ordered mode: step merged, in merge order
  std::vector<std::array<long, 2>> reads;  // scheduler thread id, step delivered (0 = EOF)
  std::vector<std::vector<long>> merged_lists;  // unordered mode: per MergeWorker call the steps of that worker
  int in_reader = 0, in_merge = 0;
  bool reader_overlap = false, merge_overlap = false;
  long first_reader_worker = -1;
  std::string fatal;
};
Hist *H = nullptr;
int g_nframes_file = 0;
int g_nbeads = 2;
double g_t0 = 0.0, g_dt = 1.0;  // time of frame i (1-based) = g_t0 + i * g_dt

class VReader : public TrajectoryReader {
 public:
  bool Open(const std::string &) override {
    next_ = 1;
    return true;
  }
  bool FirstFrame(Topology &top) override { return NextFrame(top); }
  bool NextFrame(Topology &top) override {
    if (++H->in_reader > 1) H->reader_overlap = true;
    vvs::yield_point();  // a real reader spends its time here; another thread must not get in
    bool ok = next_ <= g_nframes_file;
    long step = 0;
    if (ok) {
      step = next_++;
      top.setStep(step);
      top.setTime(g_t0 + double(step) * g_dt);
      for (auto &b : top.Beads()) b.setPos(Eigen::Vector3d(double(step), double(b.getId()), 0.5));
      top.setBox(Eigen::Matrix3d::Identity() * (10.0 + double(step)));
    }
    H->reads.push_back({long(vvs::current_thread_id()), step});
    vvs::yield_point();
    --H->in_reader;
    return ok;
  }

 private:
  long next_ = 1;
};

class VTopReader : public TopologyReader {
 public:
  bool ReadTopology(std::string, Topology &top) override {
    top.Cleanup();
    top.RegisterBeadType("A");
    for (int i = 0; i < g_nbeads; ++i) top.CreateBead(Bead::spherical, "A" + std::to_string(i), "A", 0, 1.0, 0.0);
    top.setBox(Eigen::Matrix3d::Identity() * 10.0);
    return true;
  }
};

class App : public CsgApplication {
 public:
  bool ordered = true;
  std::string ProgramName() override { return "vv_c05"; }
  void HelpText(std::ostream &) override {}
  bool DoTrajectory() override { return true; }
  bool DoMapping() override { return false; }
  bool DoThreaded() override { return true; }
  bool SynchronizeThreads() override { return ordered; }
  void Initialize() override {
    CsgApplication::Initialize();
    TrjReaderFactory().Register<VReader>("vvt");
    TopReaderFactory().Register<VTopReader>("vvt");
  }
  class W : public CsgApplication::Worker {
   public:
    std::vector<long> steps;
    void EvalConfiguration(Topology *top, Topology *) override {
      vvs::yield_point();
      long step = top->getStep();
      bool consistent = top->BeadCount() == g_nbeads;
      for (auto &b : top->Beads())
        if (b.getPos().x() != double(step) || b.getPos().y() != double(b.getId())) consistent = false;
      if (top->getBox()(0, 0) != 10.0 + double(step)) consistent = false;
      H->evals.push_back({long(getId()), step, consistent ? 1 : 0});
      steps.push_back(step);
      vvs::yield_point();
    }
  };
  std::unique_ptr<Worker> ForkWorker() override { return std::make_unique<W>(); }
  void MergeWorker(Worker *w) override {
    if (++H->in_merge > 1) H->merge_overlap = true;
    vvs::yield_point();
    W *ww = static_cast<W *>(w);
    if (ordered) {
      H->merges.push_back(ww->steps.empty() ? -1 : ww->steps.back());
    } else {
      H->merged_lists.push_back(ww->steps);
    }
    vvs::yield_point();
    --H->in_merge;
  }
};

json hist_json(int rc) {
  json j;
  j["rc"] = rc;
  j["evals"] = H->evals;
  j["merges"] = H->merges;
  j["reads"] = H->reads;
  j["merged_lists"] = H->merged_lists;
  j["reader_overlap"] = H->reader_overlap;
  j["merge_overlap"] = H->merge_overlap;
  j["fatal"] = H->fatal;
  j["decisions"] = vvs::sched().decisions;
  j["max_runnable"] = vvs::sched().max_runnable;
  j["choices_used"] = vvs::sched().pos;
  j["steps"] = vvs::sched().steps;
  return j;
}

void write_all(int fd, const std::string &s) {
  size_t off = 0;
  while (off < s.size()) {
    ssize_t n = write(fd, s.data() + off, s.size() - off);
    if (n <= 0) break;
    off += size_t(n);
  }
}

[[noreturn]] void child_main(const json &c, int fd) {
  st().out.clear();
  st().crash.clear();
  H = new Hist;
  g_nframes_file = c.at("frames");
  g_nbeads = c.at("beads");
  std::vector<std::string> args{"vv_c05", "--top", "t.vvt", "--trj", "t.vvt", "--nt", std::to_string(int(c.at("nt")))};
  if (int(c.at("first")) >= 0) {
    args.push_back("--first-frame");
    args.push_back(std::to_string(int(c.at("first"))));
  }
  if (c.contains("begin") && !c.at("begin").is_null()) {
    g_t0 = c.value("t0", 0.0);
    g_dt = c.value("dt", 1.0);
    args.push_back("--begin");
    args.push_back(fmt("%.17g", double(c.at("begin"))));
  }
  if (int(c.at("nframes")) >= 0) {
    args.push_back("--nframes");
    args.push_back(std::to_string(int(c.at("nframes"))));
  }
  std::vector<char *> argv;
  for (auto &a : args) argv.push_back(const_cast<char *>(a.c_str()));
  std::vector<unsigned char> ch = c.at("choices").get<std::vector<unsigned char>>();
  vvs::sched().on_fatal = [fd](const std::string &what) {
    H->fatal = what;
    write_all(fd, hist_json(-99).dump());
    _exit(0);
  };
  // keep the tool's chatter out of the harness log
  if (!freopen("/dev/null", "w", stdout)) {
  }
  App app;
  app.ordered = c.at("ordered");
  vvs::sched().start(ch);
  int rc = app.Exec(int(argv.size()), argv.data());
  vvs::sched().stop();
  write_all(fd, hist_json(rc).dump());
  _exit(0);
}

std::vector<long> selected(const json &c) {
  long N = c.at("frames"), f = c.at("first"), n = c.at("nframes");
  long first = f > 1 ? f : 1;
  if (c.contains("begin") && !c.at("begin").is_null()) {
    // --begin: frames with time < begin are skipped (together with, not in addition to, --first-frame)
    double t0 = c.value("t0", 0.0), dt = c.value("dt", 1.0), b = c.at("begin");
    long i = 1;
    while (i <= N && t0 + double(i) * dt < b) ++i;
    first = std::max(first, i);
  }
  std::vector<long> S;
  for (long i = first; i <= N; ++i) {
    if (n >= 0 && long(S.size()) >= n) break;
    S.push_back(i);
  }
  return S;
}

std::string show(const std::vector<long> &v) {
  std::string s = "[";
  for (size_t i = 0; i < v.size(); ++i) s += (i ? "," : "") + std::to_string(v[i]);
  return s + "]";
}

Result run_sched(const json &c) {
  Result r;
  int fds[2];
  if (pipe(fds) != 0) {
    r.discard = true;
    return r;
  }
  fflush(nullptr);
  pid_t pid = fork();
  if (pid == 0) {
    close(fds[0]);
    child_main(c, fds[1]);
  }
  close(fds[1]);
  std::string out;
  char buf[65536];
  bool timeout = false;
  long waited = 0;
  for (;;) {
    struct pollfd p{fds[0], POLLIN, 0};
    int pr = poll(&p, 1, 1000);
    if (pr == 0) {
      if (++waited > 120) {
        timeout = true;
        break;
      }
      continue;
    }
    ssize_t n = read(fds[0], buf, sizeof buf);
    if (n <= 0) break;
    out.append(buf, size_t(n));
  }
  close(fds[0]);
  if (timeout) kill(pid, SIGKILL);
  int status = 0;
  waitpid(pid, &status, 0);
  if (timeout) {
    // wall-clock budget hit: inconclusive, never a violation (a real deadlock is detected by the scheduler model)
    r.discard = true;
    r.cls("inconclusive-timeout");
    return r;
  }
  if (out.empty()) {
    r.fail("C05/child-died", fmt("child died without a result (wait status 0x%x): sanitizer report / abort / crash in the threaded run", status));
    return r;
  }
  json h = json::parse(out);
  std::vector<long> S = selected(c);
  long N = c.at("frames"), f = c.at("first");
  int nt = c.at("nt");
  bool ordered = c.at("ordered");
  json c_nolimit = c;
  c_nolimit["nframes"] = -1;
  bool expect_error = selected(c_nolimit).empty();  // no frame at or after the requested start: "trajectory was too short"
  if (c.contains("begin") && !c.at("begin").is_null()) r.cls("has-begin");
  r.cls(ordered ? "ordered" : "unordered");
  r.cls("nt=" + std::to_string(nt));
  if (int(c.at("nframes")) >= 0) r.cls("has-nframes");
  if (S.size() < size_t(nt)) r.cls("frames<threads");
  long decisions = h.at("decisions");
  std::vector<unsigned char> ch = c.at("choices").get<std::vector<unsigned char>>();
  bool nondefault = false;
  for (size_t i = 0; i < ch.size() && i < size_t(long(h.at("choices_used"))); ++i)
    if (ch[i] != 0) nondefault = true;
  r.nontrivial = nt >= 2 && S.size() >= 2 && decisions >= 2 && nondefault && int(h.at("max_runnable")) >= 2;

  std::string fatal = h.at("fatal");
  if (!fatal.empty()) {
    r.fail(fatal.rfind("deadlock", 0) == 0 ? "C05/deadlock" : "C05/livelock", fatal + " with " + c.dump());
    return r;
  }
  if (h.at("reader_overlap").get<bool>()) r.fail("C05/reader-overlap", "two threads inside the trajectory reader at the same time");
  if (h.at("merge_overlap").get<bool>()) r.fail("C05/merge-overlap", "two threads inside the merge step at the same time");
  int rc = h.at("rc");
  if (expect_error) {
    r.cls("first-frame-beyond-end");
    if (!h.at("evals").empty()) r.fail("C05/processed-nonexistent", "first frame beyond the trajectory but frames were evaluated");
    return r;
  }
  if (rc != 0) {
    r.fail("C05/exec-error", "Exec returned " + std::to_string(rc));
    return r;
  }
  std::vector<long> ev;
  bool data_ok = true;
  for (auto &e : h.at("evals")) {
    ev.push_back(e[1]);
    if (long(e[2]) != 1) data_ok = false;
  }
  if (!data_ok) r.fail("C05/frame-data", "a worker evaluated frame data that does not belong to the step it was handed");
  std::vector<long> evs = ev;
  std::sort(evs.begin(), evs.end());
  if (evs != S) {
    std::string key = "C05/processed-set";
    if (!ordered && int(c.at("nframes")) >= 0 && !S.empty() && (evs.empty() || evs.front() != S.front())) key = "C05/unordered-nframes-first-frame-lost";
    r.fail(key, "evaluated frames " + show(evs) + " but the selection is " + show(S));
    return r;
  }
  if (ordered) {
    std::vector<long> m = h.at("merges").get<std::vector<long>>();
    if (m != S) r.fail("C05/merge-order", "merge order " + show(m) + " differs from frame order " + show(S));
  } else {
    std::vector<long> all;
    for (auto &l : h.at("merged_lists"))
      for (auto &x : l) all.push_back(x);
    std::sort(all.begin(), all.end());
    if (all != S) r.fail("C05/merge-set", "merged frames " + show(all) + " differ from " + show(S));
    if (h.at("merged_lists").size() != size_t(nt)) r.fail("C05/merge-count", "MergeWorker not called once per worker");
  }
  // file order of the reader: steps delivered strictly increasing, nothing read twice
  long last = 0;
  for (auto &rd : h.at("reads")) {
    long s = rd[1];
    if (s == 0) continue;
    if (s <= last) r.fail("C05/reader-order", "reader delivered frames out of file order");
    last = s;
  }
  return r;
}

json gen_sched() {
  json c;
  int nt = ri(1, 8);
  if (rbool(60)) nt = ri(2, 4);
  int frames = pick({1, 2, 3, 4, 5, 6, 8, 12});
  if (rbool(20)) frames = ri(1, std::max(1, nt - 1));
  c["nt"] = nt;
  c["frames"] = frames;
  c["beads"] = ri(1, 3);
  c["ordered"] = rbool(50);
  c["first"] = rbool(30) ? ri(0, frames + 1) : -1;
  int nf = -1;
  if (rbool(55)) nf = pick({0, 1, 2, 3, frames - 1, frames, frames + 2});
  if (nf < -1) nf = 0;
  c["nframes"] = nf;
  if (rbool(30)) {
    // times t0 + i*dt built from small integers (exact in binary), begin on / between / before / after the frame times
    double dt = pick({1.0, 0.5, 2.0, 0.25}), t0 = pick({0.0, 0.0, -3.0, 10.0});
    int k = ri(-1, 2 * frames + 3);
    c["t0"] = t0;
    c["dt"] = dt;
    c["begin"] = t0 + 0.5 * dt * double(k);
  }
  int len = rcount(0, 60);
  std::vector<int> ch;
  bool bias = rbool(40);
  for (int i = 0; i < len; ++i) ch.push_back(bias ? ri(0, 2) * ri(0, 1) + ri(0, 1) * ri(0, 7) : ri(0, 7));
  c["choices"] = ch;
  if (!c["ordered"].get<bool>() && nf >= 0 && known("C05/unordered-nframes-first-frame-lost")) c["nframes"] = -1;
  return c;
}

// exhaustive choice sequences for tiny configurations (thorough tier)
void enum_sched(int level, const std::function<bool(const json &)> &emit) {
  // level = maximal choice-sequence length L; configurations: nt in {2,3}, frames in {1,2,3}, both modes, nframes in {-1,1,2}
  // every sequence over {0,1,2} of length L (3^L each)
  for (int nt = 2; nt <= 3; ++nt)
    for (int frames = 1; frames <= 3; ++frames)
      for (int ordered = 0; ordered <= 1; ++ordered)
        for (int nf : {-1, 1, 2}) {
          if (!ordered && nf >= 0 && known("C05/unordered-nframes-first-frame-lost")) continue;
          long total = 1;
          for (int i = 0; i < level; ++i) total *= nt;
          for (long k = 0; k < total; ++k) {
            std::vector<int> ch;
            long x = k;
            for (int i = 0; i < level; ++i) {
              ch.push_back(int(x % nt));
              x /= nt;
            }
            json c{{"nt", nt}, {"frames", frames}, {"beads", 1}, {"ordered", bool(ordered)}, {"first", -1}, {"nframes", nf}, {"choices", ch}};
            if (!emit(c)) return;
          }
        }
}

}  // namespace

int main(int argc, char **argv) {
  std::vector<Sub> subs;
  subs.push_back({"schedules", gen_sched, run_sched, 1.0, 100, enum_sched});
  return harness_main(argc, argv, "C05", subs);
}
