// C06 (c) — linalg_constrained_qrsolve returns the minimiser of |Ax-b| subject to Bx=0:
// constraints satisfied, residual gradient orthogonal to the constraint null-space (KKT), and equal to the
// solution of the reduced problem computed independently in long double (normal equations in the null-space
// basis, Cholesky) — the KKT conditions determine x uniquely when A restricted to null(B) has full rank.
#include "vv_common.h"

#include <votca/tools/linalg.h>

#include <Eigen/Dense>

using namespace vv;
typedef long double LD;
typedef Eigen::Matrix<LD, Eigen::Dynamic, Eigen::Dynamic> MatL;
typedef Eigen::Matrix<LD, Eigen::Dynamic, 1> VecL;

static Eigen::MatrixXd mat(const json &j) {
  size_t r = j.size(), c = r ? j[0].size() : 0;
  Eigen::MatrixXd m(r, c);
  for (size_t i = 0; i < r; ++i)
    for (size_t k = 0; k < c; ++k) m(long(i), long(k)) = j[i][k].get<double>();
  return m;
}

static Result run_kkt(const json &c) {
  Result r;
  Eigen::MatrixXd A = mat(c.at("A"));
  int n = int(A.cols()), m = int(A.rows());
  int k = int(c.at("B").size());
  Eigen::MatrixXd B = k ? mat(c.at("B")) : Eigen::MatrixXd(0, n);
  Eigen::VectorXd b(m);
  for (int i = 0; i < m; ++i) b(i) = c.at("b")[size_t(i)].get<double>();

  // ---- independent reference in long double
  MatL Al = A.cast<LD>(), Bl = B.cast<LD>();
  VecL bl = b.cast<LD>();
  // null-space basis N (n x (n-k)) of B: complete-orthogonal via Gram-Schmidt (twice) on [B^T | I]
  std::vector<VecL> basis;
  auto orth = [&](VecL v) {
    for (int pass = 0; pass < 2; ++pass)
      for (auto &q : basis) v -= q.dot(v) * q;
    return v;
  };
  for (int i = 0; i < k; ++i) {
    VecL v = orth(Bl.row(i).transpose());
    LD nv = v.norm();
    if (nv < 1e-6L * Bl.row(i).norm()) {  // generator guarantees full row rank; otherwise outside the quantifier
      r.discard = true;
      return r;
    }
    basis.push_back(v / nv);
  }
  MatL N(n, n - k);
  int col = 0;
  // add unit vectors in order of largest remaining component
  std::vector<bool> used(static_cast<size_t>(n), false);
  while (col < n - k) {
    int bestj = -1;
    LD bestn = -1;
    VecL bestv;
    for (int j = 0; j < n; ++j) {
      if (used[size_t(j)]) continue;
      VecL e = VecL::Zero(n);
      e(j) = 1;
      VecL v = orth(e);
      if (v.norm() > bestn) {
        bestn = v.norm();
        bestj = j;
        bestv = v;
      }
    }
    used[size_t(bestj)] = true;
    basis.push_back(bestv / bestn);
    N.col(col++) = bestv / bestn;
  }
  MatL AN = Al * N;
  Eigen::JacobiSVD<Eigen::MatrixXd> svdAN(AN.cast<double>());
  double smax = svdAN.singularValues()(0), smin = svdAN.singularValues()(n - k - 1);
  // conditioning of the reduced problem as the routine sees it: A*Q is formed first (errors ~ eps*|A|), then only the
  // block belonging to null(B) is used, so the relevant ratio is |A|_2 / sigma_min(A N), not sigma_max(A N)/sigma_min(A N)
  Eigen::JacobiSVD<Eigen::MatrixXd> svdA(A);
  smax = std::max(smax, svdA.singularValues()(0));
  double condAN = smax / std::max(smin, 1e-300);
  double condB = 1.0;
  if (k) {
    Eigen::JacobiSVD<Eigen::MatrixXd> svdB(B);
    condB = svdB.singularValues()(0) / std::max(svdB.singularValues()(k - 1), 1e-300);
  }
  if (condAN > 1e6 || condB > 1e6) {  // ill-posed: not "full rank" in floating point
    r.discard = true;
    return r;
  }
  // z = argmin |AN z - b| via normal equations in long double (cond^2 <= 1e12, 64-bit mantissa)
  MatL G = AN.transpose() * AN;
  VecL z = G.ldlt().solve(AN.transpose() * bl);
  // one step of iterative refinement
  z += G.ldlt().solve(AN.transpose() * (bl - AN * z));
  VecL xref = N * z;

  r.cls(k == 0 ? "k=0" : (k == n - 1 ? "k=n-1" : "0<k<n-1"));
  r.cls(m == n ? "m=n" : (m == n - k ? "m=n-k" : (m < n ? "n-k<m<n" : "m>n")));
  r.cls(condAN < 10 ? "cond<10" : condAN < 1e3 ? "cond<1e3" : "cond<1e6");
  r.nontrivial = k >= 1;

  Eigen::VectorXd x;
  try {
    x = votca::tools::linalg_constrained_qrsolve(A, b, B);
  } catch (const std::runtime_error &e) {
    // documented rejection: a column of A that is identically zero (unknown without any data)
    bool zero_col = false;
    for (int j = 0; j < n; ++j) zero_col = zero_col || (A.col(j).array() == 0.0).all();
    if (zero_col && std::string(e.what()).find("zero_column") != std::string::npos) {
      r.discard = true;
      return r;
    }
    r.fail("linalg_constrained_qrsolve/throws", std::string("well-posed problem rejected: ") + e.what());
    return r;
  }
  if (x.size() != n) {
    r.fail("linalg_constrained_qrsolve/size", fmt("result has %ld entries, %d unknowns", long(x.size()), n));
    return r;
  }
  for (int i = 0; i < n; ++i)
    if (!std::isfinite(x(i))) {
      r.fail("linalg_constrained_qrsolve/nonfinite", "result contains inf/nan");
      return r;
    }
  VecL xl = x.cast<LD>();
  const LD eps = 2.220446049250313e-16L;
  LD nA = LD(svdAN.singularValues()(0)), nAfull = Al.norm(), nB = k ? Bl.norm() : 0, nb = bl.norm(),
     // scale of x: when the exact minimiser is (nearly) 0 the computed one is rounding noise of size eps*|b|/|A|
     nx = std::max(std::max(xl.norm(), xref.norm()), nb / std::max(LD(smax), LD(1e-300)));
  // (1) constraints: |Bx| <= c * eps * cond(B) * |B| |x|   (x is Q * (0,z): backward error of the Householder QR of B^T)
  if (k) {
    LD viol = (Bl * xl).norm();
    LD tol = 200 * eps * LD(n) * nB * (nx + 1e-300L) * LD(std::max(1.0, condB)) + 1e-300L;
    if (viol > tol) r.fail("linalg_constrained_qrsolve/constraint", fmt("|Bx| = %.6Lg > tol %.3Lg (|B|=%.3Lg |x|=%.3Lg)", viol, tol, nB, nx));
  }
  // (2) stationarity: N^T A^T (A x - b) = 0, scale |A|(|A||x| + |b|), factor cond(AN) for the QR least-squares solve
  {
    VecL g = N.transpose() * (Al.transpose() * (Al * xl - bl));
    LD tol = 200 * eps * LD(n + m) * nAfull * (nAfull * nx + nb) * LD(condAN) + 1e-300L;
    if (g.norm() > tol)
      r.fail("linalg_constrained_qrsolve/stationarity",
             fmt("|N^T A^T (Ax-b)| = %.6Lg > tol %.3Lg (cond(A|null B) = %.3g)", g.norm(), tol, condAN));
  }
  // (3) the minimiser itself: |x - xref| <= c eps cond^2 |x| (+ residual term)
  {
    LD err = (xl - xref).norm();
    LD resid = (Al * xref - bl).norm();
    LD tol = 200 * eps * LD(n + m) * (LD(condAN) * (nx + 1e-300L) + LD(condAN) * LD(condAN) * resid / std::max(nA, LD(1e-300))) *
                 LD(std::max(1.0, condB)) + 1e-300L;
    if (err > tol) r.fail("linalg_constrained_qrsolve/minimiser", fmt("|x - x*| = %.6Lg > tol %.3Lg (cond %.3g)", err, tol, condAN));
  }
  return r;
}

// random orthogonal matrix as a product of Givens rotations with rational (Pythagorean) cos/sin and permutations/signs
static Eigen::MatrixXd gen_orth(int n) {
  Eigen::MatrixXd Q = Eigen::MatrixXd::Identity(n, n);
  static const double PY[5][2] = {{3.0 / 5, 4.0 / 5}, {5.0 / 13, 12.0 / 13}, {8.0 / 17, 15.0 / 17}, {7.0 / 25, 24.0 / 25}, {0.0, 1.0}};
  int nrot = n <= 1 ? 0 : ri(n, 3 * n);
  for (int t = 0; t < nrot; ++t) {
    int i = ri(0, n - 1), j = ri(0, n - 2);
    if (j >= i) ++j;
    int p = ri(0, 4);
    double cs = PY[p][0], sn = PY[p][1];
    if (rbool(50)) sn = -sn;
    for (int q = 0; q < n; ++q) {
      double a = Q(i, q), b = Q(j, q);
      Q(i, q) = cs * a - sn * b;
      Q(j, q) = sn * a + cs * b;
    }
  }
  return Q;
}
static double gen_sigma() {
  int k = ri(0, 9);
  if (k < 6) return rfrac(2, 160, 16);  // 0.125 .. 10
  if (k < 8) return rlog(-1, 2);
  return pick<double>({0.1, 1.0, 1.0, 100.0, 1000.0});
}
static json to_json(const Eigen::MatrixXd &M) {
  json j = json::array();
  for (long i = 0; i < M.rows(); ++i) {
    json row = json::array();
    for (long k = 0; k < M.cols(); ++k) row.push_back(M(i, k));
    j.push_back(row);
  }
  return j;
}
static json gen_kkt() {
  int n = rbool(3) ? 1 : rcount(2, 14);
  int k = n == 1 ? 0 : ri(1, n - 1);
  if (rbool(8)) k = 0;
  int mmin = rbool(85) ? n : n - k;  // the routine only needs rank(A|null B) = n-k
  int m = mmin + rcount(0, 12);
  // A = U diag(s) V^T (m x n), full column rank unless m < n (then only generic)
  Eigen::MatrixXd U = gen_orth(m), V = gen_orth(n);
  Eigen::MatrixXd S = Eigen::MatrixXd::Zero(m, n);
  for (int i = 0; i < std::min(m, n); ++i) S(i, i) = gen_sigma();
  Eigen::MatrixXd A = U * S * V.transpose();
  if (m < n) {  // make columns generic (no zero column) by mixing in small integers
    for (int i = 0; i < m; ++i)
      for (int j = 0; j < n; ++j) A(i, j) += double(ri(-3, 3)) / 4.0;
  }
  Eigen::MatrixXd B(k, n);
  if (k) {
    Eigen::MatrixXd U2 = gen_orth(k), V2 = gen_orth(n);
    Eigen::MatrixXd S2 = Eigen::MatrixXd::Zero(k, n);
    for (int i = 0; i < k; ++i) S2(i, i) = gen_sigma();
    B = U2 * S2 * V2.transpose();
    if (rbool(30)) {  // sparse "spline-like" constraints: tridiagonal rows
      B.setZero();
      for (int i = 0; i < k; ++i)
        for (int j = i; j < std::min(n, i + 3); ++j) B(i, j) = double(ri(1, 8)) / 4.0 * (rbool(50) ? 1 : -1);
    }
  }
  std::vector<double> b(static_cast<size_t>(m));
  bool consistent = rbool(25);
  if (consistent && k < n) {
    // b = A x0 with B x0 = 0 is not constructed here (needs the null space); use b in range(A) only
    Eigen::VectorXd x0(n);
    for (int i = 0; i < n; ++i) x0(i) = double(ri(-16, 16)) / 4.0;
    Eigen::VectorXd bb = A * x0;
    for (int i = 0; i < m; ++i) b[size_t(i)] = bb(i);
  } else
    for (int i = 0; i < m; ++i) b[size_t(i)] = rbool(10) ? 0.0 : double(ri(-1000, 1000)) / 8.0;
  return json{{"A", to_json(A)}, {"B", to_json(B)}, {"b", b}};
}

int main(int argc, char **argv) {
  std::vector<Sub> subs;
  subs.push_back({"qrsolve-kkt", gen_kkt, run_kkt, 1.0, 100, nullptr});
  return harness_main(argc, argv, "C06", subs);
}
