// C18 — selection patterns, ranges and index lists denote exactly what they say.
// Oracles: dynamic-programming glob matcher; direct enumeration of range grammar; set semantics for index lists.
#include "vv_common.h"

#include <votca/csg/beadlist.h>
#include <votca/csg/topology.h>
#include <votca/tools/rangeparser.h>
#include <votca/tools/tokenizer.h>
#include <votca/xtp/IndexParser.h>

#include "ref_c18.h"

using namespace vv;
using votca::Index;

static Result run_wild(const json &c) {
  Result r;
  std::string p = c.at("pattern"), s = c.at("string");
  bool exp = ref_glob(p, s);
  int got = votca::tools::wildcmp(p, s);
  int got2 = votca::tools::wildcmp(p.c_str(), s.c_str());
  r.nontrivial = backtracking_pattern(p);
  r.cls(exp ? "match" : "nomatch");
  if (r.nontrivial) r.cls("backtracking");
  if ((got != 0) != exp || (got2 != 0) != exp)
    r.fail("wildcmp", fmt("wildcmp('%s','%s') = %d, glob semantics say %d", p.c_str(), s.c_str(), got, int(exp)));
  return r;
}

static json gen_wild() {
  static const std::string lit = "abc";
  int n = rcount(0, 40);
  std::string p, s;
  for (int i = 0; i < n; ++i) {
    int k = ri(0, 9);
    if (k < 2) {
      p += '*';
      int run = ri(0, 4);
      for (int q = 0; q < run; ++q) s += lit[size_t(ri(0, 2))];
    } else if (k < 4) {
      p += '?';
      s += lit[size_t(ri(0, 2))];
    } else {
      char ch = lit[size_t(ri(0, 2))];
      p += ch;
      s += ch;
    }
  }
  // mutate the string in ~half of the cases (insert / delete / change one character)
  int mut = ri(0, 5);
  if (mut == 1 && !s.empty()) s.erase(size_t(ri(0, int(s.size()) - 1)), 1);
  if (mut == 2) s.insert(size_t(ri(0, int(s.size()))), 1, lit[size_t(ri(0, 2))]);
  if (mut == 3 && !s.empty()) s[size_t(ri(0, int(s.size()) - 1))] = lit[size_t(ri(0, 2))];
  return json{{"pattern", p}, {"string", s}};
}

static void enum_wild(int level, const std::function<bool(const json &)> &emit) {
  // all patterns over {a,b,*,?} and strings over {a,b} up to length `level`
  const std::string pa = "ab*?", sa = "ab";
  std::vector<std::string> pats{""}, strs{""};
  for (size_t from = 0, len = 0; len < size_t(level); ++len) {
    size_t to = pats.size();
    for (size_t i = from; i < to; ++i)
      for (char ch : pa) pats.push_back(pats[i] + ch);
    from = to;
  }
  for (size_t from = 0, len = 0; len < size_t(level); ++len) {
    size_t to = strs.size();
    for (size_t i = from; i < to; ++i)
      for (char ch : sa) strs.push_back(strs[i] + ch);
    from = to;
  }
  for (auto &p : pats)
    for (auto &s : strs)
      if (!emit(json{{"pattern", p}, {"string", s}})) return;
}

static Result run_range(const json &c) {
  Result r;
  std::string expr = c.at("expr");
  RefRange R = ref_range(expr);
  // statement: "terminates for every accepted expression" -> zero stride is either rejected or terminates.
  if (R.kind == RefRange::ZERO_STRIDE && known("RangeParser/zero-stride")) {
    r.discard = true;
    return r;
  }
  if (R.kind == RefRange::HUGE) {
    // numbers beyond 10^9: accepted or rejected, but parsing must be free of undefined behaviour (UBSan is the oracle)
    r.cls("huge-numbers");
    votca::tools::RangeParser rp;
    try {
      rp.Parse(expr);
    } catch (const std::exception &) {
    }
    return r;
  }
  Enumerated E = impl_range(expr);
  bool stride_nt = false;
  {
    auto blocks = split_keep_empty(expr, ',');
    for (auto &b : blocks) {
      auto f = split_keep_empty(b, ':');
      long sv;
      if (f.size() == 3 && parse_int(f[1], sv) && sv != 1 && sv != -1) stride_nt = true;
    }
  }
  r.nontrivial = stride_nt || R.kind != RefRange::OK;
  switch (R.kind) {
    case RefRange::OK:
      r.cls("well-formed");
      if (!E.accepted)
        r.fail("RangeParser/rejects-valid", "'" + expr + "' rejected: " + E.err);
      else if (!E.terminated)
        r.fail("RangeParser/nontermination", "'" + expr + "' does not terminate within 10000 steps");
      else if (E.seq != R.seq)
        r.fail(R.seq.size() > E.seq.size() && c.value("neg", false) ? "RangeParser/negative-stride" : "RangeParser/sequence",
               "'" + expr + "' enumerates " + show(E.seq) + ", denotes " + show(R.seq));
      else {
        // print -> parse gives the same sequence
        Enumerated E2 = impl_range(E.printed);
        if (!E2.accepted || !E2.terminated || E2.seq != E.seq)
          r.fail("RangeParser/print-parse", "'" + expr + "' printed as '" + E.printed + "' re-parses to " + show(E2.seq) +
                                                " instead of " + show(E.seq));
      }
      break;
    case RefRange::ZERO_STRIDE:
      r.cls("zero-stride");
      if (E.accepted && !E.terminated)
        r.fail("RangeParser/zero-stride", "'" + expr + "' (zero stride) is accepted and does not terminate");
      break;
    case RefRange::WRONG_DIRECTION:
      // a block whose stride points away from its end denotes no integer: it is rejected (what the code does) or,
      // if accepted, must contribute nothing
      r.cls("wrong-direction");
      if (E.accepted && !E.terminated)
        r.fail("RangeParser/nontermination", "'" + expr + "' accepted and does not terminate");
      else if (E.accepted && E.seq != R.seq)
        r.fail("RangeParser/wrong-direction-enumerated", "'" + expr + "' (" + R.why + ") accepted and enumerates " + show(E.seq) +
                                                              ", denotes " + show(R.seq));
      break;
    case RefRange::MUST_REJECT:
      r.cls("malformed");
      if (E.accepted)
        r.fail("RangeParser/accepts-malformed", "'" + expr + "' (" + R.why + ") accepted, enumerates " + show(E.seq));
      break;
    case RefRange::UNCLEAR:
      r.cls("unclear-malformed");
      if (E.accepted && !E.terminated)
        r.fail("RangeParser/nontermination", "'" + expr + "' accepted and does not terminate");
      break;
  }
  return r;
}

static std::string gen_block(bool allow_bad) {
  int form = ri(0, 9);
  auto num = [&]() { return std::to_string(ri(-12, 40)); };
  std::string b;
  if (form < 2)
    b = num();
  else if (form < 5) {
    int a = ri(-12, 30);
    b = std::to_string(a) + ":" + std::to_string(a + ri(0, 15));
  } else if (form < 8) {
    int a = ri(-12, 30), s = ri(1, 6), n = ri(0, 8), slack = ri(0, s - 1);
    if (rbool(35)) {  // negative stride, descending
      b = std::to_string(a) + ":" + std::to_string(-s) + ":" + std::to_string(a - s * n - slack);
    } else
      b = std::to_string(a) + ":" + std::to_string(s) + ":" + std::to_string(a + s * n + slack);
  } else
    b = num() + ":" + std::to_string(ri(-3, 3)) + ":" + num();
  if (rbool(4)) {
    auto big = [&]() { return std::to_string(rl(1000000000L, 999999999999999999L)); };
    b = rbool(50) ? num() + ":" + big() + ":" + big() : big() + ":" + big();
  }
  if (allow_bad) {
    int m = ri(0, 7);
    if (m == 0) b = num() + "::" + num();
    if (m == 1) b = num() + "x:" + num();
    if (m == 2) b = num() + ":" + num() + ":" + num() + ":" + num();
    if (m == 3) b = "a" + b;
    if (m == 4) b = num() + ":1.5:" + num();
    if (m == 5) b = ":" + num();
    if (m == 6) b = num() + ":";
    if (m == 7) b = num() + ":" + num() + "q";
  }
  return b;
}

static json gen_range() {
  int nb = ri(1, 4);
  bool bad = rbool(25);
  int badpos = ri(0, nb - 1);
  std::string e;
  bool neg = false;
  for (int i = 0; i < nb; ++i) {
    if (i) e += rbool(30) ? ", " : ",";
    std::string b = gen_block(bad && i == badpos);
    if (b.find(":-") != std::string::npos) neg = true;
    if (rbool(10)) b = " " + b;
    e += b;
  }
  return json{{"expr", e}, {"neg", neg}};
}

static void enum_range(int level, const std::function<bool(const json &)> &emit) {
  int W = level;
  for (int b = -W; b <= W; ++b) {
    if (!emit(json{{"expr", std::to_string(b)}, {"neg", false}})) return;
    for (int e = -W; e <= W; ++e) {
      if (!emit(json{{"expr", std::to_string(b) + ":" + std::to_string(e)}, {"neg", false}})) return;
      for (int s = -W; s <= W; ++s)
        if (!emit(json{{"expr", std::to_string(b) + ":" + std::to_string(s) + ":" + std::to_string(e)}, {"neg", s < 0}}))
          return;
    }
  }
}

// ------------------------------------------------------------ ranges built through the API (Add) mixed with parsed ones
// ops: {"add":[b,e,s]} | {"parse":"expr"} (well-formed expressions only).  A block (b,e,s) denotes b, b+s, ... up to and
// including the last value that does not pass e (e need not lie on the grid).
static Result run_range_add(const json &c) {
  Result r;
  votca::tools::RangeParser rp;
  std::vector<long> exp;
  std::string what;
  bool offgrid = false, mixed_parse = false;
  for (auto &op : c.at("ops")) {
    if (op.contains("add")) {
      long b = op["add"][0], e = op["add"][1], st = op["add"][2];
      if (st == 0 || (e - b) * st < 0) {
        r.discard = true;  // no documented meaning
        return r;
      }
      for (long v = b; st > 0 ? v <= e : v >= e; v += st) exp.push_back(v);
      if ((e - b) % st != 0) offgrid = true;
      rp.Add(b, e, st);
      what += fmt("Add(%ld,%ld,%ld) ", b, e, st);
    } else {
      std::string expr = op.at("parse");
      RefRange R = ref_range(expr);
      if (R.kind != RefRange::OK) {
        r.discard = true;
        return r;
      }
      exp.insert(exp.end(), R.seq.begin(), R.seq.end());
      try {
        rp.Parse(expr);
      } catch (const std::exception &ex) {
        r.fail("RangeParser/rejects-valid", what + "Parse('" + expr + "') rejected: " + ex.what());
        return r;
      }
      what += "Parse('" + expr + "') ";
      mixed_parse = true;
    }
  }
  if (exp.size() > 9000) {
    r.discard = true;
    return r;
  }
  r.nontrivial = offgrid;
  if (offgrid) r.cls("Add-with-end-off-the-stride-grid");
  if (mixed_parse) r.cls("Add-mixed-with-Parse");
  std::vector<long> got;
  long steps = 0;
  bool term = true;
  for (auto it = rp.begin(); it != rp.end(); ++it) {
    if (++steps > 10000) {
      term = false;
      break;
    }
    got.push_back(*it);
  }
  if (!term)
    r.fail("RangeParser/Add-nontermination", what + "does not terminate within 10000 steps (denotes " + show(exp) + ")");
  else if (got != exp)
    r.fail("RangeParser/Add-sequence", what + "enumerates " + show(got) + ", denotes " + show(exp));
  else {
    std::ostringstream os;
    os << rp;
    Enumerated E2 = impl_range(os.str());
    if (!E2.accepted || !E2.terminated || E2.seq != exp)
      r.fail("RangeParser/Add-print-parse", what + "printed as '" + os.str() + "' re-parses to " + show(E2.seq) + " instead of " + show(exp));
  }
  return r;
}
static json gen_range_add() {
  json ops = json::array();
  int n = ri(1, 4);
  for (int i = 0; i < n; ++i) {
    if (rbool(70)) {
      long st = rbool(25) ? 1 : ri(2, 9);
      if (rbool(35)) st = -st;
      long b = ri(-40, 60), len = ri(0, 40);
      long e = b + (st > 0 ? len : -len);
      ops.push_back({{"add", {b, e, st}}});
    } else {
      long b = ri(0, 50), st = ri(1, 5), k = ri(0, 8);
      ops.push_back({{"parse", std::to_string(b) + ":" + std::to_string(st) + ":" + std::to_string(b + st * k)}});
    }
  }
  return json{{"ops", ops}};
}
static void enum_range_add(int level, const std::function<bool(const json &)> &emit) {
  int W = std::min(level, 6);
  for (int b = -W; b <= W; ++b)
    for (int e = -W; e <= W; ++e)
      for (int st = -W; st <= W; ++st) {
        if (st == 0 || (e - b) * st < 0) continue;
        if (!emit(json{{"ops", {{{"add", {b, e, st}}}}}})) return;
        if (!emit(json{{"ops", {{{"add", {b, e, st}}}, {{"parse", "20:21"}}}}})) return;
      }
}

// ------------------------------------------------------------ index parser
static Result run_index(const json &c) {
  Result r;
  std::vector<Index> v = c.at("indices").get<std::vector<Index>>();
  votca::xtp::IndexParser ip;
  std::set<Index> expset(v.begin(), v.end());
  std::vector<Index> exp(expset.begin(), expset.end());
  std::string s = ip.CreateIndexString(v);
  std::vector<Index> back = ip.CreateIndexVector(s);
  bool has_run = false;
  for (size_t i = 0; i + 1 < exp.size(); ++i)
    if (exp[i + 1] == exp[i] + 1) has_run = true;
  r.nontrivial = has_run && exp.size() != v.size();
  if (has_run) r.cls("has-run");
  if (exp.size() != v.size()) r.cls("duplicates");
  if (back != exp) {
    r.fail("IndexParser/vector-string-vector", "index vector of " + std::to_string(v.size()) + " entries -> '" + s + "' -> differs");
    return r;
  }
  // string form given by the user: "1 3:5 9" style with arbitrary separators and overlapping ranges
  std::string us = c.at("userstring");
  std::set<Index> uset;
  for (auto &t : c.at("usertokens")) {
    long a = t[0], b = t[1];
    for (long x = a; x <= b; ++x) uset.insert(x);
  }
  std::vector<Index> uexp(uset.begin(), uset.end());
  std::vector<Index> ugot = ip.CreateIndexVector(us);
  if (ugot != uexp) {
    r.fail("IndexParser/string-vector", "'" + us + "' parsed to " + std::to_string(ugot.size()) + " indices, denotes " +
                                            std::to_string(uexp.size()));
    return r;
  }
  std::string s2 = ip.CreateIndexString(ugot);
  if (ip.CreateIndexVector(s2) != uexp) r.fail("IndexParser/string-roundtrip", "'" + us + "' -> '" + s2 + "' loses indices");
  // canonical string: no index mentioned twice, ascending
  return r;
}

static json gen_index() {
  int n = rcount(0, 40);
  std::vector<long> v;
  long cur = ri(0, 20);
  for (int i = 0; i < n; ++i) {
    int k = ri(0, 9);
    if (k < 5)
      cur += 1;
    else if (k < 7)
      cur += ri(2, 50);
    else if (k < 8)
      cur += 0;  // duplicate
    else
      cur = ri(0, 2000);
    v.push_back(cur);
  }
  auto p = rperm(int(v.size()));
  std::vector<long> sh;
  for (int i : p) sh.push_back(v[size_t(i)]);
  json toks = json::array();
  std::string us;
  int nt = ri(0, 8);
  static const std::vector<std::string> seps{" ", ",", "\n", "\t", "  ", ", "};
  for (int i = 0; i < nt; ++i) {
    long a = ri(0, 300);
    if (i) us += pickv(seps);
    if (rbool(50)) {
      long b = a + ri(0, 12);
      toks.push_back({a, b});
      us += std::to_string(a) + ":" + std::to_string(b);
    } else {
      toks.push_back({a, a});
      us += std::to_string(a);
    }
  }
  return json{{"indices", sh}, {"userstring", us}, {"usertokens", toks}};
}

// ------------------------------------------------------------ bead selection
static Result run_beads(const json &c) {
  using namespace votca::csg;
  Result r;
  Topology top;
  std::vector<std::pair<std::string, std::string>> beads;  // name,type
  for (auto &b : c.at("beads")) {
    std::string name = b[0], type = b[1];
    if (!top.BeadTypeExist(type)) top.RegisterBeadType(type);
    top.CreateBead(Bead::spherical, name, type, 0, 1.0, 0.0);
    beads.emplace_back(name, type);
  }
  std::string sel = c.at("select");
  bool by_name = sel.substr(0, 5) == "name:";
  std::string pat = by_name ? sel.substr(5) : sel;
  std::vector<long> exp;
  for (size_t i = 0; i < beads.size(); ++i)
    if (ref_glob(pat, by_name ? beads[i].first : beads[i].second)) exp.push_back(long(i));
  BeadList bl;
  Index n = bl.Generate(top, sel);
  std::vector<long> got;
  for (auto *b : bl) got.push_back(b->getId());
  r.nontrivial = !exp.empty() && exp.size() < beads.size() && pat.find_first_of("*?") != std::string::npos;
  r.cls(by_name ? "by-name" : "by-type");
  if (n != Index(got.size()) || got != exp)
    r.fail("BeadList/select", "select '" + sel + "' returned " + show(got) + ", expected " + show(exp));
  // the same selection through the spherical-subvolume entry point (open box, beads on a line 0.5 apart): the beads
  // within the radius that match
  if (r.ok && c.contains("radius2")) {
    long rad2 = c.at("radius2");  // radius = rad2/4 + 1/8: never a tie
    double radius = double(rad2) / 4.0 + 0.125;
    for (size_t i = 0; i < beads.size(); ++i) top.getBead(Index(i))->setPos(Eigen::Vector3d(0.5 * double(i), 0, 0));
    std::vector<long> exps;
    for (long id : exp)
      if (0.5 * double(id) <= radius) exps.push_back(id);
    BeadList bs;
    Index ns = bs.GenerateInSphericalSubvolume(top, sel, Eigen::Vector3d::Zero(), radius);
    std::vector<long> gots;
    for (auto *b : bs) gots.push_back(b->getId());
    r.cls(by_name ? "subvolume-by-name" : "subvolume-by-type");
    if (ns != Index(gots.size()) || gots != exps)
      r.fail("BeadList/select-subvolume", fmt("GenerateInSphericalSubvolume('%s', radius %.3f) returned ", sel.c_str(), radius) + show(gots) + ", expected " + show(exps));
  }
  return r;
}

static json gen_beads() {
  static const std::vector<std::string> names{"A", "B", "AB", "BA", "A1", "A2", "C", "CA", "ABC", "a", "AA", "B1"};
  int n = rcount(0, 30);
  json beads = json::array();
  for (int i = 0; i < n; ++i) beads.push_back({pickv(names), pickv(names)});
  std::string pat;
  int k = ri(0, 5);
  if (k == 0)
    pat = pickv(names);
  else if (k == 1)
    pat = "*";
  else {
    std::string base = pickv(names);
    for (char ch : base) {
      int m = ri(0, 5);
      if (m == 0)
        pat += '*';
      else if (m == 1)
        pat += '?';
      else
        pat += ch;
    }
    if (rbool(30)) pat += '*';
  }
  json c{{"beads", beads}, {"select", (rbool(50) ? "name:" : "") + pat}};
  if (rbool(60)) c["radius2"] = rbool(30) ? 4000 : ri(0, 2 * n + 2);
  return c;
}

int main(int argc, char **argv) {
  std::vector<Sub> subs;
  subs.push_back({"wildcmp", gen_wild, run_wild, 3.0, 100, enum_wild});
  subs.push_back({"range", gen_range, run_range, 2.0, 100, enum_range});
  subs.push_back({"range_add", gen_range_add, run_range_add, 1.0, 100, enum_range_add});
  subs.push_back({"index", gen_index, run_index, 1.0, 100, nullptr});
  subs.push_back({"beadselect", gen_beads, run_beads, 1.0, 100, nullptr});
  return harness_main(argc, argv, "C18", subs);
}
