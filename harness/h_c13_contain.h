// Containment helper shared by h_c13.cc and h_c16.cc: run a check body in a forked child so that an expected death
// (Eigen index assertion, ASan, UBSan, abort) becomes a failure with a stable key instead of killing the campaign.
#pragma once
#include "vv_common.h"

#include <sys/wait.h>

namespace vv {
// ------------------------------------------------------------------ containment: run `body` in a forked child
inline json result_to_json(const Result &r) {
  return json{{"ok", r.ok}, {"discard", r.discard}, {"nontrivial", r.nontrivial}, {"key", r.key}, {"msg", r.msg}, {"classes", r.classes}};
}
inline Result result_from_json(const json &j) {
  Result r;
  r.ok = j.at("ok");
  r.discard = j.at("discard");
  r.nontrivial = j.at("nontrivial");
  r.key = j.at("key");
  r.msg = j.at("msg");
  r.classes = j.at("classes").get<std::vector<std::string>>();
  return r;
}

inline Result contained(const std::function<Result()> &body, const std::string &crash_key, const std::string &crash_msg) {
  int fd[2];
  Result r;
  if (pipe(fd) != 0) {
    r.fail("harness/pipe", "pipe() failed");
    return r;
  }
  fflush(stdout);
  fflush(stderr);
  pid_t pid = fork();
  if (pid < 0) {
    r.fail("harness/fork", "fork() failed");
    return r;
  }
  if (pid == 0) {
    ::close(fd[0]);
    // the child must not touch the parent's statistics / crash files when it dies
    st().out.clear();
    st().crash.clear();
    st().in_case = false;
    dup2(fd[1], 2);  // sanitizer / assert text goes to the parent through the same pipe
    Result cr;
    try {
      cr = body();
    } catch (const std::exception &e) {
      cr.fail("unexpected-exception", std::string("unexpected exception: ") + e.what());
    }
    std::string s = "\nVVRESULT:" + result_to_json(cr).dump() + "\n";
    size_t off = 0;
    while (off < s.size()) {
      ssize_t w = write(fd[1], s.data() + off, s.size() - off);
      if (w <= 0) break;
      off += size_t(w);
    }
    _exit(0);
  }
  ::close(fd[1]);
  std::string out;
  char buf[4096];
  ssize_t n;
  while ((n = read(fd[0], buf, sizeof buf)) > 0) out.append(buf, size_t(n));
  ::close(fd[0]);
  int status = 0;
  waitpid(pid, &status, 0);
  size_t p = out.rfind("\nVVRESULT:");
  if (WIFEXITED(status) && WEXITSTATUS(status) == 0 && p != std::string::npos) {
    try {
      return result_from_json(json::parse(out.substr(p + 10)));
    } catch (const std::exception &) {
    }
  }
  // died: pick the line of the report that says why
  std::string why;
  {
    std::stringstream ss(out);
    std::string line;
    while (std::getline(ss, line))
      if (line.find("runtime error") != std::string::npos || line.find("Assertion") != std::string::npos ||
          line.find("ERROR: AddressSanitizer") != std::string::npos) {
        why = line.substr(0, 400);
        break;
      }
  }
  std::string how = WIFSIGNALED(status) ? fmt("signal %d", WTERMSIG(status)) : fmt("exit status %d", WEXITSTATUS(status));
  r.fail(crash_key, crash_msg + " -> process died (" + how + "): " + why);
  return r;
}

}  // namespace vv
