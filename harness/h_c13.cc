// C13 — histograms conserve weight and never write outside their bins.
//
// Oracle (independent of histogramnew.cc / histogram.cc): bins are centred on min + k*step with the REAL step
// (max-min)/(n-1) (non-periodic) or (max-min)/n (periodic); k = floor((v-min)/step + 1/2) evaluated in 80-bit long
// double and then in exact integer arithmetic; accept iff 0 <= k < n, else discard (non-periodic) / k mod n
// (periodic).  Ambiguity band: the implementation evaluates the same expression in double with a rounded step, so
// its q can differ from the real q by <= ~6e-16*|q|; values whose q lies within band = 1e-9 + 2e-15*|q| of an
// integer (a bin edge) may land in either neighbouring bin (class "ambiguous-edge", not counted as non-trivial).
// Weights are dyadic (m/8, +-2^30) so all bin sums are exact in double and can be compared with ==.
//
// Deaths (Eigen index assertion, ASan, UBSan) are predicted from the implementation's own double expression and the
// case is then executed in a forked child, so that an out-of-bounds write gets a stable key instead of killing the
// campaign.
#include "vv_common.h"

#include <votca/tools/histogram.h>
#include <votca/tools/histogramnew.h>

#include "h_c13_contain.h"

using namespace vv;
using votca::Index;
namespace vt = votca::tools;

static const char *KEY_WRAP = "HistogramNew::Process/periodic-wrap-negative-multiple-of-nbins";
static const char *KEY_CAST = "HistogramNew::Process/index-cast-overflow";
static const char *KEY_LEGACY_MAX = "Histogram::ProcessData/auto-range-max-init";

// ------------------------------------------------------------------ reference
struct RefBin {
  bool undetermined = false;  // rounding band >= 1/2 bin: nothing can be said about the bin
  bool ambiguous = false;     // two candidates
  bool near_edge = false;     // decided, but within 1e-3 of an edge
  bool outside = false;       // reference index outside 0..n-1 (before wrapping)
  std::vector<long> cand;     // candidate bins, -1 = discarded
  long double q = 0;
};

static long modn(__int128 k, long n) {
  __int128 m = k % n;
  if (m < 0) m += n;
  return long(m);
}

static RefBin ref_bin(double v, double mn, double mx, long n, bool periodic) {
  RefBin R;
  long double len = (long double)mx - (long double)mn;
  long double step = (n == 1) ? 1.0L : (periodic ? len / (long double)n : len / (long double)(n - 1));
  long double q = ((long double)v - (long double)mn) / step + 0.5L;
  R.q = q;
  auto map = [&](__int128 k) -> long {
    if (k >= 0 && k < n) return long(k);
    if (!periodic) return -1;
    return modn(k, n);
  };
  if (n == 1 && periodic) {  // one bin, everything wraps into it
    R.cand = {0};
    R.outside = !(q >= 0 && q < 1);
    return R;
  }
  long double band = 1e-9L + 2e-15L * fabsl(q);
  if (!(fabsl(q) < 4.0e18L)) {
    // far outside any representable index: certainly outside the range
    R.outside = true;
    if (periodic)
      R.undetermined = true;
    else
      R.cand = {-1};
    return R;
  }
  long double fl = floorl(q);
  __int128 k = (__int128)(long long)fl;
  R.outside = !(k >= 0 && k < n);
  if (band >= 0.5L) {
    if (periodic) {
      R.undetermined = true;
      return R;
    }
    // non-periodic: candidates are all k' with |k'-q| <= band+1; if they are all outside -> discard
    if (q + band + 1 < 0 || q - band - 1 >= (long double)n) {
      R.cand = {-1};
      return R;
    }
    R.undetermined = true;
    return R;
  }
  long double frac = q - fl;
  std::set<long> c;
  c.insert(map(k));
  if (frac < band) {
    c.insert(map(k - 1));
    R.ambiguous = true;
  } else if (frac > 1.0L - band) {
    c.insert(map(k + 1));
    R.ambiguous = true;
  } else if (frac < 1e-3L || frac > 1.0L - 1e-3L)
    R.near_edge = true;
  R.cand.assign(c.begin(), c.end());
  if (R.cand.size() == 1) R.ambiguous = false;
  return R;
}

// what the implementation's own double expression will do (death prediction only, never used as oracle)
enum Pred { P_FINE, P_WRAP, P_CAST };
static Pred predict(double v, double mn, double step_impl, long n, bool periodic) {
  volatile double t = (v - mn) / step_impl + 0.5;
  double qd = std::floor(t);
  if (!(std::fabs(qd) < 9.2233720368547758e18)) return periodic ? P_CAST : P_FINE;  // x86: cast yields INT64_MIN -> "i<0" -> return
  long long i = (long long)qd;
  if (periodic && i < 0 && ((-i) % n) == 0) return P_WRAP;
  return P_FINE;
}

static std::string show_bins(const std::vector<long> &c) {
  std::string s = "{";
  for (size_t i = 0; i < c.size(); ++i) s += (i ? "," : "") + (c[i] < 0 ? std::string("discard") : std::to_string(c[i]));
  return s + "}";
}

// ------------------------------------------------------------------ HistogramNew
struct VW {
  double v, w;
};

// history: 0 fresh object; 1 the object was initialised with the same range in the OTHER periodic mode and used before;
// 2 it was initialised with another range before.  via_range: unit-weight values go through ProcessRange()
static int g_hist_history = 0;
static bool g_via_range = false;
static Result check_histnew(double mn, double mx, long n, bool periodic, const std::vector<VW> &vals, bool normalize,
                            Result r) {
  vt::HistogramNew h;
  if (g_hist_history == 1) {
    h.setPeriodic(!periodic);
    h.Initialize(mn, mx, n);
    h.Process(mn, 1.0);
    r.cls("object-reinitialised-after-mode-toggle");
  }
  if (g_hist_history == 2) {
    h.setPeriodic(periodic);
    h.Initialize(mn - 1.0, mx + 2.0, n + 3);
    h.Process(mn, 1.0);
    r.cls("object-reinitialised-with-new-range");
  }
  h.setPeriodic(periodic);
  h.Initialize(mn, mx, n);
  const double eps = 2.220446049250313e-16;
  long double len = (long double)mx - (long double)mn;
  long double step_ref = (n == 1) ? 1.0L : (periodic ? len / (long double)n : len / (long double)(n - 1));
  if (h.getNBins() != n || h.data().y().size() != n || h.data().x().size() != n) {
    r.fail("HistogramNew::Initialize/size", fmt("nbins=%ld but table has %ld rows", n, long(h.data().y().size())));
    return r;
  }
  if (std::fabs((long double)h.getStep() - step_ref) > 4 * eps * step_ref) {
    r.fail("HistogramNew::Initialize/step", fmt("getStep() = %.17g, (max-min)/%s = %.17Lg", h.getStep(), periodic ? "n" : "(n-1)", step_ref));
    return r;
  }
  {
    long double M = std::max({fabsl((long double)mn), fabsl((long double)mx), len});
    for (long i = 0; i < n; ++i) {
      long double ex = (long double)mn + (long double)i * step_ref;
      if (fabsl((long double)h.data().x(i) - ex) > (2 * i + 2) * eps * M) {
        r.fail("HistogramNew::Initialize/grid", fmt("bin centre x(%ld) = %.17g, min + k*step = %.17Lg", i, h.data().x(i), ex));
        return r;
      }
      if (h.data().y(i) != 0.0) {
        r.fail("HistogramNew::Initialize/nonzero", fmt("y(%ld) = %g after Initialize", i, h.data().y(i)));
        return r;
      }
    }
  }
  std::vector<double> expected(size_t(n), 0.0);
  double accepted = 0.0;
  bool any_negative_w = false;
  for (const VW &x : vals) {
    RefBin R = ref_bin(x.v, mn, mx, n, periodic);
    Eigen::VectorXd before = h.data().y();
    if (g_via_range && x.w == 1.0) {
      std::vector<double> one{x.v};
      h.ProcessRange(one.begin(), one.end());
    } else
      h.Process(x.v, x.w);
    const Eigen::VectorXd &after = h.data().y();
    if (after.size() != n) {
      r.fail("HistogramNew::Process/resized", "table size changed");
      return r;
    }
    std::vector<long> changed;
    for (long i = 0; i < n; ++i)
      if (after[i] != before[i]) changed.push_back(i);
    if (x.w < 0) any_negative_w = true;
    long landed = -2;  // -2 unknown (weight 0), -1 discarded
    if (x.w != 0.0) {
      if (changed.size() > 1) {
        r.fail("HistogramNew::Process/several-bins", fmt("value %.17g changed %zu bins", x.v, changed.size()));
        return r;
      }
      landed = changed.empty() ? -1 : changed[0];
      if (landed >= 0 && after[landed] != before[landed] + x.w) {
        r.fail("HistogramNew::Process/weight", fmt("value %.17g weight %.17g changed bin %ld by %.17g", x.v, x.w, landed,
                                                    after[landed] - before[landed]));
        return r;
      }
    } else if (!changed.empty()) {
      r.fail("HistogramNew::Process/weight", fmt("value %.17g with weight 0 changed bin %ld", x.v, changed[0]));
      return r;
    }
    if (R.undetermined) {
      if (periodic && landed == -1) {
        r.fail("HistogramNew::Process/periodic-discards",
               fmt("periodic [%g,%g]x%ld: value %.17g (q=%.6Lg) was discarded", mn, mx, n, x.v, R.q));
        return r;
      }
      if (landed >= 0) {
        expected[size_t(landed)] += x.w;
        accepted += x.w;
      }
      continue;
    }
    if (landed == -2) {
      continue;  // weight 0: contributes nothing anywhere
    }
    if (std::find(R.cand.begin(), R.cand.end(), landed) == R.cand.end()) {
      std::string key;
      if (!R.outside)
        key = landed < 0 ? "HistogramNew::Process/in-range-discarded" : "HistogramNew::Process/wrong-bin";
      else if (periodic)
        key = landed < 0 ? "HistogramNew::Process/periodic-discards" : "HistogramNew::Process/periodic-wrap-wrong-bin";
      else
        key = "HistogramNew::Process/outside-accepted";
      r.fail(key, fmt("%s [%.17g,%.17g] x %ld bins: value %.17g has q=(v-min)/step+1/2=%.12Lg -> bin %s, but it %s", periodic ? "periodic" : "non-periodic",
                      mn, mx, n, x.v, R.q, show_bins(R.cand).c_str(),
                      landed < 0 ? "was discarded" : ("landed in bin " + std::to_string(landed)).c_str()));
      return r;
    }
    if (landed >= 0) {
      expected[size_t(landed)] += x.w;
      accepted += x.w;
    }
  }
  // conservation: bins equal the per-value bookkeeping and the sum equals the accepted weight (all exact, dyadic)
  double sum = 0;
  for (long i = 0; i < n; ++i) {
    if (h.data().y(i) != expected[size_t(i)]) {
      r.fail("HistogramNew/conservation", fmt("bin %ld holds %.17g, sum of weights sent there %.17g", i, h.data().y(i), expected[size_t(i)]));
      return r;
    }
    sum += h.data().y(i);
  }
  if (sum != accepted) {
    r.fail("HistogramNew/conservation", fmt("sum of bins %.17g != accepted weight %.17g", sum, accepted));
    return r;
  }
  // Normalize: precondition = non-negative weights, positive total, and area = sum*step (and its inverse) representable
  long double area_ref = (long double)accepted * step_ref;
  if (normalize && !any_negative_w && accepted > 0 && area_ref < 1e290L && area_ref > 1e-290L) {
    r.cls("normalize");
    Eigen::VectorXd before = h.data().y();
    h.Normalize();
    const Eigen::VectorXd &after = h.data().y();
    long double integral = 0;
    for (long i = 0; i < n; ++i) integral += (long double)after[i];
    integral *= step_ref;
    if (fabsl(integral - 1.0L) > (n + 8) * eps) {
      r.fail("HistogramNew::Normalize/integral", fmt("sum*step = %.17Lg after Normalize (n=%ld, step=%.17Lg)", integral, n, step_ref));
      return r;
    }
    for (long i = 0; i < n; ++i) {
      long double ex = (long double)before[i] / ((long double)accepted * step_ref);
      if (fabsl((long double)after[i] - ex) > 8 * eps * fabsl(ex) + 1e-322L) {  // (+ the spacing of subnormal results)
        r.fail("HistogramNew::Normalize/ratios", fmt("bin %ld: %.17g after Normalize, expected %.17Lg", i, after[i], ex));
        return r;
      }
    }
  }
  return r;
}

static Result run_histnew(const json &c) {
  Result r;
  double mn = c.at("min"), mx = c.at("max");
  long n = c.at("nbins");
  bool periodic = c.at("periodic");
  bool normalize = c.value("normalize", false);
  g_hist_history = c.value("history", 0);
  g_via_range = c.value("via_range", false);
  if (g_via_range) r.cls("unit-weights-through-ProcessRange");
  // domain: finite range of positive length whose step is a normal number, n >= 1
  long double len = (long double)mx - (long double)mn;
  if (!(std::isfinite(mn) && std::isfinite(mx)) || !(mx > mn) || n < 1 || n > 100000 || !(len < 1.5e308L) ||
      !(len / (long double)(n + 1) > 1e-300L) || std::fabs(mn) > 1e300 || std::fabs(mx) > 1e300) {
    r.discard = true;
    return r;
  }
  double step_impl = (n == 1) ? 1.0 : (periodic ? (mx - mn) / double(n) : (mx - mn) / (double(n) - 1.0));
  std::vector<VW> vals;
  bool nt = false, will_die = false;
  std::string die_key, die_msg;
  const int wexp = c.value("wexp", 0);
  if (wexp < 0 || wexp > 400) {
    r.discard = true;
    return r;
  }
  if (wexp) r.cls(wexp >= 60 ? "weights-in-tiny-units(<=2^-60)" : "weights-in-small-units");
  for (auto &e : c.at("values")) {
    VW x{e.at(0).get<double>(), e.at(1).get<double>()};
    if (!std::isfinite(x.v) || !std::isfinite(x.w) || std::fabs(x.v) > 1e308) {
      r.discard = true;
      return r;
    }
    // weights must be dyadic multiples of 1/8 below 2^40 so that sums are exact
    if (x.w * 8 != std::floor(x.w * 8) || std::fabs(x.w) > 1.1e12) {
      r.discard = true;
      return r;
    }
    x.w = std::ldexp(x.w, -wexp);  // common power-of-two unit factor: sums stay exact
    Pred p = predict(x.v, mn, step_impl, n, periodic);
    if (p == P_WRAP && known(KEY_WRAP)) {
      r.cls(std::string("excluded-known:") + KEY_WRAP);
      st().stats["histnew"].excluded_known++;
      continue;
    }
    if (p == P_CAST && known(KEY_CAST)) {
      r.cls(std::string("excluded-known:") + KEY_CAST);
      st().stats["histnew"].excluded_known++;
      continue;
    }
    if (p != P_FINE && !will_die) {
      will_die = true;
      die_key = p == P_WRAP ? KEY_WRAP : KEY_CAST;
      die_msg = p == P_WRAP
                    ? fmt("periodic [%.17g,%.17g] x %ld bins, value %.17g: index floor((v-min)/step+0.5) is a negative multiple of nbins, "
                          "wrap formula nbins-((-i)%%nbins) gives nbins (one past the end)",
                          mn, mx, n, x.v)
                    : fmt("periodic [%.17g,%.17g] x %ld bins, value %.17g: floor((v-min)/step+0.5) does not fit Index, cast yields INT64_MIN, "
                          "-i overflows",
                          mn, mx, n, x.v);
    }
    RefBin R = ref_bin(x.v, mn, mx, n, periodic);
    if (R.undetermined)
      r.cls("undetermined-huge");
    else if (R.ambiguous)
      r.cls("ambiguous-edge");
    else {
      if (R.near_edge) {
        r.cls("near-edge-decided");
        nt = true;
      }
      if (R.outside && periodic) {
        r.cls("periodic-outside");
        nt = true;
      }
      if (R.outside && !periodic) r.cls("nonperiodic-outside");
      if (!R.outside) r.cls("in-range");
    }
    if (std::fabs(x.v) >= 1e299) r.cls("value-1e300");
    if (x.w < 0) r.cls("negative-weight");
    if (x.w == 0) r.cls("zero-weight");
    vals.push_back(x);
  }
  r.nontrivial = nt;
  r.cls(periodic ? "periodic" : "non-periodic");
  if (n == 1) r.cls("nbins=1");
  if (n == 2) r.cls("nbins=2");
  if (mn > 0) r.cls("min>0");
  if (mn < 0) r.cls("min<0");
  if (len > 1e100L) r.cls("huge-range");
  if (will_die) {
    r.cls("contained-in-child");
    return contained([&]() { return check_histnew(mn, mx, n, periodic, vals, normalize, r); }, die_key, die_msg);
  }
  return check_histnew(mn, mx, n, periodic, vals, normalize, r);
}

static double dyadic_weight() {
  int k = ri(0, 9);
  if (k < 5) return 1.0;
  if (k < 8) return double(ri(-40, 40)) / 8.0;
  if (k < 9) return 0.0;
  return (rbool() ? 1.0 : -1.0) * 1073741824.0;
}

static json gen_histnew() {
  long n = pick<long>({1, 2, 2, 3, 4, 5, 7, 10, 10, 16, 50, 100, 101, 0, 0, 0});
  if (n == 0) n = ri(1, 1000);
  double mn, len;
  switch (ri(0, 9)) {
    case 0:
    case 1:
      mn = 0;
      len = ri(1, 20);
      break;
    case 2:
    case 3:
    case 4:
      mn = rfrac(-80, 80, 8);
      len = rfrac(1, 400, 8);
      break;
    case 5:
      mn = pick({-1e300, 0.0, -1e12, 1e12, -3e150});
      len = (mn == -1e300) ? 2e300 : pick({1e300, 1e12, 1e150});
      break;
    case 6:
      mn = pick({1.0, -1.0, 0.0});
      len = double(ri(1, 4096)) / 1048576.0 / 1024.0;
      break;
    case 7:
      mn = pick({1e6, -1e6, 123456789.0});
      len = rfrac(1, 64, 8);
      break;
    default:
      mn = double(ri(-314, 314)) / 100.0;
      len = double(ri(1, 700)) / 100.0;
  }
  double mx = mn + len;
  bool periodic = rbool(55);
  double step = (n == 1) ? 1.0 : (periodic ? (mx - mn) / double(n) : (mx - mn) / double(n - 1));
  int m = rcount(1, 40);
  json vals = json::array();
  for (int i = 0; i < m; ++i) {
    double v = 0;
    switch (ri(0, 11)) {
      case 0:  // bin centre
        v = mn + double(ri(0, int(n) - 1)) * step;
        break;
      case 1: {  // exactly on an edge, also a few bins outside
        long k = ri(-2, int(n) + 1);
        v = mn + (double(k) + (rbool() ? 0.5 : -0.5)) * step;
        break;
      }
      case 2: {  // close to an edge but decided: edge +- step*2^-j
        long k = ri(-1, int(n));
        double d = std::ldexp(1.0, -ri(10, 25)) * (rbool() ? 1 : -1);
        v = mn + (double(k) + 0.5 + d) * step;
        break;
      }
      case 3:
      case 4:
        v = mn + (mx - mn) * rreal(0, 1);
        break;
      case 5:  // exact multiples of the period below / above (negative index multiple of nbins in periodic mode)
        v = mn - double(ri(1, 6)) * (mx - mn);
        break;
      case 6:
        v = mn + double(ri(1, 6)) * (mx - mn) + (rbool() ? 0.0 : double(ri(0, int(n) - 1)) * step);
        break;
      case 7:  // a few periods outside, arbitrary phase
        v = mn + (mx - mn) * (double(ri(-8, 8)) + rreal(0, 1));
        break;
      case 8:  // +-1e3 ranges
        v = mn + (mx - mn) * (double(ri(-1000, 1000)) + rfrac(0, 64, 64));
        break;
      case 9:  // astronomically far
        v = pick({1e300, -1e300, 1e308, -1e308, 1e18, -1e18, 1e25, -1e25});
        if (rbool(40)) v = mn + (mx - mn) * pick({1e15, -1e15, 1e17, -1e17, 4e18, -4e18, 1e19, -1e19});
        break;
      case 10:  // denormals and zeros
        v = pick({0.0, -0.0, 4.9406564584124654e-324, -4.9406564584124654e-324, 2.2250738585072014e-308, -2.2250738585072014e-308});
        break;
      default: {  // the ends of the accepted interval in non-periodic mode
        double lo = mn - 0.5 * step, hi = mn + (double(n) - 0.5) * step;
        v = pick({std::nextafter(lo, -1e308), std::nextafter(lo, 1e308), std::nextafter(hi, -1e308), std::nextafter(hi, 1e308), mn, mx});
      }
    }
    if (!std::isfinite(v)) v = v > 0 ? 1e300 : -1e300;
    if (std::fabs(v) > 1e308) v = v > 0 ? 1e308 : -1e308;
    vals.push_back({v, dyadic_weight()});
  }
  // weights in physical units (charges of 1.6e-19 C, masses in kg): one common power-of-two factor, all sums stay exact
  int wexp = rbool(20) ? pick<int>({20, 40, 62, 70, 90, 200}) : 0;
  // Normalize is only defined for non-negative weights: a case that asks for it gets them
  const bool normalize = rbool(40);
  if (normalize)
    for (auto &vw : vals) vw[1] = std::fabs(vw[1].get<double>());
  return json{{"min", mn}, {"max", mx}, {"nbins", n}, {"periodic", periodic}, {"values", vals}, {"normalize", normalize}, {"wexp", wexp},
              {"history", rbool(30) ? ri(1, 2) : 0}, {"via_range", rbool(30)}};
}

// exhaustive small scope: n <= level, integer-step grids, every value on the half-step lattice from 3 periods below to
// 3 periods above (level used as max nbins)
static void enum_histnew(int level, const std::function<bool(const json &)> &emit) {
  for (int periodic = 0; periodic <= 1; ++periodic)
    for (long n = 1; n <= level; ++n)
      for (double mn : {0.0, -3.0, 2.0}) {
        double step = 1.0;
        double len = (n == 1) ? 1.0 : (periodic ? double(n) * step : double(n - 1) * step);
        double mx = mn + len;
        // quarter-step lattice: centres, edges (ambiguous) and quarter points (decided)
        for (long j = -4 * 3 * (n + 1); j <= 4 * 4 * (n + 1); ++j) {
          double v = mn + double(j) * 0.25;
          if (!emit(json{{"min", mn}, {"max", mx}, {"nbins", n}, {"periodic", bool(periodic)}, {"values", json::array({json::array({v, 1.0})})},
                         {"normalize", false}}))
            return;
        }
      }
}

// ------------------------------------------------------------------ legacy Histogram
static Result run_legacy(const json &c) {
  Result r;
  vt::Histogram::options_t op;
  op.n_ = c.at("n");
  op.auto_interval_ = c.at("auto");
  op.extend_interval_ = false;
  op.periodic_ = c.at("periodic");
  op.normalize_ = c.at("normalize");
  op.scale_ = c.at("scale").get<std::string>();
  if (!op.auto_interval_) {
    op.min_ = c.at("min");
    op.max_ = c.at("max");
  }
  long n = op.n_;
  std::vector<std::vector<double>> arrays = c.at("arrays").get<std::vector<std::vector<double>>>();
  std::vector<double> all;
  for (auto &a : arrays)
    for (double v : a) {
      if (!std::isfinite(v) || std::fabs(v) > 1e150) {
        r.discard = true;
        return r;
      }
      all.push_back(v);
    }
  if (n < 2 || n > 100000 || all.empty() || (op.scale_ != "no" && op.scale_ != "bond" && op.scale_ != "angle")) {
    r.discard = true;
    return r;
  }
  double dmin = *std::min_element(all.begin(), all.end()), dmax = *std::max_element(all.begin(), all.end());
  // domain of the scalings (csg_boltzmann: bond lengths >= 0, angles in [0,pi])
  if (op.scale_ == "bond" && dmin < 0) {
    r.discard = true;
    return r;
  }
  if (op.scale_ == "angle" && (dmin < 0 || dmax > 3.14159265358979)) {
    r.discard = true;
    return r;
  }
  bool constant = (dmin == dmax);
  double rmin = op.auto_interval_ ? dmin : op.min_, rmax = op.auto_interval_ ? dmax : op.max_;
  // the scalings divide by r^2 / sin(alpha) at the grid points and patch r=0 / sin=0 from the NEXT grid point: their
  // domain is a range of positive length inside r >= 0 (bond) resp. [0,pi] (angle)
  if (op.scale_ != "no" && (constant || rmin < 0 || (op.scale_ == "angle" && rmax > 3.14159265358979))) {
    r.discard = true;
    return r;
  }
  if (!op.auto_interval_ && !(rmax > rmin)) {
    r.discard = true;
    return r;
  }
  // documented exclusion: zero-length range with periodic wrap (interval 0 -> index NaN, wrap loop does not end);
  // values astronomically outside a fixed periodic range (same loop runs |index|/n times)
  if (op.periodic_) {
    if (op.auto_interval_ && constant) {
      r.discard = true;
      return r;
    }
    if (!op.auto_interval_) {
      double interval = (rmax - rmin) / double(n - 1);
      for (double v : all)
        if (std::fabs((v - rmin) / interval) > 1e7) {
          r.discard = true;
          return r;
        }
    }
  }
  // the defect class: automatic range of data whose maximum is below the smallest positive normal double
  bool max_init_class = op.auto_interval_ && dmax < std::numeric_limits<double>::min();
  if (max_init_class && known(KEY_LEGACY_MAX)) {
    st().stats["legacy"].excluded_known++;
    r.discard = true;
    return r;
  }
  r.cls(op.auto_interval_ ? "auto-range" : "fixed-range");
  r.cls(dmax < 0 ? "all-negative" : (dmin > 0 ? "all-positive" : (constant ? "constant-zero" : "mixed-or-touching-zero")));
  if (constant) r.cls("constant");
  r.cls("scale:" + op.scale_);
  if (op.periodic_) r.cls("periodic");
  if (op.normalize_) r.cls("normalize");
  r.nontrivial = op.auto_interval_ && !constant && dmin < 0;  // automatic range over data with negative values

  vt::DataCollection<double> dc;
  vt::DataCollection<double>::selection sel;
  for (size_t i = 0; i < arrays.size(); ++i) {
    auto *a = dc.CreateArray("a" + std::to_string(i));
    for (double v : arrays[i]) a->push_back(v);
    sel.push_back(a);
  }
  vt::Histogram h(op);
  if (c.value("prior", false)) {
    // history: the same object has already processed another (benign) data set; the histogram of a data set must
    // not depend on what the object held before
    r.cls("object-reused");
    vt::DataCollection<double>::selection psel;
    auto *pa = dc.CreateArray("prior");
    for (double v : {0.5, 1.0, 2.0, 2.5, 2.5}) pa->push_back(v);
    psel.push_back(pa);
    h.ProcessData(&psel);
  }
  h.ProcessData(&sel);

  if (long(h.getPdf().size()) != n) {
    r.fail("Histogram::ProcessData/size", fmt("pdf has %zu entries, n=%ld", h.getPdf().size(), n));
    return r;
  }
  if (op.auto_interval_) {
    if (h.getMin() != dmin || h.getMax() != dmax) {
      r.fail(max_init_class ? KEY_LEGACY_MAX : "Histogram::ProcessData/auto-range",
             fmt("automatic range of data in [%.17g, %.17g] is [%.17g, %.17g]", dmin, dmax, h.getMin(), h.getMax()));
      return r;
    }
  }
  if (constant && op.auto_interval_) return r;  // zero-length range: no bins to speak of
  // normalisation for every scaling / periodic flavour: whatever the bins hold, sum(pdf) * interval = 1 (all terms are
  // non-negative, so the sum is well conditioned: n + 8 roundings)
  if (op.normalize_ && n >= 2) {
    const std::vector<double> &q = h.getPdf();
    bool usable = true;
    long double sum = 0;
    for (double v : q) {
      if (!std::isfinite(v) || v < 0) usable = false;
      sum += v;
    }
    long double interval = ((long double)h.getMax() - (long double)h.getMin()) / (long double)(n - 1);
    if (usable && sum > 0 && interval > 0) {
      r.cls("normalised-integral-checked(scale:" + op.scale_ + (op.periodic_ ? ",periodic)" : ")"));
      if (fabsl(sum * interval - 1.0L) > (n + 8) * 2.3e-16L) {
        r.fail("Histogram::Normalize/integral", fmt("scale=%s%s: sum*interval = %.17Lg (n=%ld)", op.scale_.c_str(), op.periodic_ ? " periodic" : "",
                                                   sum * interval, n));
        return r;
      }
    } else
      r.cls("normalised-integral-not-defined(empty or non-finite bins)");
  }
  // bin contents: only where the statement defines them (no scaling, non-periodic)
  if (op.scale_ == "no" && !op.periodic_) {
    std::vector<long> lo(size_t(n), 0), amb(size_t(n), 0);
    long accepted_lo = 0, accepted_amb = 0;
    bool any_amb = false;
    for (double v : all) {
      RefBin R = ref_bin(v, rmin, rmax, n, false);
      if (R.undetermined) {
        any_amb = true;
        continue;
      }
      if (R.cand.size() == 1) {
        if (R.cand[0] >= 0) {
          lo[size_t(R.cand[0])]++;
          accepted_lo++;
        }
      } else {
        any_amb = true;
        bool can_discard = false;
        for (long b : R.cand)
          if (b >= 0)
            amb[size_t(b)]++;
          else
            can_discard = true;
        accepted_amb++;
        if (!can_discard) accepted_lo++;
      }
    }
    if (any_amb) r.cls("ambiguous-edge");
    const std::vector<double> &pdf = h.getPdf();
    if (!op.normalize_) {
      double sum = 0;
      for (long i = 0; i < n; ++i) {
        sum += pdf[size_t(i)];
        if (pdf[size_t(i)] < double(lo[size_t(i)]) || pdf[size_t(i)] > double(lo[size_t(i)] + amb[size_t(i)])) {
          r.fail("Histogram::ProcessData/bin", fmt("range [%.17g,%.17g] n=%ld: bin %ld holds %.17g, expected %ld..%ld", rmin, rmax, n, i,
                                                    pdf[size_t(i)], lo[size_t(i)], lo[size_t(i)] + amb[size_t(i)]));
          return r;
        }
      }
      if (sum < double(accepted_lo) || sum > double(accepted_lo + accepted_amb)) {
        r.fail("Histogram::ProcessData/conservation", fmt("sum of bins %.17g, accepted values %ld..%ld", sum, accepted_lo, accepted_lo + accepted_amb));
        return r;
      }
    } else if (accepted_lo > 0) {
      long double interval = ((long double)rmax - (long double)rmin) / (long double)(n - 1);
      long double integral = 0;
      for (long i = 0; i < n; ++i) integral += pdf[size_t(i)];
      integral *= interval;
      if (fabsl(integral - 1.0L) > (n + 8) * 2.3e-16L) {
        r.fail("Histogram::Normalize/integral", fmt("sum*interval = %.17Lg", integral));
        return r;
      }
      if (!any_amb)
        for (long i = 0; i < n; ++i) {
          long double ex = (long double)lo[size_t(i)] / ((long double)accepted_lo * interval);
          if (fabsl(pdf[size_t(i)] - ex) > 8 * 2.3e-16L * fabsl(ex)) {
            r.fail("Histogram::Normalize/ratios", fmt("bin %ld: %.17g, expected %.17Lg", i, pdf[size_t(i)], ex));
            return r;
          }
        }
    }
  }
  return r;
}

static json gen_legacy() {
  bool excl = known(KEY_LEGACY_MAX);
  std::string scale = pick<std::string>({"no", "no", "no", "bond", "angle"});
  int sign = ri(0, 4);  // 0 all-positive, 1 all-negative, 2 mixed, 3 constant, 4 non-positive touching zero
  if (scale != "no") sign = 0;
  bool autor = rbool(75);
  if (excl && autor && (sign == 1 || sign == 4)) sign = pick({0, 2});
  long n = pick<long>({2, 3, 5, 11, 101, 0});
  if (n == 0) n = ri(2, 300);
  int na = ri(1, 3);
  json arrays = json::array();
  double cval = rfrac(-400, 400, 8);
  if (scale == "angle") cval = rfrac(1, 25, 8);
  if (scale == "bond") cval = rfrac(0, 80, 8);
  if (excl && autor && cval <= 0) cval = 1.0 - cval;
  for (int a = 0; a < na; ++a) {
    int m = rcount(a == 0 ? 1 : 0, 30);
    json arr = json::array();
    for (int i = 0; i < m; ++i) {
      double v;
      if (scale == "angle")
        v = rfrac(0, 25, 8);  // 0..3.125 < pi
      else if (scale == "bond")
        v = rfrac(0, 80, 8);
      else if (sign == 0)
        v = rfrac(1, 800, 16);
      else if (sign == 1)
        v = -rfrac(1, 800, 16);
      else if (sign == 4)
        v = -rfrac(0, 80, 16);
      else
        v = rfrac(-400, 400, 16);
      if (sign == 3) v = cval;
      arr.push_back(v);
    }
    arrays.push_back(arr);
  }
  json c{{"n", n},       {"auto", autor},          {"periodic", rbool(25)}, {"normalize", rbool(50)},
         {"scale", scale}, {"arrays", arrays}, {"prior", rbool(30)}};
  if (!autor) {
    double mn = rfrac(-80, 80, 8), len = rfrac(1, 160, 8);
    if (scale == "bond") mn = rfrac(0, 40, 8);
    if (scale == "angle") {
      mn = rfrac(0, 12, 8);
      len = rfrac(1, 12, 8);
    }
    c["min"] = mn;
    c["max"] = mn + len;
  }
  return c;
}

int main(int argc, char **argv) {
  std::vector<Sub> subs;
  subs.push_back({"legacy", gen_legacy, run_legacy, 1.0, 100, nullptr});
  subs.push_back({"histnew", gen_histnew, run_histnew, 4.0, 100, enum_histnew});
  return harness_main(argc, argv, "C13", subs);
}
