// C12 — tables and splines interpolate, fit and resample faithfully (library part).
//  interp    : S(x_k)=y_k, continuity of S (and S' for cubic/Akima) across knots by one-sided evaluation, natural cubic
//              end curvature zero, periodic: equal value / slope / (cubic) curvature at the two ends
//  line      : straight-line data reproduced everywhere inside the grid (natural boundaries)
//  linearity : S[a y + b z] = a S[y] + b S[z]   (linear, cubic)
//  fit       : CubicSpline::Fit / LinSpline::Fit reproduce functions of the spline space of the fit grid, satisfy the
//              normal equations on the constrained space (KKT) and the smoothness constraints
//  smooth    : Table::Smooth keeps the end points and leaves straight-line data unchanged
#include "h_c12_gen.h"

#include <votca/tools/table.h>

using namespace vv;
using namespace c12;
using votca::Index;
namespace vt = votca::tools;

static std::string cname_of(const std::string &type) {
  return type == "linear" ? "LinSpline" : (type == "cubic" ? "CubicSpline" : "AkimaSpline");
}

// per data set: everything the tolerance model needs
struct Model {
  Grid g;
  std::vector<double> y;
  double Y = 0, M = 0;  // max|y|, max|segment slope|
  std::vector<ld> f2;   // reference second derivatives (cubic)
  CubicTol ct;
  std::string type;
  double h(size_t j) const { return g.x[j + 1] - g.x[j]; }
  // bound on the error of the value / derivative computed on piece j
  double tval(size_t j) const {
    if (type == "linear") return 16 * EPS * (Y + M * (g.xabs + g.hmax));
    if (type == "cubic") return ct.val(h(j));
    return 64 * EPS * (Y + 16 * h(j) * M);
  }
  double tder(size_t j) const {
    if (type == "linear") return 16 * EPS * M;
    if (type == "cubic") return ct.der(h(j));
    return 64 * EPS * 16 * M;
  }
  // bounds on |S'| and |S''| on piece j (for the x-rounding term of one-sided evaluations)
  double bslope(size_t j) const {
    if (type == "cubic") return M + h(j) * (ct.F2 + ct.dF2);
    return 16 * M;
  }
  double bcurv(size_t j) const {
    if (type == "cubic") return ct.F2 + ct.dF2;
    if (type == "linear") return 0;
    return 6 * 32 * M / h(j);
  }
};

static Model make_model(const std::string &type, const std::vector<double> &x, const std::vector<double> &y, bool periodic) {
  Model m;
  m.type = type;
  m.g = analyse(x);
  m.y = y;
  m.Y = vmaxabs(y);
  for (size_t i = 0; i + 1 < x.size(); ++i) m.M = std::max(m.M, std::fabs((y[i + 1] - y[i]) / (x[i + 1] - x[i])));
  if (type == "cubic" && x.size() >= 3) {
    m.f2 = ref_f2(x, y, periodic);
    m.ct = cubic_tol(m.g, y, m.f2);
  }
  return m;
}

static bool all_finite(const std::vector<double> &v) {
  for (double d : v)
    if (!std::isfinite(d)) return false;
  return true;
}

// second derivative at the left end of piece j (side=0) or the right end (side=1), from three values of S' (exact for
// piecewise quadratics S')
static double curvature(vt::Spline &sp, const Model &m, size_t j, int side) {
  // nodes at the end point itself and h/4, h/2 into the piece: no extrapolation, all nodes belong to piece j for
  // getInterval (the right end of the LAST piece does; side=1 is only used there)
  double h = m.g.x[j + 1] - m.g.x[j];
  double a = side == 0 ? m.g.x[j] : m.g.x[j + 1], hs = side == 0 ? h : -h;
  volatile double xq = a + hs / 4, xh = a + hs / 2;
  ld d0 = sp.CalculateDerivative(a), dq = sp.CalculateDerivative(xq), d1 = sp.CalculateDerivative(xh);
  ld tq = (ld)xq - (ld)a, th = (ld)xh - (ld)a;
  // quadratic q(t) = d0 + c1 t + c2 t^2 through (0,d0),(tq,dq),(th,d1); S''(a) = c1
  ld c2 = ((d1 - d0) / th - (dq - d0) / tq) / (th - tq);
  ld c1 = (dq - d0) / tq - c2 * tq;
  return double(c1);
}
// noise of curvature(): second difference with spacing h/4 of values S' carrying an error of 32 eps (Y/h + h F2)
static double tcurv(const Model &m, size_t j) {
  double h = m.h(j);
  if (m.type == "cubic") return 4096 * EPS * (m.Y / (h * h) + m.ct.F2 + m.ct.dF2) + 2 * m.ct.dF2;
  return 4096 * EPS * 16 * m.M / h;
}

// =================================================================== interp
static Result run_interp(const json &c) {
  Result r;
  std::string type = c.at("type"), bc = c.at("bc");
  std::vector<double> x = c.at("x").get<std::vector<double>>(), y = c.at("y").get<std::vector<double>>();
  Grid g = analyse(x);
  if (!g.valid || x.size() != y.size() || !all_finite(y)) {
    r.discard = true;
    return r;
  }
  const bool periodic = bc == "periodic";
  if (periodic && (type == "linear" || y.front() != y.back())) {
    r.discard = true;
    return r;
  }
  const std::string cn = cname_of(type);
  const size_t n = x.size();
  auto sp = make_spline(type, bc);
  if (n < min_points(type)) {
    // documented rejection: std::invalid_argument
    try {
      sp->Interpolate(to_eigen(x), to_eigen(y));
      r.fail(cn + "::Interpolate/too-few-points", fmt("%zu points accepted although the minimum is %zu", n, min_points(type)));
    } catch (const std::invalid_argument &) {
      r.cls("rejected-too-few-points");
    }
    return r;
  }
  const std::string pkey = "CubicSpline::Interpolate/periodic";
  if (type == "cubic" && periodic && known(pkey)) {
    r.cls("excluded-known:" + pkey);
    return r;
  }
  // history: the same spline object has interpolated other data before (same / other number of points, same / other
  // boundary condition); the result must be that of a fresh object
  int prior = c.value("prior", 0);
  if (prior) {
    std::vector<double> xp = x, yp(y.size());
    for (size_t i = 0; i < yp.size(); ++i) yp[i] = 0.37 * double((i * 7 + 3) % 11) - 1.0 + 0.25 * y[y.size() - 1 - i];
    if (prior == 3 && n > min_points(type) + 1) {  // other number of points
      xp.pop_back();
      yp.pop_back();
    }
    bool pper = periodic;
    if (prior == 2 && type != "linear") pper = !periodic;  // other boundary condition
    if (pper) yp.back() = yp.front();
    if (all_finite(yp)) {
      try {
        sp->setBC(pper ? vt::Spline::splinePeriodic : vt::Spline::splineNormal);
        sp->Interpolate(to_eigen(xp), to_eigen(yp));
        if (prior == 4) sp->Interpolate(to_eigen(xp), to_eigen(yp));
      } catch (const std::exception &) {
      }
      sp->setBC(periodic ? vt::Spline::splinePeriodic : vt::Spline::splineNormal);
      r.cls(fmt("prior-use:%d(%s->%s)", prior, pper ? "periodic" : "natural", periodic ? "periodic" : "natural"));
    }
  }
  sp->Interpolate(to_eigen(x), to_eigen(y));
  Model m = make_model(type, x, y, periodic);
  r.cls(type + "/" + bc);
  r.cls(g.uniform ? "uniform" : (g.hmax / g.hmin > 50 ? "nonuniform>50" : "nonuniform"));
  r.cls(std::string("y:") + c.value("ykind", "?"));
  if (n > 60) r.cls("n>60");
  r.nontrivial = !g.uniform || n >= 3;
  // every failure of the periodic cubic spline has one root cause (singular system): one key
  auto key = [&](const std::string &k) { return (type == "cubic" && periodic) ? pkey : cn + "::" + k; };

  // (a) interpolation at every knot
  for (size_t k = 0; k < n; ++k) {
    double s = sp->Calculate(x[k]);
    size_t j = std::min(k, n - 2);
    double tol = m.tval(j) + (k > 0 ? m.tval(k - 1) : 0);
    if (!std::isfinite(s) || !(std::fabs(s - y[k]) <= tol)) {
      r.fail(key("Interpolate/knot-value"), fmt("S(x_%zu=%.17g)=%.17g, data value %.17g (tol %.3g, n=%zu)", k, x[k], s, y[k], tol, n));
      return r;
    }
  }
  // (b) continuity across interior knots by one-sided evaluation
  for (size_t k = 1; k + 1 < n; ++k) {
    double xl = std::nextafter(x[k], -HUGE_VAL), ulp = x[k] - xl;
    double sl = sp->Calculate(xl), sr = sp->Calculate(x[k]);
    double tol = m.tval(k - 1) + m.tval(k) + 2 * ulp * std::max(m.bslope(k - 1), m.bslope(k));
    if (!(std::fabs(sl - sr) <= tol)) {
      r.fail(key("continuity"), fmt("S jumps at knot %zu (x=%.17g): %.17g | %.17g (tol %.3g)", k, x[k], sl, sr, tol));
      return r;
    }
    if (type != "linear") {
      double dl = sp->CalculateDerivative(xl), dr = sp->CalculateDerivative(x[k]);
      double told = m.tder(k - 1) + m.tder(k) + 2 * ulp * std::max(m.bcurv(k - 1), m.bcurv(k));
      if (!(std::fabs(dl - dr) <= told)) {
        r.fail(key("derivative-continuity"), fmt("S' jumps at knot %zu (x=%.17g): %.17g | %.17g (tol %.3g)", k, x[k], dl, dr, told));
        return r;
      }
    }
  }
  // (c) natural cubic: zero curvature at both ends
  if (type == "cubic" && !periodic) {
    double c0 = curvature(*sp, m, 0, 0), c1 = curvature(*sp, m, n - 2, 1);
    double t0 = tcurv(m, 0), t1 = tcurv(m, n - 2);
    if (!(std::fabs(c0) <= t0) || !(std::fabs(c1) <= t1)) {
      r.fail("CubicSpline::Interpolate/natural-end-curvature", fmt("S''(x_0)=%.6g (tol %.3g), S''(x_N)=%.6g (tol %.3g)", c0, t0, c1, t1));
      return r;
    }
  }
  // (d) periodic: equal slope and (cubic) curvature at the two ends (equal value is (a) with y_0 == y_N)
  if (periodic) {
    double d0 = sp->CalculateDerivative(x[0]), dN = sp->CalculateDerivative(x[n - 1]);
    double told = m.tder(0) + m.tder(n - 2);
    bool ambiguous = false;
    if (type == "akima") {
      // slope weights |m4-m3|, |m2-m1| around the joint (m2, m3 = last and first segment slope); when both vanish the
      // Akima slope is any value between m2 and m3 (0/0 guarded by a tie rule): not asserted
      auto sl = [&](size_t i) { return (y[i + 1] - y[i]) / (x[i + 1] - x[i]); };
      double m1 = sl(n - 3), m2 = sl(n - 2), m3 = sl(0), m4 = sl(1);
      double w = std::fabs(m4 - m3) + std::fabs(m2 - m1);
      if (w <= 1e-6 * (std::fabs(m2) + std::fabs(m3)) + 1e-300 && std::fabs(m2 - m3) > told) ambiguous = true;
      told += 1e-9 * m.M;
    }
    std::string skey = type == "cubic" ? pkey : "AkimaSpline::Interpolate/periodic-slope";
    if (ambiguous)
      r.cls("ambiguous-akima-weights");
    else if (known(skey))
      r.cls("excluded-known:" + skey);
    else if (!(std::fabs(d0 - dN) <= told)) {
      r.fail(skey, fmt("periodic %s spline, %zu points: S'(x_0)=%.12g but S'(x_N)=%.12g (tol %.3g)", type.c_str(), n, d0, dN, told));
      return r;
    }
    if (type == "cubic") {
      double c0 = curvature(*sp, m, 0, 0), c1 = curvature(*sp, m, n - 2, 1);
      double t = tcurv(m, 0) + tcurv(m, n - 2);
      if (!(std::fabs(c0 - c1) <= t)) {
        r.fail(pkey, fmt("periodic cubic spline: S''(x_0)=%.12g but S''(x_N)=%.12g (tol %.3g)", c0, c1, t));
        return r;
      }
    }
  }
  // generated evaluation points (inside, +-1ulp at knots, slightly outside): executed for the sanitizer / asserts
  for (double xe : c.at("ev").get<std::vector<double>>()) {
    volatile double s = sp->Calculate(xe), d = sp->CalculateDerivative(xe);
    (void)s;
    (void)d;
    r.cls(xe < x[0] || xe > x[n - 1] ? "eval-outside" : "eval-inside");
  }
  return r;
}

static json gen_interp() {
  json c;
  std::string type = pick<std::string>({"linear", "cubic", "cubic", "akima", "akima"});
  std::string bc = (type != "linear" && rbool(35)) ? "periodic" : "natural";
  int lo = int(min_points(type));
  int n = rbool(3) ? ri(2, lo) : gen_npoints(lo);
  std::string gk, yk;
  std::vector<double> x = gen_grid(n, gk);
  std::vector<double> y = gen_ordinates(x, yk);
  if (bc == "periodic") y.back() = y.front();
  c["type"] = type;
  c["bc"] = bc;
  c["x"] = x;
  c["y"] = y;
  c["gridkind"] = gk;
  c["ykind"] = yk;
  c["ev"] = gen_eval(x);
  if (rbool(35)) c["prior"] = ri(1, 4);
  return c;
}

// =================================================================== line
static Result run_line(const json &c) {
  Result r;
  std::string type = c.at("type");
  std::vector<double> x = c.at("x").get<std::vector<double>>();
  double a = c.at("a"), b = c.at("b");
  Grid g = analyse(x);
  if (!g.valid || x.size() < min_points(type) || !std::isfinite(a) || !std::isfinite(b)) {
    r.discard = true;
    return r;
  }
  const size_t n = x.size();
  std::vector<double> y(n);
  for (size_t k = 0; k < n; ++k) y[k] = a * x[k] + b;
  auto sp = make_spline(type, "natural");
  sp->Interpolate(to_eigen(x), to_eigen(y));
  Model m = make_model(type, x, y, false);
  r.cls(type);
  r.cls(g.uniform ? "uniform" : (g.hmax / g.hmin > 50 ? "nonuniform>50" : "nonuniform"));
  r.nontrivial = (!g.uniform || n >= 3) && a != 0;
  const double Yp = std::fabs(a) * g.xabs + std::fabs(b);  // the data carry a rounding error of eps*Yp
  const double rho = g.hmax / g.hmin;
  auto tol = [&](size_t j) {
    if (type == "linear") return 16 * EPS * (Yp + std::fabs(a) * (g.xabs + g.hmax));
    if (type == "cubic") return m.tval(j) + 4 * EPS * Yp;
    return 512 * EPS * Yp * rho * rho;
  };
  std::vector<double> pts;
  for (size_t k = 0; k < n; ++k) {
    pts.push_back(x[k]);
    if (k + 1 < n) {
      pts.push_back(0.5 * (x[k] + x[k + 1]));
      pts.push_back(std::nextafter(x[k + 1], -HUGE_VAL));
    }
  }
  for (double xe : c.at("ev").get<std::vector<double>>())
    if (xe >= x[0] && xe <= x[n - 1]) pts.push_back(xe);
  for (double xe : pts) {
    double s = sp->Calculate(xe);
    ld ex = (ld)a * (ld)xe + (ld)b;
    size_t j = ref_interval(x, xe);
    double t = tol(j) + (j > 0 ? tol(j - 1) : 0);
    if (!std::isfinite(s) || !(fabsl((ld)s - ex) <= t)) {
      r.fail(cname_of(type) + "::Interpolate/straight-line", fmt("data on y=%.10g x%+.10g, %zu points: S(%.17g)=%.17g, line %.17Lg (tol %.3g)", a, b, n, xe, s, ex, t));
      return r;
    }
  }
  return r;
}

static json gen_line() {
  json c;
  std::string type = pick<std::string>({"linear", "cubic", "akima"});
  std::string gk;
  std::vector<double> x = gen_grid(gen_npoints(int(min_points(type))), gk);
  c["type"] = type;
  c["x"] = x;
  c["gridkind"] = gk;
  c["a"] = rbool(10) ? 0.0 : (rbool(50) ? rfrac(-64, 64, 8) : (rbool(50) ? 1.0 : -1.0) * rlog(-4, 4));
  c["b"] = rbool(50) ? rfrac(-64, 64, 8) : (rbool(50) ? 1.0 : -1.0) * rlog(-3, 5);
  c["ev"] = gen_eval(x);
  return c;
}

// =================================================================== linearity
static Result run_linearity(const json &c) {
  Result r;
  std::string type = c.at("type"), bc = c.at("bc");
  std::vector<double> x = c.at("x").get<std::vector<double>>(), y = c.at("y").get<std::vector<double>>(),
                      z = c.at("z").get<std::vector<double>>();
  double al = c.at("alpha"), be = c.at("beta");
  Grid g = analyse(x);
  const size_t n = x.size();
  if (!g.valid || y.size() != n || z.size() != n || n < min_points(type) || type == "akima" || !all_finite(y) || !all_finite(z)) {
    r.discard = true;
    return r;
  }
  const bool periodic = bc == "periodic";
  if (periodic && (type != "cubic" || y.front() != y.back() || z.front() != z.back())) {
    r.discard = true;
    return r;
  }
  if (periodic && known("CubicSpline::Interpolate/periodic")) {
    r.cls("excluded-known:CubicSpline::Interpolate/periodic");
    return r;
  }
  std::vector<double> w(n);
  for (size_t k = 0; k < n; ++k) w[k] = al * y[k] + be * z[k];
  if (periodic) w.back() = w.front();
  auto sy = make_spline(type, bc), sz = make_spline(type, bc), sw = make_spline(type, bc);
  sy->Interpolate(to_eigen(x), to_eigen(y));
  sz->Interpolate(to_eigen(x), to_eigen(z));
  sw->Interpolate(to_eigen(x), to_eigen(w));
  Model my = make_model(type, x, y, periodic), mz = make_model(type, x, z, periodic), mw = make_model(type, x, w, periodic);
  // the combination is formed in double: w carries eps(|a|Y+|b|Z); model it as a data set of that size
  std::vector<double> wb(n);
  for (size_t k = 0; k < n; ++k) wb[k] = std::fabs(al) * my.Y + std::fabs(be) * mz.Y;
  Model mr = make_model(type, x, wb, false);
  r.cls(type + "/" + bc);
  r.cls(g.uniform ? "uniform" : (g.hmax / g.hmin > 50 ? "nonuniform>50" : "nonuniform"));
  r.nontrivial = (!g.uniform || n >= 3) && al != 0 && be != 0;
  std::vector<double> pts;
  for (size_t k = 0; k < n; ++k) {
    pts.push_back(x[k]);
    if (k + 1 < n) pts.push_back(x[k] + 0.375 * (x[k + 1] - x[k]));
  }
  for (double xe : c.at("ev").get<std::vector<double>>()) pts.push_back(xe);
  const std::string key = periodic ? "CubicSpline::Interpolate/periodic" : cname_of(type) + "::Interpolate/linearity";
  for (double xe : pts) {
    size_t j = ref_interval(x, xe);
    // outside the grid the end polynomial is continued: the error bound grows like (distance/h)^3
    double hj = x[j + 1] - x[j];
    double ext = std::max({1.0, (x[j] - xe) / hj + 1, (xe - x[j + 1]) / hj + 1});
    double amp = ext * ext * ext;
    auto tv = [&](const Model &m) { return m.tval(j) + (j > 0 ? m.tval(j - 1) : 0); };
    double tol = amp * (tv(mw) + std::fabs(al) * tv(my) + std::fabs(be) * tv(mz) + tv(mr));
    ld lhs = sw->Calculate(xe), rhs = (ld)al * (ld)sy->Calculate(xe) + (ld)be * (ld)sz->Calculate(xe);
    if (!(fabsl(lhs - rhs) <= tol)) {
      r.fail(key, fmt("S[a y+b z](%.17g)=%.15Lg, a S[y]+b S[z]=%.15Lg (a=%g b=%g, tol %.3g, n=%zu)", xe, lhs, rhs, al, be, tol, n));
      return r;
    }
    if (type == "cubic") {
      auto td = [&](const Model &m) { return m.tder(j) + (j > 0 ? m.tder(j - 1) : 0); };
      double told = amp * (td(mw) + std::fabs(al) * td(my) + std::fabs(be) * td(mz) + td(mr));
      ld l2 = sw->CalculateDerivative(xe), r2 = (ld)al * (ld)sy->CalculateDerivative(xe) + (ld)be * (ld)sz->CalculateDerivative(xe);
      // exactly at a knot all three splines use the same piece, so the comparison is well defined
      if (!(fabsl(l2 - r2) <= told)) {
        r.fail(key, fmt("S'[a y+b z](%.17g)=%.15Lg, a S'[y]+b S'[z]=%.15Lg (tol %.3g)", xe, l2, r2, told));
        return r;
      }
    }
  }
  return r;
}

static json gen_linearity() {
  json c;
  std::string type = pick<std::string>({"linear", "cubic", "cubic"});
  std::string bc = (type == "cubic" && rbool(25)) ? "periodic" : "natural";
  std::string gk, yk, zk;
  std::vector<double> x = gen_grid(gen_npoints(int(min_points(type))), gk);
  std::vector<double> y = gen_ordinates(x, yk), z = gen_ordinates(x, zk);
  if (bc == "periodic") {
    y.back() = y.front();
    z.back() = z.front();
  }
  c["type"] = type;
  c["bc"] = bc;
  c["x"] = x;
  c["y"] = y;
  c["z"] = z;
  c["alpha"] = rbool(8) ? 0.0 : rfrac(-64, 64, 16);
  c["beta"] = rbool(8) ? 0.0 : (rbool(70) ? rfrac(-64, 64, 16) : rlog(-3, 3));
  c["ev"] = gen_eval(x);
  return c;
}

// =================================================================== fit
// basis of the constrained space on the fit grid: cardinal natural cubic splines / hat functions, evaluated in long double
static std::vector<ld> basis_at(const std::string &type, const std::vector<double> &knots, size_t j, const std::vector<double> &pts) {
  std::vector<ld> out(pts.size());
  std::vector<double> e(knots.size(), 0.0);
  e[j] = 1.0;
  std::vector<ld> f(e.begin(), e.end()), f2(knots.size(), 0);
  if (type == "cubic" && knots.size() >= 3) f2 = ref_f2(knots, e, false);
  for (size_t i = 0; i < pts.size(); ++i) out[i] = ref_eval(knots, f, f2, pts[i]);
  return out;
}

static Result run_fit(const json &c) {
  Result r;
  std::string type = c.at("type");
  std::vector<double> fg = c.at("fitgrid").get<std::vector<double>>();  // min, step, max
  std::vector<double> fr = c.at("frac").get<std::vector<double>>();     // data abscissae as (interval + fraction)
  std::vector<double> kv = c.at("knotvalues").get<std::vector<double>>();
  std::vector<double> noise = c.at("noise").get<std::vector<double>>();
  if (type == "akima" || !(fg[1] > 0) || !(fg[2] - fg[0] >= fg[1]) || (fg[2] - fg[0]) / fg[1] > 400 || !all_finite(kv) || !all_finite(noise)) {
    r.discard = true;
    return r;
  }
  auto sp = make_spline(type, "natural");
  sp->GenerateGrid(fg[0], fg[2], fg[1]);
  std::vector<double> knots;
  for (Index i = 0; i < sp->getX().size(); ++i) knots.push_back(sp->getX()(i));
  Grid kg = analyse(knots);
  const size_t nk = knots.size();
  // the grid must be the requested one: first = min, last = max (pinned), interior = min + k*step
  if (nk >= 1 && (knots.front() != fg[0] || knots.back() != fg[2])) {
    r.fail("Spline::GenerateGrid", fmt("grid %.17g:%.17g:%.17g starts at %.17g and ends at %.17g", fg[0], fg[1], fg[2], knots.front(), knots.back()));
    return r;
  }
  if (!kg.valid || nk < (type == "cubic" ? 3u : 2u) || kv.size() < nk || kg.hmin < 0.05 * kg.hmax) {
    r.discard = true;  // last (pinned) interval degenerate or too few knots: outside the generated domain
    return r;
  }
  for (size_t k = 0; k + 1 < nk; ++k) {
    double ek = double((ld)fg[0] + (ld)k * (ld)fg[1]);
    if (!(std::fabs(knots[k] - ek) <= 64 * EPS * double(nk) * std::max(std::fabs(fg[0]), std::fabs(fg[2])))) {
      r.fail("Spline::GenerateGrid", fmt("knot %zu = %.17g, requested grid point %.17g", k, knots[k], ek));
      return r;
    }
  }
  kv.resize(nk);
  // target function in the spline space of the fit grid
  std::vector<ld> f(kv.begin(), kv.end()), f2(nk, 0);
  if (type == "cubic") f2 = ref_f2(knots, kv, false);
  // data abscissae: fr[i] = piece + fraction, strictly increasing
  std::vector<double> xd, yd;
  std::vector<int> per_piece(nk - 1, 0);
  double ynoise = 0;
  for (size_t i = 0; i < fr.size(); ++i) {
    size_t j = size_t(std::floor(fr[i]));
    if (j >= nk - 1) continue;
    double t = fr[i] - double(j);
    double xv = knots[j] + t * (knots[j + 1] - knots[j]);
    if (!xd.empty() && !(xv > xd.back() + 0.04 * kg.hmin)) continue;
    xd.push_back(xv);
    double nz = i < noise.size() ? noise[i] : 0.0;
    ynoise = std::max(ynoise, std::fabs(nz));
    yd.push_back(double(ref_eval(knots, f, f2, xv) + (ld)nz));
    per_piece[j]++;
  }
  for (int cnt : per_piece)
    if (cnt < 2) {
      r.discard = true;  // precondition: every interval of the fit grid holds at least two well separated data points
      return r;
    }
  try {
    sp->Fit(to_eigen(xd), to_eigen(yd));
  } catch (const std::runtime_error &e) {
    r.fail(cname_of(type) + "::Fit/rejects", std::string("fit with >= 2 data points per interval rejected: ") + e.what());
    return r;
  }
  const bool noisy = ynoise > 0;
  r.cls(type + (noisy ? "/noisy" : "/exact"));
  r.cls(kg.hmax - kg.hmin > 1e-9 * kg.hmax ? "last-interval-longer" : "step-divides-range");
  r.nontrivial = nk >= 3 && xd.size() > nk;
  const double Y = vmaxabs(yd) + vmaxabs(kv);
  double F2 = 0;
  for (ld v : f2) F2 = std::max(F2, double(fabsl(v)));
  const double scale = Y + kg.hmax * kg.hmax * F2;
  // residuals of the fitted spline
  std::vector<ld> res(xd.size());
  ld rn = 0;
  for (size_t i = 0; i < xd.size(); ++i) {
    double s = sp->Calculate(xd[i]);
    if (!std::isfinite(s)) {
      r.fail(cname_of(type) + "::Fit/reproduction", fmt("fitted spline not finite at data point %.17g", xd[i]));
      return r;
    }
    res[i] = (ld)yd[i] - (ld)s;
    rn += res[i] * res[i];
  }
  rn = sqrtl(rn);
  if (!noisy) {
    // (1) a function of the spline space is reproduced: at the data points, the knots and between
    std::vector<double> pts = xd;
    for (size_t k = 0; k < nk; ++k) {
      pts.push_back(knots[k]);
      if (k + 1 < nk) pts.push_back(0.5 * (knots[k] + knots[k + 1]));
    }
    double worst = 0;
    for (double xe : pts) {
      ld ex = ref_eval(knots, f, f2, xe);
      double s = sp->Calculate(xe);
      // a backward-stable least-squares solve loses cond(A) ~ 1/h^2 digits (the curvature columns of the fit matrix scale
      // like h^2); solving through the normal equations loses cond^2.  Bound: 256 eps / hmin^2, never looser than 1e-8.
      const double rtol = std::min(1e-8, std::max(1e-13, 256 * EPS / (kg.hmin * kg.hmin)));
      double err = double(fabsl((ld)s - ex));
      worst = std::max(worst, err / (rtol * scale));
      if (!(err <= rtol * scale)) {
        r.fail(cname_of(type) + "::Fit/reproduction", fmt("%zu knots (h=%.3g), %zu data points on a function of the spline space: S(%.17g)=%.15g, function %.15Lg (tol %.3g)",
                                                          nk, kg.hmin, xd.size(), xe, s, ex, rtol * scale));
        return r;
      }
    }
    r.cls(worst < 1e-3 ? "fit-error/tol<1e-3" : worst < 1e-2 ? "fit-error/tol<1e-2" : worst < 0.03 ? "fit-error/tol<0.03" : worst < 0.1 ? "fit-error/tol<0.1" : worst < 0.3 ? "fit-error/tol<0.3" : "fit-error/tol<1");
    if (nk >= 60) r.cls("fine-fit-grid(>=60 knots)");
  }
  // (2) normal equations on the constrained space: sum_i res_i phi_j(x_i) = 0 for every basis function phi_j
  for (size_t j = 0; j < nk; ++j) {
    std::vector<ld> phi = basis_at(type, knots, j, xd);
    ld gsum = 0, pn = 0, gabs = 0;
    for (size_t i = 0; i < xd.size(); ++i) {
      gsum += res[i] * phi[i];
      gabs += fabsl(res[i] * phi[i]);
      pn += phi[i] * phi[i];
    }
    ld tol = 1e-8L * (rn * sqrtl(pn) + scale * sqrtl(pn));
    if (!(fabsl(gsum) <= tol)) {
      r.fail(cname_of(type) + "::Fit/normal-equations", fmt("%zu knots, %zu data points: residual not orthogonal to basis function %zu: <res,phi>=%.6Lg, |res|=%.6Lg |phi|=%.6Lg (tol %.3Lg)",
                                                            nk, xd.size(), j, gsum, rn, sqrtl(pn), tol));
      return r;
    }
  }
  // (3) the fitted spline lies in the constrained space: S' continuous at the knots, natural ends (cubic)
  if (type == "cubic") {
    const double dscale = 1e-8 * (scale + double(rn)) / kg.hmin;
    for (size_t k = 1; k + 1 < nk; ++k) {
      double xl = std::nextafter(knots[k], -HUGE_VAL);
      double dl = sp->CalculateDerivative(xl), dr = sp->CalculateDerivative(knots[k]);
      if (!(std::fabs(dl - dr) <= dscale)) {
        r.fail("CubicSpline::Fit/constraints", fmt("fitted spline: S' jumps at knot %zu: %.15g | %.15g (tol %.3g)", k, dl, dr, dscale));
        return r;
      }
    }
    Model m;
    m.type = "cubic";
    m.g = kg;
    double c0 = curvature(*sp, m, 0, 0), c1 = curvature(*sp, m, nk - 2, 1);
    double tc = 1e-7 * (scale + double(rn)) / (kg.hmin * kg.hmin);
    if (!(std::fabs(c0) <= tc) || !(std::fabs(c1) <= tc)) {
      r.fail("CubicSpline::Fit/constraints", fmt("fitted natural spline: S''(x_0)=%.6g, S''(x_N)=%.6g (tol %.3g)", c0, c1, tc));
      return r;
    }
  }
  return r;
}

static json gen_fit() {
  json c;
  std::string type = rbool(65) ? "cubic" : "linear";
  int nint = rcount(type == "cubic" ? 2 : 1, 24);
  double mn = pick<double>({0.0, 0.0, 0.25, -2.0, 10.0});
  double step = rbool(50) ? double(ri(1, 64)) / 64.0 : double(ri(1, 100)) / 100.0;
  if (rbool(6)) {  // fine fit grids (force matching uses 0.01..0.02 nm over 1 nm and more)
    nint = ri(60, 200);
    step = pick<double>({0.005, 0.01, 0.02, 1.0 / 64, 1.0 / 128, 0.05});
  }
  double mx = rbool(60) ? mn + double(nint) * step : mn + (double(nint) + double(ri(8, 56)) / 64.0) * step;
  c["type"] = type;
  c["fitgrid"] = {mn, step, mx};
  std::vector<double> kv, fr, nz;
  std::string kind;
  for (int k = 0; k <= nint + 1; ++k) kv.push_back(rfrac(-64, 64, 16));
  if (rbool(20)) {
    double off = pick<double>({100.0, -1000.0});
    for (double &v : kv) v += off;
  }
  bool noisy = rbool(50);
  for (int j = 0; j < nint; ++j) {
    int m = ri(2, 5);
    // m fractions in [0,1], separated by >= 1/16
    std::vector<int> slots;
    int cur = ri(0, 3);
    for (int q = 0; q < m && cur <= 16; ++q) {
      slots.push_back(cur);
      cur += ri(1, std::max(1, (16 - cur) / (m - q)));
    }
    for (int s : slots) {
      if (s == 16 && j + 1 < nint) continue;  // the right knot is the next piece's fraction 0
      fr.push_back(double(j) + double(s) / 16.0 * (s == 16 ? 1 - 1e-9 : 1.0));
      nz.push_back(noisy ? double(ri(-1000, 1000)) / 4000.0 : 0.0);
    }
  }
  c["knotvalues"] = kv;
  c["frac"] = fr;
  c["noise"] = nz;
  return c;
}

// =================================================================== Table::Smooth
static Result run_smooth(const json &c) {
  Result r;
  std::vector<double> x = c.at("x").get<std::vector<double>>(), y = c.at("y").get<std::vector<double>>();
  long ns = c.at("nsmooth");
  bool line = c.at("line");
  if (x.size() != y.size() || ns < 0 || ns > 1000 || !all_finite(y)) {
    r.discard = true;
    return r;
  }
  vt::Table t;
  t.resize(Index(x.size()));
  for (size_t i = 0; i < x.size(); ++i) t.set(Index(i), x[i], y[i], 'i');
  if (x.size() < 2) {
    try {
      t.Smooth(ns);
      r.fail("Table::Smooth/too-short", fmt("table of %zu rows accepted", x.size()));
    } catch (const std::runtime_error &) {
      r.cls("rejected-too-short");
    }
    return r;
  }
  Grid g = analyse(x);
  if (!g.valid) {
    r.discard = true;
    return r;
  }
  t.Smooth(ns);
  r.cls(line ? "line" : "general");
  r.cls(ns == 0 ? "nsmooth=0" : "nsmooth>0");
  r.nontrivial = ns > 0 && x.size() >= 3;
  // end points (abscissa and ordinate) and all abscissae unchanged, bit for bit (Smooth only rewrites interior ordinates)
  if (t.y(0) != y.front() || t.y(Index(x.size()) - 1) != y.back()) {
    r.fail("Table::Smooth/end-points", fmt("end points changed: %.17g->%.17g, %.17g->%.17g", y.front(), t.y(0), y.back(), t.y(Index(x.size()) - 1)));
    return r;
  }
  for (size_t i = 0; i < x.size(); ++i)
    if (t.x(Index(i)) != x[i] || t.flags(Index(i)) != 'i') {
      r.fail("Table::Smooth/abscissae", fmt("row %zu: abscissa or flag changed", i));
      return r;
    }
  if (line) {
    if (!g.uniform) {
      r.discard = true;  // the 1-2-1 filter works on the index: straight lines are fixed points on uniform grids only
      return r;
    }
    // y_k = fl(a x_k + b) on x_k = fl(x0 + k step): deviation from exact collinearity in the index <= delta; a convex
    // average never increases it, every pass adds three roundings of size eps*Y
    double Y = vmaxabs(y), a = std::fabs((y.back() - y.front()) / (x.back() - x.front()));
    double delta = a * (EPS * g.xabs + (g.hmax - g.hmin) * double(x.size())) + EPS * Y;
    double tol = 8 * delta + 16 * EPS * Y * double(ns + 1);
    for (size_t i = 0; i < x.size(); ++i)
      if (!(std::fabs(t.y(Index(i)) - y[i]) <= tol)) {
        r.fail("Table::Smooth/straight-line", fmt("straight-line data changed at row %zu after %ld passes: %.17g -> %.17g (tol %.3g)", i, ns, y[i], t.y(Index(i)), tol));
        return r;
      }
  }
  return r;
}

static json gen_smooth() {
  json c;
  int n = rbool(4) ? ri(0, 2) : gen_npoints(2);
  bool line = rbool(50);
  std::vector<double> x(static_cast<size_t>(n));
  double x0 = pick<double>({0.0, 0.0, -3.0, 100.0});
  double step = double(ri(1, 200)) / (rbool(50) ? 64.0 : 100.0);
  for (int i = 0; i < n; ++i) x[size_t(i)] = x0 + double(i) * step;
  std::vector<double> y(static_cast<size_t>(n));
  std::string yk;
  double a = rfrac(-64, 64, 8), b = rfrac(-640, 640, 8);
  if (line || n < 2) {
    for (int i = 0; i < n; ++i) y[size_t(i)] = a * x[size_t(i)] + b;
  } else
    y = gen_ordinates(x, yk);
  c["x"] = x;
  c["y"] = y;
  c["line"] = line;
  c["a"] = a;
  c["nsmooth"] = rbool(10) ? 0 : (rbool(90) ? ri(1, 10) : ri(11, 200));
  return c;
}

int main(int argc, char **argv) {
  std::vector<Sub> subs;
  subs.push_back({"interp", gen_interp, run_interp, 3.0, 100, nullptr});
  subs.push_back({"line", gen_line, run_line, 1.0, 100, nullptr});
  subs.push_back({"linearity", gen_linearity, run_linearity, 1.0, 100, nullptr});
  subs.push_back({"fit", gen_fit, run_fit, 1.5, 100, nullptr});
  subs.push_back({"smooth", gen_smooth, run_smooth, 0.7, 100, nullptr});
  return harness_main(argc, argv, "C12", subs);
}
