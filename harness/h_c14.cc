// C14 — KMC event selection is rate-proportional (Huffman tree), Marcus rates obey detailed balance, waiting times follow
// the inverse-CDF identity of the exponential law.
//
// Real code: GNode::AddEvent/AddDecayEvent/InitEscapeRate/MakeHuffTree/findHoppingDestination (gnode.cc + header-only
// huffmantree.h), Rate_Engine::Rate on real QMPair/Segment objects (rate_engine.cc, qmpair.cc, segment.cc),
// KMCCalculator::Promotetime / ChooseHoppingDest through a test subclass (kmccalculator.cc).
// Stubbed (not under test, live in qmcalculator.cc which needs libint): QMCalculator::Initialize / EvaluateFrame.
//
// Oracles: exact measure of every event from the tree's internal thresholds (read through `#define private public`,
// no repo change) + a black-box grid/bisection cross-check; long double arithmetic for sums and the Marcus relations.

// everything the two headers pull in is included first, so that the access hack only touches huffmantree.h and gnode.h
#include "vv_common.h"

#include <votca/tools/random.h>
#include <votca/xtp/eigen.h>
#include <votca/xtp/glink.h>
#include <votca/xtp/qmpair.h>
#include <votca/xtp/qmstate.h>
#include <votca/xtp/rate_engine.h>
#include <votca/xtp/segment.h>

#include <cstdlib>
#include <list>
#include <queue>
#include <random>
#include <vector>

#define private public
#include <votca/xtp/huffmantree.h>
#include <votca/xtp/gnode.h>
#undef private

#include <votca/xtp/chargecarrier.h>
#include <votca/xtp/kmccalculator.h>
#include <votca/xtp/topology.h>

using namespace vv;
using votca::Index;
using namespace votca::xtp;

// ---- stubs for the two QMCalculator members that live in qmcalculator.cc (needs libint); never called here
namespace votca {
namespace xtp {
bool QMCalculator::EvaluateFrame(Topology &) { return false; }
void QMCalculator::Initialize(const tools::Property &) {}
}  // namespace xtp
}  // namespace votca

static const char *K_LAMBDA = "Rate_Engine/outer-sphere-lambda-sign";
static const double EPS = 2.220446049250313e-16;

// ================================================================= sub 1: Huffman tree measure
struct Built {
  Segment seg{"seg", 0};
  std::unique_ptr<GNode> node, pre;
  std::vector<GNode> dests, predests;
};
static void build_node(const json &c, Built &B) {
  std::vector<double> rates = c.at("rates").get<std::vector<double>>();
  std::vector<int> decay = c.value("decay", std::vector<int>());
  B.node.reset(new GNode(B.seg, QMStateType::Electron, true));
  B.dests.reserve(rates.size());
  for (size_t i = 0; i < rates.size(); ++i) B.dests.emplace_back(B.seg, QMStateType::Electron, true);
  for (size_t i = 0; i < rates.size(); ++i) {
    bool dec = std::find(decay.begin(), decay.end(), int(i)) != decay.end();
    if (dec)
      B.node->AddDecayEvent(rates[i]);
    else
      B.node->AddEvent(&B.dests[i], Eigen::Vector3d(double(i), 0, 1), rates[i]);
    // history: the tree may already have been built for the first events (what KMCLifetime does: load the graph,
    // build, add a decay event to every node, build again); the final tree must not depend on that
    if (long(i) + 1 == long(c.value("rebuild_after", 0))) {
      B.node->InitEscapeRate();
      B.node->MakeHuffTree();
    }
  }
  if (c.value("preuse_longer", 0) > 0) {
    // history: the tree object of this node has been built for a LONGER event list before (a reused huffmanTree)
    B.pre.reset(new GNode(B.seg, QMStateType::Electron, true));
    size_t m = rates.size() + size_t(c.value("preuse_longer", 0));
    B.predests.reserve(m);
    for (size_t i = 0; i < m; ++i) B.predests.emplace_back(B.seg, QMStateType::Electron, true);
    for (size_t i = 0; i < m; ++i) B.pre->AddEvent(&B.predests[i], Eigen::Vector3d(double(i), 1, 0), 1.0 + double(i % 5));
    B.node->hTree.setEvents(&B.pre->events_);
    B.node->hTree.makeTree();
  }
  B.node->InitEscapeRate();
  B.node->MakeHuffTree();
}

static Result run_tree(const json &c) {
  Result r;
  std::vector<double> rates = c.at("rates").get<std::vector<double>>();
  size_t n = rates.size();
  if (n < 1 || n > 400) {
    r.discard = true;
    return r;
  }
  for (double v : rates)
    if (!(v > 0) || !std::isfinite(v)) {
      r.discard = true;  // the statement is about positive rates
      return r;
    }
  Built B;
  build_node(c, B);
  const GNode &node = *B.node;
  const std::vector<GLink> &ev = node.Events();
  const GLink *base = ev.data();
  long double sum = 0;
  for (double v : rates) sum += (long double)v;

  std::set<double> distinct(rates.begin(), rates.end());
  r.nontrivial = n >= 3 && distinct.size() >= 2;
  r.cls(n == 1 ? "n=1" : n % 2 ? "n-odd" : "n-even");
  r.cls(distinct.size() == 1 ? "all-equal" : "mixed-rates");
  double mx = *std::max_element(rates.begin(), rates.end()), mn = *std::min_element(rates.begin(), rates.end());
  if (mx / mn >= 1e9) r.cls("spread>=1e9");
  if (mx / double(sum) > 0.999) r.cls("one-dominant");
  if (c.contains("decay") && !c["decay"].empty()) r.cls("has-decay-event");
  if (c.value("rebuild_after", 0) > 0) r.cls("tree-rebuilt-after-adding-events");
  if (c.value("preuse_longer", 0) > 0) r.cls("tree-object-used-for-a-longer-list-before");

  // ---- escape rate == sum of the event rates
  double esc = node.getEscapeRate();
  if (std::fabs((long double)esc - sum) > (long double)(double(n) * EPS) * sum) {
    r.fail("GNode/escape-rate", fmt("getEscapeRate() = %.17g, sum of rates = %.17Lg (n=%zu)", esc, sum, n));
    return r;
  }
  auto dest = [&](double p) -> long {
    GLink *g = node.findHoppingDestination(p);
    if (g == nullptr) return -1;
    long idx = long(g - base);
    if (idx < 0 || idx >= long(n)) return -2;
    return idx;
  };

  // ---- white box: the thresholds of the inner nodes are the only values p is ever compared with
  std::vector<double> thr;
  for (auto &hn : node.hTree.htree) thr.push_back(hn.probability);
  size_t expect_nodes = n % 2 ? n : n - 1;
  if (thr.size() != expect_nodes) {
    r.fail("harness-internal", fmt("tree has %zu inner nodes, expected %zu", thr.size(), expect_nodes));
    return r;
  }
  std::vector<double> bp{0.0, 1.0};
  for (double t : thr)
    if (t > 0.0 && t < 1.0) bp.push_back(t);
  std::sort(bp.begin(), bp.end());
  bp.erase(std::unique(bp.begin(), bp.end()), bp.end());
  std::vector<long double> measure(n, 0.0L);
  for (size_t i = 0; i + 1 < bp.size(); ++i) {
    double a = bp[i], b = bp[i + 1];
    double m = a + (b - a) / 2;
    if (!(m > a && m < b)) {  // adjacent doubles: the open interval contains no double; measure (b-a) is below 2^-53
      continue;
    }
    long d = dest(m);
    if (d < 0) {
      r.fail("HuffmanTree/no-event", fmt("findHoppingDestination(%.17g) returns %s (n=%zu)", m, d == -1 ? "null" : "a foreign event", n));
      return r;
    }
    measure[size_t(d)] += (long double)b - (long double)a;
    // the destination is constant on the open interval: probe both ends as well
    double lo = std::nextafter(a, 2.0), hi = std::nextafter(b, -1.0);
    if (lo < b && dest(lo) != d) {
      r.fail("harness-internal", fmt("destination changes inside (%.17g,%.17g): thresholds misread", a, b));
      return r;
    }
    if (hi > a && dest(hi) != d) {
      r.fail("harness-internal", fmt("destination changes inside (%.17g,%.17g): thresholds misread", a, b));
      return r;
    }
  }
  // every p in {0, 1, thresholds, thresholds +- 4 ulp} selects an event of this node
  std::vector<double> probes{0.0, 1.0, std::nextafter(0.0, 1.0), std::nextafter(1.0, 0.0), 0.5};
  for (double t : thr) {
    double lo = t, hi = t;
    probes.push_back(t);
    for (int q = 0; q < 4; ++q) {
      lo = std::nextafter(lo, -1.0);
      hi = std::nextafter(hi, 2.0);
      probes.push_back(lo);
      probes.push_back(hi);
    }
  }
  for (double p : probes) {
    if (!(p >= 0.0 && p <= 1.0)) continue;
    long d = dest(p);
    if (d < 0) {
      r.fail("HuffmanTree/no-event", fmt("findHoppingDestination(%.17g) returns %s (n=%zu)", p, d == -1 ? "null" : "a foreign event", n));
      return r;
    }
  }
  // measure of each event == rate / escape rate.  Tolerance: every threshold is a sum of <= 2n terms <= 1, each addition
  // rounds with eps/2 (=> n eps per threshold, two thresholds per interval), the total carries the (n-1) eps/2 relative
  // error of sum_of_values => 4 (n+1) eps absolute.
  long double tol = 4.0L * (long double)(n + 1) * (long double)EPS;
  long double worst = 0;
  for (size_t i = 0; i < n; ++i) {
    long double want = (long double)rates[i] / sum;
    long double err = fabsl(measure[i] - want);
    worst = std::max(worst, err);
    if (err > tol) {
      r.fail("HuffmanTree/measure",
             fmt("event %zu of %zu (rate %.6g): measure of its p-set = %.17Lg, rate/escape = %.17Lg, |diff| = %.3Lg > %.3Lg", i, n, rates[i],
                 measure[i], want, err, tol));
      return r;
    }
  }
  if (worst > tol / 8) r.cls("measure-error>tol/8");

  // ---- black box cross-check (does not use the thresholds for locating change points): 1024-cell grid, bisection of each
  // cell whose ends differ.  Cells that (by the white-box view) contain >= 2 thresholds may hide events: allowance.
  const int G = 1024;
  std::vector<long double> bb(n, 0.0L);
  long double allowance = 0;
  size_t ti = 0;
  std::vector<double> sthr(bp.begin() + 1, bp.end() - 1);
  long prev = dest(0.0);
  for (int g = 0; g < G; ++g) {
    double a = double(g) / G, b = double(g + 1) / G;
    long da = prev, db = dest(b);
    prev = db;
    size_t inside = 0;
    while (ti < sthr.size() && sthr[ti] < a) ++ti;
    for (size_t q = ti; q < sthr.size() && sthr[q] <= b; ++q) ++inside;
    if (inside >= 2) allowance += 1.0L / G;
    if (da < 0 || db < 0) {
      r.fail("HuffmanTree/no-event", fmt("findHoppingDestination returns no event of this node at p=%.17g or %.17g", a, b));
      return r;
    }
    if (da == db) {
      bb[size_t(da)] += 1.0L / G;
      continue;
    }
    double lo = a, hi = b;  // dest(lo)==da, dest(hi)!=da
    for (int it = 0; it < 64; ++it) {
      double m = lo + (hi - lo) / 2;
      if (!(m > lo && m < hi)) break;
      if (dest(m) == da)
        lo = m;
      else
        hi = m;
    }
    bb[size_t(da)] += (long double)hi - (long double)a;
    bb[size_t(db)] += (long double)b - (long double)hi;
    if (inside == 1) {
      // the single change point of this cell must be a threshold (within 2 ulp)
      double t = sthr[ti];
      if (std::fabs(hi - t) > 4 * EPS && std::fabs(lo - t) > 4 * EPS) {
        r.fail("harness-internal", fmt("black-box change point %.17g is not the threshold %.17g", hi, t));
        return r;
      }
    }
    if (inside == 0) {
      r.fail("harness-internal", fmt("destination changes in [%.17g,%.17g] where no threshold lies: thresholds misread", a, b));
      return r;
    }
  }
  for (size_t i = 0; i < n; ++i) {
    long double want = (long double)rates[i] / sum;
    if (fabsl(bb[i] - want) > allowance + tol + 4.0L * EPS * G) {
      r.fail("HuffmanTree/measure-blackbox",
             fmt("event %zu of %zu: black-box measure %.12Lg, rate/escape %.12Lg (allowance %.3Lg)", i, n, bb[i], want, allowance));
      return r;
    }
  }
  return r;
}

static json gen_tree() {
  int n = rcount(1, 100);
  if (rbool(10)) n = ri(1, 6);
  int kind = ri(0, 4);
  std::vector<double> rates(static_cast<size_t>(n));
  double common = rlog(-6, 6);
  for (auto &v : rates) {
    if (kind == 0) v = rlog(-6, 6);           // 12 decades
    if (kind == 1) v = common;                // all equal
    if (kind == 2) v = rlog(-6, -3);          // one dominant (set below)
    if (kind == 3) v = double(ri(1, 9));      // small integers, many ties
    if (kind == 4) v = rlog(10, 13);          // realistic hopping rates 1e10..1e13 1/s
  }
  if (kind == 2) rates[size_t(ri(0, n - 1))] = rlog(5, 6);
  json c;
  c["rates"] = rates;
  std::vector<int> decay;
  if (rbool(25)) decay.push_back(ri(0, n - 1));
  c["decay"] = decay;
  c["rebuild_after"] = (n >= 2 && rbool(35)) ? ri(1, n - 1) : 0;
  c["preuse_longer"] = rbool(25) ? ri(1, 9) : 0;
  return c;
}

static void enum_tree(int level, const std::function<bool(const json &)> &emit) {
  // every event count 1..level with (a) equal rates, (b) geometric rates over 12 decades, (c) one dominant, (d) 1..n
  for (int n = 1; n <= level; ++n) {
    for (int kind = 0; kind < 4; ++kind) {
      std::vector<double> rates(static_cast<size_t>(n));
      for (int i = 0; i < n; ++i) {
        if (kind == 0) rates[size_t(i)] = 3.0;
        if (kind == 1) rates[size_t(i)] = std::pow(10.0, -6.0 + 12.0 * double(i) / double(std::max(1, n - 1)));
        if (kind == 2) rates[size_t(i)] = i == n / 2 ? 1e6 : 1e-6 * double(1 + i % 7);
        if (kind == 3) rates[size_t(i)] = double(i + 1);
      }
      if (!emit(json{{"rates", rates}, {"decay", std::vector<int>()}})) return;
    }
  }
}

// ================================================================= sub 2: Marcus rates
static QMStateType carrier_of(const std::string &s) {
  if (s == "e") return QMStateType::Electron;
  if (s == "h") return QMStateType::Hole;
  if (s == "s") return QMStateType::Singlet;
  return QMStateType::Triplet;
}

struct PairSetup {
  Segment s1{"a", 0}, s2{"b", 1};
  std::unique_ptr<QMPair> pair;
};
static void setup_pair(const json &c, PairSetup &P, double j2scale) {
  QMStateType t = carrier_of(c.at("carrier"));
  P.s1.setEMpoles(t, c.at("em1"));
  P.s2.setEMpoles(t, c.at("em2"));
  P.s1.setU_xX_nN(c.at("uxx1"), t);
  P.s2.setU_xX_nN(c.at("uxx2"), t);
  P.s1.setU_nX_nN(c.at("a1"), t);
  P.s1.setU_xN_xX(c.at("b1"), t);
  P.s2.setU_nX_nN(c.at("a2"), t);
  P.s2.setU_xN_xX(c.at("b2"), t);
  std::vector<double> R = c.at("R").get<std::vector<double>>();
  P.pair.reset(new QMPair(0, &P.s1, &P.s2, Eigen::Vector3d(R[0], R[1], R[2])));
  P.pair->setJeff2(c.at("J2").get<double>() * j2scale, t);
  P.pair->setLambdaO(c.at("lambda0"), t);
}

static Result run_marcus(const json &c) {
  Result r;
  QMStateType t = carrier_of(c.at("carrier"));
  std::string cs = c.at("carrier");
  long double q = cs == "e" ? -1.0L : cs == "h" ? 1.0L : 0.0L;
  std::vector<double> R = c.at("R").get<std::vector<double>>(), F = c.at("F").get<std::vector<double>>();
  double kT = c.at("kT");
  double a1 = c.at("a1"), b1 = c.at("b1"), a2 = c.at("a2"), b2 = c.at("b2"), l0 = c.at("lambda0");
  // precondition of the clause: equal forward / backward reorganisation energy, > 0 (outer-sphere part is a pair
  // property and enters both directions)
  long double lam12 = (long double)a1 + b2 + l0, lam21 = (long double)b1 + a2 + l0;
  if (lam12 != lam21 || !(lam12 > 0) || !(kT > 0) || !(c.at("J2").get<double>() > 0)) {
    r.discard = true;
    return r;
  }
  long double lam = lam12;
  long double E1 = (long double)c.at("em1").get<double>() + (long double)c.at("uxx1").get<double>();
  long double E2 = (long double)c.at("em2").get<double>() + (long double)c.at("uxx2").get<double>();
  long double FR = (long double)F[0] * R[0] + (long double)F[1] * R[1] + (long double)F[2] * R[2];
  long double dE12 = (E2 - E1) - q * FR;  // physical energy change of the carrier for 1 -> 2 (R = r2 - r1)
  long double x12 = (dE12 + lam) * (dE12 + lam) / (4 * lam * kT), x21 = (-dE12 + lam) * (-dE12 + lam) / (4 * lam * kT);
  r.cls("carrier:" + cs);
  r.cls(l0 != 0 ? "lambda_outer!=0" : "lambda_outer=0");
  r.cls((a1 == a2 && b1 == b2) ? "reorg:same-on-both-segments" : "reorg:only-sums-equal");
  r.nontrivial = FR != 0 && q != 0 && E1 != E2;
  if (r.nontrivial) r.cls("field-and-energy-difference");

  Eigen::Vector3d field(F[0], F[1], F[2]);
  Rate_Engine eng(kT, field);
  // the engine is constructed from a caller variable that changes afterwards (field sweep), and a second engine is alive;
  // the rates must belong to the field the engine was constructed with
  field = Eigen::Vector3d(7.7e-3, -3.3e-3, 5.5e-3);
  Rate_Engine other(kT * 2, field);
  (void)other;
  PairSetup P, P2;
  setup_pair(c, P, 1.0);
  double alpha = c.at("alpha");
  setup_pair(c, P2, alpha);
  Rate_Engine::PairRates k, k2;
  try {
    k = eng.Rate(*P.pair, t);
    k2 = eng.Rate(*P2.pair, t);
  } catch (const std::runtime_error &e) {
    if (l0 != 0) {
      r.fail(K_LAMBDA, fmt("Rate() throws '%s' although both total reorganisation energies are %.6Lg (lambda_outer=%.6g)", e.what(), lam, l0));
      return r;
    }
    if (lam < 2e-12L) {  // documented rejection of (near) zero reorganisation energies
      r.discard = true;
      return r;
    }
    r.fail("Rate_Engine/throws", std::string("Rate() throws: ") + e.what());
    return r;
  }
  std::string ctx = fmt(" (carrier %s, E2-E1=%.6Lg, q F.R=%.6Lg, lambda=%.6Lg [outer %.6g], kT=%.6g, J2=%.3g)", cs.c_str(), E2 - E1, q * FR, lam,
                        l0, kT, c.at("J2").get<double>());
  auto bad = [](double v) { return !(v > 0) || !std::isfinite(v); };
  // under/overflow of the exponential: not decidable in double, discarded and counted
  if (x12 > 650 || x21 > 650) {
    r.discard = true;
    return r;
  }
  if (bad(k.rate12) || bad(k.rate21)) {
    r.fail(l0 != 0 ? K_LAMBDA : "Rate_Engine/positivity", fmt("rates not positive/finite: k12=%.6g k21=%.6g", k.rate12, k.rate21) + ctx);
    return r;
  }
  if (k.rate12 < 1e-290 || k.rate21 < 1e-290 || k.rate12 > 1e290 || k.rate21 > 1e290) {
    r.discard = true;
    return r;
  }
  // linear in J^2
  for (int d = 0; d < 2; ++d) {
    double ka = d ? k2.rate21 : k2.rate12, kb = d ? k.rate21 : k.rate12;
    if (std::fabs(ka / kb - alpha) > 8 * EPS * alpha) {
      r.fail("Rate_Engine/J2-scaling", fmt("k(%.6g J2)/k(J2) = %.17g", alpha, ka / kb) + ctx);
      return r;
    }
  }
  // detailed balance: ln(k12/k21) = -dE12/kT.  Rounding: exp(-x) carries a relative error ~eps*x from its argument; the
  // code's dG = (E1-E2) + q R.F is a difference of doubles (abs. error eps*S), amplified by d x/d dG = (dG -+ lambda)/(2 lambda kT).
  long double want = -dE12 / kT;
  long double got = logl((long double)k.rate12) - logl((long double)k.rate21);
  long double S = fabsl(E1) + fabsl(E2) + fabsl((long double)F[0] * R[0]) + fabsl((long double)F[1] * R[1]) + fabsl((long double)F[2] * R[2]) + lam;
  long double amp = (fabsl(dE12 + lam) + fabsl(dE12 - lam)) / (2 * lam * kT);
  long double tol = 16.0L * EPS * (1.0L + x12 + x21 + S * amp);
  if (fabsl(got - want) > tol) {
    r.fail(l0 != 0 ? K_LAMBDA : "Rate_Engine/detailed-balance",
           fmt("ln(k12/k21) = %.15Lg, -dE(1->2)/kT = %.15Lg, |diff| = %.3Lg > %.3Lg; k12=%.6g k21=%.6g", got, want, fabsl(got - want), tol,
               k.rate12, k.rate21) + ctx);
    return r;
  }
  // sign sanity named in the statement's mechanism: a hole is driven along the field, an electron against it
  return r;
}

static json gen_marcus() {
  json c;
  c["carrier"] = pick<std::string>({"e", "h", "e", "h", "s", "t"});
  auto en = [&]() { return rfrac(-1024, 1024, 65536); };  // +-0.0156 Ha = +-0.43 eV on a 2^-16 lattice
  c["em1"] = en();
  c["em2"] = rbool(10) ? c["em1"].get<double>() : en();
  c["uxx1"] = en();
  c["uxx2"] = en();
  double a1 = rfrac(8, 2048, 65536), b1 = rfrac(8, 2048, 65536);  // 1.2e-4 .. 0.031 Ha
  double a2 = a1, b2 = b1;
  if (rbool(30)) {  // only the sums agree: a1 + b2 == b1 + a2 (exact on the lattice)
    a2 = rfrac(8, 2048, 65536);
    b2 = b1 + a2 - a1;
    if (!(b2 > 0)) {
      a2 = a1;
      b2 = b1;
    }
  }
  c["a1"] = a1;
  c["b1"] = b1;
  c["a2"] = a2;
  c["b2"] = b2;
  double l0 = 0;
  if (!known(K_LAMBDA) && rbool(40)) l0 = rfrac(1, 1024, 65536);  // known finding: excluded by construction (lambda_outer = 0)
  c["lambda0"] = l0;
  c["J2"] = rlog(-12, -4);
  c["alpha"] = rbool(50) ? std::pow(2.0, ri(-8, 8)) : rfrac(1, 4000, 16);
  c["kT"] = rfrac(10, 200, 65536);  // 1.5e-4 .. 3.05e-3 Ha  (48 K .. 960 K)
  int fk = ri(0, 4);
  const int wexp = ri(28, 50);  // fk == 4: weak fields, 64*2^-28 = 2.4e-7 down to 2^-50 = 9e-16 Ha/bohr (low-field extrapolation)
  std::vector<double> F(3, 0.0), R(3, 0.0);
  for (int i = 0; i < 3; ++i) {
    R[size_t(i)] = rfrac(-480, 480, 16);  // +-30 bohr
    if (fk == 1) F[size_t(i)] = rfrac(-64, 64, 1048576);  // up to 6.1e-5 Ha/bohr ~ 3e7 V/m
    if (fk == 2 && i == 0) F[0] = rfrac(-64, 64, 1048576);
    if (fk == 3) F[size_t(i)] = rfrac(-64, 64, 65536);    // strong field
    if (fk == 4) F[size_t(i)] = std::ldexp(double(ri(-64, 64)), -wexp);
  }
  c["F"] = F;
  c["R"] = R;
  return c;
}

// ================================================================= sub 3: waiting time and destination draw (KMCCalculator)
class TestKMC final : public KMCCalculator {
 public:
  std::string Identify() const override { return "vv_testkmc"; }
  bool WriteToStateFile() const override { return false; }
  void seed(Index s) { RandomVariable_.init(s); }
  double promote(double k) { return Promotetime(k); }
  const GLink &choose(const GNode &n) { return ChooseHoppingDest(n); }

 protected:
  void ParseSpecificOptions(const votca::tools::Property &) override {}
  void RunVSSM() override {}
  bool Evaluate(Topology &) override { return false; }
};

static Result run_wait(const json &c) {
  Result r;
  long seed = c.at("seed");
  int ndraw = c.at("ndraw");
  std::vector<double> ks = c.at("k").get<std::vector<double>>();
  TestKMC kmc;
  kmc.seed(seed);
  // the same stream, reproduced: tools::Random documents mt19937(seed) + uniform_real_distribution<double>(0,1)
  std::mt19937 mt{unsigned(seed)};
  std::uniform_real_distribution<double> dist(0.0, 1.0);
  r.nontrivial = ks.size() >= 2;
  double umax = 0, umin = 1;
  for (int i = 0; i < ndraw; ++i) {
    double k = ks[size_t(i) % ks.size()];
    double u = dist(mt);
    umax = std::max(umax, u);
    umin = std::min(umin, u);
    double dt = kmc.promote(k);
    long double want = -logl(1.0L - (long double)u) / (long double)k;
    if (!(dt >= 0) || !std::isfinite(dt)) {
      r.fail("KMCCalculator/Promotetime-range", fmt("draw %d: u=%.17g k=%.6g -> dt=%.17g (must be finite and >= 0)", i, u, k, dt));
      return r;
    }
    // rand_u = 1-u is rounded (abs. error eps/2 * rand_u) before the logarithm: abs. error eps/2 in the log, i.e. eps/(2k) in dt,
    // plus log, reciprocal and product roundings (4 eps relative), plus the subnormal floor
    long double tolw = 4.0L * EPS * want + (long double)EPS / (long double)k + 1e-300L;
    if (fabsl((long double)dt - want) > tolw) {
      r.fail("KMCCalculator/Promotetime", fmt("draw %d: u=%.17g k=%.6g -> dt=%.17g, inverse CDF of Exp(k) gives %.17Lg", i, u, k, dt, want));
      return r;
    }
  }
  if (umin < 1e-3) r.cls("u<1e-3");
  if (umax > 1 - 1e-3) r.cls("u>0.999");
  // 1/k scaling on identical streams
  {
    TestKMC a, b;
    a.seed(seed);
    b.seed(seed);
    double k = ks[0], s = c.at("scale");
    for (int i = 0; i < std::min(ndraw, 64); ++i) {
      double ta = a.promote(k), tb = b.promote(k * s);
      if (std::fabs(ta - tb * s) > 8 * EPS * ta + 1e-300) {
        r.fail("KMCCalculator/Promotetime-scaling", fmt("dt(k)=%.17g, dt(%.6g k)=%.17g: not 1/k", ta, s, tb));
        return r;
      }
    }
  }
  // destination draw: ChooseHoppingDest(node) == findHoppingDestination(1 - u) for the same stream
  if (c.contains("rates")) {
    Built B;
    build_node(c, B);
    TestKMC d;
    d.seed(seed);
    std::mt19937 mt2{unsigned(seed)};
    for (int i = 0; i < std::min(ndraw, 256); ++i) {
      double u = 1 - dist(mt2);
      const GLink *want = B.node->findHoppingDestination(u);
      const GLink &got = d.choose(*B.node);
      if (want != &got) {
        r.fail("KMCCalculator/ChooseHoppingDest", fmt("draw %d: destination differs from the tree lookup at p = 1-u = %.17g", i, u));
        return r;
      }
    }
    r.cls("with-destination-draws");
  }
  return r;
}

static json gen_wait() {
  json c;
  c["seed"] = ri(0, 1 << 30);
  c["ndraw"] = rcount(1, 2000);
  std::vector<double> ks;
  int nk = ri(1, 4);
  for (int i = 0; i < nk; ++i) ks.push_back(rlog(-6, 15));
  c["k"] = ks;
  c["scale"] = rbool(50) ? std::pow(2.0, ri(-20, 20)) : rlog(-3, 3);
  if (rbool(50)) {
    int n = ri(1, 30);
    std::vector<double> rates(static_cast<size_t>(n));
    for (auto &v : rates) v = rlog(-3, 3);
    c["rates"] = rates;
    c["decay"] = std::vector<int>();
  }
  return c;
}

int main(int argc, char **argv) {
  std::vector<Sub> subs;
  subs.push_back({"huffman_measure", gen_tree, run_tree, 3.0, 100, enum_tree});
  subs.push_back({"marcus", gen_marcus, run_marcus, 3.0, 100, nullptr});
  subs.push_back({"waiting_time", gen_wait, run_wait, 1.0, 100, nullptr});
  return harness_main(argc, argv, "C14", subs);
}
