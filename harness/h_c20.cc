// C20 — unit conversions and physical constants are consistent and physically right.
//
// Oracle: SI-exact / CODATA 2018 values and IUPAC standard atomic weights EMBEDDED HERE (typed from the
// CODATA 2018 adjustment, SI brochure 9th ed. and the IUPAC 2013/2016 abridged table), never VOTCA numbers.
//   sub "units"     exhaustive sweep over every ordered triple (a,b,c) of enumerators of each of the nine unit
//                   dimensions of UnitConverter: round trip, transitivity, absolute value against the embedded
//                   table, derived units = quotient of the base conversions; generated part = metamorphic sweep
//                   convert(a->b)*x for random x and composed paths.
//   sub "constants" every tools::conv constant against the embedded value (rel <= 5e-5 = 4 significant digits).
//   sub "crosstable" every quantity that the library encodes in two places (conv:: vs UnitConverter vs the LAMMPS
//                   dump reader vs Elements::getCovRad vs csg/units.h), rel <= 5e-5.
//   sub "elements"  every element symbol Z=1..86: number/name/charge round trips, mass vs IUPAC (0.1 %).
#include "vv_common.h"

#include <votca/csg/bead.h>
#include <votca/csg/topology.h>
#include <votca/csg/trajectoryreader.h>
#include <votca/csg/units.h>
#include <votca/tools/constants.h>
#include <votca/tools/elements.h>
#include <votca/tools/unitconverter.h>

#include <sys/stat.h>

using namespace vv;
namespace vt = votca::tools;

// ------------------------------------------------------------------ embedded reference values (SI)
namespace ref {
// SI exact (2019 redefinition)
constexpr long double e_C = 1.602176634e-19L;     // elementary charge [C] (exact)
constexpr long double N_A = 6.02214076e23L;       // Avogadro [1/mol] (exact)
constexpr long double k_B = 1.380649e-23L;        // Boltzmann [J/K] (exact)
constexpr long double h_Js = 6.62607015e-34L;     // Planck [J s] (exact)
constexpr long double cal_th = 4.184L;            // thermochemical calorie [J] (exact by definition)
constexpr long double pi = 3.14159265358979323846264338327950288L;
// CODATA 2018 adjusted
constexpr long double bohr_m = 5.29177210903e-11L;      // Bohr radius [m]
constexpr long double hartree_J = 4.3597447222071e-18L;  // Hartree energy [J]
constexpr long double u_kg = 1.66053906660e-27L;         // atomic mass constant [kg]
// derived
constexpr long double eV_J = e_C;
constexpr long double hartree_eV = hartree_J / eV_J;             // 27.211386245988
constexpr long double kB_eV = k_B / e_C;                         // 8.617333262e-5 eV/K
constexpr long double hbar_eVs = h_Js / (2.0L * pi) / e_C;       // 6.582119569e-16 eV s
constexpr long double eV_kJmol = e_C * N_A / 1000.0L;            // 96.48533212 kJ/mol
constexpr long double R_kJmolK = k_B * N_A / 1000.0L;            // 8.31446261815324e-3 kJ/(mol K)
}  // namespace ref

constexpr double TOL4 = 5e-5;  // "at least four significant digits"

struct Dim {
  const char *name;
  std::vector<const char *> unit;       // enumerator names, in enum order
  std::vector<long double> si;          // size of one unit in the SI unit of the dimension
  std::function<double(int, int)> conv; // UnitConverter::convert(from,to)
};

static const std::vector<Dim> &dims() {
  static const std::vector<Dim> D = [] {
    vt::UnitConverter uc;
    std::vector<Dim> d;
    d.push_back({"distance",
                 {"meters", "centimeters", "nanometers", "angstroms", "bohr"},
                 {1.0L, 1e-2L, 1e-9L, 1e-10L, ref::bohr_m},
                 [uc](int a, int b) { return uc.convert(vt::DistanceUnit(a), vt::DistanceUnit(b)); }});
    d.push_back({"mass",
                 {"attograms", "picograms", "femtograms", "atomic_mass_units", "grams_per_mole", "kilograms", "grams"},
                 {1e-21L, 1e-15L, 1e-18L, ref::u_kg, ref::u_kg, 1.0L, 1e-3L},
                 [uc](int a, int b) { return uc.convert(vt::MassUnit(a), vt::MassUnit(b)); }});
    d.push_back({"time",
                 {"seconds", "microseconds", "nanoseconds", "femtoseconds", "picoseconds"},
                 {1.0L, 1e-6L, 1e-9L, 1e-15L, 1e-12L},
                 [uc](int a, int b) { return uc.convert(vt::TimeUnit(a), vt::TimeUnit(b)); }});
    d.push_back({"energy",
                 {"electron_volts", "kilocalories", "hartrees", "joules", "kilojoules"},
                 {ref::eV_J, 1000.0L * ref::cal_th, ref::hartree_J, 1.0L, 1000.0L},
                 [uc](int a, int b) { return uc.convert(vt::EnergyUnit(a), vt::EnergyUnit(b)); }});
    d.push_back({"molar_energy",
                 {"kilojoules_per_mole", "joules_per_mole", "kilocalories_per_mole", "electron_volts_per_mole",
                  "hartrees_per_mole"},
                 {1000.0L, 1.0L, 1000.0L * ref::cal_th, ref::eV_J, ref::hartree_J},
                 [uc](int a, int b) { return uc.convert(vt::MolarEnergyUnit(a), vt::MolarEnergyUnit(b)); }});
    d.push_back({"charge",
                 {"e", "coulombs"},
                 {ref::e_C, 1.0L},
                 [uc](int a, int b) { return uc.convert(vt::ChargeUnit(a), vt::ChargeUnit(b)); }});
    d.push_back({"velocity",
                 {"angstroms_per_femtosecond", "angstroms_per_picosecond", "nanometers_per_picosecond"},
                 {1e-10L / 1e-15L, 1e-10L / 1e-12L, 1e-9L / 1e-12L},
                 [uc](int a, int b) { return uc.convert(vt::VelocityUnit(a), vt::VelocityUnit(b)); }});
    d.push_back({"force",
                 {"kilocalories_per_angstrom", "newtons", "kilojoules_per_nanometer", "kilojoules_per_angstrom",
                  "hatree_per_bohr"},
                 {1000.0L * ref::cal_th / 1e-10L, 1.0L, 1000.0L / 1e-9L, 1000.0L / 1e-10L, ref::hartree_J / ref::bohr_m},
                 [uc](int a, int b) { return uc.convert(vt::ForceUnit(a), vt::ForceUnit(b)); }});
    d.push_back({"molar_force",
                 {"kilocalories_per_mole_angstrom", "newtons_per_mole", "kilojoules_per_mole_nanometer",
                  "kilojoules_per_mole_angstrom", "hatree_per_mole_bohr"},
                 {1000.0L * ref::cal_th / 1e-10L, 1.0L, 1000.0L / 1e-9L, 1000.0L / 1e-10L, ref::hartree_J / ref::bohr_m},
                 [uc](int a, int b) { return uc.convert(vt::MolarForceUnit(a), vt::MolarForceUnit(b)); }});
    return d;
  }();
  return D;
}

// derived unit = (numerator dimension, enumerator) / (denominator dimension, enumerator)
struct Quot {
  int num_dim, num_unit, den_dim, den_unit;
};
enum { D_DIST = 0, D_MASS, D_TIME, D_ENERGY, D_MOLEN, D_CHARGE, D_VEL, D_FORCE, D_MOLFORCE };
static bool derived_of(int dim, int u, Quot &q) {
  using namespace votca::tools;
  if (dim == D_VEL) {
    static const Quot t[] = {{D_DIST, angstroms, D_TIME, femtoseconds},
                             {D_DIST, angstroms, D_TIME, picoseconds},
                             {D_DIST, nanometers, D_TIME, picoseconds}};
    q = t[u];
    return true;
  }
  if (dim == D_FORCE) {
    static const Quot t[] = {{D_ENERGY, kilocalories, D_DIST, angstroms},
                             {D_ENERGY, joules, D_DIST, meters},
                             {D_ENERGY, kilojoules, D_DIST, nanometers},
                             {D_ENERGY, kilojoules, D_DIST, angstroms},
                             {D_ENERGY, hartrees, D_DIST, bohr}};
    q = t[u];
    return true;
  }
  if (dim == D_MOLFORCE) {
    static const Quot t[] = {{D_MOLEN, kilocalories_per_mole, D_DIST, angstroms},
                             {D_MOLEN, joules_per_mole, D_DIST, meters},
                             {D_MOLEN, kilojoules_per_mole, D_DIST, nanometers},
                             {D_MOLEN, kilojoules_per_mole, D_DIST, angstroms},
                             {D_MOLEN, hartrees_per_mole, D_DIST, bohr}};
    q = t[u];
    return true;
  }
  return false;
}

static bool relclose(long double got, long double exp, long double rel) {
  if (got == exp) return true;
  if (!(std::isfinite(double(got)) && std::isfinite(double(exp)))) return false;
  return fabsl(got - exp) <= rel * std::max(fabsl(got), fabsl(exp));
}

// ------------------------------------------------------------------ sub "units"
static Result run_units(const json &c) {
  Result r;
  int di = c.at("dim");
  int a = c.at("a"), b = c.at("b"), cc = c.at("c");
  double x = c.at("x");
  const Dim &D = dims().at(size_t(di));
  int n = int(D.unit.size());
  if (a < 0 || b < 0 || cc < 0 || a >= n || b >= n || cc >= n) {
    r.discard = true;
    return r;
  }
  r.nontrivial = (a != b);
  r.cls(std::string("dim:") + D.name);
  if (a != b && b != cc && a != cc) r.cls("three-distinct-units");
  const char *ua = D.unit[size_t(a)], *ub = D.unit[size_t(b)], *uc_ = D.unit[size_t(cc)];
  double ab = D.conv(a, b), ba = D.conv(b, a), bc = D.conv(b, cc), ac = D.conv(a, cc);
  const long double ULP4 = 4 * 2.220446049250313e-16L;
  std::string site = std::string("UnitConverter/") + D.name;
  // positivity / finiteness
  for (double f : {ab, ba, bc, ac})
    if (!(std::isfinite(f) && f > 0)) {
      r.fail(site + "/nonpositive", fmt("convert(%s->%s) family yields %.17g", ua, ub, f));
      return r;
    }
  // round trip (two correctly rounded divisions and one multiplication: <= 1.5 ulp; allow 4)
  if (!relclose((long double)ab * ba, 1.0L, ULP4))
    r.fail(site + "/roundtrip", fmt("convert(%s->%s)*convert(%s->%s) = %.17g != 1", ua, ub, ub, ua, ab * ba));
  // transitivity
  if (!relclose((long double)ab * bc, (long double)ac, ULP4))
    r.fail(site + "/transitivity",
           fmt("convert(%s->%s)*convert(%s->%s) = %.17g, convert(%s->%s) = %.17g", ua, ub, ub, uc_, ab * bc, ua, uc_, ac));
  // absolute value: number of b-units in one a-unit = si(a)/si(b)
  long double exp_ab = D.si[size_t(a)] / D.si[size_t(b)];
  bool kcal_involved = false;
  {
    auto is_kcal = [&](int u) { return std::string(D.unit[size_t(u)]).find("kilocalories") != std::string::npos; };
    kcal_involved = is_kcal(a) != is_kcal(b);
  }
  (void)kcal_involved;
  if (!relclose(ab, exp_ab, TOL4))
    r.fail(site + "/value/" + ua + "->" + ub,
           fmt("convert(%s->%s) = %.12g, SI/CODATA-2018 value %.12Lg (rel. dev. %.3Lg > 5e-5)", ua, ub, ab, exp_ab,
               fabsl(ab - exp_ab) / exp_ab));
  // derived units equal the quotient of their base conversions (metamorphic relation named in the statement)
  Quot qa, qb;
  if (derived_of(di, a, qa) && derived_of(di, b, qb)) {
    r.cls("derived-unit");
    double num = dims()[size_t(qa.num_dim)].conv(qa.num_unit, qb.num_unit);
    double den = dims()[size_t(qa.den_dim)].conv(qa.den_unit, qb.den_unit);
    // each side is a product/quotient of <= 6 correctly rounded operations
    if (!relclose((long double)ab, (long double)num / den, 16 * 2.220446049250313e-16L))
      r.fail(site + "/derived-quotient",
             fmt("convert(%s->%s) = %.17g but quotient of base conversions = %.17g", ua, ub, ab, num / den));
  }
  // metamorphic sweep on a value
  if (x != 0.0) {
    double y = ab * x;
    double back = ba * y;
    if (!relclose(back, x, 2 * ULP4)) r.fail(site + "/roundtrip-value", fmt("%s->%s->%s maps %.17g to %.17g", ua, ub, ua, x, back));
    double via = bc * (ab * x), direct = ac * x;
    if (!relclose(via, direct, 2 * ULP4))
      r.fail(site + "/path-value", fmt("%.17g %s -> %s -> %s gives %.17g, direct %.17g", x, ua, ub, uc_, via, direct));
  }
  return r;
}

static json gen_units() {
  int di = ri(0, int(dims().size()) - 1);
  int n = int(dims()[size_t(di)].unit.size());
  double x = rlog(-30, 30);
  if (rbool(30)) x = -x;
  return json{{"dim", di}, {"a", ri(0, n - 1)}, {"b", ri(0, n - 1)}, {"c", ri(0, n - 1)}, {"x", x}};
}

static void enum_units(int, const std::function<bool(const json &)> &emit) {
  for (size_t di = 0; di < dims().size(); ++di) {
    int n = int(dims()[di].unit.size());
    for (int a = 0; a < n; ++a)
      for (int b = 0; b < n; ++b)
        for (int c = 0; c < n; ++c)
          if (!emit(json{{"dim", int(di)}, {"a", a}, {"b", b}, {"c", c}, {"x", 1.0}})) return;
  }
}

// ------------------------------------------------------------------ sub "constants"
struct NamedConst {
  const char *name;
  double got;
  long double exp;
  long double rel;
  const char *what;
};
static const std::vector<NamedConst> &constants() {
  using namespace votca::tools::conv;
  static const std::vector<NamedConst> C = {
      {"Pi", Pi, ref::pi, 4e-16L, "pi"},
      {"kB", kB, ref::kB_eV, TOL4, "Boltzmann constant [eV/K]"},
      {"hbar", hbar, ref::hbar_eVs, TOL4, "reduced Planck constant [eV s]"},
      {"bohr2nm", bohr2nm, ref::bohr_m / 1e-9L, TOL4, "Bohr radius [nm]"},
      {"nm2bohr", nm2bohr, 1e-9L / ref::bohr_m, TOL4, "nm in Bohr radii"},
      {"ang2bohr", ang2bohr, 1e-10L / ref::bohr_m, TOL4, "Angstrom in Bohr radii"},
      {"bohr2ang", bohr2ang, ref::bohr_m / 1e-10L, TOL4, "Bohr radius [Angstrom]"},
      {"nm2ang", nm2ang, 10.0L, 4e-16L, "nm in Angstrom"},
      {"ang2nm", ang2nm, 0.1L, 4e-16L, "Angstrom in nm"},
      {"hrt2ev", hrt2ev, ref::hartree_eV, TOL4, "Hartree [eV]"},
      {"ev2hrt", ev2hrt, 1.0L / ref::hartree_eV, TOL4, "eV in Hartree"},
      {"ev2kj_per_mol", ev2kj_per_mol, ref::eV_kJmol, TOL4, "eV per particle in kJ/mol"},
      {"kcal2kj", kcal2kj, ref::cal_th, TOL4, "kcal in kJ (thermochemical calorie, 4.184 J, the calorie of kcal/mol force fields)"},
      {"kj2kcal", kj2kcal, 1.0L / ref::cal_th, TOL4, "kJ in kcal (thermochemical)"},
  };
  return C;
}
static const char *KEY_KCAL = "conv::kcal2kj/IT-vs-thermochemical-calorie";

static Result run_const(const json &c) {
  Result r;
  std::string name = c.at("name");
  for (auto &k : constants()) {
    if (name != k.name) continue;
    bool kcal = (name == "kcal2kj" || name == "kj2kcal");
    r.nontrivial = true;
    r.cls(kcal ? "calorie" : "other");
    if (kcal && known(KEY_KCAL)) {
      r.cls(std::string("excluded-known:") + KEY_KCAL);
      st().stats["constants"].excluded_known++;
      return r;
    }
    if (!relclose(k.got, k.exp, k.rel)) {
      std::string key = kcal ? std::string(KEY_KCAL) : std::string("conv::") + k.name + "/value";
      r.fail(key, fmt("conv::%s = %.12g, %s = %.12Lg by SI/CODATA 2018 (rel. dev. %.3Lg > %.1Lg)%s", k.name, k.got, k.what,
                      k.exp, fabsl(k.got - k.exp) / k.exp, k.rel,
                      kcal ? "; 4.1868 is the International-Table calorie, UnitConverter and LAMMPS 'real' units use 4.184" : ""));
    }
    return r;
  }
  r.discard = true;
  return r;
}
static void enum_const(int, const std::function<bool(const json &)> &emit) {
  for (auto &k : constants())
    if (!emit(json{{"name", k.name}})) return;
}

// ------------------------------------------------------------------ sub "crosstable"
// factors the LAMMPS dump reader applies to positions [Angstrom -> nm] and forces [kcal/mol/Angstrom -> kJ/mol/nm]
// flavour 0: plain columns x y z, 1: unwrapped xu yu zu, 2: scaled xs ys zs (fractions of the 100 Angstrom box)
static bool lammps_factors(double &fpos, double &fforce, std::string &err, int flavour = 0) {
  using namespace votca::csg;
  char tmpl[] = "/verif/build/work/c20-XXXXXX";
  mkdir("/verif/build/work", 0777);
  char *d = mkdtemp(tmpl);
  if (!d) {
    err = "mkdtemp failed";
    return false;
  }
  std::string dir = d, file = dir + "/one.dump";
  {
    std::ofstream f(file);
    f << "ITEM: TIMESTEP\n1\nITEM: NUMBER OF ATOMS\n1\nITEM: BOX BOUNDS pp pp pp\n0 100.0\n0 100.0\n0 100.0\n";
    if (flavour == 0) f << "ITEM: ATOMS id type x y z vx vy vz fx fy fz\n1 0 8.0 16.0 32.0 0.0 0.0 0.0 4.0 -2.0 64.0\n";
    if (flavour == 1) f << "ITEM: ATOMS id type xu yu zu vx vy vz fx fy fz\n1 0 8.0 16.0 32.0 0.0 0.0 0.0 4.0 -2.0 64.0\n";
    if (flavour == 2) f << "ITEM: ATOMS id type xs ys zs vx vy vz fx fy fz\n1 0 0.08 0.16 0.32 0.0 0.0 0.0 4.0 -2.0 64.0\n";
    // second frame with another box (NPT): same Angstrom coordinates, i.e. other scaled values
    f << "ITEM: TIMESTEP\n2\nITEM: NUMBER OF ATOMS\n1\nITEM: BOX BOUNDS pp pp pp\n0 200.0\n0 200.0\n0 200.0\n";
    if (flavour == 0) f << "ITEM: ATOMS id type x y z vx vy vz fx fy fz\n1 0 8.0 16.0 32.0 0.0 0.0 0.0 4.0 -2.0 64.0\n";
    if (flavour == 1) f << "ITEM: ATOMS id type xu yu zu vx vy vz fx fy fz\n1 0 8.0 16.0 32.0 0.0 0.0 0.0 4.0 -2.0 64.0\n";
    if (flavour == 2) f << "ITEM: ATOMS id type xs ys zs vx vy vz fx fy fz\n1 0 0.04 0.08 0.16 0.0 0.0 0.0 4.0 -2.0 64.0\n";
    // third frame: triclinic cell, edges 200 A, tilt xy=20 xz=10 yz=5 A (bounds are those of the bounding box); only its box is looked at
    f << "ITEM: TIMESTEP\n3\nITEM: NUMBER OF ATOMS\n1\nITEM: BOX BOUNDS xy xz yz pp pp pp\n0 230.0 20.0\n0 205.0 10.0\n0 200.0 5.0\n";
    f << "ITEM: ATOMS id type x y z vx vy vz fx fy fz\n1 0 8.0 16.0 32.0 0.0 0.0 0.0 4.0 -2.0 64.0\n";
  }
  bool ok = true;
  std::streambuf *old = std::cout.rdbuf();
  try {
    Topology top;
    top.setBox(Eigen::Matrix3d::Identity() * 10.0);
    top.RegisterBeadType("A");
    top.CreateResidue("R");
    Bead *b = top.CreateBead(Bead::spherical, "A", "A", 0, 1.0, 0.0);
    b->setPos(Eigen::Vector3d::Zero());
    b->setVel(Eigen::Vector3d::Zero());
    b->setF(Eigen::Vector3d::Zero());
    TrajectoryReader::RegisterPlugins();
    std::unique_ptr<TrajectoryReader> reader = TrjReaderFactory().Create(file);
    std::cout.rdbuf(nullptr);  // the reader is chatty
    reader->Open(file);
    reader->FirstFrame(top);
    Eigen::Vector3d p_first = top.getBead(0)->getPos(), F_first = top.getBead(0)->getF();
    bool second = reader->NextFrame(top);
    Eigen::Vector3d p_second = top.getBead(0)->getPos(), F_second = top.getBead(0)->getF();
    bool third = second && reader->NextFrame(top);
    Eigen::Matrix3d B3 = top.getBox();
    reader->Close();
    if (!second || (p_second - p_first).cwiseAbs().maxCoeff() > 1e-12 || (F_second - F_first).cwiseAbs().maxCoeff() > 1e-9) {
      std::cout.rdbuf(old);
      err = "second frame (other box, same Angstrom coordinates) converted differently from the first";
      remove(file.c_str());
      rmdir(dir.c_str());
      return false;
    }
    std::cout.rdbuf(old);
    Eigen::Vector3d p = p_second, F = F_second;
    fpos = p.x() / 8.0;
    fforce = F.x() / 4.0;
    // the cell vectors are lengths like the positions: edges and tilt factors of the triclinic frame use the same factor
    if (!third || !(close(B3(0, 0) / 200.0, fpos, 1e-13) && close(B3(1, 1) / 200.0, fpos, 1e-13) && close(B3(2, 2) / 200.0, fpos, 1e-13) &&
                    close(B3(0, 1) / 20.0, fpos, 1e-13) && close(B3(0, 2) / 10.0, fpos, 1e-13) && close(B3(1, 2) / 5.0, fpos, 1e-13))) {
      err = third ? "box edges / tilt factors of a triclinic frame converted differently from the positions" : "triclinic third frame not read";
      ok = false;
    }
    // all three components must use the same factor
    if (!(close(p.y() / 16.0, fpos, 1e-14) && close(p.z() / 32.0, fpos, 1e-14) && close(F.y() / -2.0, fforce, 1e-14) &&
          close(F.z() / 64.0, fforce, 1e-14))) {
      err = "components scaled differently";
      ok = false;
    }
  } catch (const std::exception &e) {
    std::cout.rdbuf(old);
    err = e.what();
    ok = false;
  }
  remove(file.c_str());
  rmdir(dir.c_str());
  return ok;
}

struct Cross {
  const char *name;
  std::function<bool(double &, double &, std::string &, std::string &)> eval;  // -> values A,B with descriptions
  bool kcal;
};
static const std::vector<Cross> &crosses() {
  using namespace votca::tools;
  static const std::vector<Cross> X = [] {
    std::vector<Cross> x;
    UnitConverter uc;
    auto two = [&x](const char *name, double A, const char *da, double B, const char *db, bool kcal = false) {
      std::string sa = da, sb = db;
      x.push_back({name,
                   [A, B, sa, sb](double &a, double &b, std::string &d1, std::string &d2) {
                     a = A;
                     b = B;
                     d1 = sa;
                     d2 = sb;
                     return true;
                   },
                   kcal});
    };
    two("bohr2ang", conv::bohr2ang, "conv::bohr2ang", uc.convert(DistanceUnit::bohr, DistanceUnit::angstroms),
        "convert(bohr->angstroms)");
    two("ang2bohr", conv::ang2bohr, "conv::ang2bohr", uc.convert(DistanceUnit::angstroms, DistanceUnit::bohr),
        "convert(angstroms->bohr)");
    two("bohr2nm", conv::bohr2nm, "conv::bohr2nm", uc.convert(DistanceUnit::bohr, DistanceUnit::nanometers),
        "convert(bohr->nanometers)");
    two("nm2bohr", conv::nm2bohr, "conv::nm2bohr", uc.convert(DistanceUnit::nanometers, DistanceUnit::bohr),
        "convert(nanometers->bohr)");
    two("nm2ang", conv::nm2ang, "conv::nm2ang", uc.convert(DistanceUnit::nanometers, DistanceUnit::angstroms),
        "convert(nanometers->angstroms)");
    two("ang2nm", conv::ang2nm, "conv::ang2nm", uc.convert(DistanceUnit::angstroms, DistanceUnit::nanometers),
        "convert(angstroms->nanometers)");
    two("bohr2nm*nm2bohr", conv::bohr2nm * conv::nm2bohr, "conv::bohr2nm*conv::nm2bohr", 1.0, "1");
    two("bohr2ang*ang2bohr", conv::bohr2ang * conv::ang2bohr, "conv::bohr2ang*conv::ang2bohr", 1.0, "1");
    two("bohr2nm/bohr2ang", conv::bohr2nm / conv::bohr2ang, "conv::bohr2nm/conv::bohr2ang", conv::ang2nm, "conv::ang2nm");
    two("hrt2ev", conv::hrt2ev, "conv::hrt2ev", uc.convert(EnergyUnit::hartrees, EnergyUnit::electron_volts),
        "convert(hartrees->electron_volts)");
    two("ev2hrt", conv::ev2hrt, "conv::ev2hrt", uc.convert(EnergyUnit::electron_volts, EnergyUnit::hartrees),
        "convert(electron_volts->hartrees)");
    two("hrt2ev(molar)", conv::hrt2ev, "conv::hrt2ev",
        uc.convert(MolarEnergyUnit::hartrees_per_mole, MolarEnergyUnit::electron_volts_per_mole),
        "convert(hartrees_per_mole->electron_volts_per_mole)");
    two("kcal2kj", conv::kcal2kj, "conv::kcal2kj", uc.convert(EnergyUnit::kilocalories, EnergyUnit::kilojoules),
        "convert(kilocalories->kilojoules)", true);
    two("kj2kcal", conv::kj2kcal, "conv::kj2kcal", uc.convert(EnergyUnit::kilojoules, EnergyUnit::kilocalories),
        "convert(kilojoules->kilocalories)", true);
    two("kcal2kj(molar)", conv::kcal2kj, "conv::kcal2kj",
        uc.convert(MolarEnergyUnit::kilocalories_per_mole, MolarEnergyUnit::kilojoules_per_mole),
        "convert(kilocalories_per_mole->kilojoules_per_mole)", true);
    two("ev2kj_per_mol", conv::ev2kj_per_mol, "conv::ev2kj_per_mol",
        uc.convert(EnergyUnit::electron_volts, EnergyUnit::kilojoules) * double(ref::N_A),
        "convert(electron_volts->kilojoules)*N_A");
    two("kB*ev2kj_per_mol", conv::kB * conv::ev2kj_per_mol, "conv::kB*conv::ev2kj_per_mol (csg_boltzmann kT)",
        double(ref::R_kJmolK), "gas constant R [kJ/mol/K] (SI exact)");
    two("coulomb(UnitConverter)-vs-joule/eV", uc.convert(ChargeUnit::e, ChargeUnit::coulombs), "convert(e->coulombs)",
        uc.convert(EnergyUnit::electron_volts, EnergyUnit::joules), "convert(electron_volts->joules)");
    two("energy-vs-molar-energy kJ/eV", uc.convert(EnergyUnit::electron_volts, EnergyUnit::kilojoules),
        "convert(electron_volts->kilojoules)",
        uc.convert(MolarEnergyUnit::electron_volts_per_mole, MolarEnergyUnit::kilojoules_per_mole),
        "convert(electron_volts_per_mole->kilojoules_per_mole)");
    two("energy-vs-molar-energy kcal/kJ", uc.convert(EnergyUnit::kilojoules, EnergyUnit::kilocalories),
        "convert(kilojoules->kilocalories)",
        uc.convert(MolarEnergyUnit::kilojoules_per_mole, MolarEnergyUnit::kilocalories_per_mole),
        "convert(kilojoules_per_mole->kilocalories_per_mole)");
    two("force-vs-molar-force Ha/bohr", uc.convert(ForceUnit::hatree_per_bohr, ForceUnit::kilojoules_per_nanometer),
        "convert(hatree_per_bohr->kilojoules_per_nanometer)",
        uc.convert(MolarForceUnit::hatree_per_mole_bohr, MolarForceUnit::kilojoules_per_mole_nanometer),
        "convert(hatree_per_mole_bohr->kilojoules_per_mole_nanometer)");
    two("amu==g/mol", uc.convert(MassUnit::atomic_mass_units, MassUnit::grams_per_mole), "convert(atomic_mass_units->grams_per_mole)",
        1.0, "1");
    two("g/mol via N_A", uc.convert(MassUnit::atomic_mass_units, MassUnit::grams) * double(ref::N_A),
        "convert(atomic_mass_units->grams)*N_A", 1.0, "1 g/mol (molar mass constant, 0.99999999965 g/mol)");
    // LAMMPS dump reader (real units): positions Angstrom -> nm, forces kcal/mol/Angstrom -> kJ/mol/nm
    x.push_back({"lammpsdump/position",
                 [uc](double &a, double &b, std::string &d1, std::string &d2) {
                   double fp, ff;
                   std::string err;
                   if (!lammps_factors(fp, ff, err)) {
                     d1 = err;
                     return false;
                   }
                   a = fp;
                   d1 = "factor applied by LAMMPSDumpReader to x";
                   b = uc.convert(DistanceUnit::angstroms, DistanceUnit::nanometers);
                   d2 = "convert(angstroms->nanometers)";
                   return true;
                 },
                 false});
    for (int flavour = 1; flavour <= 2; ++flavour)
      x.push_back({flavour == 1 ? "lammpsdump/position-unwrapped-columns" : "lammpsdump/position-scaled-columns",
                   [uc, flavour](double &a, double &b, std::string &d1, std::string &d2) {
                     double fp, ff;
                     std::string err;
                     if (!lammps_factors(fp, ff, err, flavour)) {
                       d1 = err;
                       return false;
                     }
                     a = fp;
                     d1 = flavour == 1 ? "factor applied by LAMMPSDumpReader to xu" : "factor applied by LAMMPSDumpReader to xs * box length [Angstrom]";
                     b = uc.convert(DistanceUnit::angstroms, DistanceUnit::nanometers);
                     d2 = "convert(angstroms->nanometers)";
                     return true;
                   },
                   false});
    x.push_back({"lammpsdump/force",
                 [uc](double &a, double &b, std::string &d1, std::string &d2) {
                   double fp, ff;
                   std::string err;
                   if (!lammps_factors(fp, ff, err)) {
                     d1 = err;
                     return false;
                   }
                   a = ff;
                   d1 = "factor applied by LAMMPSDumpReader to fx [kcal/mol/Angstrom]";
                   b = uc.convert(MolarForceUnit::kilocalories_per_mole_angstrom, MolarForceUnit::kilojoules_per_mole_nanometer);
                   d2 = "convert(kilocalories_per_mole_angstrom->kilojoules_per_mole_nanometer)";
                   return true;
                 },
                 true});
    // Elements::getCovRad unit switch
    x.push_back({"Elements::getCovRad/bohr",
                 [uc](double &a, double &b, std::string &d1, std::string &d2) {
                   Elements el;
                   a = el.getCovRad("C", "bohr") / el.getCovRad("C", "ang");
                   d1 = "getCovRad(C,bohr)/getCovRad(C,ang)";
                   b = uc.convert(DistanceUnit::angstroms, DistanceUnit::bohr);
                   d2 = "convert(angstroms->bohr)";
                   return true;
                 },
                 false});
    x.push_back({"Elements::getCovRad/nm",
                 [uc](double &a, double &b, std::string &d1, std::string &d2) {
                   Elements el;
                   a = el.getCovRad("S", "nm") / el.getCovRad("S", "ang");
                   d1 = "getCovRad(S,nm)/getCovRad(S,ang)";
                   b = uc.convert(DistanceUnit::angstroms, DistanceUnit::nanometers);
                   d2 = "convert(angstroms->nanometers)";
                   return true;
                 },
                 false});
    // csg/units.h: the default units of csg are nm, u, ps, e, kJ/mol, nm/ps, kJ/mol/nm; velocity and force defaults must be
    // the quotients of the distance/time/energy defaults
    x.push_back({"CsgUnits/velocity=distance/time",
                 [uc](double &a, double &b, std::string &d1, std::string &d2) {
                   votca::csg::CsgUnits u;
                   a = uc.convert(u.velocity_unit, VelocityUnit::angstroms_per_femtosecond);
                   d1 = "convert(csg velocity unit -> angstroms_per_femtosecond)";
                   b = uc.convert(u.distance_unit, DistanceUnit::angstroms) / uc.convert(u.time_unit, TimeUnit::femtoseconds);
                   d2 = "convert(csg distance unit->angstroms)/convert(csg time unit->femtoseconds)";
                   return true;
                 },
                 false});
    x.push_back({"CsgUnits/force=energy/distance",
                 [uc](double &a, double &b, std::string &d1, std::string &d2) {
                   votca::csg::CsgUnits u;
                   a = uc.convert(u.force_unit, MolarForceUnit::kilojoules_per_mole_angstrom);
                   d1 = "convert(csg force unit -> kilojoules_per_mole_angstrom)";
                   b = uc.convert(u.energy_unit, MolarEnergyUnit::kilojoules_per_mole) /
                       uc.convert(u.distance_unit, DistanceUnit::angstroms);
                   d2 = "convert(csg energy unit->kJ/mol)/convert(csg distance unit->angstroms)";
                   return true;
                 },
                 false});
    return x;
  }();
  return X;
}

static Result run_cross(const json &c) {
  Result r;
  std::string name = c.at("name");
  for (auto &k : crosses()) {
    if (name != k.name) continue;
    r.nontrivial = true;
    r.cls(k.kcal ? "calorie" : "other");
    if (k.kcal && known(KEY_KCAL)) {
      r.cls(std::string("excluded-known:") + KEY_KCAL);
      st().stats["crosstable"].excluded_known++;
      return r;
    }
    double a = 0, b = 0;
    std::string d1, d2;
    if (!k.eval(a, b, d1, d2)) {
      r.fail(std::string("crosstable/") + k.name + "/cannot-evaluate", d1);
      return r;
    }
    if (!relclose(a, b, TOL4)) {
      std::string key = k.kcal ? std::string(KEY_KCAL) : std::string("crosstable/") + k.name;
      r.fail(key, fmt("%s = %.12g but %s = %.12g: the same quantity differs by rel. %.3g > 5e-5 (4th significant digit)",
                      d1.c_str(), a, d2.c_str(), b, std::fabs(a - b) / std::max(std::fabs(a), std::fabs(b))));
    }
    return r;
  }
  r.discard = true;
  return r;
}
static void enum_cross(int, const std::function<bool(const json &)> &emit) {
  for (auto &k : crosses())
    if (!emit(json{{"name", k.name}})) return;
}

// ------------------------------------------------------------------ sub "elements"
// IUPAC abridged standard atomic weights (2013/2016; conventional values for interval elements; mass number of the
// longest-lived isotope for Tc, Po, At, Rn)
struct El {
  int Z;
  const char *sym;
  double mass;
};
static const std::vector<El> &iupac() {
  static const std::vector<El> T = {
      {1, "H", 1.008},     {2, "He", 4.0026},   {3, "Li", 6.94},     {4, "Be", 9.0122},   {5, "B", 10.81},
      {6, "C", 12.011},    {7, "N", 14.007},    {8, "O", 15.999},    {9, "F", 18.998},    {10, "Ne", 20.180},
      {11, "Na", 22.990},  {12, "Mg", 24.305},  {13, "Al", 26.982},  {14, "Si", 28.085},  {15, "P", 30.974},
      {16, "S", 32.06},    {17, "Cl", 35.45},   {18, "Ar", 39.948},  {19, "K", 39.098},   {20, "Ca", 40.078},
      {21, "Sc", 44.956},  {22, "Ti", 47.867},  {23, "V", 50.942},   {24, "Cr", 51.996},  {25, "Mn", 54.938},
      {26, "Fe", 55.845},  {27, "Co", 58.933},  {28, "Ni", 58.693},  {29, "Cu", 63.546},  {30, "Zn", 65.38},
      {31, "Ga", 69.723},  {32, "Ge", 72.630},  {33, "As", 74.922},  {34, "Se", 78.971},  {35, "Br", 79.904},
      {36, "Kr", 83.798},  {37, "Rb", 85.468},  {38, "Sr", 87.62},   {39, "Y", 88.906},   {40, "Zr", 91.224},
      {41, "Nb", 92.906},  {42, "Mo", 95.95},   {43, "Tc", 98.0},    {44, "Ru", 101.07},  {45, "Rh", 102.91},
      {46, "Pd", 106.42},  {47, "Ag", 107.87},  {48, "Cd", 112.41},  {49, "In", 114.82},  {50, "Sn", 118.71},
      {51, "Sb", 121.76},  {52, "Te", 127.60},  {53, "I", 126.90},   {54, "Xe", 131.29},  {55, "Cs", 132.91},
      {56, "Ba", 137.33},  {57, "La", 138.91},  {58, "Ce", 140.12},  {59, "Pr", 140.91},  {60, "Nd", 144.24},
      {61, "Pm", 145.0},   {62, "Sm", 150.36},  {63, "Eu", 151.96},  {64, "Gd", 157.25},  {65, "Tb", 158.93},
      {66, "Dy", 162.50},  {67, "Ho", 164.93},  {68, "Er", 167.26},  {69, "Tm", 168.93},  {70, "Yb", 173.05},
      {71, "Lu", 174.97},  {72, "Hf", 178.49},  {73, "Ta", 180.95},  {74, "W", 183.84},   {75, "Re", 186.21},
      {76, "Os", 190.23},  {77, "Ir", 192.22},  {78, "Pt", 195.08},  {79, "Au", 196.97},  {80, "Hg", 200.59},
      {81, "Tl", 204.38},  {82, "Pb", 207.2},   {83, "Bi", 208.98},  {84, "Po", 209.0},   {85, "At", 210.0},
      {86, "Rn", 222.0}};
  return T;
}

static Result run_elem(const json &c) {
  Result r;
  int Z = c.at("Z");
  const El *e = nullptr;
  for (auto &t : iupac())
    if (t.Z == Z) e = &t;
  if (!e) {
    r.discard = true;
    return r;
  }
  std::string sym = e->sym;
  vt::Elements el;
  if (!el.isEleShort(sym)) {
    // the library's tables stop at Ba and resume at Hf; absence of an element is not a self-inconsistency
    r.cls("absent-from-library");
    return r;
  }
  r.nontrivial = true;
  r.cls("present");
  auto excl = [&](const std::string &key) {
    if (known(key)) {
      r.cls("excluded-known:" + key);
      st().stats["elements"].excluded_known++;
      return true;
    }
    return false;
  };
  // the tables are filled lazily: the answers must not depend on the order in which the accessors are first called on
  // an object (all six orders of number / charge / mass on fresh objects)
  {
    std::string key = "Elements/accessor-order/" + sym;
    static const int orders[6][3] = {{0, 1, 2}, {0, 2, 1}, {1, 0, 2}, {1, 2, 0}, {2, 0, 1}, {2, 1, 0}};
    for (auto &o : orders) {
      vt::Elements e2;
      long num = -1, crg = -1;
      double m = -1;
      try {
        for (int k : o) {
          if (k == 0) num = e2.getEleNum(sym);
          if (k == 1) crg = e2.getNucCrg(sym);
          if (k == 2) m = e2.getMass(sym);
        }
      } catch (const std::exception &ex) {
        r.fail(key, fmt("accessor order %d%d%d on a fresh Elements object throws for %s: %s", o[0], o[1], o[2], sym.c_str(), ex.what()));
        break;
      }
      if (num != Z || crg != Z || !(m > 0)) {
        r.fail(key, fmt("accessor order %d%d%d: number %ld charge %ld mass %g for %s (Z=%d)", o[0], o[1], o[2], num, crg, m, sym.c_str(), Z));
        break;
      }
    }
  }
  // atomic number <-> symbol, nuclear charge
  {
    std::string key = "Elements/number/" + sym;
    if (!excl(key)) try {
        long num = el.getEleNum(sym);
        long crg = el.getNucCrg(sym);
        std::string back = el.getEleName(num);
        std::string byZ = el.getEleName(Z);
        if (num != Z) r.fail(key, fmt("getEleNum(%s) = %ld, atomic number is %d", sym.c_str(), num, Z));
        if (crg != Z) r.fail(key, fmt("getNucCrg(%s) = %ld, atomic number is %d", sym.c_str(), crg, Z));
        if (back != sym) r.fail(key, fmt("getEleName(getEleNum(%s)) = %s", sym.c_str(), back.c_str()));
        if (byZ != sym) r.fail(key, fmt("getEleName(%d) = %s, expected %s", Z, byZ.c_str(), sym.c_str()));
      } catch (const std::exception &ex) {
        r.fail(key, fmt("number/charge lookup of %s throws: %s", sym.c_str(), ex.what()));
      }
  }
  // mass
  {
    std::string key = "Elements/mass/" + sym;
    if (!excl(key)) try {
        double m = el.getMass(sym);
        if (!(m > 0) || !relclose(m, e->mass, 1e-3L))
          r.fail(key, fmt("getMass(%s) = %.8g, IUPAC standard atomic weight %.8g (rel. dev. %.3g > 1e-3)", sym.c_str(), m,
                          e->mass, std::fabs(m - e->mass) / e->mass));
      } catch (const std::exception &ex) {
        r.fail(key, fmt("getMass(%s) throws: %s", sym.c_str(), ex.what()));
      }
  }
  // mass -> symbol: the element CLOSEST in mass, for every tolerance that admits it (a wide tolerance must not let a
  // neighbour win: Bi/Po are 0.02 apart, Ar/Ca 0.13, Co/Ni 0.24)
  {
    std::string key = "Elements/closest-in-mass/" + sym;
    if (!excl(key) && !known("Elements/mass/" + sym)) try {
        double m = el.getMass(sym);
        double gap = 1e300;  // distance to the nearest other tabulated mass
        for (auto &t : iupac()) {
          if (t.sym == sym || !el.isEleShort(t.sym)) continue;
          gap = std::min(gap, std::fabs(el.getMass(t.sym) - m));
        }
        if (gap > 0) {
          for (double frac : {0.0, 0.4, -0.4}) {
            double q = m + frac * gap;
            for (double tol : {1e-9, 0.01, 0.05, 0.13, 0.25, 1.0, 10.0}) {
              bool admits = std::fabs(q - m) <= tol * (1 - 1e-12), rejects = std::fabs(q - m) > tol * (1 + 1e-12);
              if (!admits && !rejects) continue;
              vt::Elements e3;
              bool assoc = e3.isMassAssociatedWithElement(q, tol);
              std::string got;
              bool threw = false;
              try {
                got = e3.getEleShortClosestInMass(q, tol);
              } catch (const std::runtime_error &) {
                threw = true;
              }
              // the lazily filled tables again: the closest-in-mass lookup as the FIRST call on a fresh object
              {
                vt::Elements e4;
                std::string got4;
                bool threw4 = false;
                try {
                  got4 = e4.getEleShortClosestInMass(q, tol);
                } catch (const std::runtime_error &) {
                  threw4 = true;
                }
                if (threw4 != threw || got4 != got) {
                  r.fail("Elements/accessor-order/" + sym, fmt("getEleShortClosestInMass(%.10g, %g) as the first call on a fresh Elements object: '%s'%s, after isMassAssociatedWithElement: '%s'%s",
                                                             q, tol, got4.c_str(), threw4 ? " (threw)" : "", got.c_str(), threw ? " (threw)" : ""));
                  break;
                }
              }
              if (admits && (threw || got != sym || !assoc)) {
                r.fail(key, fmt("mass %.10g (%s%+.3g) with tolerance %g: closest element reported as '%s'%s, isMassAssociatedWithElement=%d; expected %s",
                                q, sym.c_str(), q - m, tol, got.c_str(), threw ? " (threw)" : "", int(assoc), sym.c_str()));
                break;
              }
              if (rejects && (!threw || assoc)) {
                r.fail(key, fmt("mass %.10g is %.3g away from the closest element (%s) but tolerance %g %s", q, std::fabs(q - m), sym.c_str(), tol,
                                threw ? "is reported as associated" : ("returned '" + got + "'").c_str()));
                break;
              }
            }
            if (!r.ok) break;
          }
          r.cls("closest-in-mass-checked");
        } else
          r.cls("mass-shared-with-another-element");
      } catch (const std::exception &ex) {
        r.fail(key, fmt("mass lookup of %s throws: %s", sym.c_str(), ex.what()));
      }
  }
  // symbol <-> full name
  {
    std::string key = "Elements/name-roundtrip/" + sym;
    if (!excl(key)) {
      std::string full;
      try {
        full = el.getEleFull(sym);
        if (!el.isEleFull(full))
          r.fail(key, fmt("getEleFull(%s) = %s is not recognised by isEleFull", sym.c_str(), full.c_str()));
        else {
          std::string back = el.getEleShort(full);
          if (back != sym)
            r.fail(key, fmt("getEleShort(getEleFull(%s)=%s) = %s", sym.c_str(), full.c_str(), back.c_str()));
        }
      } catch (const std::exception &ex) {
        r.fail(key, fmt("getEleShort(getEleFull(%s)=%s) throws: %s", sym.c_str(), full.c_str(), ex.what()));
      }
    }
  }
  return r;
}
static void enum_elem(int, const std::function<bool(const json &)> &emit) {
  for (auto &t : iupac())
    if (!emit(json{{"Z", t.Z}})) return;
}

int main(int argc, char **argv) {
  std::vector<Sub> subs;
  subs.push_back({"units", gen_units, run_units, 1.0, 100, enum_units});
  subs.push_back({"constants", nullptr, run_const, 0.0, 100, enum_const});
  subs.push_back({"crosstable", nullptr, run_cross, 0.0, 100, enum_cross});
  subs.push_back({"elements", nullptr, run_elem, 0.0, 100, enum_elem});
  return harness_main(argc, argv, "C20", subs);
}
