// C15 — classical multipole interactions are symmetric and match point-charge physics.
//
// Real code: eeInteractor::CalcStaticEnergy_site / CalcStaticEnergy / ApplyStaticField / FillTholeInteraction
// (eeinteractor.cc) on real StaticSite / PolarSite / ClassicalSegment objects, StaticSite::Rotate (staticsite.cc).
// Oracles (all long double, none uses VOTCA code):
//  * exact Cartesian multipole-multipole energy  E = [q_A + mu_A.grad + (1/3) Theta_A:grad grad] phi_B(r_A),
//    phi_B = q_B T - mu_B.grad T + (1/3) Theta_B:grad grad T, T = 1/|r - r_B|, with the T tensors up to rank 4;
//    spherical <-> Cartesian moments by Stone's definitions (Q20=Th_zz, Q21c=2/sqrt3 Th_xz, Q21s=2/sqrt3 Th_yz,
//    Q22c=(Th_xx-Th_yy)/sqrt3, Q22s=2/sqrt3 Th_xy; dipole order in Q is x,y,z);
//  * Coulomb sums over finite point-charge clusters realising the same moments (dipole: +-|mu|/a at +-a/2; quadrupole:
//    charges theta_k/(3a^2) at +-a e_k on the principal axes), spacing a and a/2, Richardson extrapolation;
//  * closed form of the Thole-damped dipole tensor.
#include "vv_common.h"

#include <votca/xtp/classicalsegment.h>
#include <votca/xtp/eeinteractor.h>
#include <votca/xtp/eigen.h>
#include <votca/xtp/polarsite.h>
#include <votca/xtp/staticsite.h>

using namespace vv;
using votca::Index;
using namespace votca::xtp;
typedef long double LD;

static const double EPS = 2.220446049250313e-16;
static const LD SQ3 = 1.7320508075688772935274463415058723669L;

// ------------------------------------------------------------------ case <-> objects
struct SiteIn {
  double pos[3];
  int rank;
  double Q[9];
};
static SiteIn site_in(const json &j) {
  SiteIn s;
  for (int i = 0; i < 3; ++i) s.pos[i] = j.at("pos")[size_t(i)];
  s.rank = j.at("rank");
  for (int i = 0; i < 9; ++i) s.Q[i] = j.at("Q")[size_t(i)];
  // invariant of every real producer of sites (mps reader, setCharge): components beyond the rank are zero
  for (int i = 0; i < 9; ++i)
    if ((s.rank < 1 && i >= 1) || (s.rank < 2 && i >= 4)) s.Q[i] = 0;
  return s;
}
static json site_json(const SiteIn &s) {
  json j;
  j["pos"] = {s.pos[0], s.pos[1], s.pos[2]};
  j["rank"] = s.rank;
  j["Q"] = std::vector<double>(s.Q, s.Q + 9);
  return j;
}
template <class S>
static S make_site(const SiteIn &s, Index id = 0, const char *el = "H") {
  S site(id, el, Eigen::Vector3d(s.pos[0], s.pos[1], s.pos[2]));
  Eigen::Matrix<double, 9, 1> q;
  for (int i = 0; i < 9; ++i) q(i) = s.Q[i];
  site.setMultipole(q, s.rank);
  return site;
}

// ------------------------------------------------------------------ my own multipole algebra
struct MP {
  LD pos[3];
  LD q;
  LD mu[3];
  LD th[3][3];
};
static MP to_mp(const SiteIn &s) {
  MP m;
  for (int i = 0; i < 3; ++i) m.pos[i] = s.pos[i];
  m.q = s.Q[0];
  m.mu[0] = s.Q[1];
  m.mu[1] = s.Q[2];
  m.mu[2] = s.Q[3];
  LD q20 = s.Q[4], q21c = s.Q[5], q21s = s.Q[6], q22c = s.Q[7], q22s = s.Q[8];
  m.th[2][2] = q20;
  m.th[0][0] = -q20 / 2 + SQ3 / 2 * q22c;
  m.th[1][1] = -q20 / 2 - SQ3 / 2 * q22c;
  m.th[0][1] = m.th[1][0] = SQ3 / 2 * q22s;
  m.th[0][2] = m.th[2][0] = SQ3 / 2 * q21c;
  m.th[1][2] = m.th[2][1] = SQ3 / 2 * q21s;
  return m;
}
static void from_mp(const MP &m, SiteIn &s) {  // keeps s.rank
  for (int i = 0; i < 3; ++i) s.pos[i] = double(m.pos[i]);
  s.Q[0] = double(m.q);
  s.Q[1] = double(m.mu[0]);
  s.Q[2] = double(m.mu[1]);
  s.Q[3] = double(m.mu[2]);
  s.Q[4] = double(m.th[2][2]);
  s.Q[5] = double(2 / SQ3 * m.th[0][2]);
  s.Q[6] = double(2 / SQ3 * m.th[1][2]);
  s.Q[7] = double((m.th[0][0] - m.th[1][1]) / SQ3);
  s.Q[8] = double(2 / SQ3 * m.th[0][1]);
}
static LD norm3(const LD v[3]) { return sqrtl(v[0] * v[0] + v[1] * v[1] + v[2] * v[2]); }
static LD normth(const MP &m) {
  LD s = 0;
  for (int a = 0; a < 3; ++a)
    for (int b = 0; b < 3; ++b) s += m.th[a][b] * m.th[a][b];
  return sqrtl(s);
}
// natural size of the sum of |terms|: S = sum_{la,lb} (2L-1)!! |M_la| |M_lb| / R^(L+1)
static LD scale_S(const MP &A, const MP &B) {
  LD d[3] = {A.pos[0] - B.pos[0], A.pos[1] - B.pos[1], A.pos[2] - B.pos[2]};
  LD R = norm3(d);
  LD ma[3] = {fabsl(A.q), norm3(A.mu), normth(A)}, mb[3] = {fabsl(B.q), norm3(B.mu), normth(B)};
  LD w[5] = {1, 1, 3, 15, 105};
  LD S = 0;
  for (int la = 0; la < 3; ++la)
    for (int lb = 0; lb < 3; ++lb) S += w[la + lb] * ma[la] * mb[lb] / powl(R, LD(la + lb + 1));
  return S;
}
static LD dl(int a, int b) { return a == b ? 1.0L : 0.0L; }

static LD energy_exact(const MP &A, const MP &B) {
  LD r[3] = {A.pos[0] - B.pos[0], A.pos[1] - B.pos[1], A.pos[2] - B.pos[2]};
  LD R2 = r[0] * r[0] + r[1] * r[1] + r[2] * r[2], R = sqrtl(R2);
  LD R3 = R * R2, R5 = R3 * R2, R7 = R5 * R2, R9 = R7 * R2;
  LD T0 = 1 / R, T1[3], T2[3][3], T3[3][3][3], T4[3][3][3][3];
  for (int a = 0; a < 3; ++a) {
    T1[a] = -r[a] / R3;
    for (int b = 0; b < 3; ++b) {
      T2[a][b] = (3 * r[a] * r[b] - R2 * dl(a, b)) / R5;
      for (int c = 0; c < 3; ++c) {
        T3[a][b][c] = -(15 * r[a] * r[b] * r[c] - 3 * R2 * (r[a] * dl(b, c) + r[b] * dl(a, c) + r[c] * dl(a, b))) / R7;
        for (int d = 0; d < 3; ++d)
          T4[a][b][c][d] = (105 * r[a] * r[b] * r[c] * r[d] -
                            15 * R2 * (r[a] * r[b] * dl(c, d) + r[a] * r[c] * dl(b, d) + r[a] * r[d] * dl(b, c) + r[b] * r[c] * dl(a, d) +
                                       r[b] * r[d] * dl(a, c) + r[c] * r[d] * dl(a, b)) +
                            3 * R2 * R2 * (dl(a, b) * dl(c, d) + dl(a, c) * dl(b, d) + dl(a, d) * dl(b, c))) /
                           R9;
      }
    }
  }
  // phi and its first two derivatives at r_A
  LD phi = B.q * T0, g[3] = {0, 0, 0}, h[3][3] = {{0, 0, 0}, {0, 0, 0}, {0, 0, 0}};
  for (int c = 0; c < 3; ++c) {
    phi -= B.mu[c] * T1[c];
    for (int d = 0; d < 3; ++d) phi += B.th[c][d] * T2[c][d] / 3;
  }
  for (int a = 0; a < 3; ++a) {
    g[a] = B.q * T1[a];
    for (int c = 0; c < 3; ++c) {
      g[a] -= B.mu[c] * T2[a][c];
      for (int d = 0; d < 3; ++d) g[a] += B.th[c][d] * T3[a][c][d] / 3;
    }
    for (int b = 0; b < 3; ++b) {
      h[a][b] = B.q * T2[a][b];
      for (int c = 0; c < 3; ++c) {
        h[a][b] -= B.mu[c] * T3[a][b][c];
        for (int d = 0; d < 3; ++d) h[a][b] += B.th[c][d] * T4[a][b][c][d] / 3;
      }
    }
  }
  LD E = A.q * phi;
  for (int a = 0; a < 3; ++a) {
    E += A.mu[a] * g[a];
    for (int b = 0; b < 3; ++b) E += A.th[a][b] * h[a][b] / 3;
  }
  return E;
}

// ------------------------------------------------------------------ point-charge clusters
struct PC {
  LD q, x[3];
};
static bool cluster(const MP &m, LD a, std::vector<PC> &out, std::string &err) {
  out.clear();
  if (m.q != 0) out.push_back({m.q, {m.pos[0], m.pos[1], m.pos[2]}});
  LD mun = norm3(m.mu);
  if (mun > 0) {
    LD c = mun / a;
    PC p{c, {0, 0, 0}}, n{-c, {0, 0, 0}};
    for (int i = 0; i < 3; ++i) {
      p.x[i] = m.pos[i] + a / 2 * m.mu[i] / mun;
      n.x[i] = m.pos[i] - a / 2 * m.mu[i] / mun;
    }
    out.push_back(p);
    out.push_back(n);
  }
  LD thn = normth(m);
  if (thn > 0) {
    Eigen::Matrix3d th;
    for (int i = 0; i < 3; ++i)
      for (int j = 0; j < 3; ++j) th(i, j) = double(m.th[i][j] / thn);
    Eigen::SelfAdjointEigenSolver<Eigen::Matrix3d> es(th);  // iterative QL (not computeDirect)
    for (int k = 0; k < 3; ++k) {
      LD ck = LD(es.eigenvalues()(k)) * thn / (3 * a * a);
      if (ck == 0) continue;
      PC p{ck, {0, 0, 0}}, n{ck, {0, 0, 0}};
      for (int i = 0; i < 3; ++i) {
        p.x[i] = m.pos[i] + a * LD(es.eigenvectors()(i, k));
        n.x[i] = m.pos[i] - a * LD(es.eigenvectors()(i, k));
      }
      out.push_back(p);
      out.push_back(n);
    }
    // residual centre charge (sum of the principal values is zero up to rounding): keeps the monopole exact
    LD sc = 0;
    for (int k = 0; k < 3; ++k) sc += LD(es.eigenvalues()(k)) * thn / (3 * a * a);
    if (sc != 0) out.push_back({-2 * sc, {m.pos[0], m.pos[1], m.pos[2]}});
  }
  // the cluster must realise the requested moments (definition sums about the site position); scales: sum |q_i| d_i^l
  LD q = 0, mu[3] = {0, 0, 0}, th[3][3] = {{0, 0, 0}, {0, 0, 0}, {0, 0, 0}}, sc0 = 0, sc1 = 0, sc2 = 0;
  for (auto &p : out) {
    LD d[3] = {p.x[0] - m.pos[0], p.x[1] - m.pos[1], p.x[2] - m.pos[2]};
    LD d2 = d[0] * d[0] + d[1] * d[1] + d[2] * d[2];
    q += p.q;
    sc0 += fabsl(p.q);
    sc1 += fabsl(p.q) * sqrtl(d2);
    sc2 += fabsl(p.q) * d2;
    for (int i = 0; i < 3; ++i) {
      mu[i] += p.q * d[i];
      for (int j = 0; j < 3; ++j) th[i][j] += p.q * (1.5L * d[i] * d[j] - 0.5L * d2 * dl(i, j));
    }
  }
  // coordinates of the cluster points are rounded (eps_ld * |x|), seen from spacing a this is a relative 1e-14 at worst
  LD e = fabsl(q - m.q) / (sc0 + 1e-300L);
  for (int i = 0; i < 3; ++i) {
    e = std::max(e, fabsl(mu[i] - m.mu[i]) / (sc1 + 1e-300L));
    for (int j = 0; j < 3; ++j) e = std::max(e, fabsl(th[i][j] - m.th[i][j]) / (sc2 + 1e-300L));
  }
  if (e > 1e-12L) {
    err = fmt("cluster does not realise the requested moments (rel. error %.3Lg)", e);
    return false;
  }
  return true;
}
static LD coulomb(const std::vector<PC> &A, const std::vector<PC> &B, LD *abssum) {
  LD E = 0, S = 0;
  for (auto &p : A)
    for (auto &s : B) {
      LD d[3] = {p.x[0] - s.x[0], p.x[1] - s.x[1], p.x[2] - s.x[2]};
      LD t = p.q * s.q / norm3(d);
      E += t;
      S += fabsl(t);
    }
  if (abssum) *abssum = S;
  return E;
}

// ------------------------------------------------------------------ generators
static SiteIn gen_site_at(const double pos[3], int rank) {
  SiteIn s;
  for (int i = 0; i < 3; ++i) s.pos[i] = pos[i];
  s.rank = rank;
  for (int i = 0; i < 9; ++i) s.Q[i] = 0;
  int e0 = ri(-3, 1);
  auto val = [&](int e) {
    int m = ri(-999, 999);
    return double(m) * std::pow(10.0, e - 2);
  };
  s.Q[0] = rbool(15) ? 0.0 : val(ri(-3, 1));
  if (rank >= 1) {
    int e = e0 + ri(-1, 1);
    int pat = ri(0, 3);
    for (int i = 1; i <= 3; ++i) s.Q[i] = (pat == 0 || pat == i) ? val(e) : 0.0;
  }
  if (rank >= 2) {
    int e = e0 + ri(-1, 2);
    int pat = ri(0, 6);
    for (int i = 4; i <= 8; ++i) s.Q[i] = (pat <= 1 || pat - 2 == i - 4) ? val(e) : 0.0;
  }
  return s;
}
// separation 0.5 .. 100 bohr in any direction, positions on a 2^-10 lattice (differences are exact in double)
static void gen_positions(double pa[3], double pb[3], bool &axis) {
  for (int i = 0; i < 3; ++i) pa[i] = rfrac(-4096, 4096, 1024);
  axis = rbool(20);
  double R = rbool(50) ? rfrac(512, 8192, 1024) : rfrac(512, 102400, 1024);
  double d[3];
  if (axis) {
    int ax = ri(0, 2);
    for (int i = 0; i < 3; ++i) d[i] = i == ax ? (rbool(50) ? R : -R) : 0.0;
  } else {
    double u[3];
    double nn;
    do {
      for (int i = 0; i < 3; ++i) u[i] = double(ri(-16, 16));
      nn = std::sqrt(u[0] * u[0] + u[1] * u[1] + u[2] * u[2]);
    } while (nn == 0);
    for (int i = 0; i < 3; ++i) d[i] = std::round(R * u[i] / nn * 1024) / 1024;
    if (d[0] * d[0] + d[1] * d[1] + d[2] * d[2] < 0.25) d[0] = 0.5;
  }
  for (int i = 0; i < 3; ++i) pb[i] = pa[i] + d[i];
}
static json gen_rot() {
  json j;
  if (rbool(25)) {  // exact: signed permutation with det +1
    auto p = rperm(3);
    int s0 = rbool(50) ? 1 : -1, s1 = rbool(50) ? 1 : -1;
    int par = (p[0] == 0 && p[1] == 1) || (p[0] == 1 && p[1] == 2) || (p[0] == 2 && p[1] == 0) ? 1 : -1;
    int s2 = par * s0 * s1;
    int sg[3] = {s0, s1, s2};
    std::vector<double> m(9, 0.0);
    for (int i = 0; i < 3; ++i) m[size_t(3 * i + p[size_t(i)])] = sg[i];
    j["m"] = m;
    j["exact"] = true;
  } else {
    int a, b, c, d;
    do {
      a = ri(-9, 9);
      b = ri(-9, 9);
      c = ri(-9, 9);
      d = ri(-9, 9);
    } while (a * a + b * b + c * c + d * d == 0);
    double s = double(a * a + b * b + c * c + d * d);
    std::vector<double> m{(a * a + b * b - c * c - d * d) / s, 2.0 * (b * c - a * d) / s, 2.0 * (b * d + a * c) / s,
                          2.0 * (b * c + a * d) / s,          (a * a - b * b + c * c - d * d) / s, 2.0 * (c * d - a * b) / s,
                          2.0 * (b * d - a * c) / s,          2.0 * (c * d + a * b) / s,          (a * a - b * b - c * c + d * d) / s};
    j["m"] = m;
    j["exact"] = false;
  }
  return j;
}
static Eigen::Matrix3d rot_of(const json &j) {
  Eigen::Matrix3d R;
  for (int i = 0; i < 3; ++i)
    for (int k = 0; k < 3; ++k) R(i, k) = j.at("m")[size_t(3 * i + k)];
  return R;
}
static MP rotate_mp(const MP &m, const Eigen::Matrix3d &R, const double ref[3]) {
  MP o = m;
  LD d[3] = {m.pos[0] - ref[0], m.pos[1] - ref[1], m.pos[2] - ref[2]};
  for (int i = 0; i < 3; ++i) {
    o.pos[i] = ref[i];
    o.mu[i] = 0;
    for (int k = 0; k < 3; ++k) {
      o.pos[i] += LD(R(i, k)) * d[k];
      o.mu[i] += LD(R(i, k)) * m.mu[k];
    }
    for (int j = 0; j < 3; ++j) {
      o.th[i][j] = 0;
      for (int k = 0; k < 3; ++k)
        for (int l = 0; l < 3; ++l) o.th[i][j] += LD(R(i, k)) * m.th[k][l] * LD(R(j, l));
    }
  }
  return o;
}

// ================================================================= sub 1: pair energy
static json gen_pair() {
  double pa[3], pb[3];
  bool axis;
  gen_positions(pa, pb, axis);
  int ra = ri(0, 2), rb = ri(0, 2);
  json c;
  c["A"] = site_json(gen_site_at(pa, ra));
  c["B"] = site_json(gen_site_at(pb, rb));
  c["shift"] = {double(pick<int>({0, 1, -3, 1000, -100000})), rfrac(-2048, 2048, 1024), double(pick<int>({0, 7, -1000000}))};
  c["rot"] = gen_rot();
  c["ref"] = {pa[0] + rfrac(-64, 64, 16), pa[1] + rfrac(-64, 64, 16), pa[2] + rfrac(-64, 64, 16)};
  return c;
}

static void classify_pair(Result &r, const SiteIn &A, const SiteIn &B) {
  double d[3] = {B.pos[0] - A.pos[0], B.pos[1] - A.pos[1], B.pos[2] - A.pos[2]};
  int nz = (d[0] != 0) + (d[1] != 0) + (d[2] != 0);
  bool axis = nz == 1;
  r.cls(fmt("ranks:%d-%d", A.rank, B.rank));
  r.cls(axis ? "axis-aligned" : "general-direction");
  double R = std::sqrt(d[0] * d[0] + d[1] * d[1] + d[2] * d[2]);
  r.cls(R < 2 ? "R<2" : R < 10 ? "R<10" : "R>=10");
  r.nontrivial = (A.rank != B.rank || (A.rank >= 1 && B.rank >= 1)) && !axis;
}

static Result run_pair(const json &c) {
  Result r;
  SiteIn A = site_in(c.at("A")), B = site_in(c.at("B"));
  MP a = to_mp(A), b = to_mp(B);
  LD dd[3] = {a.pos[0] - b.pos[0], a.pos[1] - b.pos[1], a.pos[2] - b.pos[2]};
  LD R = norm3(dd);
  if (R < 0.5L || R > 200.0L) {
    r.discard = true;  // distinct positions, separations 0.5 .. 100 bohr (+ slack for the lattice rounding)
    return r;
  }
  classify_pair(r, A, B);
  LD S = scale_S(a, b);
  eeInteractor ee;
  StaticSite sa = make_site<StaticSite>(A, 0), sb = make_site<StaticSite>(B, 1);
  double eab = ee.CalcStaticEnergy_site(sa, sb), eba = ee.CalcStaticEnergy_site(sb, sa);
  LD tolS = 1e-12L * S + 1e-300L;  // ~4500 eps of the sum of |terms| (the evaluation is ~100 flops per term)
  std::string ctx = fmt(" (ranks %d/%d, R=%.6Lg, S=%.6Lg)", A.rank, B.rank, R, S);
  if (!std::isfinite(eab) || !std::isfinite(eba)) {
    r.fail("eeInteractor/non-finite", "energy not finite" + ctx);
    return r;
  }
  // exchange symmetry
  if (fabsl(LD(eab) - LD(eba)) > tolS) {
    r.fail("eeInteractor/exchange-symmetry", fmt("E(A,B) = %.17g, E(B,A) = %.17g", eab, eba) + ctx);
    return r;
  }
  // q1 q2 / R
  if (A.rank == 0 && B.rank == 0) {
    LD want = a.q * b.q / R;
    if (fabsl(LD(eab) - want) > 8 * EPS * fabsl(want)) {
      r.fail("eeInteractor/charge-charge", fmt("E = %.17g, q1 q2 / R = %.17Lg", eab, want) + ctx);
      return r;
    }
  }
  // exact Cartesian oracle
  LD ex = energy_exact(a, b);
  if (fabsl(LD(eab) - ex) > tolS) {
    r.fail(fmt("eeInteractor/energy-rank%d-rank%d", std::min(A.rank, B.rank), std::max(A.rank, B.rank)),
           fmt("E(A,B) = %.17g, Cartesian multipole expansion gives %.17Lg (diff %.3Lg, tolerance %.3Lg)", eab, ex, fabsl(LD(eab) - ex), tolS) + ctx);
    return r;
  }
  // common translation (lattice shift: all coordinate differences stay exact)
  {
    SiteIn A2 = A, B2 = B;
    for (int i = 0; i < 3; ++i) {
      double s = c.at("shift")[size_t(i)];
      A2.pos[i] += s;
      B2.pos[i] += s;
    }
    bool exact = true;
    for (int i = 0; i < 3; ++i)
      if ((B2.pos[i] - A2.pos[i]) != (B.pos[i] - A.pos[i])) exact = false;
    StaticSite ta = make_site<StaticSite>(A2, 0), tb = make_site<StaticSite>(B2, 1);
    // via Translate() as well
    StaticSite ua = sa, ub = sb;
    Eigen::Vector3d sh(c.at("shift")[0], c.at("shift")[1], c.at("shift")[2]);
    ua.Translate(sh);
    ub.Translate(sh);
    double et = ee.CalcStaticEnergy_site(ta, tb), eu = ee.CalcStaticEnergy_site(ua, ub);
    // if the shifted differences are not exact, the relative perturbation of the distance vector is eps*|shift|/R per coordinate
    LD pert = exact ? 0.0L : 8 * EPS * (fabsl(LD(sh.norm())) + 8) / R;
    if (fabsl(LD(et) - LD(eab)) > tolS + 5 * pert * S || fabsl(LD(eu) - LD(eab)) > tolS + 5 * pert * S) {
      r.fail("eeInteractor/translation", fmt("E = %.17g, after a common shift %.17g / %.17g (Translate)", eab, et, eu) + ctx);
      return r;
    }
    r.cls(exact ? "translation:exact-lattice" : "translation:rounded");
  }
  // common rotation: StaticSite::Rotate on both sites, and my own rotation of the Cartesian moments
  {
    Eigen::Matrix3d Rm = rot_of(c.at("rot"));
    double ref[3] = {c.at("ref")[0], c.at("ref")[1], c.at("ref")[2]};
    Eigen::Vector3d refv(ref[0], ref[1], ref[2]);
    StaticSite ra = sa, rb = sb;
    ra.Rotate(Rm, refv);
    rb.Rotate(Rm, refv);
    double er = ee.CalcStaticEnergy_site(ra, rb);
    MP a2 = rotate_mp(a, Rm, ref), b2 = rotate_mp(b, Rm, ref);
    SiteIn A2 = A, B2 = B;
    from_mp(a2, A2);
    from_mp(b2, B2);
    StaticSite oa = make_site<StaticSite>(A2, 0), ob = make_site<StaticSite>(B2, 1);
    double eo = ee.CalcStaticEnergy_site(oa, ob);
    // rounding of the rotated coordinates: relative perturbation eps*(|pos-ref|)/R of the distance vector; each term has
    // relative sensitivity <= L+1 <= 5 to it; the rotation matrix is orthogonal to a few eps
    LD lever = 0;
    for (int i = 0; i < 3; ++i) lever = std::max(lever, std::max(fabsl(a.pos[i] - ref[i]), fabsl(b.pos[i] - ref[i])));
    LD tolR = tolS + 5 * 16 * EPS * (lever / R + 4) * S;
    if (fabsl(LD(er) - LD(eab)) > tolR) {
      r.fail("StaticSite/Rotate-invariance", fmt("E = %.17g, after StaticSite::Rotate of both sites %.17g (tolerance %.3Lg)", eab, er, tolR) + ctx);
      return r;
    }
    if (fabsl(LD(eo) - LD(eab)) > tolR) {
      r.fail("eeInteractor/rotation", fmt("E = %.17g, with independently rotated moments %.17g (tolerance %.3Lg)", eab, eo, tolR) + ctx);
      return r;
    }
    // the rotation centre may be handed over as a reference to the site's own position (seg.Rotate(R, seg[0].getPos())):
    // the result must be the one obtained with a copy of that position
    {
      StaticSite rc = sa, rd = sa, re = sb, rf = sb;
      const Eigen::Vector3d centre_copy = sa.getPos();
      rc.Rotate(Rm, rc.getPos());
      re.Rotate(Rm, rc.getPos());  // second site about the (unchanged) position of the first
      rd.Rotate(Rm, centre_copy);
      rf.Rotate(Rm, centre_copy);
      if ((rc.getPos() - rd.getPos()).cwiseAbs().maxCoeff() != 0.0 || (rc.Q() - rd.Q()).cwiseAbs().maxCoeff() != 0.0 ||
          (re.getPos() - rf.getPos()).cwiseAbs().maxCoeff() > 64 * EPS * (1 + rf.getPos().cwiseAbs().maxCoeff())) {
        r.fail("StaticSite/Rotate-aliased-centre", fmt("Rotate(R, site.getPos()) moves the site to (%.6g,%.6g,%.6g), with a copy of the centre to (%.6g,%.6g,%.6g)",
                                                       rc.getPos()(0), rc.getPos()(1), rc.getPos()(2), rd.getPos()(0), rd.getPos()(1), rd.getPos()(2)) + ctx);
        return r;
      }
    }
    // Rotate() itself: rotated spherical moments and position equal mine
    const StaticSite *rs[2] = {&ra, &rb};
    const SiteIn *os[2] = {&A2, &B2};
    for (int k = 0; k < 2; ++k) {
      double qn = 0;
      for (int i = 0; i < 9; ++i) qn = std::max(qn, std::fabs(os[k]->Q[i]));
      for (int i = 0; i < 9; ++i)
        if (std::fabs(rs[k]->Q()(i) - os[k]->Q[i]) > 64 * EPS * qn) {
          r.fail("StaticSite/Rotate-moments", fmt("site %d component %d after Rotate: %.17g, expected %.17g", k, i, rs[k]->Q()(i), os[k]->Q[i]) + ctx);
          return r;
        }
      for (int i = 0; i < 3; ++i)
        if (std::fabs(rs[k]->getPos()(i) - os[k]->pos[i]) > 16 * EPS * double(lever + fabsl(LD(ref[i])) + 1)) {
          r.fail("StaticSite/Rotate-position", fmt("site %d coordinate %d after Rotate: %.17g, expected %.17g", k, i, rs[k]->getPos()(i), os[k]->pos[i]) + ctx);
          return r;
        }
    }
    r.cls(c.at("rot").value("exact", false) ? "rotation:signed-permutation" : "rotation:general");
  }
  return r;
}

// ================================================================= sub 2: point-charge clusters
static json gen_cluster() {
  double pa[3], pb[3];
  bool axis;
  gen_positions(pa, pb, axis);
  json c;
  c["A"] = site_json(gen_site_at(pa, ri(0, 2)));
  c["B"] = site_json(gen_site_at(pb, ri(0, 2)));
  c["div"] = pick<int>({64, 128, 256});
  return c;
}
static const LD K_RICH = 8.0L;  // bound on the a^4 coefficient in units of S/R^4 (calibrated against the exact oracle, see report)

static Result run_cluster(const json &c) {
  Result r;
  SiteIn A = site_in(c.at("A")), B = site_in(c.at("B"));
  MP a = to_mp(A), b = to_mp(B);
  LD dd[3] = {a.pos[0] - b.pos[0], a.pos[1] - b.pos[1], a.pos[2] - b.pos[2]};
  LD R = norm3(dd);
  if (R < 0.5L || R > 200.0L) {
    r.discard = true;
    return r;
  }
  classify_pair(r, A, B);
  LD S = scale_S(a, b);
  if (S == 0) {
    r.discard = true;
    return r;
  }
  LD div = LD(c.at("div").get<int>());
  LD sp = R / div;
  std::vector<PC> ca1, cb1, ca2, cb2;
  std::string err;
  if (!cluster(a, sp, ca1, err) || !cluster(b, sp, cb1, err) || !cluster(a, sp / 2, ca2, err) || !cluster(b, sp / 2, cb2, err)) {
    r.fail("harness-internal", err);
    return r;
  }
  LD s1 = 0, s2 = 0;
  LD e1 = coulomb(ca1, cb1, &s1), e2 = coulomb(ca2, cb2, &s2);
  LD eR = (4 * e2 - e1) / 3;
  // rounding of the long double sums (64-bit mantissa): every term ~4 roundings incl. the cluster coordinates
  const LD ELD = 1.0842021724855044e-19L;
  // three roundings per term q_i q_j / r_ij; the rounding of the cluster coordinates acts as a relative perturbation <= 1e-13
  // of the realised moments and is covered by the 1e-12 S term
  LD round_allow = 4 * ELD * (4 * s2 + s1) / 3;
  LD bound = K_RICH * S / (div * div * div * div) + round_allow + 1e-12L * S;
  LD ex = energy_exact(a, b);
  std::string ctx = fmt(" (ranks %d/%d, R=%.6Lg, a=R/%d, S=%.6Lg)", A.rank, B.rank, R, c.at("div").get<int>(), S);
  // oracle against oracle first: a failure here is mine, not VOTCA's
  LD kobs = fabsl(eR - ex) / (S / (div * div * div * div));
  if (fabsl(eR - ex) > bound) {
    r.fail("harness-internal", fmt("Richardson-extrapolated cluster energy %.17Lg vs exact expansion %.17Lg: diff %.3Lg > bound %.3Lg (K observed %.3Lg)", eR,
                                   ex, fabsl(eR - ex), bound, kobs) + ctx);
    return r;
  }
  r.cls(kobs <= 0.05L ? "a4-coefficient<=0.05" : kobs <= 0.2L ? "a4-coefficient<=0.2" : kobs <= 0.8L ? "a4-coefficient<=0.8" : "a4-coefficient<=8");
  eeInteractor ee;
  StaticSite sa = make_site<StaticSite>(A, 0), sb = make_site<StaticSite>(B, 1);
  double ecode = ee.CalcStaticEnergy_site(sa, sb);
  if (fabsl(eR - LD(ecode)) > bound) {
    r.fail(fmt("eeInteractor/point-charge-limit-rank%d-rank%d", std::min(A.rank, B.rank), std::max(A.rank, B.rank)),
           fmt("multipole energy %.17g; point-charge clusters give %.17Lg (a), %.17Lg (a/2), Richardson %.17Lg; |diff| %.3Lg > %.3Lg", ecode, e1, e2, eR,
               fabsl(eR - LD(ecode)), bound) + ctx);
    return r;
  }
  // a -> a/2 error ratio ~ 4 (only meaningful when the a^2 error is far above the a^4 term and the rounding floor)
  LD d1 = e1 - LD(ecode), d2 = e2 - LD(ecode);
  if (fabsl(d2) > 100 * bound) {
    LD ratio = d1 / d2;
    r.cls("richardson-ratio-checked");
    if (fabsl(ratio - 4) > 3 * bound / fabsl(d2) + 1e-9L) {
      r.fail("eeInteractor/point-charge-convergence-order", fmt("error(a)/error(a/2) = %.6Lg, expected 4 (errors %.3Lg, %.3Lg)", ratio, d1, d2) + ctx);
      return r;
    }
  }
  return r;
}

// ================================================================= sub 3: segments, field = dE/dmu
static json gen_field() {
  json c;
  double p0[3], p1[3];
  bool axis;
  gen_positions(p0, p1, axis);
  int n1 = ri(1, 3), n2 = ri(1, 2);
  json s1 = json::array(), s2 = json::array();
  for (int i = 0; i < n1; ++i) {
    double p[3] = {p0[0] + (i ? rfrac(-128, 128, 1024) : 0.0), p0[1] + (i ? rfrac(-128, 128, 1024) : 0.0), p0[2] + (i ? rfrac(-128, 128, 1024) : 0.0)};
    s1.push_back(site_json(gen_site_at(p, ri(0, 2))));
  }
  for (int i = 0; i < n2; ++i) {
    double p[3] = {p1[0] + (i ? rfrac(-128, 128, 1024) : 0.0), p1[1] + (i ? rfrac(-128, 128, 1024) : 0.0), p1[2] + (i ? rfrac(-128, 128, 1024) : 0.0)};
    json sj = site_json(gen_site_at(p, ri(0, 2)));
    sj["V0"] = {rfrac(-100, 100, 64), rfrac(-100, 100, 64), rfrac(-100, 100, 64)};
    sj["ind"] = {rfrac(-100, 100, 64), rfrac(-100, 100, 64), rfrac(-100, 100, 64)};
    s2.push_back(sj);
  }
  c["seg1"] = s1;
  c["seg2"] = s2;
  c["src_polar"] = rbool(50);
  c["noE"] = rbool(50);
  c["same_seg_id"] = rbool(30);
  return c;
}

static Result run_field(const json &c) {
  Result r;
  std::vector<SiteIn> S1, S2;
  for (auto &j : c.at("seg1")) S1.push_back(site_in(j));
  for (auto &j : c.at("seg2")) S2.push_back(site_in(j));
  bool src_polar = c.at("src_polar"), noE = c.at("noE");
  LD minR = 1e300L;
  for (auto &x : S1)
    for (auto &y : S2) {
      LD d[3] = {LD(x.pos[0]) - y.pos[0], LD(x.pos[1]) - y.pos[1], LD(x.pos[2]) - y.pos[2]};
      minR = std::min(minR, norm3(d));
    }
  if (minR < 0.4L) {
    r.discard = true;
    return r;
  }
  r.cls(src_polar ? "source:PolarSegment" : "source:StaticSegment");
  r.cls(noE ? "Estatic::noE_V" : "Estatic::V");
  r.cls(fmt("sites:%zux%zu", S1.size(), S2.size()));
  bool mixed = false;
  for (auto &x : S1)
    for (auto &y : S2)
      if (x.rank != y.rank || (x.rank >= 1 && y.rank >= 1)) mixed = true;
  r.nontrivial = mixed && S1.size() * S2.size() >= 2;

  StaticSegment st1("s1", 0);
  // ids are labels, not identities: a displaced copy / periodic image of a segment carries the same segment id and the
  // same site ids as the original and still interacts with it
  bool same_id = c.value("same_seg_id", false);
  if (same_id) r.cls("segments-with-equal-ids");
  PolarSegment pl1("p1", 0), seg2("p2", same_id ? 0 : 1);
  for (size_t i = 0; i < S1.size(); ++i) {
    st1.push_back(make_site<StaticSite>(S1[i], Index(i), i % 2 ? "C" : "H"));
    pl1.push_back(make_site<PolarSite>(S1[i], Index(i), i % 2 ? "C" : "H"));
  }
  std::vector<Eigen::Vector3d> v0;
  for (size_t i = 0; i < S2.size(); ++i) {
    PolarSite p = make_site<PolarSite>(S2[i], Index(i), "C");
    const json &sj = c.at("seg2")[i];
    Eigen::Vector3d v(sj.at("V0")[0], sj.at("V0")[1], sj.at("V0")[2]);
    p.V() = v;
    p.V_noE() = -2.0 * v;
    p.setInduced_Dipole(Eigen::Vector3d(sj.at("ind")[0], sj.at("ind")[1], sj.at("ind")[2]));  // must not enter the static terms
    v0.push_back(v);
    seg2.push_back(p);
  }
  eeInteractor ee;
  // oracle: energy and d E / d mu_alpha of every target site
  LD e_want = 0, Ssum = 0;
  std::vector<std::array<LD, 3>> v_want(S2.size()), v_scale(S2.size());
  for (size_t j = 0; j < S2.size(); ++j) {
    MP t = to_mp(S2[j]);
    for (int al = 0; al < 3; ++al) v_want[j][size_t(al)] = v_scale[j][size_t(al)] = 0;
    for (size_t i = 0; i < S1.size(); ++i) {
      MP s = to_mp(S1[i]);
      e_want += energy_exact(t, s);
      Ssum += scale_S(t, s);
      for (int al = 0; al < 3; ++al) {
        MP unit = t;
        unit.q = 0;
        for (int k = 0; k < 3; ++k) {
          unit.mu[k] = k == al ? 1 : 0;
          for (int l = 0; l < 3; ++l) unit.th[k][l] = 0;
        }
        v_want[j][size_t(al)] += energy_exact(unit, s);
        v_scale[j][size_t(al)] += scale_S(unit, s);
      }
    }
  }
  // energy of the pair of segments, both argument orders and both source types
  double e_ss = src_polar ? ee.CalcStaticEnergy(pl1, seg2) : ee.CalcStaticEnergy(st1, seg2);
  double e_rev = src_polar ? ee.CalcStaticEnergy(seg2, pl1) : ee.CalcStaticEnergy(seg2, st1);
  LD tolE = 1e-12L * Ssum + 1e-300L;
  if (fabsl(LD(e_ss) - e_want) > tolE) {
    r.fail("eeInteractor/CalcStaticEnergy-segments", fmt("CalcStaticEnergy(seg1,seg2) = %.17g, sum over site pairs (oracle) = %.17Lg, S=%.6Lg", e_ss, e_want, Ssum));
    return r;
  }
  if (fabsl(LD(e_rev) - LD(e_ss)) > tolE) {
    r.fail("eeInteractor/exchange-symmetry", fmt("CalcStaticEnergy(seg1,seg2) = %.17g, (seg2,seg1) = %.17g, S=%.6Lg", e_ss, e_rev, Ssum));
    return r;
  }
  // apply the field
  double e_ret;
  if (src_polar)
    e_ret = noE ? ee.ApplyStaticField<PolarSegment, Estatic::noE_V>(pl1, seg2) : ee.ApplyStaticField<PolarSegment, Estatic::V>(pl1, seg2);
  else
    e_ret = noE ? ee.ApplyStaticField<StaticSegment, Estatic::noE_V>(st1, seg2) : ee.ApplyStaticField<StaticSegment, Estatic::V>(st1, seg2);
  if (fabsl(LD(e_ret) - e_want) > tolE) {
    r.fail("eeInteractor/ApplyStaticField-energy", fmt("ApplyStaticField returns %.17g, static interaction energy (oracle) = %.17Lg", e_ret, e_want));
    return r;
  }
  for (size_t j = 0; j < S2.size(); ++j) {
    Eigen::Vector3d acc = noE ? seg2[Index(j)].V_noE() : seg2[Index(j)].V();
    Eigen::Vector3d other = noE ? seg2[Index(j)].V() : seg2[Index(j)].V_noE();
    Eigen::Vector3d acc0 = noE ? Eigen::Vector3d(-2.0 * v0[j]) : v0[j];
    Eigen::Vector3d other0 = noE ? v0[j] : Eigen::Vector3d(-2.0 * v0[j]);
    if ((other - other0).cwiseAbs().maxCoeff() != 0.0) {
      r.fail("eeInteractor/ApplyStaticField-wrong-accumulator", fmt("site %zu: the other field accumulator changed", j));
      return r;
    }
    for (int al = 0; al < 3; ++al) {
      LD got = LD(acc(al)) - LD(acc0(al));
      LD tolV = 1e-12L * v_scale[j][size_t(al)] + 4 * EPS * fabsl(LD(acc0(al))) + 1e-300L;  // + rounding of the accumulation itself
      if (fabsl(got - v_want[j][size_t(al)]) > tolV) {
        r.fail("eeInteractor/field-is-dE-dmu",
               fmt("target site %zu (rank %d), component %d: accumulated field term %.17Lg, dE/dmu (oracle) = %.17Lg, tolerance %.3Lg", j, S2[j].rank, al,
                   got, v_want[j][size_t(al)], tolV));
        return r;
      }
    }
    // the relation named by the statement, on the code itself: energy is linear in the target dipole
    for (int al = 0; al < 3; ++al) {
      SiteIn plus = S2[j];
      plus.rank = std::max(plus.rank, 1);
      plus.Q[1 + al] += 1.0;
      StaticSite tp = make_site<StaticSite>(plus, 0), t0 = make_site<StaticSite>(S2[j], 0);
      LD de = 0, sc = 0;
      for (size_t i = 0; i < S1.size(); ++i) {
        StaticSite s = make_site<StaticSite>(S1[i], 1);
        de += LD(ee.CalcStaticEnergy_site(s, tp)) - LD(ee.CalcStaticEnergy_site(s, t0));
        sc += scale_S(to_mp(plus), to_mp(S1[i])) + scale_S(to_mp(S2[j]), to_mp(S1[i]));
      }
      LD got = LD(acc(al)) - LD(acc0(al));
      if (fabsl(got - de) > 2e-12L * sc + 4 * EPS * fabsl(LD(acc0(al)))) {
        r.fail("eeInteractor/field-vs-energy-difference",
               fmt("target site %zu component %d: field term %.17Lg, E(mu+e)-E(mu) = %.17Lg", j, al, got, de));
        return r;
      }
    }
  }
  // history: the same polar sites are reset and the field is applied a second time; the accumulators then hold exactly
  // the field term of this application (statement: the accumulated term equals dE/dmu), nothing left over from before
  for (size_t j = 0; j < S2.size(); ++j) seg2[Index(j)].Reset();
  for (size_t j = 0; j < S2.size(); ++j) {
    if (seg2[Index(j)].V().cwiseAbs().maxCoeff() != 0.0 || seg2[Index(j)].V_noE().cwiseAbs().maxCoeff() != 0.0) {
      r.fail("PolarSite/Reset-leaves-field", fmt("site %zu: Reset() leaves V=(%.6g ..) V_noE=(%.6g ..)", j, seg2[Index(j)].V()(0), seg2[Index(j)].V_noE()(0)));
      return r;
    }
  }
  if (src_polar) {
    if (noE)
      ee.ApplyStaticField<PolarSegment, Estatic::noE_V>(pl1, seg2);
    else
      ee.ApplyStaticField<PolarSegment, Estatic::V>(pl1, seg2);
  } else {
    if (noE)
      ee.ApplyStaticField<StaticSegment, Estatic::noE_V>(st1, seg2);
    else
      ee.ApplyStaticField<StaticSegment, Estatic::V>(st1, seg2);
  }
  for (size_t j = 0; j < S2.size(); ++j) {
    Eigen::Vector3d acc = noE ? seg2[Index(j)].V_noE() : seg2[Index(j)].V();
    for (int al = 0; al < 3; ++al) {
      LD tolV = 1e-12L * v_scale[j][size_t(al)] + 1e-300L;
      if (fabsl(LD(acc(al)) - v_want[j][size_t(al)]) > tolV) {
        r.fail("eeInteractor/field-after-reset", fmt("target site %zu component %d: after Reset() and a second application the field term is %.17g, dE/dmu (oracle) = %.17Lg",
                                                     j, al, acc(al), v_want[j][size_t(al)]));
        return r;
      }
    }
  }
  return r;
}

// ================================================================= sub 4: Thole tensor
static json gen_thole() {
  json c;
  double pa[3], pb[3];
  bool axis;
  gen_positions(pa, pb, axis);
  if (rbool(50)) {  // short separations, where the damping matters
    for (int i = 0; i < 3; ++i) pb[i] = pa[i] + rfrac(-4096, 4096, 1024);
    if (std::fabs(pb[0] - pa[0]) + std::fabs(pb[1] - pa[1]) + std::fabs(pb[2] - pa[2]) < 0.5) pb[0] = pa[0] + 0.5;
  }
  c["pa"] = {pa[0], pa[1], pa[2]};
  c["pb"] = {pb[0], pb[1], pb[2]};
  c["damp"] = rbool(30) ? 0.39 : rfrac(10, 100, 100);
  for (const char *k : {"polA", "polB"}) {
    json p;
    bool iso = rbool(40);
    double p1 = rfrac(8, 640, 16);  // 0.5 .. 40 bohr^3
    p["principal"] = iso ? std::vector<double>{p1, p1, p1} : std::vector<double>{p1, rfrac(8, 640, 16), rfrac(8, 640, 16)};
    p["rot"] = gen_rot();
    c[k] = p;
  }
  return c;
}
static Eigen::Matrix3d pol_of(const json &p, double &amax) {
  Eigen::Matrix3d R = rot_of(p.at("rot"));
  Eigen::Vector3d d(p.at("principal")[0], p.at("principal")[1], p.at("principal")[2]);
  amax = d.maxCoeff();
  Eigen::Matrix3d P = R * d.asDiagonal() * R.transpose();
  return 0.5 * (P + P.transpose());
}
static Result run_thole(const json &c) {
  Result r;
  double pa[3] = {c.at("pa")[0], c.at("pa")[1], c.at("pa")[2]}, pb[3] = {c.at("pb")[0], c.at("pb")[1], c.at("pb")[2]};
  LD d[3] = {LD(pb[0]) - pa[0], LD(pb[1]) - pa[1], LD(pb[2]) - pa[2]};
  LD R = norm3(d);
  if (R < 0.4L) {
    r.discard = true;
    return r;
  }
  double damp = c.at("damp"), amaxA, amaxB;
  Eigen::Matrix3d PA = pol_of(c.at("polA"), amaxA), PB = pol_of(c.at("polB"), amaxB);
  PolarSite A(0, "H", Eigen::Vector3d(pa[0], pa[1], pa[2])), B(1, "C", Eigen::Vector3d(pb[0], pb[1], pb[2]));
  A.setpolarization(PA);
  B.setpolarization(PB);
  eeInteractor ee(damp);
  Eigen::Matrix3d T = ee.FillTholeInteraction(A, B), T2 = ee.FillTholeInteraction(B, A);
  LD u = LD(damp) * R * R * R / sqrtl(LD(amaxA) * LD(amaxB));
  bool iso = c.at("polA").at("principal")[0] == c.at("polA").at("principal")[1] && c.at("polA").at("principal")[1] == c.at("polA").at("principal")[2] &&
             c.at("polB").at("principal")[0] == c.at("polB").at("principal")[1] && c.at("polB").at("principal")[1] == c.at("polB").at("principal")[2];
  r.cls(iso ? "isotropic" : "anisotropic");
  r.cls(u < 1 ? "a*u^3<1(strongly-damped)" : u < 40 ? "a*u^3<40" : "a*u^3>=40(undamped)");
  int nz = (d[0] != 0) + (d[1] != 0) + (d[2] != 0);
  r.nontrivial = nz > 1 && u < 40;
  LD R3 = R * R * R;
  // the damping factor of a site is 1/sqrt(largest principal polarisability): the site obtains it with Eigen's closed-form
  // 3x3 eigen-solver (computeDirect); its deviation from my value enters the tolerance (and is bounded)
  LD dampA = 1 / sqrtl(LD(amaxA)), dampB = 1 / sqrtl(LD(amaxB));
  LD relA = fabsl(LD(A.getSqrtInvEigenDamp()) - dampA) / dampA, relB = fabsl(LD(B.getSqrtInvEigenDamp()) - dampB) / dampB;
  LD rel = relA + relB;
  r.cls(rel < 1e-14L ? "eigdamp-exact" : rel < 1e-11L ? "eigdamp<1e-11" : rel < 1e-8L ? "eigdamp<1e-8" : "eigdamp>=1e-8");
  if (rel > 1e-6L) {
    r.fail("PolarSite/eigen-damping", fmt("getSqrtInvEigenDamp deviates by %.3Lg (relative) from 1/sqrt(max principal polarisability)", rel));
    return r;
  }
  LD l3 = 1, l5 = 1;
  if (u < 40) {
    l3 = 1 - expl(-u);
    l5 = 1 - (1 + u) * expl(-u);
  }
  // sensitivity of lambda3, lambda5 to a relative change of u: u e^-u, u^2 e^-u
  LD sens = (u < 45 ? (u * expl(-u) + 3 * u * u * expl(-u)) : 0) * (rel + 4 * EPS);
  LD tol = (64 * EPS * 4 + sens) / R3;
  LD maxdiff = 0, fro0 = 0;
  for (int i = 0; i < 3; ++i)
    for (int j = 0; j < 3; ++j) {
      LD want = (l3 * dl(i, j) - 3 * l5 * d[i] * d[j] / (R * R)) / R3;
      LD t0 = (dl(i, j) - 3 * d[i] * d[j] / (R * R)) / R3;
      maxdiff = std::max(maxdiff, fabsl(LD(T(i, j)) - want));
      fro0 += (LD(T(i, j)) - t0) * (LD(T(i, j)) - t0);
    }
  std::string ctx = fmt(" (R=%.6Lg, a*u^3=%.6Lg, damping %.3g)", R, u, damp);
  // (c*a_i)*a_j and (c*a_j)*a_i are rounded separately: symmetric up to 2 ulp of the largest element
  if ((T - T.transpose()).cwiseAbs().maxCoeff() > 4 * EPS * T.cwiseAbs().maxCoeff()) {
    r.fail("Thole/not-symmetric", "T != T^T" + ctx);
    return r;
  }
  // lambda3 = 1 - exp(-u), lambda5 = 1 - (1+u) exp(-u) carry ABSOLUTE errors of a few eps (cancellation for small u), and u itself
  // is a product whose factor order differs between the two calls: 16 eps / R^3 absolute
  if (LD((T - T2).cwiseAbs().maxCoeff()) > 16 * EPS / R3) {
    r.fail("Thole/site-exchange", "T(A,B) != T(B,A)" + ctx);
    return r;
  }
  if (maxdiff > tol) {
    r.fail("Thole/closed-form", fmt("max deviation from the closed form %.3Lg > %.3Lg", maxdiff, tol) + ctx);
    return r;
  }
  // trace -> 0 in the undamped limit: tr T * R^3 = 3 (lambda3 - lambda5) = 3 u e^-u
  LD tr = LD(T.trace()) * R3, trw = u < 40 ? 3 * u * expl(-u) : 0;
  if (fabsl(tr - trw) > 64 * EPS + 3 * sens) {
    r.fail("Thole/trace", fmt("R^3 tr T = %.6Lg, 3 a u^3 exp(-a u^3) = %.6Lg", tr, trw) + ctx);
    return r;
  }
  // tends to the undamped tensor: |T - T0|_F R^3 <= (sqrt3 + 3 (1+u)) e^-u
  LD bnd = (u < 700 ? (SQ3 + 3 * (1 + u)) * expl(-u) : 0) * (1 + 1e-6L) + 64 * EPS;
  if (sqrtl(fro0) * R3 > bnd) {
    r.fail("Thole/undamped-limit", fmt("R^3 |T - T_undamped|_F = %.6Lg exceeds the monotone bound %.6Lg", sqrtl(fro0) * R3, bnd) + ctx);
    return r;
  }
  return r;
}

int main(int argc, char **argv) {
  std::vector<Sub> subs;
  subs.push_back({"pair_energy", gen_pair, run_pair, 4.0, 100, nullptr});
  subs.push_back({"point_charge_clusters", gen_cluster, run_cluster, 2.0, 100, nullptr});
  subs.push_back({"segments_field", gen_field, run_field, 2.0, 100, nullptr});
  subs.push_back({"thole", gen_thole, run_thole, 2.0, 100, nullptr});
  return harness_main(argc, argv, "C15", subs);
}
