// C16 — structure comparison and graph decomposition are label-independent and lossless.
//
// One graph generator (structured classes + exhaustive small graphs) feeds six sub-properties, each with its own oracle
// written here (plain adjacency lists, BFS with a std::queue, union-find); nothing of votca's graph code is used by the
// oracles.
//   bfs        exploreGraph + GraphDistVisitor: "Dist" label of every reachable vertex == hop count, from every start
//   components decoupleIsolatedSubGraphs == union-find components; every vertex and edge in exactly one part
//   single     singleNetwork  <=>  connected and no isolated vertex
//   reduce     reduceGraph(g).expandGraph() has the vertex set and the edge set of g
//   equiv      BeadStructure: relabelled ids + reshuffled insertion order -> isStructureEquivalent true (both directions);
//              changed name / mass multiset -> false
//   breakinto  BeadStructure::isSingleStructure and breakIntoStructures vs the same references
#include "vv_common.h"

#include <votca/csg/basebead.h>
#include <votca/csg/beadstructure.h>
#include <votca/csg/beadstructurealgorithms.h>
#include <votca/tools/graph.h>
#include <votca/tools/graph_bf_visitor.h>
#include <votca/tools/graph_df_visitor.h>
#include <votca/tools/graphalgorithm.h>
#include <votca/tools/graphdistvisitor.h>
#include <votca/tools/reducedgraph.h>

#include <queue>

#include "h_c13_contain.h"

using namespace vv;
using votca::Index;
namespace vt = votca::tools;
namespace vc = votca::csg;

// ------------------------------------------------------------------ the case
struct G {
  int n = 0;
  std::vector<long> ids;                   // vertex i has id ids[i]
  std::vector<std::pair<int, int>> edges;  // indices, insertion order
  std::vector<std::string> names;
  std::vector<double> masses;
  std::vector<std::vector<int>> adj;
  std::string cls;
};

static bool parse(const json &c, G &g) {
  g.n = c.at("n");
  g.ids = c.at("ids").get<std::vector<long>>();
  g.names = c.at("names").get<std::vector<std::string>>();
  g.masses = c.at("masses").get<std::vector<double>>();
  g.cls = c.value("class", "");
  if (g.n < 1 || g.n > 200 || int(g.ids.size()) != g.n || int(g.names.size()) != g.n || int(g.masses.size()) != g.n) return false;
  std::set<long> uniq(g.ids.begin(), g.ids.end());
  if (int(uniq.size()) != g.n) return false;
  for (long id : g.ids)
    if (id < 0) return false;
  g.adj.assign(size_t(g.n), {});
  std::set<std::pair<int, int>> seen;
  for (auto &e : c.at("edges")) {
    int a = e.at(0), b = e.at(1);
    if (a < 0 || b < 0 || a >= g.n || b >= g.n || a == b) return false;  // simple graphs: no self loops
    if (!seen.insert({std::min(a, b), std::max(a, b)}).second) return false;  // no parallel edges
    g.edges.push_back({a, b});
    g.adj[size_t(a)].push_back(b);
    g.adj[size_t(b)].push_back(a);
  }
  return true;
}

// reference: BFS hop counts (-1 = unreachable)
static std::vector<int> ref_bfs(const G &g, int s) {
  std::vector<int> d(size_t(g.n), -1);
  std::queue<int> q;
  d[size_t(s)] = 0;
  q.push(s);
  while (!q.empty()) {
    int u = q.front();
    q.pop();
    for (int w : g.adj[size_t(u)])
      if (d[size_t(w)] < 0) {
        d[size_t(w)] = d[size_t(u)] + 1;
        q.push(w);
      }
  }
  return d;
}
// reference: union-find component label per vertex
static std::vector<int> ref_comp(const G &g, int &ncomp) {
  std::vector<int> p(size_t(g.n));
  for (int i = 0; i < g.n; ++i) p[size_t(i)] = i;
  std::function<int(int)> find = [&](int x) { return p[size_t(x)] == x ? x : p[size_t(x)] = find(p[size_t(x)]); };
  for (auto &e : g.edges) p[size_t(find(e.first))] = find(e.second);
  std::map<int, int> lab;
  std::vector<int> c(size_t(g.n));
  for (int i = 0; i < g.n; ++i) {
    int r = find(i);
    if (!lab.count(r)) {
      int k = int(lab.size());
      lab[r] = k;
    }
    c[size_t(i)] = lab[r];
  }
  ncomp = int(lab.size());
  return c;
}
static bool ref_has_cycle(const G &g, int ncomp) { return int(g.edges.size()) > g.n - ncomp; }
static bool ref_single(const G &g, int ncomp) {
  if (ncomp != 1) return false;
  for (int i = 0; i < g.n; ++i)
    if (g.adj[size_t(i)].empty()) return false;
  return true;
}

static void classify(const G &g, Result &r) {
  int nc;
  ref_comp(g, nc);
  size_t maxd = 0;
  for (auto &a : g.adj) maxd = std::max(maxd, a.size());
  int nmax = 0, niso = 0, njunc = 0;
  for (auto &a : g.adj) {
    if (a.size() == maxd) nmax++;
    if (a.empty()) niso++;
    if (a.size() >= 3) njunc++;
  }
  bool cyc = ref_has_cycle(g, nc);
  r.nontrivial = (nmax >= 2 && maxd > 0) || cyc || nc >= 2;
  if (!g.cls.empty()) r.cls("gen:" + g.cls);
  if (cyc) r.cls("has-cycle");
  if (int(g.edges.size()) - (g.n - nc) >= 2) r.cls("cyclomatic>=2");
  if (nc >= 2) r.cls("components>=2");
  if (niso) r.cls("isolated-vertex");
  if (nmax >= 2 && maxd > 0) r.cls("several-max-degree");
  if (njunc >= 2) r.cls("junctions>=2");
  if (cyc && njunc == 0) r.cls("loop-without-junction");
  bool sparse = false;
  for (long id : g.ids)
    if (id >= g.n) sparse = true;
  if (sparse) r.cls("sparse-ids");
  r.cls(g.n <= 7 ? "n<=7" : (g.n <= 16 ? "n<=16" : "n>16"));
}

static vt::GraphNode make_node(const G &g, int i) {
  vt::GraphNode gn;
  std::unordered_map<std::string, double> d;
  std::unordered_map<std::string, std::string> s;
  d["Mass"] = g.masses[size_t(i)];
  s["Name"] = g.names[size_t(i)];
  gn.setDouble(d);
  gn.setStr(s);
  return gn;
}
static vt::Graph make_graph(const G &g) {
  std::vector<vt::Edge> ev;
  for (auto &e : g.edges) ev.push_back(vt::Edge(g.ids[size_t(e.first)], g.ids[size_t(e.second)]));
  std::unordered_map<Index, vt::GraphNode> nodes;
  for (int i = 0; i < g.n; ++i) nodes[g.ids[size_t(i)]] = make_node(g, i);
  return vt::Graph(ev, nodes);
}
static std::string edge_str(long a, long b) { return "(" + std::to_string(std::min(a, b)) + "," + std::to_string(std::max(a, b)) + ")"; }
static std::string describe(const G &g) {
  std::string s = "n=" + std::to_string(g.n) + " ids=[";
  for (int i = 0; i < g.n; ++i) s += (i ? "," : "") + std::to_string(g.ids[size_t(i)]);
  s += "] edges=";
  for (auto &e : g.edges) s += edge_str(g.ids[size_t(e.first)], g.ids[size_t(e.second)]);
  if (s.size() > 900) s = s.substr(0, 900) + "...";
  return s;
}
using ESet = std::set<std::pair<long, long>>;
static ESet edge_set(const G &g) {
  ESet s;
  for (auto &e : g.edges) {
    long a = g.ids[size_t(e.first)], b = g.ids[size_t(e.second)];
    s.insert({std::min(a, b), std::max(a, b)});
  }
  return s;
}

// ------------------------------------------------------------------ bfs
static Result run_bfs(const json &c) {
  Result r;
  G g;
  if (!parse(c, g)) {
    r.discard = true;
    return r;
  }
  classify(g, r);
  if (c.value("reexplore", false)) r.cls("graph-object-labelled-before");
  vt::Graph graph = make_graph(g);
  std::vector<int> starts = c.value("starts", std::vector<int>{});
  if (starts.empty())
    for (int i = 0; i < g.n; ++i) starts.push_back(i);
  for (int s : starts) {
    if (s < 0 || s >= g.n) continue;
    std::vector<int> d = ref_bfs(g, s);
    vt::Graph gc = graph;
    if (c.value("reexplore", false) && g.n > 1) {
      // history: the same Graph object has been labelled from another start vertex before
      vt::GraphDistVisitor v0;
      v0.setStartingVertex(g.ids[size_t((s + 1 + g.n / 2) % g.n)]);
      vt::exploreGraph(gc, v0);
    }
    vt::GraphDistVisitor v;
    v.setStartingVertex(g.ids[size_t(s)]);
    vt::exploreGraph(gc, v);
    std::set<Index> explored = v.getExploredVertices();
    for (int u = 0; u < g.n; ++u) {
      long id = g.ids[size_t(u)];
      bool reach = d[size_t(u)] >= 0;
      if (reach != (explored.count(id) > 0)) {
        r.fail("GraphDistVisitor/explored-set", describe(g) + fmt(": start %ld, vertex %ld is %sreachable but %sexplored", g.ids[size_t(s)], id,
                                                                   reach ? "" : "un", explored.count(id) ? "" : "not "));
        return r;
      }
      vt::GraphNode node = gc.getNode(id);
      long got = -1;
      try {
        got = node.getInt("Dist");
      } catch (const std::invalid_argument &) {
        got = -1;
      }
      // the statement is about reachable vertices; an unreachable vertex of a graph that was labelled before keeps
      // whatever label it had (not asserted)
      if (!reach && c.value("reexplore", false)) continue;
      if (got != d[size_t(u)]) {
        r.fail("GraphDistVisitor/distance",
               describe(g) + fmt(": start %ld, vertex %ld labelled Dist=%ld, shortest path has %d hops", g.ids[size_t(s)], id, got, d[size_t(u)]));
        return r;
      }
    }
  }
  return r;
}

// ------------------------------------------------------------------ components
static Result check_partition(const G &g, const std::vector<std::set<long>> &part_v, const std::vector<ESet> &part_e, const std::string &site,
                              Result r) {
  int nc;
  std::vector<int> comp = ref_comp(g, nc);
  if (int(part_v.size()) != nc) {
    r.fail(site + "/count", describe(g) + fmt(": %zu parts, %d connected components", part_v.size(), nc));
    return r;
  }
  std::map<long, int> where;
  for (size_t p = 0; p < part_v.size(); ++p)
    for (long id : part_v[p]) {
      if (where.count(id)) {
        r.fail(site + "/vertex-twice", describe(g) + fmt(": vertex %ld in two parts", id));
        return r;
      }
      where[id] = int(p);
    }
  for (int i = 0; i < g.n; ++i)
    if (!where.count(g.ids[size_t(i)])) {
      r.fail(site + "/vertex-missing", describe(g) + fmt(": vertex %ld in no part", g.ids[size_t(i)]));
      return r;
    }
  if (int(where.size()) != g.n) {
    r.fail(site + "/vertex-invented", describe(g) + ": parts contain a vertex that is not in the graph");
    return r;
  }
  // same partition: vertices of one reference component share a part and different components do not
  std::map<int, int> c2p;
  std::map<int, int> p2c;
  for (int i = 0; i < g.n; ++i) {
    int p = where[g.ids[size_t(i)]], cc = comp[size_t(i)];
    if ((c2p.count(cc) && c2p[cc] != p) || (p2c.count(p) && p2c[p] != cc)) {
      r.fail(site + "/partition", describe(g) + fmt(": vertex %ld is in the wrong part", g.ids[size_t(i)]));
      return r;
    }
    c2p[cc] = p;
    p2c[p] = cc;
  }
  ESet all = edge_set(g), seen;
  for (size_t p = 0; p < part_e.size(); ++p)
    for (auto &e : part_e[p]) {
      if (!all.count(e)) {
        r.fail(site + "/edge-invented", describe(g) + ": part has edge " + edge_str(e.first, e.second) + " that the graph has not");
        return r;
      }
      if (!seen.insert(e).second) {
        r.fail(site + "/edge-twice", describe(g) + ": edge " + edge_str(e.first, e.second) + " in two parts");
        return r;
      }
      if (!part_v[p].count(e.first) || !part_v[p].count(e.second)) {
        r.fail(site + "/edge-misplaced", describe(g) + ": edge " + edge_str(e.first, e.second) + " in a part that lacks an end point");
        return r;
      }
    }
  if (seen.size() != all.size()) {
    for (auto &e : all)
      if (!seen.count(e)) {
        r.fail(site + "/edge-missing", describe(g) + ": edge " + edge_str(e.first, e.second) + " in no part");
        return r;
      }
  }
  return r;
}

static Result run_components(const json &c) {
  Result r;
  G g;
  if (!parse(c, g)) {
    r.discard = true;
    return r;
  }
  classify(g, r);
  vt::Graph graph = make_graph(g);
  std::vector<vt::Graph> subs = vt::decoupleIsolatedSubGraphs(graph);
  std::vector<std::set<long>> pv;
  std::vector<ESet> pe;
  for (vt::Graph &s : subs) {
    std::set<long> vs;
    for (Index v : s.getVertices()) {
      if (!vs.insert(v).second) {
        r.fail("decoupleIsolatedSubGraphs/vertex-twice", describe(g) + fmt(": vertex %ld listed twice in one sub graph", long(v)));
        return r;
      }
    }
    ESet es;
    for (vt::Edge &e : s.getEdges()) {
      if (!es.insert({e.getEndPoint1(), e.getEndPoint2()}).second) {
        r.fail("decoupleIsolatedSubGraphs/edge-twice",
               describe(g) + ": edge " + edge_str(e.getEndPoint1(), e.getEndPoint2()) + " twice in one sub graph");
        return r;
      }
    }
    // node contents travel with the vertices
    for (long v : vs) {
      if (!graph.vertexExist(v)) continue;  // reported as invented below
      if (s.getNode(v) != graph.getNode(v)) {
        r.fail("decoupleIsolatedSubGraphs/node-content", describe(g) + fmt(": node of vertex %ld changed", v));
        return r;
      }
    }
    pv.push_back(vs);
    pe.push_back(es);
  }
  return check_partition(g, pv, pe, "decoupleIsolatedSubGraphs", r);
}

// ------------------------------------------------------------------ single network
static Result run_single(const json &c) {
  Result r;
  G g;
  if (!parse(c, g)) {
    r.discard = true;
    return r;
  }
  classify(g, r);
  int nc;
  ref_comp(g, nc);
  bool exp = ref_single(g, nc);
  r.cls(exp ? "single" : "not-single");
  vt::Graph graph = make_graph(g);
  std::vector<int> starts = c.value("starts", std::vector<int>{});
  if (starts.empty())
    for (int i = 0; i < g.n; ++i) starts.push_back(i);
  for (int s : starts) {
    if (s < 0 || s >= g.n) continue;
    {
      vt::Graph gc = graph;
      vt::Graph_BF_Visitor v;
      v.setStartingVertex(g.ids[size_t(s)]);
      bool got = vt::singleNetwork(gc, v);
      if (got != exp) {
        r.fail("singleNetwork/bf", describe(g) + fmt(": singleNetwork (BF from %ld) = %d, connected-without-isolated-vertex = %d",
                                                      g.ids[size_t(s)], int(got), int(exp)));
        return r;
      }
    }
    {
      vt::Graph gc = graph;
      vt::Graph_DF_Visitor v;
      v.setStartingVertex(g.ids[size_t(s)]);
      bool got = vt::singleNetwork(gc, v);
      if (got != exp) {
        r.fail("singleNetwork/df", describe(g) + fmt(": singleNetwork (DF from %ld) = %d, connected-without-isolated-vertex = %d",
                                                      g.ids[size_t(s)], int(got), int(exp)));
        return r;
      }
    }
  }
  return r;
}

// ------------------------------------------------------------------ reduce -> expand
static Result check_reduce(const G &g, Result r) {
  vt::Graph graph = make_graph(g);
  vt::ReducedGraph rg = vt::reduceGraph(graph);
  vt::Graph ex = rg.expandGraph();
  std::set<long> vs, want_v(g.ids.begin(), g.ids.end());
  for (Index v : ex.getVertices()) vs.insert(v);
  ESet es, want_e = edge_set(g);
  std::map<std::pair<long, long>, int> mult;
  for (vt::Edge &e : ex.getEdges()) {
    es.insert({e.getEndPoint1(), e.getEndPoint2()});
    mult[{e.getEndPoint1(), e.getEndPoint2()}]++;
  }
  for (auto &e : want_e)
    if (!es.count(e)) {
      r.fail("reduceGraph+expandGraph/edge-lost", describe(g) + ": edge " + edge_str(e.first, e.second) + " is missing after reduce->expand");
      return r;
    }
  for (auto &e : es)
    if (!want_e.count(e)) {
      r.fail("reduceGraph+expandGraph/edge-invented", describe(g) + ": edge " + edge_str(e.first, e.second) + " appears after reduce->expand");
      return r;
    }
  for (long v : want_v)
    if (!vs.count(v)) {
      r.fail("reduceGraph+expandGraph/vertex-lost", describe(g) + fmt(": vertex %ld is missing after reduce->expand", v));
      return r;
    }
  for (long v : vs)
    if (!want_v.count(v)) {
      r.fail("reduceGraph+expandGraph/vertex-invented", describe(g) + fmt(": vertex %ld appears after reduce->expand", v));
      return r;
    }
  for (auto &m : mult)
    if (m.second > 1) {
      r.cls("expanded-edge-multiplicity>1");
      break;
    }
  // node contents survive
  for (int i = 0; i < g.n; ++i)
    if (ex.getNode(g.ids[size_t(i)]) != graph.getNode(g.ids[size_t(i)])) {
      r.fail("reduceGraph+expandGraph/node-content", describe(g) + fmt(": node of vertex %ld changed", g.ids[size_t(i)]));
      return r;
    }
  return r;
}
static Result run_reduce(const json &c) {
  Result r;
  G g;
  if (!parse(c, g)) {
    r.discard = true;
    return r;
  }
  classify(g, r);
  return check_reduce(g, r);
}

// ------------------------------------------------------------------ BeadStructure
class TBead : public vc::BaseBead {
 public:
  TBead() : BaseBead() {}
};
static void add_bead(vc::BeadStructure &bs, long id, const std::string &name, double mass) {
  TBead b;
  b.setId(id);
  b.setName(name);
  b.setMass(mass);
  bs.AddBead(b);
}

struct Relabel {
  std::vector<long> ids2;
  std::vector<int> border1, border2, eorder1, eorder2;
  std::vector<int> flip2;
};
static bool parse_relabel(const json &c, const G &g, Relabel &R) {
  auto is_perm = [](const std::vector<int> &p, size_t n) {
    if (p.size() != n) return false;
    std::vector<bool> s(n, false);
    for (int x : p) {
      if (x < 0 || size_t(x) >= n || s[size_t(x)]) return false;
      s[size_t(x)] = true;
    }
    return true;
  };
  R.ids2 = c.at("ids2").get<std::vector<long>>();
  R.border1 = c.at("bead_order1").get<std::vector<int>>();
  R.border2 = c.at("bead_order2").get<std::vector<int>>();
  R.eorder1 = c.at("edge_order1").get<std::vector<int>>();
  R.eorder2 = c.at("edge_order2").get<std::vector<int>>();
  R.flip2 = c.at("flip2").get<std::vector<int>>();
  std::set<long> u(R.ids2.begin(), R.ids2.end());
  for (long id : R.ids2)
    if (id < 0) return false;
  return int(R.ids2.size()) == g.n && int(u.size()) == g.n && is_perm(R.border1, size_t(g.n)) && is_perm(R.border2, size_t(g.n)) &&
         is_perm(R.eorder1, g.edges.size()) && is_perm(R.eorder2, g.edges.size()) && R.flip2.size() == g.edges.size();
}
static vc::BeadStructure build(const G &g, const std::vector<long> &ids, const std::vector<int> &border, const std::vector<int> &eorder,
                               const std::vector<int> *flip, const std::vector<std::string> &names, const std::vector<double> &masses) {
  vc::BeadStructure bs;
  for (int i : border) add_bead(bs, ids[size_t(i)], names[size_t(i)], masses[size_t(i)]);
  for (int k : eorder) {
    auto e = g.edges[size_t(k)];
    long a = ids[size_t(e.first)], b = ids[size_t(e.second)];
    if (flip && (*flip)[size_t(k)]) std::swap(a, b);
    bs.ConnectBeads(a, b);
  }
  return bs;
}

static Result run_equiv(const json &c) {
  Result r;
  G g;
  Relabel R;
  if (!parse(c, g) || !parse_relabel(c, g, R)) {
    r.discard = true;
    return r;
  }
  classify(g, r);
  std::set<std::string> un(g.names.begin(), g.names.end());
  std::set<double> um(g.masses.begin(), g.masses.end());
  r.cls(un.size() == 1 && um.size() == 1 ? "homogeneous-attributes" : "mixed-attributes");
  vc::BeadStructure A = build(g, g.ids, R.border1, R.eorder1, nullptr, g.names, g.masses);
  vc::BeadStructure B = build(g, R.ids2, R.border2, R.eorder2, &R.flip2, g.names, g.masses);
  if (!A.isStructureEquivalent(B)) {
    r.fail("BeadStructure::isStructureEquivalent/relabelled", describe(g) + ": structure and its relabelled / reshuffled copy reported as different");
    return r;
  }
  {
    vc::BeadStructure A2 = build(g, g.ids, R.border1, R.eorder1, nullptr, g.names, g.masses);
    vc::BeadStructure B2 = build(g, R.ids2, R.border2, R.eorder2, &R.flip2, g.names, g.masses);
    if (!B2.isStructureEquivalent(A2)) {
      r.fail("BeadStructure::isStructureEquivalent/asymmetric", describe(g) + ": B~A false although A~B true");
      return r;
    }
  }
  // changed multiset of names / masses -> different
  const json &m = c.at("mut");
  int mv = m.at("v");
  if (mv < 0 || mv >= g.n) return r;
  std::vector<std::string> names2 = g.names;
  std::vector<double> masses2 = g.masses;
  std::string kind = m.at("kind");
  if (kind == "name") {
    names2[size_t(mv)] = m.at("name").get<std::string>();
    if (names2[size_t(mv)] == g.names[size_t(mv)]) return r;
  } else {
    masses2[size_t(mv)] = m.at("mass").get<double>();
    // masses enter the id with 8 significant digits (documented resolution): the change must be visible there
    if (fmt("%.8g", masses2[size_t(mv)]) == fmt("%.8g", g.masses[size_t(mv)])) {
      r.cls("mass-change-below-8-significant-digits(not asserted)");
      return r;
    }
    if (std::fabs(masses2[size_t(mv)] - g.masses[size_t(mv)]) < 1e-6 * std::fabs(g.masses[size_t(mv)])) r.cls("mass-change<1e-6-relative");
  }
  r.cls("mutated-" + kind);
  vc::BeadStructure A3 = build(g, g.ids, R.border1, R.eorder1, nullptr, g.names, g.masses);
  vc::BeadStructure C = build(g, R.ids2, R.border2, R.eorder2, &R.flip2, names2, masses2);
  if (A3.isStructureEquivalent(C)) {
    r.fail("BeadStructure::isStructureEquivalent/different-multiset",
           describe(g) + fmt(": bead %ld %s changed, still reported equivalent", g.ids[size_t(mv)], kind.c_str()));
    return r;
  }
  return r;
}

static Result run_breakinto(const json &c) {
  Result r;
  G g;
  Relabel R;
  if (!parse(c, g) || !parse_relabel(c, g, R)) {
    r.discard = true;
    return r;
  }
  classify(g, r);
  int nc;
  ref_comp(g, nc);
  bool exp = ref_single(g, nc);
  vc::BeadStructure A = build(g, g.ids, R.border1, R.eorder1, nullptr, g.names, g.masses);
  bool got = A.isSingleStructure();
  if (got != exp) {
    r.fail("BeadStructure::isSingleStructure", describe(g) + fmt(": isSingleStructure = %d, connected-without-isolated-bead = %d", int(got), int(exp)));
    return r;
  }
  if (A.isSingleStructure() != exp) {
    r.fail("BeadStructure::isSingleStructure/second-call", describe(g) + ": second call gives another answer");
    return r;
  }
  std::vector<vc::BeadStructure> parts = vc::breakIntoStructures(A);
  std::vector<std::set<long>> pv;
  std::vector<ESet> pe;
  for (auto &p : parts) {
    std::set<long> vs;
    for (Index v : p.getBeadIds()) vs.insert(v);
    ESet es;
    for (vt::Edge &e : p.getGraph().getEdges()) {
      if (!es.insert({e.getEndPoint1(), e.getEndPoint2()}).second) {
        r.fail("breakIntoStructures/edge-twice", describe(g) + ": edge " + edge_str(e.getEndPoint1(), e.getEndPoint2()) + " twice in one structure");
        return r;
      }
    }
    pv.push_back(vs);
    pe.push_back(es);
  }
  return check_partition(g, pv, pe, "breakIntoStructures", r);
}

// ------------------------------------------------------------------ generators
struct Builder {
  std::vector<std::pair<int, int>> edges;
  int n = 0;
  int add() { return n++; }
  void edge(int a, int b) {
    if (a == b) return;
    for (auto &e : edges)
      if ((e.first == a && e.second == b) || (e.first == b && e.second == a)) return;
    edges.push_back({a, b});
  }
  int chain(int from, int len) {  // append `len` new vertices after `from` (from=-1: start fresh); returns the last
    int cur = from;
    for (int i = 0; i < len; ++i) {
      int v = add();
      if (cur >= 0) edge(cur, v);
      cur = v;
    }
    return cur;
  }
  std::vector<int> ring(int k, int shared = -1) {  // k >= 3 vertices, optionally reusing `shared` as one of them
    std::vector<int> vs;
    if (shared >= 0) vs.push_back(shared);
    while (int(vs.size()) < k) vs.push_back(add());
    for (int i = 0; i < k; ++i) edge(vs[size_t(i)], vs[size_t((i + 1) % k)]);
    return vs;
  }
};

static std::string gen_component(Builder &b, int budget) {
  budget = std::max(1, budget);
  int kind = ri(0, 11);
  switch (kind) {
    case 0:
      b.chain(-1, ri(1, std::min(budget, 40)));
      return "chain";
    case 1: {
      if (budget < 3) {
        b.chain(-1, budget);
        return "chain";
      }
      b.ring(ri(3, std::min(budget, 24)));
      return "ring";
    }
    case 2: {  // star
      int c = b.add();
      int arms = ri(1, std::max(1, std::min(budget - 1, 12)));
      for (int i = 0; i < arms; ++i) b.edge(c, b.add());
      return "star";
    }
    case 3: {  // random tree
      int m = ri(1, std::min(budget, 40));
      int first = b.add();
      for (int i = 1; i < m; ++i) {
        int v = b.add();
        b.edge(first + ri(0, i - 1), v);
      }
      return "tree";
    }
    case 4: {  // fused rings (polyacene like): consecutive rings share an edge
      if (budget < 4) {
        b.chain(-1, budget);
        return "chain";
      }
      int k = ri(3, 6);
      std::vector<int> prev = b.ring(k);
      int used = k;
      int rings = ri(1, 4);
      for (int q = 0; q < rings && used + 2 <= budget; ++q) {
        int k2 = ri(3, 6);
        int i = ri(0, int(prev.size()) - 1);
        int a = prev[size_t(i)], c = prev[size_t((i + 1) % prev.size())];
        std::vector<int> nr{a};
        for (int t = 0; t < k2 - 2; ++t) nr.push_back(b.add());
        nr.push_back(c);
        for (size_t t = 0; t + 1 < nr.size(); ++t) b.edge(nr[t], nr[t + 1]);
        used += k2 - 2;
        prev = nr;
      }
      return "fused-rings";
    }
    case 5: {  // theta graph: two junctions joined by p parallel chains (equal lengths allowed)
      int a = b.add(), c = b.add();
      int p = ri(2, 4);
      bool direct = false;
      for (int q = 0; q < p; ++q) {
        int len = ri(0, 3);
        if (len == 0) {
          if (direct) len = 1;
          direct = true;
        }
        if (len == 0)
          b.edge(a, c);
        else {
          int last = b.chain(a, len);
          b.edge(last, c);
        }
      }
      return "theta";
    }
    case 6: {  // cactus: rings sharing single vertices (spiro) + tails
      if (budget < 3) {
        b.chain(-1, budget);
        return "chain";
      }
      std::vector<int> all = b.ring(ri(3, 5));
      int more = ri(1, 4);
      for (int q = 0; q < more && int(all.size()) + 2 <= budget; ++q) {
        int at = all[size_t(ri(0, int(all.size()) - 1))];
        if (rbool(60)) {
          std::vector<int> nr = b.ring(ri(3, 5), at);
          all.insert(all.end(), nr.begin() + 1, nr.end());
        } else {
          int first = b.n;
          b.chain(at, ri(1, 3));
          for (int v = first; v < b.n; ++v) all.push_back(v);
        }
      }
      return "cactus";
    }
    case 7: {  // ring with tails
      if (budget < 4) {
        b.chain(-1, budget);
        return "chain";
      }
      std::vector<int> rg = b.ring(ri(3, std::min(8, budget - 1)));
      int tails = ri(1, 3);
      for (int q = 0; q < tails; ++q) b.chain(rg[size_t(ri(0, int(rg.size()) - 1))], ri(1, 3));
      return "ring-with-tails";
    }
    case 8: {  // complete graph
      int k = ri(2, std::min(6, std::max(2, budget)));
      int first = b.n;
      for (int i = 0; i < k; ++i) b.add();
      for (int i = 0; i < k; ++i)
        for (int j = i + 1; j < k; ++j) b.edge(first + i, first + j);
      return "complete";
    }
    case 9: {  // random graph G(m,p)
      int m = ri(2, std::min(std::max(2, budget), 10));
      int first = b.n, pct = ri(15, 70);
      for (int i = 0; i < m; ++i) b.add();
      for (int i = 0; i < m; ++i)
        for (int j = i + 1; j < m; ++j)
          if (rbool(pct)) b.edge(first + i, first + j);
      return "random";
    }
    case 10: {  // ladder / grid 2 x k
      int k = ri(2, std::max(2, std::min(6, budget / 2)));
      int first = b.n;
      for (int i = 0; i < 2 * k; ++i) b.add();
      for (int i = 0; i < k; ++i) {
        b.edge(first + i, first + k + i);
        if (i + 1 < k) {
          b.edge(first + i, first + i + 1);
          b.edge(first + k + i, first + k + i + 1);
        }
      }
      return "ladder";
    }
    default:
      b.add();
      return "isolated";
  }
}

static const std::vector<std::string> &name_pool() {
  static const std::vector<std::string> p{"C", "H", "O", "N", "CA", "CB", "C1", "OH2", "S"};
  return p;
}
static const std::vector<double> &mass_pool() {
  static const std::vector<double> p{1.0, 12.0, 14.0, 16.0, 1.008, 12.011, 95.94, 72.0, 196.967, 35.453, 9.012182};
  return p;
}

static std::vector<long> sparse_ids(int n) {
  std::vector<long> ids;
  int mode = ri(0, 3);
  long cur = (mode == 0) ? 0 : ri(0, 2000);
  for (int i = 0; i < n; ++i) {
    ids.push_back(cur);
    if (mode == 0)
      cur += 1;
    else if (mode == 1)
      cur += pick<long>({1, 1, 2, 7});
    else
      cur += pick<long>({1, 3, 64, 1000, 99991, 16384});
  }
  if (ids.back() > 1000000) {
    for (int i = 0; i < n; ++i) ids[size_t(i)] = 1000000 - 7 * long(n - 1 - i);
  }
  auto p = rperm(n);
  std::vector<long> out(static_cast<size_t>(n));
  for (int i = 0; i < n; ++i) out[size_t(i)] = ids[size_t(p[size_t(i)])];
  return out;
}

static json gen_graph_sized(int max_n) {
  Builder b;
  int ncomp = pick({1, 1, 1, 1, 2, 2, 3, 4});
  std::string cls;
  int target = rcount(1, max_n);
  for (int q = 0; q < ncomp && b.n < target; ++q) {
    std::string k = gen_component(b, (target - b.n) / (ncomp - q) + 1);
    cls = cls.empty() ? k : (cls == k ? cls : "mixture");
  }
  if (ncomp > 1 && cls != "mixture") cls = "mixture";
  if (rbool(15)) {
    int iso = ri(1, 3);
    for (int i = 0; i < iso; ++i) b.add();
  }
  int n = b.n;
  // shuffle the vertex numbering so that the construction order is not the index order, and the edge order
  auto vp = rperm(n);
  auto ep = rperm(int(b.edges.size()));
  json edges = json::array();
  for (int k : ep) {
    auto e = b.edges[size_t(k)];
    int a = vp[size_t(e.first)], c = vp[size_t(e.second)];
    if (rbool()) std::swap(a, c);
    edges.push_back({a, c});
  }
  bool homog = rbool(45);
  std::string hn = pickv(name_pool());
  double hm = pickv(mass_pool());
  int palette = ri(1, 3);
  json names = json::array(), masses = json::array();
  for (int i = 0; i < n; ++i) {
    if (homog) {
      names.push_back(hn);
      masses.push_back(hm);
    } else {
      names.push_back(name_pool()[size_t(ri(0, palette))]);
      masses.push_back(mass_pool()[size_t(ri(0, std::min(palette, 3)))]);
    }
  }
  json c{{"n", n}, {"ids", sparse_ids(n)}, {"edges", edges}, {"names", names}, {"masses", masses}, {"class", cls}};
  // up to 6 start vertices for the per-start subs on large graphs
  if (n > 10) {
    json st = json::array();
    for (int i = 0; i < 6; ++i) st.push_back(ri(0, n - 1));
    c["starts"] = st;
  }
  c["reexplore"] = rbool(35);
  return c;
}
static void add_relabel(json &c) {
  int n = c.at("n");
  int m = int(c.at("edges").size());
  c["ids2"] = sparse_ids(n);
  c["bead_order1"] = rperm(n);
  c["bead_order2"] = rperm(n);
  c["edge_order1"] = rperm(m);
  c["edge_order2"] = rperm(m);
  json fl = json::array();
  for (int i = 0; i < m; ++i) fl.push_back(ri(0, 1));
  c["flip2"] = fl;
  int v = ri(0, n - 1);
  std::string old = c.at("names")[size_t(v)];
  if (rbool()) {
    std::string nn = pickv(name_pool());
    if (nn == old) nn = old + "X";
    c["mut"] = json{{"v", v}, {"kind", "name"}, {"name", nn}};
  } else {
    double om = c.at("masses")[size_t(v)];
    double nm = om * pick({1.01, 0.99, 2.0, 1.5}) + pick({0.0, 1.0});
    if (rbool(40)) nm = om * (1.0 + (rbool() ? 1.0 : -1.0) * pick({2e-8, 3e-8, 4e-8, 6e-8, 9e-8, 1e-6, 1e-4}));
    c["mut"] = json{{"v", v}, {"kind", "mass"}, {"mass", nm}};
  }
}
static json gen_graph40() { return gen_graph_sized(40); }
static json gen_graph24() { return gen_graph_sized(24); }
static json gen_rel24() {
  json c = gen_graph_sized(24);
  add_relabel(c);
  return c;
}
static json gen_rel40() {
  json c = gen_graph_sized(40);
  add_relabel(c);
  return c;
}

// ------------------------------------------------------------------ exhaustive small scope
// all labelled simple graphs on 1..min(level,6) vertices; for level >= 7 additionally every labelled graph on 7 vertices
// whose degree sequence is non-increasing in the vertex index (contains >= 1 representative of each of the 1044
// isomorphism classes).  Ids, attributes, orders and the relabelling are a deterministic function of the graph index
// (splitmix64), so the enumeration is reproducible.
static uint64_t smix(uint64_t &s) {
  uint64_t z = (s += 0x9e3779b97f4a7c15ull);
  z = (z ^ (z >> 30)) * 0xbf58476d1ce4e5b9ull;
  z = (z ^ (z >> 27)) * 0x94d049bb133111ebull;
  return z ^ (z >> 31);
}
static std::vector<int> det_perm(int n, uint64_t &s) {
  std::vector<int> p(static_cast<size_t>(n));
  for (int i = 0; i < n; ++i) p[size_t(i)] = i;
  for (int i = n - 1; i > 0; --i) std::swap(p[size_t(i)], p[size_t(smix(s) % uint64_t(i + 1))]);
  return p;
}
static std::vector<long> det_ids(int n, uint64_t &s) {
  static const long pool[] = {5, 1000000, 17, 999, 42, 77777, 3, 0, 65536, 123456, 8, 31};
  std::vector<long> ids;
  int mode = int(smix(s) % 3);
  if (mode == 0) {
    for (int i = 0; i < n; ++i) ids.push_back(i);
  } else {
    auto p = det_perm(12, s);
    for (int i = 0; i < n; ++i) ids.push_back(pool[p[size_t(i)]]);
  }
  auto q = det_perm(n, s);
  std::vector<long> out;
  for (int i = 0; i < n; ++i) out.push_back(ids[size_t(q[size_t(i)])]);
  return out;
}
// one enumerated case: ids, attributes, orders and the relabelling are a deterministic function of (n, edge list, s)
static bool emit_enum_graph(int n, const std::vector<std::pair<int, int>> &es, uint64_t s, const char *cls, bool relabel,
                            const std::function<bool(const json &)> &emit) {
  auto ep = det_perm(int(es.size()), s);
  json edges = json::array();
  for (int k : ep) {
    auto e = es[size_t(k)];
    if (smix(s) & 1)
      edges.push_back({e.second, e.first});
    else
      edges.push_back({e.first, e.second});
  }
  json names = json::array(), masses = json::array();
  int amode = int(smix(s) % 3);  // 0 homogeneous, 1 two names, 2 names and masses
  for (int i = 0; i < n; ++i) {
    uint64_t rnd = smix(s);
    names.push_back(amode == 0 ? "C" : ((rnd & 1) ? "C" : "H"));
    masses.push_back(amode == 2 ? ((rnd & 2) ? 12.0 : 1.0) : 12.0);
  }
  json c{{"n", n}, {"ids", det_ids(n, s)}, {"edges", edges}, {"names", names}, {"masses", masses}, {"class", cls}};
  if (relabel) {
    c["ids2"] = det_ids(n, s);
    c["bead_order1"] = det_perm(n, s);
    c["bead_order2"] = det_perm(n, s);
    c["edge_order1"] = det_perm(int(es.size()), s);
    c["edge_order2"] = det_perm(int(es.size()), s);
    json fl = json::array();
    for (size_t i = 0; i < es.size(); ++i) fl.push_back(int(smix(s) & 1));
    c["flip2"] = fl;
    int v = int(smix(s) % uint64_t(n));
    if (smix(s) & 1)
      c["mut"] = json{{"v", v}, {"kind", "name"}, {"name", "O"}};
    else
      c["mut"] = json{{"v", v}, {"kind", "mass"}, {"mass", 16.0}};
  }
  return emit(c);
}

// Exhaustive enumeration BY CLASS up to nmax vertices (quick 10, thorough 12): every rooted tree (canonical level
// sequences, Beyer-Hedetniemi successor: contains every free tree, chains and stars included), every ring, every
// ring with a tail (one junction), every pair of rings sharing a vertex, every theta graph (two junctions joined by
// three chains = fused rings), and every disjoint union of two members of {isolated vertex, chain, ring, star} -
// the classes the statement names.  Vertices are numbered along the construction and then relabelled by emit_enum_graph.
typedef std::vector<std::pair<int, int>> EL;
static EL shifted(const EL &e, int off) {
  EL o;
  for (auto &x : e) o.push_back({x.first + off, x.second + off});
  return o;
}
static EL chain_el(int n) { EL e; for (int i = 0; i + 1 < n; ++i) e.push_back({i, i + 1}); return e; }
static EL ring_el(int n) { EL e = chain_el(n); e.push_back({n - 1, 0}); return e; }
static EL star_el(int n) { EL e; for (int i = 1; i < n; ++i) e.push_back({0, i}); return e; }
static bool enum_classes(int nmax, bool relabel, const std::function<bool(const json &)> &emit) {
  uint64_t k = 0;
  auto out = [&](int n, const EL &e, const char *cls) { return emit_enum_graph(n, e, (++k) * 2654435761ull + uint64_t(n), cls, relabel, emit); };
  // rooted trees by level sequence
  for (int n = 1; n <= nmax; ++n) {
    std::vector<int> L(static_cast<size_t>(n));
    for (int i = 0; i < n; ++i) L[size_t(i)] = i + 1;  // the chain, lexicographically largest
    for (;;) {
      EL e;
      std::vector<int> last(static_cast<size_t>(n) + 2, -1);
      for (int i = 0; i < n; ++i) {
        int lv = L[size_t(i)];
        if (lv > 1) e.push_back({last[size_t(lv - 1)], i});
        last[size_t(lv)] = i;
      }
      if (!out(n, e, "enum-tree")) return false;
      // successor: p = last position with level > 2, q = its parent; copy the block [q, p) periodically
      int pp = n - 1;
      while (pp >= 0 && L[size_t(pp)] <= 2) --pp;
      if (pp < 0) break;  // the star was the last one
      int q = pp - 1;
      while (L[size_t(q)] != L[size_t(pp)] - 1) --q;
      for (int i = pp; i < n; ++i) L[size_t(i)] = L[size_t(i - (pp - q))];
    }
  }
  for (int r = 3; r <= nmax; ++r) {
    if (!out(r, ring_el(r), "enum-ring")) return false;
    for (int t = 1; r + t <= nmax; ++t) {  // tadpole: tail of t vertices on ring vertex 0
      EL e = ring_el(r);
      e.push_back({0, r});
      for (int i = 0; i + 1 < t; ++i) e.push_back({r + i, r + i + 1});
      if (!out(r + t, e, "enum-ring-tail")) return false;
    }
    for (int r2 = r; r + r2 - 1 <= nmax; ++r2) {  // two rings sharing vertex 0
      EL e = ring_el(r);
      e.push_back({0, r});
      for (int i = 0; i + 1 < r2 - 1; ++i) e.push_back({r + i, r + i + 1});
      e.push_back({r + r2 - 2, 0});
      if (!out(r + r2 - 1, e, "enum-rings-sharing-vertex")) return false;
    }
  }
  // theta graphs: junctions 0 and 1, three chains with a <= b <= c inner vertices, at most one of them empty
  for (int a = 0; a <= nmax; ++a)
    for (int b = std::max(a, 1); 2 + a + b <= nmax; ++b)
      for (int c3 = b; 2 + a + b + c3 <= nmax; ++c3) {
        EL e;
        int nxt = 2;
        for (int len : {a, b, c3}) {
          int prev = 0;
          for (int i = 0; i < len; ++i) {
            e.push_back({prev, nxt});
            prev = nxt++;
          }
          e.push_back({prev, 1});
        }
        if (!out(nxt, e, "enum-fused-rings")) return false;
      }
  // disjoint unions of two parts
  struct Part { int n; EL e; };
  std::vector<Part> parts;
  for (int n = 1; n <= nmax - 1; ++n) {
    parts.push_back({n, chain_el(n)});
    if (n >= 3) parts.push_back({n, ring_el(n)});
    if (n >= 4) parts.push_back({n, star_el(n)});
  }
  for (size_t i = 0; i < parts.size(); ++i)
    for (size_t j = i; j < parts.size(); ++j) {
      if (parts[i].n + parts[j].n > nmax) continue;
      EL e = parts[i].e;
      for (auto &x : shifted(parts[j].e, parts[i].n)) e.push_back(x);
      if (!out(parts[i].n + parts[j].n, e, "enum-mixture")) return false;
    }
  return true;
}

static void enum_graphs(int level, bool relabel, const std::function<bool(const json &)> &emit) {
  for (int n = 1; n <= std::min(level, 7); ++n) {
    int m = n * (n - 1) / 2;
    std::vector<std::pair<int, int>> pairs;
    for (int i = 0; i < n; ++i)
      for (int j = i + 1; j < n; ++j) pairs.push_back({i, j});
    for (uint64_t mask = 0; mask < (1ull << m); ++mask) {
      if (n == 7) {
        int deg[7] = {0, 0, 0, 0, 0, 0, 0};
        for (int k = 0; k < m; ++k)
          if (mask >> k & 1) {
            deg[pairs[size_t(k)].first]++;
            deg[pairs[size_t(k)].second]++;
          }
        bool mono = true;
        for (int i = 0; i + 1 < 7; ++i)
          if (deg[i] < deg[i + 1]) mono = false;
        if (!mono) continue;
      }
      uint64_t s = mask * 1315423911ull + uint64_t(n) * 7919ull;
      std::vector<std::pair<int, int>> es;
      for (int k = 0; k < m; ++k)
        if (mask >> k & 1) es.push_back(pairs[size_t(k)]);
      if (!emit_enum_graph(n, es, s, "enum", relabel, emit)) return;
    }
  }
  enum_classes(std::min(level + 5, 12), relabel, emit);
}
static void enum_plain(int level, const std::function<bool(const json &)> &emit) { enum_graphs(level, false, emit); }
// the cheap, already well covered subs stop at 6 vertices; the 7-vertex sweep is spent on reduce / equiv / breakinto
static void enum_plain6(int level, const std::function<bool(const json &)> &emit) { enum_graphs(std::min(level, 6), false, emit); }
static void enum_rel(int level, const std::function<bool(const json &)> &emit) { enum_graphs(level, true, emit); }

int main(int argc, char **argv) {
  std::vector<Sub> subs;
  subs.push_back({"equiv", gen_rel24, run_equiv, 1.0, 100, enum_rel});
  subs.push_back({"reduce", gen_graph40, run_reduce, 2.0, 100, enum_plain});
  subs.push_back({"breakinto", gen_rel40, run_breakinto, 1.0, 100, enum_rel});
  subs.push_back({"bfs", gen_graph24, run_bfs, 1.0, 100, enum_plain6});
  subs.push_back({"components", gen_graph40, run_components, 1.0, 100, enum_plain6});
  subs.push_back({"single", gen_graph24, run_single, 1.0, 100, enum_plain6});
  return harness_main(argc, argv, "C16", subs);
}
