// C03 — neighbour search finds exactly the pairs / triples within the cutoff, once.
//
// Code under test: NBListGrid / NBList ::Generate(list) and ::Generate(list1,list2) with a counting match callback
// (returning false as csg_stat does, and returning true), the stored pair list (r, dist), NBListGrid_3Body / NBList_3Body
// in the one-, two- and three-type variants, exclusions built by Topology::RebuildExclusions from bonded interactions.
// Oracle: O(N^2)/O(N^3) enumeration in long double with an own image search (h_c02_geom.h), exclusions recomputed from the
// interaction list of the case ("same molecule and share an interaction").
//
// Domain (quantifier of C03): orthorhombic and GROMACS-reduced triclinic boxes only, cutoff strictly inside (0, h_min/2).
//
// Ambiguity band (u = 2^-52): a pair whose reference distance d satisfies |d - cutoff| <= 1e-12 cutoff + 2^-46 (|p_i| + |p_j|)
// may be reported or not.  The second term covers (a) the rounding of r_j - r_i and of the image subtraction (a few u |r_ij|)
// and (b) the rounding of the cell index floor(p . n) of beads far away from the origin / exactly on a cell plane, which can
// move a bead into the neighbouring cell and thereby hide partners that are one full cell thickness (>= cutoff) away to within
// the same few u |p|.  Triples with an ambiguous leg are optional as well.  Ambiguous items never count as non-trivial.
#include "h_c02_geom.h"

#include <votca/csg/beadlist.h>
#include <votca/csg/interaction.h>
#include <votca/csg/nblist.h>
#include <votca/csg/nblist_3body.h>
#include <votca/csg/nblistgrid.h>
#include <votca/csg/nblistgrid_3body.h>
#include <votca/csg/topology.h>

#include <tuple>

using namespace vv;
using namespace geo;
namespace csg = votca::csg;
using BC = csg::BoundaryCondition;
using csg::Bead;

static const char *TYPE_NAMES[3] = {"A", "B", "C"};

static Eigen::Matrix3d eig(const Box &B) {
  Eigen::Matrix3d M;
  for (int r = 0; r < 3; ++r)
    for (int c = 0; c < 3; ++c) M(r, c) = B.m[r][c];
  return M;
}
static V toV(const Eigen::Vector3d &e) { return V{ld(e[0]), ld(e[1]), ld(e[2])}; }

// ------------------------------------------------------------------ case -> numbers
static double half_height_below(const Box &B) {
  ld h2 = hmin(B) / 2;
  double x = double(h2);
  while (ld(x) >= h2) x = std::nextafter(x, 0.0);
  return x;  // largest double strictly below h_min/2
}
static double cutoff_of(const Box &B, const json &cut) {
  double top = half_height_below(B);
  double c;
  if (cut.at("mode") == "frac") {
    c = double(hmin(B) / 2 * ld(cut.at("k").get<int>()) / 64);
  } else {
    V hs = heights(B);
    c = double(hs[size_t(cut.at("dir").get<int>())]) / double(cut.at("n").get<int>());
    int u = cut.at("ulp");
    for (int i = 0; i < std::abs(u); ++i) c = std::nextafter(c, u > 0 ? HUGE_VAL : 0.0);
    if (cut.contains("relexp")) c *= 1.0 + std::ldexp(1.0, -cut.at("relexp").get<int>());  // a hair above height/n
  }
  return std::min(c, top);
}
// cells per direction as the statement describes them: as many as fit with a thickness of at least one cutoff
static std::array<long, 3> cells_of(const Box &B, double cutoff) {
  V hs = heights(B);
  std::array<long, 3> n;
  for (size_t k = 0; k < 3; ++k) n[k] = std::max(1L, long(floorl(hs[k] / ld(cutoff))));
  return n;
}

struct Config {
  Box B;
  double cutoff;
  int ntypes;
  std::vector<std::array<double, 3>> pos;
  std::vector<int> type, mol;
  int nmol = 0;
  std::vector<std::vector<long>> ia;
  bool excl;
  std::string boxtype;
  double prior = 0;  // > 0: the search object has already been used with cutoff*prior (history), then Cleanup + setCutoff
};

static Config config_of(const json &c) {
  Config C;
  C.B = box_from(c.at("box"));
  C.cutoff = cutoff_of(C.B, c.at("cut"));
  C.ntypes = c.at("ntypes");
  C.excl = c.at("excl");
  C.boxtype = c.at("type");
  C.prior = c.value("prior", 0.0);
  for (auto &b : c.at("beads")) {
    std::array<double, 3> p;
    if (b.contains("rel")) {
      size_t ref = b["rel"];
      const std::array<double, 3> &q = C.pos.at(ref);
      double s[3];
      for (size_t k = 0; k < 3; ++k) s[k] = double(b["sh"][k].get<long>());
      // "fine" = +-j: the offset is scaled by (1 +- 2^-j): a distance a hair inside / outside the cutoff
      double fine = 1.0;
      if (b.contains("fine")) {
        int j = b["fine"];
        fine = 1.0 + (j > 0 ? 1.0 : -1.0) * std::ldexp(1.0, -std::abs(j));
      }
      for (size_t r = 0; r < 3; ++r)
        p[r] = q[r] + C.cutoff * double(b["off"][r].get<int>()) / 64.0 * fine +
               (C.B.m[r][0] * s[0] + C.B.m[r][1] * s[1] + C.B.m[r][2] * s[2]);
    } else {
      double s[3];
      for (size_t k = 0; k < 3; ++k) {
        const json &a = b["abs"][k];
        s[k] = double(a[0].get<long>()) / double(a[1].get<long>());
        if (a.size() > 3) s[k] *= 1.0 - std::ldexp(1.0, -a[3].get<int>());  // a hair below the cell plane
        s[k] += double(a[2].get<long>());
      }
      for (size_t r = 0; r < 3; ++r) p[r] = C.B.m[r][0] * s[0] + C.B.m[r][1] * s[1] + C.B.m[r][2] * s[2];
    }
    C.pos.push_back(p);
    C.type.push_back(b.at("t"));
    C.mol.push_back(b.at("mol"));
    C.nmol = std::max(C.nmol, C.mol.back() + 1);
  }
  for (auto &i : c.at("ia")) C.ia.push_back(i.get<std::vector<long>>());
  return C;
}

// ------------------------------------------------------------------ reference
enum Status { IN, OUT, AMB };
struct Ref {
  size_t n;
  std::vector<std::vector<Status>> st;
  std::vector<std::vector<bool>> excluded, crosses, near_cell;
  std::vector<V> p;
  ld tol_of(size_t i, size_t j) const { return 0x1p-46L * (norm(p[i]) + norm(p[j])); }
};

static Ref reference(const Config &C) {
  Ref R;
  R.n = C.pos.size();
  for (auto &q : C.pos) R.p.push_back(V{ld(q[0]), ld(q[1]), ld(q[2])});
  R.st.assign(R.n, std::vector<Status>(R.n, OUT));
  R.excluded.assign(R.n, std::vector<bool>(R.n, false));
  R.crosses = R.near_cell = R.excluded;
  std::array<long, 3> N = cells_of(C.B, C.cutoff);
  std::vector<std::array<long, 3>> cell(R.n);
  for (size_t i = 0; i < R.n; ++i) {
    V s = fractional(C.B, R.p[i]);
    for (size_t k = 0; k < 3; ++k) {
      ld f = s[k] - floorl(s[k]);
      cell[i][k] = std::min(N[k] - 1, long(floorl(f * N[k])));
    }
  }
  for (size_t i = 0; i < R.n; ++i)
    for (size_t j = i + 1; j < R.n; ++j) {
      MinImage mi = min_image(C.B, R.p[j] - R.p[i], 1);  // 27 images
      ld band = 1e-12L * C.cutoff + R.tol_of(i, j);
      Status s = mi.len < ld(C.cutoff) - band ? IN : mi.len >= ld(C.cutoff) + band ? OUT : AMB;
      R.st[i][j] = R.st[j][i] = s;
      bool cr = maxabs(mi.n) >= 1;
      R.crosses[i][j] = R.crosses[j][i] = cr;
      bool nc = true;
      for (size_t k = 0; k < 3; ++k) {
        long dd = std::labs(cell[i][k] - cell[j][k]);
        dd = std::min(dd, N[k] - dd);
        if (dd > 1) nc = false;
      }
      R.near_cell[i][j] = R.near_cell[j][i] = nc;
    }
  // exclusions: same molecule and share a bonded interaction
  for (auto &ia : C.ia)
    for (long a : ia)
      for (long b : ia)
        if (a != b && C.mol[size_t(a)] == C.mol[size_t(b)]) R.excluded[size_t(a)][size_t(b)] = true;
  return R;
}

// ------------------------------------------------------------------ topology under test
struct Sys {
  csg::Topology top;
  explicit Sys(const Config &C) {
    BC::eBoxtype t = C.boxtype == "ortho" ? BC::typeOrthorhombic : C.boxtype == "tric" ? BC::typeTriclinic : BC::typeAuto;
    top.setBox(eig(C.B), t);
    for (int k = 0; k < C.ntypes; ++k) top.RegisterBeadType(TYPE_NAMES[k]);
    for (int m = 0; m < C.nmol; ++m) top.CreateMolecule("M" + std::to_string(m));
    for (size_t i = 0; i < C.pos.size(); ++i) {
      std::string nm = "b" + std::to_string(i);
      Bead *b = top.CreateBead(Bead::spherical, nm, TYPE_NAMES[C.type[i]], 0, 1.0, 0.0);
      b->setPos(Eigen::Vector3d(C.pos[i][0], C.pos[i][1], C.pos[i][2]));
      top.MoleculeByIndex(C.mol[i])->AddBead(b, nm);
    }
    long idx = 0;
    for (auto &ia : C.ia) {
      csg::Interaction *ic = nullptr;
      if (ia.size() == 2) ic = new csg::IBond(ia[0], ia[1]);
      if (ia.size() == 3) ic = new csg::IAngle(ia[0], ia[1], ia[2]);
      if (ia.size() == 4) ic = new csg::IDihedral(ia[0], ia[1], ia[2], ia[3]);
      ic->setGroup(ia.size() == 2 ? "bond" : ia.size() == 3 ? "angle" : "dihedral");
      ic->setIndex(idx++);
      ic->setMolecule(C.mol[size_t(ia[0])]);
      top.AddBondedInteraction(ic);
    }
    top.RebuildExclusions();
  }
};

struct PairCounter {
  struct Rec {
    long a, b;
    Eigen::Vector3d r;
    double d;
  };
  std::vector<Rec> recs;
  bool ret = false;
  bool cb(Bead *b1, Bead *b2, const Eigen::Vector3d &r, double d) {
    recs.push_back({long(b1->getId()), long(b2->getId()), r, d});
    return ret;
  }
};
struct TripleCounter {
  std::vector<std::array<long, 3>> recs;
  bool ret = false;
  bool cb(Bead *b1, Bead *b2, Bead *b3, const Eigen::Vector3d &, const Eigen::Vector3d &, const Eigen::Vector3d &, const double,
          const double, const double) {
    recs.push_back({long(b1->getId()), long(b2->getId()), long(b3->getId())});
    return ret;
  }
};

static std::vector<bool> members(const Config &C, int type /* -1 = all */) {
  std::vector<bool> m(C.pos.size());
  for (size_t i = 0; i < m.size(); ++i) m[i] = type < 0 || C.type[i] == type;
  return m;
}
static std::string sel_of(int type) { return type < 0 ? "*" : TYPE_NAMES[type]; }

static bool check_beadlist(Result &r, csg::BeadList &l, const std::vector<bool> &m) {
  std::vector<bool> got(m.size(), false);
  for (Bead *b : l) got[size_t(b->getId())] = true;
  if (got != m) {
    r.fail("BeadList/select", "BeadList::Generate selected a different bead set than the type of the beads says");
    return false;
  }
  return true;
}

// connection vector check: stored/delivered r for ordered beads (a -> b) must be the minimum image of p_b - p_a
static bool vec_ok(const Config &C, const Ref &R, size_t a, size_t b, const Eigen::Vector3d &r, double d, bool require_shortest,
                   std::string *why) {
  V g = toV(r);
  V dv = R.p[b] - R.p[a];
  ld tol = 0x1p-46L * (norm(R.p[a]) + norm(R.p[b])) + 1e-13L * C.B.maxabs();
  if (!(std::isfinite(r[0]) && std::isfinite(r[1]) && std::isfinite(r[2]))) {
    *why = "vector not finite";
    return false;
  }
  if (fabsl(ld(d) - norm(g)) > 8 * U * norm(g) + 1e-300L) {
    *why = fmt("dist %.17g != |r| = %.17Lg", d, norm(g));
    return false;
  }
  V m = fractional(C.B, dv - g);
  for (size_t k = 0; k < 3; ++k)
    if (fabsl(m[k] - roundl(m[k])) > 1e-9L * (1 + fabsl(m[k]))) {
      *why = "r " + vs(g) + " is not a periodic image of p_b - p_a = " + vs(dv);
      return false;
    }
  if (require_shortest) {
    MinImage mi = min_image(C.B, dv, 2);
    bool tie = mi.second - mi.len <= 1e-12L * mi.len + 4 * tol;
    if (norm(g) > (tie ? mi.second : mi.len) + tol || (!tie && maxabs(g - mi.v) > tol)) {
      *why = "r " + vs(g) + " is not the minimum image " + vs(mi.v) + " of p_b - p_a";
      return false;
    }
  }
  return true;
}

// ------------------------------------------------------------------ pair lists
// in1/in2: membership of the two lists (identical vectors + one_list=true for Generate(list))
template <class NB>
static void check_pairs(Result &r, const std::string &K, const Config &C, const Ref &R, Sys &S, int t1, int t2, bool one_list,
                        bool ret) {
  if (!r.ok) return;
  std::vector<bool> in1 = members(C, t1), in2 = one_list ? in1 : members(C, t2);
  csg::BeadList l1, l2;
  l1.Generate(S.top, sel_of(t1));
  if (!check_beadlist(r, l1, in1)) return;
  if (!one_list) {
    l2.Generate(S.top, sel_of(t2));
    if (!check_beadlist(r, l2, in2)) return;
  }
  NB nb;
  if (C.prior > 0) {
    // history: the same search object has produced a list for another cutoff before (csg tools construct a fresh
    // object per search, library users need not); what it reports now must not depend on that
    nb.setCutoff(C.cutoff * C.prior);
    if (one_list)
      nb.Generate(l1, C.excl);
    else
      nb.Generate(l1, l2, C.excl);
    nb.Cleanup();
  }
  nb.setCutoff(C.cutoff);
  PairCounter pc;
  pc.ret = ret;
  nb.SetMatchFunction(&pc, &PairCounter::cb);
  if (one_list)
    nb.Generate(l1, C.excl);
  else
    nb.Generate(l1, l2, C.excl);

  size_t n = R.n;
  auto eligible = [&](size_t i, size_t j) { return i != j && ((in1[i] && in2[j]) || (in1[j] && in2[i])); };
  std::string ctx = fmt(" [cutoff=%.17g ret=%d excl=%d]", C.cutoff, int(ret), int(C.excl));
  auto describe = [&](size_t i, size_t j) {
    MinImage mi = min_image(C.B, R.p[j] - R.p[i], 1);
    return fmt("beads %zu,%zu (mol %d,%d) reference distance %.17Lg", i, j, C.mol[i], C.mol[j], mi.len) + ctx;
  };
  // callback deliveries
  std::map<std::pair<size_t, size_t>, int> cnt;
  for (auto &rec : pc.recs) {
    size_t a = size_t(rec.a), b = size_t(rec.b);
    if (a >= n || b >= n || !eligible(a, b)) {
      r.fail(K + "/callback-invented", fmt("callback for beads %ld,%ld which are not a pair of the given lists", rec.a, rec.b) + ctx);
      return;
    }
    cnt[{std::min(a, b), std::max(a, b)}]++;
    std::string why;
    if (R.st[a][b] != OUT && !vec_ok(C, R, a, b, rec.r, rec.d, true, &why)) {
      r.fail(K + "/callback-vector", "delivered " + why + "; " + describe(a, b));
      return;
    }
  }
  std::map<std::pair<size_t, size_t>, int> stored;
  for (auto *p : nb) {
    size_t a = size_t(p->first()->getId()), b = size_t(p->second()->getId());
    if (a >= n || b >= n || !eligible(a, b)) {
      r.fail(K + "/stored-invented", fmt("stored pair %zu,%zu is not a pair of the given lists", a, b) + ctx);
      return;
    }
    stored[{std::min(a, b), std::max(a, b)}]++;
    std::string why;
    if (R.st[a][b] != OUT && !vec_ok(C, R, a, b, p->r(), p->dist(), true, &why)) {
      r.fail(K + "/stored-vector", "stored " + why + "; " + describe(a, b));
      return;
    }
  }
  if (size_t(nb.size()) != size_t(std::distance(nb.begin(), nb.end()))) r.fail(K + "/size", "size() differs from the number of stored pairs");
  for (size_t i = 0; i < n && r.ok; ++i)
    for (size_t j = i + 1; j < n && r.ok; ++j) {
      if (!eligible(i, j)) continue;
      auto it = cnt.find({i, j});
      int c = it == cnt.end() ? 0 : it->second;
      auto is = stored.find({i, j});
      int s = is == stored.end() ? 0 : is->second;
      bool ex = C.excl && R.excluded[i][j];
      Status st = R.st[i][j];
      if (st == OUT || ex) {
        if (c > 0) r.fail(K + (ex && st != OUT ? "/exclusion-ignored" : "/callback-invented"), "callback delivered for " + describe(i, j));
        else if (s > 0) r.fail(K + (ex && st != OUT ? "/exclusion-ignored" : "/stored-invented"), "stored: " + describe(i, j));
      } else {
        if (c > 1) r.fail(K + "/callback-duplicate", fmt("callback delivered %d times for ", c) + describe(i, j));
        else if (s > 1) r.fail(K + "/stored-duplicate", fmt("stored %d times: ", s) + describe(i, j));
        else if (!ret && s > 0) r.fail(K + "/stored-despite-false", "match function returned false but the pair is stored: " + describe(i, j));
        else if (ret && s != c) r.fail(K + "/stored-vs-callback", fmt("match function returned true %d times but the pair is stored %d times: ", c, s) + describe(i, j));
        else if (st == IN && c == 0)
          r.fail(K + "/callback-missing", "no callback for " + describe(i, j) +
                                              (C.excl && C.mol[i] == C.mol[j] ? " (same molecule, no shared interaction)" : ""));
      }
    }
}

// ------------------------------------------------------------------ triple lists
// variant 1: (L,L,L)  2: (L1, L2, L2)  3: (L1, L2, L3)
template <class NB>
static void check_triples(Result &r, const std::string &K, const Config &C, const Ref &R, Sys &S, int variant, int t1, int t2, int t3,
                          bool ret, long *n_expected, bool *crossing) {
  if (!r.ok) return;
  std::vector<bool> in1 = members(C, t1), in2 = variant == 1 ? in1 : members(C, t2), in3 = variant == 3 ? members(C, t3) : in2;
  csg::BeadList l1, l2, l3;
  l1.Generate(S.top, sel_of(t1));
  if (!check_beadlist(r, l1, in1)) return;
  if (variant >= 2) {
    l2.Generate(S.top, sel_of(t2));
    if (!check_beadlist(r, l2, in2)) return;
  }
  if (variant == 3) {
    l3.Generate(S.top, sel_of(t3));
    if (!check_beadlist(r, l3, in3)) return;
  }
  NB nb;
  if (C.prior > 0) {
    nb.setCutoff(C.cutoff * C.prior);
    if (variant == 1) nb.Generate(l1, C.excl);
    if (variant == 2) nb.Generate(l1, l2, C.excl);
    if (variant == 3) nb.Generate(l1, l2, l3, C.excl);
    nb.Cleanup();
  }
  nb.setCutoff(C.cutoff);
  TripleCounter tc;
  tc.ret = ret;
  nb.SetMatchFunction(&tc, &TripleCounter::cb);
  if (variant == 1) nb.Generate(l1, C.excl);
  if (variant == 2) nb.Generate(l1, l2, C.excl);
  if (variant == 3) nb.Generate(l1, l2, l3, C.excl);

  size_t n = R.n;
  std::string ctx = fmt(" [cutoff=%.17g variant=%d-type excl=%d]", C.cutoff, variant, int(C.excl));
  using Key = std::tuple<size_t, size_t, size_t>;  // centre, lower id, higher id
  auto key = [](size_t c, size_t j, size_t k) { return Key(c, std::min(j, k), std::max(j, k)); };
  // a triple (c,{j,k}) belongs to the variant if j can come from list 2 and k from list 3 (or the other way round)
  auto eligible = [&](size_t c, size_t j, size_t k) {
    return c != j && c != k && j != k && in1[c] && ((in2[j] && in3[k]) || (in2[k] && in3[j]));
  };
  auto describe = [&](size_t c, size_t j, size_t k) {
    MinImage a = min_image(C.B, R.p[j] - R.p[c], 1), b = min_image(C.B, R.p[k] - R.p[c], 1);
    return fmt("centre %zu partners %zu,%zu (mol %d,%d,%d) reference distances %.17Lg %.17Lg", c, j, k, C.mol[c], C.mol[j], C.mol[k], a.len,
               b.len) + ctx;
  };
  std::set<Key> delivered;
  for (auto &t : tc.recs) {
    size_t c = size_t(t[0]), j = size_t(t[1]), k = size_t(t[2]);
    if (c >= n || j >= n || k >= n || !eligible(c, j, k)) {
      r.fail(K + "/callback-invented", fmt("callback for beads %zu,%zu,%zu which are not a triple of the given lists", c, j, k) + ctx);
      return;
    }
    delivered.insert(key(c, j, k));
  }
  std::map<Key, int> stored;
  bool is_ortho = C.B.diagonal();
  ld h = hmin(C.B);
  for (auto *t : nb) {
    size_t c = size_t(t->bead1()->getId()), j = size_t(t->bead2()->getId()), k = size_t(t->bead3()->getId());
    if (c >= n || j >= n || k >= n || !eligible(c, j, k)) {
      r.fail(K + "/stored-invented", fmt("stored triple %zu,%zu,%zu is not a triple of the given lists", c, j, k) + ctx);
      return;
    }
    stored[key(c, j, k)]++;
    if (R.st[c][j] == OUT || R.st[c][k] == OUT) continue;  // reported below as invented
    std::string why;
    if (!vec_ok(C, R, c, j, t->r12(), t->dist12(), true, &why)) r.fail(K + "/stored-vector", "r12/dist12: " + why + "; " + describe(c, j, k));
    if (!vec_ok(C, R, c, k, t->r13(), t->dist13(), true, &why)) r.fail(K + "/stored-vector", "r13/dist13: " + why + "; " + describe(c, j, k));
    // partner-partner vector: up to 2 cutoff < h_min long; shortest demanded as in C02 (always orthorhombic, triclinic below h_min/2)
    MinImage m23 = min_image(C.B, R.p[k] - R.p[j], 2);
    bool demand = is_ortho || m23.len < 0.5L * h * (1 - 1e-9L) - R.tol_of(j, k);
    if (!vec_ok(C, R, j, k, t->r23(), t->dist23(), demand, &why)) r.fail(K + "/stored-vector", "r23/dist23: " + why + "; " + describe(c, j, k));
    if (!r.ok) return;
  }
  if (size_t(nb.size()) != size_t(std::distance(nb.begin(), nb.end()))) r.fail(K + "/size", "size() differs from the number of stored triples");
  for (size_t c = 0; c < n && r.ok; ++c) {
    if (!in1[c]) continue;
    for (size_t j = 0; j < n && r.ok; ++j)
      for (size_t k = j + 1; k < n && r.ok; ++k) {
        if (!eligible(c, j, k)) continue;
        Status a = R.st[c][j], b = R.st[c][k];
        bool ex = C.excl && (R.excluded[c][j] || R.excluded[c][k] || R.excluded[j][k]);
        bool dl = delivered.count(key(c, j, k)) > 0;
        auto is = stored.find(key(c, j, k));
        int s = is == stored.end() ? 0 : is->second;
        bool out = a == OUT || b == OUT;
        if (out || ex) {
          if (dl) r.fail(K + (ex && !out ? "/exclusion-ignored" : "/callback-invented"), "callback delivered for " + describe(c, j, k));
          else if (s > 0) r.fail(K + (ex && !out ? "/exclusion-ignored" : "/stored-invented"), "stored: " + describe(c, j, k));
        } else {
          bool must = a == IN && b == IN;
          if (must) {
            ++*n_expected;
            if (R.crosses[c][j] || R.crosses[c][k]) *crossing = true;
          }
          if (s > 1) r.fail(K + "/stored-duplicate", fmt("stored %d times: ", s) + describe(c, j, k));
          else if (!ret && s > 0) r.fail(K + "/stored-despite-false", "match function returned false but the triple is stored: " + describe(c, j, k));
          else if (ret && (s > 0) != dl) r.fail(K + "/stored-vs-callback", "delivered to a match function returning true but not stored (or vice versa): " + describe(c, j, k));
          else if (must && !dl) r.fail(K + "/callback-missing", "no callback for " + describe(c, j, k));
        }
      }
  }
}

// ------------------------------------------------------------------ run
static bool prepare(const json &c, Result &r, Config &C, Ref &R) {
  C = config_of(c);
  std::array<long, 3> N = cells_of(C.B, C.cutoff);
  if (!(C.cutoff > 0) || N[0] * N[1] * N[2] > 60000) {  // cost bound of the cell grid set-up (documented rejection)
    r.discard = true;
    return false;
  }
  R = reference(C);
  long nmin = std::min(N[0], std::min(N[1], N[2])), nmax = std::max(N[0], std::max(N[1], N[2]));
  r.cls(nmin <= 2 ? "cells-min=2" : nmin == 3 ? "cells-min=3" : "cells-min>=4");
  r.cls(nmax <= 2 ? "cells-max=2" : nmax == 3 ? "cells-max=3" : nmax < 10 ? "cells-max=4..9" : "cells-max>=10");
  r.cls(C.B.diagonal() ? "box=orthorhombic" : "box=triclinic");
  r.cls("boxtype=" + C.boxtype);
  bool neg = false, far = false;
  for (auto &p : C.pos)
    for (double x : p) {
      if (x < 0) neg = true;
      if (std::fabs(x) > 100 * C.B.maxabs()) far = true;
    }
  if (neg) r.cls("negative-coordinates");
  if (far) r.cls("beads>100-images-away");
  if (C.pos.empty()) r.cls("no-beads");
  if (c.at("cut").at("mode") == "cells") r.cls(fmt("cutoff=height/N%+d ulp", c["cut"]["ulp"].get<int>()));
  return true;
}

static Result run_pairs(const json &c) {
  Result r;
  Config C;
  Ref R;
  if (!prepare(c, r, C, R)) return r;
  Sys S(C);
  int t1 = c.at("sel1"), ta = c.at("t1"), tb = c.at("t2");
  // non-triviality and classes (one-list selection)
  std::vector<bool> in = members(C, t1);
  long n_in = 0, n_amb = 0, n_excl = 0, n_cross = 0, n_near_out = 0;
  for (size_t i = 0; i < R.n; ++i)
    for (size_t j = i + 1; j < R.n; ++j) {
      if (!in[i] || !in[j]) continue;
      bool ex = C.excl && R.excluded[i][j];
      if (R.st[i][j] == IN && ex) ++n_excl;
      if (R.st[i][j] == IN && !ex) {
        ++n_in;
        if (R.crosses[i][j]) ++n_cross;
      }
      if (R.st[i][j] == AMB) ++n_amb;
      if (R.st[i][j] == OUT && R.near_cell[i][j]) ++n_near_out;
    }
  r.nontrivial = n_cross >= 1 && n_near_out >= 1;
  r.cls(n_in == 0 ? "pairs=0" : n_in < 10 ? "pairs=1..9" : "pairs>=10");
  if (n_cross) r.cls("pair-across-periodic-face");
  if (n_near_out) r.cls("non-pair-in-neighbour-cell");
  if (n_amb) r.cls("ambiguous-pairs-present");
  if (n_excl) r.cls("exclusions-active");
  if (C.excl && !C.ia.empty()) r.cls("exclusions-on");

  for (int ret = 0; ret < 2; ++ret) {
    check_pairs<csg::NBListGrid>(r, "NBListGrid/one-list", C, R, S, t1, t1, true, ret);
    check_pairs<csg::NBList>(r, "NBList/one-list", C, R, S, t1, t1, true, ret);
    if (C.ntypes >= 2) {
      check_pairs<csg::NBListGrid>(r, "NBListGrid/two-list", C, R, S, ta, tb, false, ret);
      check_pairs<csg::NBList>(r, "NBList/two-list", C, R, S, ta, tb, false, ret);
    }
  }
  if (C.ntypes >= 2) r.cls("two-list-run");
  return r;
}

static Result run_triples(const json &c) {
  Result r;
  Config C;
  Ref R;
  if (!prepare(c, r, C, R)) return r;
  Sys S(C);
  int t1 = c.at("sel1"), ta = c.at("t1"), tb = c.at("t2"), tc = c.at("t3");
  long n_exp = 0;
  bool crossing = false;
  for (int ret = 1; ret >= 0; --ret) {
    long dummy = 0;
    bool dummyb = false;
    long *ne = ret ? &n_exp : &dummy;
    bool *cr = ret ? &crossing : &dummyb;
    check_triples<csg::NBListGrid_3Body>(r, "NBListGrid_3Body/one-type", C, R, S, 1, t1, t1, t1, ret, ne, cr);
    check_triples<csg::NBList_3Body>(r, "NBList_3Body/one-type", C, R, S, 1, t1, t1, t1, ret, &dummy, &dummyb);
    if (C.ntypes >= 2) {
      check_triples<csg::NBListGrid_3Body>(r, "NBListGrid_3Body/two-type", C, R, S, 2, ta, tb, tb, ret, ne, cr);
      check_triples<csg::NBList_3Body>(r, "NBList_3Body/two-type", C, R, S, 2, ta, tb, tb, ret, &dummy, &dummyb);
    }
    if (C.ntypes >= 3) {
      check_triples<csg::NBListGrid_3Body>(r, "NBListGrid_3Body/three-type", C, R, S, 3, ta, tb, tc, ret, ne, cr);
      check_triples<csg::NBList_3Body>(r, "NBList_3Body/three-type", C, R, S, 3, ta, tb, tc, ret, &dummy, &dummyb);
    }
  }
  bool near_out = false, amb = false, exa = false;
  for (size_t i = 0; i < R.n; ++i)
    for (size_t j = i + 1; j < R.n; ++j) {
      if (R.st[i][j] == OUT && R.near_cell[i][j]) near_out = true;
      if (R.st[i][j] == AMB) amb = true;
      if (R.st[i][j] == IN && C.excl && R.excluded[i][j]) exa = true;
    }
  r.nontrivial = n_exp >= 1 && crossing && near_out;
  r.cls(n_exp == 0 ? "triples=0" : n_exp < 10 ? "triples=1..9" : "triples>=10");
  if (crossing) r.cls("triple-leg-across-periodic-face");
  if (near_out) r.cls("non-pair-in-neighbour-cell");
  if (amb) r.cls("ambiguous-pairs-present");
  if (exa) r.cls("exclusions-active");
  r.cls(fmt("types=%d", C.ntypes));
  return r;
}

// ------------------------------------------------------------------ generator
static json gen_config(int maxbeads, int min_types, int rel_pct) {
  json c;
  int kind = rbool(45) ? 1 : 2;
  c["box"] = gen_box(kind, 3);
  {
    int k = ri(0, 9);
    c["type"] = kind == 1 ? (k < 6 ? "auto" : k < 8 ? "ortho" : "tric") : (k < 6 ? "auto" : "tric");
  }
  Box B = box_from(c["box"]);
  json cut;
  int cm = ri(0, 9);
  if (cm < 5) {
    int cls = ri(0, 2);  // 2, 3, >= 4 cells along the shortest height
    cut = json{{"mode", "frac"}, {"k", cls == 0 ? ri(33, 63) : cls == 1 ? ri(22, 32) : ri(6, 21)}};
  } else {
    cut = json{{"mode", "cells"}, {"dir", ri(0, 2)}, {"n", pick<int>({2, 2, 3, 3, 3, 4, 4, 5, 6, 8})}, {"ulp", ri(-2, 2)}};
  }
  // face-hugging scenario (12 %): the cutoff is a hair above height/n, bead 0 sits a hair below a cell plane of the
  // n-cell grid and bead 1 one cutoff*(1 - tiny) further along that direction (two cells apart if the grid is built
  // with n cells of a thickness just below the cutoff; a distance inside the single-precision rounding of the cutoff)
  int hug = -1, hug_e = 0, hug_n = 0, hug_k = 0;
  if (rbool(12)) {
    hug = ri(0, 2);
    hug_e = pick<int>({24, 25, 26, 28});
    hug_n = pick<int>({4, 4, 5, 6, 7, 8});
    hug_k = ri(1, hug_n - 2);
    cut = json{{"mode", "cells"}, {"dir", hug}, {"n", hug_n}, {"ulp", 0}, {"relexp", hug_e}};
  }
  double cutoff = cutoff_of(B, cut);
  std::array<long, 3> N = cells_of(B, cutoff);
  if (N[0] * N[1] * N[2] > 30000) {
    hug = -1;  // keep the grid set-up cheap: fall back to a large cutoff
    cut = json{{"mode", "frac"}, {"k", 48}};
    cutoff = cutoff_of(B, cut);
    N = cells_of(B, cutoff);
  }
  c["cut"] = cut;
  int ntypes = ri(min_types, 3);
  c["ntypes"] = ntypes;
  int n = rbool(2) ? ri(0, 1) : rcount(2, maxbeads);
  int nmol = ri(1, 8);
  json beads = json::array();
  int mol = 0;
  bool far = rbool(50);  // configuration with beads outside the primary cell
  for (int i = 0; i < n; ++i) {
    json b;
    b["t"] = ri(0, ntypes - 1);
    if (i > 0 && mol + 1 < nmol && rbool(std::max(5, 100 * nmol / std::max(n, 1)))) ++mol;
    b["mol"] = mol;
    auto shift = [&] { return far ? gen_shift(60, rbool(10)) : 0; };
    int mode = ri(0, 99);
    if (hug >= 0 && i == 0) {
      json abs = json::array();
      for (int k = 0; k < 3; ++k) {
        if (k == hug)
          abs.push_back({hug_k, hug_n, shift(), hug_e + 5});
        else
          abs.push_back({ri(0, 4095), 4096, shift()});
      }
      b["abs"] = abs;
      b["t"] = 0;
      beads.push_back(b);
      continue;
    }
    if (hug >= 0 && i == 1) {
      json off = json::array();
      for (int k = 0; k < 3; ++k) off.push_back(k == hug ? 64 : 0);
      b["rel"] = 0;
      b["off"] = off;
      b["fine"] = -(hug_e + 2);
      b["sh"] = {shift(), shift(), shift()};
      b["t"] = 0;
      if (nmol >= 2 && rbool(50)) mol = std::max(mol, 1);
      b["mol"] = mol;
      beads.push_back(b);
      continue;
    }
    if (i > 0 && mode < rel_pct) {
      // mostly a recent bead (likely the same molecule, so that exclusions matter), sometimes any earlier one
      b["rel"] = rbool(70) ? i - 1 - ri(0, std::min(3, i - 1)) : ri(0, i - 1);
      json off = json::array();
      int om = ri(0, 9);
      if (om < 2) {  // along one axis at ~exactly one cutoff: distance tie
        int ax = ri(0, 2), len = pick<int>({63, 64, 64, 65}) * (rbool() ? 1 : -1);
        for (int k = 0; k < 3; ++k) off.push_back(k == ax ? len : 0);
        if (std::abs(len) == 64 && rbool(50)) b["fine"] = (rbool() ? 1 : -1) * ri(26, 36);  // cutoff * (1 +- 1e-8..1e-11)
      } else {
        int amp = om < 6 ? 40 : 64;
        for (int k = 0; k < 3; ++k) off.push_back(ri(-amp, amp));
      }
      b["off"] = off;
      b["sh"] = {shift(), shift(), shift()};
    } else {
      json abs = json::array();
      bool plane = mode < rel_pct + 20;  // on the cell planes of the grid the code will build
      for (size_t k = 0; k < 3; ++k) {
        if (plane && rbool(65))
          abs.push_back({ri(0, int(N[k])), N[k], shift()});
        else
          abs.push_back({ri(0, 4095), 4096, shift()});
      }
      b["abs"] = abs;
    }
    beads.push_back(b);
  }
  c["beads"] = beads;
  // bonded interactions inside molecules
  json ia = json::array();
  bool with_ia = rbool(65);
  if (with_ia) {
    std::vector<std::vector<int>> of(static_cast<size_t>(nmol));
    for (int i = 0; i < n; ++i) of[size_t(beads[size_t(i)]["mol"].get<int>())].push_back(i);
    for (auto &m : of) {
      if (m.size() < 2) continue;
      int cnt = ri(0, 3);
      for (int q = 0; q < cnt; ++q) {
        int sz = ri(2, std::min<int>(4, int(m.size())));
        std::vector<int> p = rperm(int(m.size()));
        json one = json::array();
        for (int k = 0; k < sz; ++k) one.push_back(m[size_t(p[size_t(k)])]);
        ia.push_back(one);
      }
    }
  }
  c["ia"] = ia;
  c["excl"] = rbool(70);
  c["prior"] = rbool(30) ? pick<double>({0.3, 0.45, 0.6, 0.8, 1.0}) : 0.0;
  c["sel1"] = rbool(60) ? -1 : ri(0, ntypes - 1);
  std::vector<int> tp = rperm(3);
  std::vector<int> used;
  for (int t : tp)
    if (t < ntypes) used.push_back(t);
  while (used.size() < 3) used.push_back(used[0]);
  c["t1"] = used[0];
  c["t2"] = used[1];
  c["t3"] = used[2];
  return c;
}
static json gen_pairs() { return gen_config(60, 1, 40); }
static json gen_triples() { return gen_config(24, 1, 65); }

int main(int argc, char **argv) {
  std::vector<Sub> subs;
  subs.push_back({"pairs", gen_pairs, run_pairs, 3.0, 100, nullptr});
  subs.push_back({"triples", gen_triples, run_triples, 2.0, 100, nullptr});
  return harness_main(argc, argv, "C03", subs);
}
