// Reference oracles of C18 shared by the rapidcheck harness and the libFuzzer target.
#pragma once
#include <sstream>
#include <string>
#include <vector>
#include <votca/tools/rangeparser.h>
#include <votca/tools/tokenizer.h>

// ------------------------------------------------------------ reference glob matcher (DP over prefixes)
static bool ref_glob(const std::string &p, const std::string &s) {
  size_t n = p.size(), m = s.size();
  std::vector<std::vector<char>> d(n + 1, std::vector<char>(m + 1, 0));
  d[0][0] = 1;
  for (size_t i = 1; i <= n; ++i) {
    if (p[i - 1] == '*') d[i][0] = d[i - 1][0];
  }
  for (size_t i = 1; i <= n; ++i) {
    for (size_t j = 1; j <= m; ++j) {
      if (p[i - 1] == '*')
        d[i][j] = d[i - 1][j] || d[i][j - 1];
      else if (p[i - 1] == '?' || p[i - 1] == s[j - 1])
        d[i][j] = d[i - 1][j - 1];
    }
  }
  return d[n][m];
}

static bool backtracking_pattern(const std::string &p) {
  size_t st = p.find('*');
  if (st == std::string::npos) return false;
  for (size_t i = st + 1; i < p.size(); ++i)
    if (p[i] != '*' && p[i] != '?') return true;
  return false;
}

// ------------------------------------------------------------ ranges
struct RefRange {
  enum Kind { OK, ZERO_STRIDE, WRONG_DIRECTION, MUST_REJECT, UNCLEAR, HUGE } kind = OK;
  std::vector<long> seq;
  std::string why;
};

static bool parse_int(const std::string &t, long &v) {
  if (t.empty()) return false;
  size_t i = 0;
  if (t[0] == '+' || t[0] == '-') i = 1;
  if (i >= t.size()) return false;
  for (size_t k = i; k < t.size(); ++k)
    if (t[k] < '0' || t[k] > '9') return false;
  if (t.size() - i > 18) return false;  // does not fit a 64-bit integer: malformed for this parser
  v = std::stol(t);
  return true;
}

static std::vector<std::string> split_keep_empty(const std::string &s, char sep) {
  std::vector<std::string> out;
  std::string cur;
  for (char ch : s) {
    if (ch == sep) {
      out.push_back(cur);
      cur.clear();
    } else
      cur += ch;
  }
  out.push_back(cur);
  return out;
}

static RefRange ref_range(const std::string &expr_in) {
  RefRange R;
  std::string expr;
  for (char ch : expr_in)
    if (ch != ' ') expr += ch;
  if (expr.empty()) {
    R.kind = RefRange::UNCLEAR;
    R.why = "empty expression";
    return R;
  }
  auto worse = [&](RefRange::Kind k, const std::string &why) {
    // precedence: MUST_REJECT > UNCLEAR > ZERO_STRIDE > WRONG_DIRECTION > OK
    static const int rank[] = {0, 2, 1, 4, 3, 5};
    if (rank[k] > rank[R.kind]) {
      R.kind = k;
      R.why = why;
    }
  };
  for (const std::string &b : split_keep_empty(expr, ',')) {
    if (b.empty()) {
      worse(RefRange::UNCLEAR, "empty block");
      continue;
    }
    std::vector<std::string> f = split_keep_empty(b, ':');
    if (f.size() > 3) {
      // more than three fields: with all fields non-empty this is clearly malformed
      bool any_empty = false;
      for (auto &t : f) any_empty |= t.empty();
      worse(any_empty ? RefRange::UNCLEAR : RefRange::MUST_REJECT, "more than three fields");
      continue;
    }
    bool bad_tok = false, empty_tok = false;
    std::vector<long> v(f.size());
    for (size_t i = 0; i < f.size(); ++i) {
      if (f[i].empty())
        empty_tok = true;
      else if (!parse_int(f[i], v[i]))
        bad_tok = true;
    }
    if (bad_tok) {
      worse(RefRange::MUST_REJECT, "non-numeric token in '" + b + "'");
      continue;
    }
    if (empty_tok) {
      if (f.size() == 3 && f[1].empty() && !f[0].empty() && !f[2].empty())
        worse(RefRange::MUST_REJECT, "empty step in '" + b + "'");
      else
        worse(RefRange::UNCLEAR, "empty field in '" + b + "'");
      continue;
    }
    for (long x : v)
      if (x > 999999999L || x < -999999999L) {
        // a valid integer, but ranges over it cannot be enumerated within a step budget: only parsing is exercised
        worse(RefRange::HUGE, "huge number");
      }
    if (R.kind == RefRange::HUGE) continue;
    long bg = v[0], en = v[0], sd = 1;
    if (f.size() == 2) en = v[1];
    if (f.size() == 3) {
      sd = v[1];
      en = v[2];
    }
    if (sd == 0) {
      worse(RefRange::ZERO_STRIDE, "zero stride");
      continue;
    }
    if ((sd > 0 && bg > en) || (sd < 0 && bg < en)) {
      worse(RefRange::WRONG_DIRECTION, "begin/end/stride direction");
      continue;
    }
    if (sd > 0)
      for (long x = bg; x <= en; x += sd) R.seq.push_back(x);
    else
      for (long x = bg; x >= en; x += sd) R.seq.push_back(x);
  }
  return R;
}

struct Enumerated {
  bool accepted = false, terminated = true;
  std::vector<long> seq;
  std::string err, printed;
};

static Enumerated impl_range(const std::string &expr) {
  Enumerated E;
  votca::tools::RangeParser rp;
  try {
    rp.Parse(expr);
  } catch (const std::exception &e) {
    E.err = e.what();
    return E;
  }
  E.accepted = true;
  long steps = 0;
  for (auto it = rp.begin(); it != rp.end(); ++it) {
    if (++steps > 10000) {
      E.terminated = false;
      break;
    }
    E.seq.push_back(*it);
  }
  std::ostringstream os;
  os << rp;
  E.printed = os.str();
  return E;
}

static std::string show(const std::vector<long> &v) {
  std::string s = "[";
  for (size_t i = 0; i < v.size() && i < 20; ++i) s += (i ? "," : "") + std::to_string(v[i]);
  if (v.size() > 20) s += ",...";
  return s + "]";
}

