// C09 — the Davidson iterative eigensolver agrees with dense diagonalisation.
//
// Real code: votca::xtp::DavidsonSolver (xtp/src/libxtp/davidsonsolver.cc) on dense matrices and on a
// MatrixFreeOperator subclass wrapping the same matrix.
// Oracle: Eigen::SelfAdjointEigenSolver on the dense matrix (HAM mode: on the symmetric matrix
// M^1/2 J M^1/2, M=[[A,B],[B,A]], J=diag(I,-I), which is similar to H=[[A,B],[-B,-A]]=J M).
//
// Tolerances (all derived, see the comments at the checks):
//  * residual:  ||A v - lambda v|| <= tol + slack, slack = rounding of my own product and of the solver's AV
//    recurrence through restarts = 4 u ||A||_F (n + iters*space + 10);
//  * "lowest":  Kahan's theorem — for V (n x k) of full rank and Theta=diag(lambda) there are k eigenvalues of the
//    symmetric A matched one-to-one to the lambda_i with |lambda_i - mu_j(i)| <= sqrt(2) ||A V - V Theta||_2 / sigma_min(V).
//    If the returned values are the lowest ones, the sorted lists differ by at most that bound (sorting is
//    1-Lipschitz in the sup norm) — so a larger distance means a converged pair belongs to a higher eigenvalue
//    while a lower one is missing.  The bound is evaluated with the residual matrix I compute myself.
//  * orthogonality 1e-10, normalisation 1e-12 (Ritz vectors of one orthonormal basis; explicit normalize at the end).
#include "vv_common.h"

#include <votca/xtp/davidsonsolver.h>
#include <votca/xtp/eigen.h>
#include <votca/xtp/logger.h>
#include <votca/xtp/matrixfreeoperator.h>

using namespace vv;
using votca::Index;
using Mat = Eigen::MatrixXd;
using Vec = Eigen::VectorXd;

static const char *K_HIDDEN = "Davidson/hidden-root-reducible";
static const double U = 1.1102230246251565e-16;  // unit roundoff

// ------------------------------------------------------------------ matrix-free wrapper of a dense matrix
class DenseOp final : public votca::xtp::MatrixFreeOperator {
 public:
  explicit DenseOp(const Mat &A) : A_(A) { set_size(A.rows()); }
  Eigen::MatrixXd matmul(const Eigen::MatrixXd &input) const override {
    ++const_cast<DenseOp *>(this)->calls;
    return A_ * input;
  }
  Eigen::VectorXd diagonal() const override { return A_.diagonal(); }
  long calls = 0;

 private:
  const Mat &A_;
};

// ------------------------------------------------------------------ recipe -> matrix (pure function of the case)
static Mat build_symm(const json &c) {
  Index n = c.at("n");
  Mat A = Mat::Zero(n, n);
  Mat N = Mat::Zero(n, n);  // off-diagonal part
  if (c.contains("trip"))
    for (auto &t : c["trip"]) {
      Index i = t[0], j = t[1];
      double v = t[2];
      if (i == j || i < 0 || j < 0 || i >= n || j >= n) continue;
      N(i, j) += v;
      N(j, i) += v;
    }
  if (c.contains("bands"))
    for (auto &b : c["bands"]) {
      Index k = b[0];
      std::vector<double> vals = b[1].get<std::vector<double>>();
      if (k <= 0 || vals.empty()) continue;
      for (Index i = 0; i + k < n; ++i) {
        double v = vals[size_t(i) % vals.size()];
        N(i, i + k) += v;
        N(i + k, i) += v;
      }
    }
  if (c.contains("rank1"))
    for (auto &r : c["rank1"]) {
      double coef = r[0];
      std::vector<double> u = r[1].get<std::vector<double>>();
      for (Index i = 0; i < n; ++i)
        for (Index j = 0; j < n; ++j)
          if (i != j) N(i, j) += coef * u[size_t(i) % u.size()] * u[size_t(j) % u.size()];
    }
  double offscale = c.value("offscale", 0.0);
  if (offscale > 0) {
    double mx = 0;
    for (Index i = 0; i < n; ++i) mx = std::max(mx, N.row(i).cwiseAbs().sum());
    if (mx > 0) N *= offscale / mx;
  }
  A = N;
  std::vector<double> d = c.at("diag").get<std::vector<double>>();
  for (Index i = 0; i < n; ++i) A(i, i) = d[size_t(i)];
  if (c.contains("house"))
    for (auto &h : c["house"]) {
      std::vector<double> hv = h.get<std::vector<double>>();
      Vec v(n);
      for (Index i = 0; i < n; ++i) v(i) = hv[size_t(i) % hv.size()];
      double vv_ = v.squaredNorm();
      if (vv_ == 0) continue;
      // A <- H A H,  H = I - 2 v v^T / v^T v
      Vec Av = A * v;
      double vAv = v.dot(Av);
      A -= (2.0 / vv_) * (v * Av.transpose() + Av * v.transpose());
      A += (4.0 * vAv / (vv_ * vv_)) * (v * v.transpose());
    }
  Mat S = 0.5 * (A + A.transpose());
  return S;
}

// connected components of the graph of non-zero off-diagonal entries
static int components(const Mat &A) {
  Index n = A.rows();
  std::vector<int> comp(size_t(n), -1);
  int nc = 0;
  for (Index s = 0; s < n; ++s) {
    if (comp[size_t(s)] >= 0) continue;
    std::vector<Index> stack{s};
    comp[size_t(s)] = nc;
    while (!stack.empty()) {
      Index i = stack.back();
      stack.pop_back();
      for (Index j = 0; j < n; ++j)
        if (j != i && A(i, j) != 0.0 && comp[size_t(j)] < 0) {
          comp[size_t(j)] = nc;
          stack.push_back(j);
        }
    }
    ++nc;
  }
  return nc;
}
static bool diag_has_ties(const Mat &A) {
  std::vector<double> d(A.diagonal().data(), A.diagonal().data() + A.rows());
  std::sort(d.begin(), d.end());
  for (size_t i = 0; i + 1 < d.size(); ++i)
    if (d[i] == d[i + 1]) return true;
  return false;
}

// ------------------------------------------------------------------ running the solver
struct Run {
  bool threw = false;
  std::string what;
  Eigen::ComputationInfo info = Eigen::NoConvergence;
  Vec lambda;
  Mat vecs;
  Index iters = 0;
  long mf_calls = 0;
};
static double tol_of(const std::string &t) {
  // documented values of DavidsonSolver::set_tolerance
  if (t == "loose") return 1e-3;
  if (t == "normal") return 1e-4;
  if (t == "strict") return 1e-5;
  return 1e-9;  // lapack
}
static Run run_solver(const Mat &A, Index neigen, const json &opt, bool ham) {
  Run R;
  votca::xtp::Logger log;  // default: messages collected in memory, nothing printed
  votca::xtp::DavidsonSolver DS(log);
  DS.set_correction(opt.at("corr").get<std::string>());
  DS.set_size_update(opt.at("upd").get<std::string>());
  DS.set_tolerance(opt.at("tol").get<std::string>());
  DS.set_iter_max(opt.at("iter").get<Index>());
  Index space = opt.at("space");
  if (space > 0) DS.set_max_search_space(space);
  if (ham) DS.set_matrix_type("HAM");
  try {
    if (opt.value("mf", false)) {
      DenseOp op(A);
      DS.solve(op, neigen);
      R.mf_calls = op.calls;
    } else {
      DS.solve(A, neigen);
    }
  } catch (const std::runtime_error &e) {
    R.threw = true;
    R.what = e.what();
    return R;
  }
  R.info = DS.info();
  R.lambda = DS.eigenvalues();
  R.vecs = DS.eigenvectors();
  R.iters = DS.num_iterations();
  return R;
}

static Index size_update(const std::string &u, Index neigen) {
  if (u == "min") return neigen;
  if (u == "max") return 2 * neigen;
  return neigen < 20 ? Index(1.5 * double(neigen)) : neigen + 10;
}
static Index eff_space(Index space, Index neigen, Index n) {
  if (space < neigen) space = 5 * neigen;
  return std::min(space, n);
}

// checks shared by SYMM families.  `claim_lowest`: whether "success => lowest roots" is asserted for this case.
static void check_symm(Result &r, const json &c, const Mat &A, const Run &R, bool claim_lowest, bool must_succeed) {
  Index n = A.rows(), k = c.at("neigen");
  const json &opt = c.at("opt");
  double tol = tol_of(opt.at("tol"));
  double normF = A.norm();
  Index space = eff_space(opt.at("space"), k, n);
  double slack = 4 * U * normF * double(n + (R.iters + 1) * (space + 2 * k) + 10);

  Eigen::SelfAdjointEigenSolver<Mat> es(A);
  if (es.info() != Eigen::Success) {
    r.discard = true;
    return;
  }
  const Vec &mu = es.eigenvalues();
  double eig_abs = 64 * U * double(n) * std::max(std::fabs(mu(0)), std::fabs(mu(n - 1)));

  // ---- non-triviality: restart certainly happened, or cluster / degeneracy among the lowest k+1 eigenvalues
  bool cluster = false, degenerate = false;
  for (Index i = 0; i + 1 < std::min<Index>(n, k + 1); ++i) {
    double g = mu(i + 1) - mu(i);
    if (g < 1e-3) cluster = true;
    if (g <= eig_abs) degenerate = true;
  }
  // the basis grows by >= 1 vector per performed extension (= R.iters when the run ended at iteration R.iters)
  bool restart_certain = 2 * k + R.iters > space && R.iters >= 1;
  if (cluster) r.cls("spectrum:cluster<1e-3");
  if (degenerate) r.cls("spectrum:degenerate");
  if (mu(0) < 0) r.cls("spectrum:negative");
  if (restart_certain) r.cls("restart-certain");
  r.nontrivial = restart_certain || cluster || degenerate;
  r.cls(std::string("opt:") + opt.at("corr").get<std::string>() + "/" + opt.at("upd").get<std::string>());
  r.cls(std::string("tol:") + opt.at("tol").get<std::string>());
  if (opt.value("mf", false)) r.cls("matrix-free");
  r.cls(n <= 16 ? "n<=16" : n <= 50 ? "n<=50" : n <= 100 ? "n<=100" : "n>100");

  if (R.lambda.size() != k || R.vecs.cols() != k || R.vecs.rows() != n) {
    r.fail("Davidson/result-shape", fmt("eigenvalues %ld, eigenvectors %ldx%ld for n=%ld neigen=%ld", long(R.lambda.size()),
                                        long(R.vecs.rows()), long(R.vecs.cols()), long(n), long(k)));
    return;
  }
  if (opt.value("mf", false) && R.mf_calls == 0) {
    r.fail("harness-internal", "matrix-free operator was never called");
    return;
  }

  if (R.info == Eigen::Success) {
    r.cls("Success");
    r.cls(R.iters <= 5 ? "iters<=5" : R.iters <= 10 ? "iters<=10" : R.iters <= 25 ? "iters<=25" : "iters>25");
    for (Index i = 0; i < k; ++i)
      if (!std::isfinite(R.lambda(i)) || !R.vecs.col(i).allFinite()) {
        r.fail("Davidson/non-finite", fmt("root %ld is not finite although info()==Success", long(i)));
        return;
      }
    // ascending
    for (Index i = 0; i + 1 < k; ++i)
      if (R.lambda(i + 1) < R.lambda(i)) {
        r.fail("Davidson/order", fmt("eigenvalues not ascending: lambda[%ld]=%.17g > lambda[%ld]=%.17g", long(i), R.lambda(i),
                                     long(i + 1), R.lambda(i + 1)));
        return;
      }
    // normalised / orthogonal
    Mat G = R.vecs.transpose() * R.vecs;
    for (Index i = 0; i < k; ++i) {
      if (std::fabs(G(i, i) - 1.0) > 1e-12) {
        r.fail("Davidson/normalisation", fmt("|v_%ld|^2 = %.17g", long(i), G(i, i)));
        return;
      }
      for (Index j = 0; j < i; ++j)
        if (std::fabs(G(i, j)) > 1e-10) {
          r.fail("Davidson/orthogonality", fmt("v_%ld . v_%ld = %.3e (limit 1e-10)", long(i), long(j), G(i, j)));
          return;
        }
    }
    // residual below the selected tolerance
    Mat Res = A * R.vecs - R.vecs * R.lambda.asDiagonal();
    for (Index i = 0; i < k; ++i) {
      double rn = Res.col(i).norm();
      if (!(rn < tol + slack)) {
        r.fail("Davidson/residual", fmt("root %ld: |A v - lambda v| = %.6e, tolerance %.1e (+ rounding slack %.2e), n=%ld iters=%ld",
                                        long(i), rn, tol, slack, long(n), long(R.iters)));
        return;
      }
    }
    // lowest eigenvalues (Kahan bound with my own residual matrix)
    Eigen::JacobiSVD<Mat> svd(R.vecs);
    double smin = svd.singularValues()(k - 1);
    double bound = std::sqrt(2.0) * Res.norm() / smin + eig_abs + slack;
    Index bad = -1;
    for (Index i = 0; i < k; ++i)
      if (std::fabs(R.lambda(i) - mu(i)) > bound) {
        bad = i;
        break;
      }
    if (bad >= 0) {
      bool reducible = components(A) > 1;
      std::string m = fmt("info()==Success but root %ld = %.12g while the %ld-th lowest eigenvalue is %.12g (Kahan bound %.3e; n=%ld "
                          "neigen=%ld iters=%ld, %s)",
                          long(bad), R.lambda(bad), long(bad), mu(bad), bound, long(n), long(k), long(R.iters),
                          reducible ? "matrix is exactly reducible" : "matrix is irreducible");
      if (reducible) {
        if (claim_lowest)
          r.fail(K_HIDDEN, m);
        else
          r.cls("excluded-known:hidden-root(lowest-claim-skipped)");
      } else {
        r.fail("Davidson/success-not-lowest", m);
      }
      if (!r.ok) return;
    } else if (!claim_lowest) {
      r.cls("reducible:lowest-found-anyway");
    }
  } else {
    r.cls("NoConvergence");
    if (R.info != Eigen::NoConvergence) {
      r.fail("Davidson/status", fmt("info() = %d, neither Success nor NoConvergence", int(R.info)));
      return;
    }
    // unconverged roots are not passed off: every returned column is either zeroed (documented) or a converged pair
    Mat Res = A * R.vecs - R.vecs * R.lambda.asDiagonal();
    Index zeroed = 0;
    for (Index i = 0; i < k; ++i) {
      bool z = R.lambda(i) == 0.0 && R.vecs.col(i).cwiseAbs().maxCoeff() == 0.0;
      if (z) {
        ++zeroed;
        continue;
      }
      double vn = R.vecs.col(i).norm();
      double rn = Res.col(i).norm();
      if (!(std::fabs(vn - 1) <= 1e-12) || !(rn < tol + slack)) {
        r.fail("Davidson/unconverged-root-returned",
               fmt("info()==NoConvergence, root %ld (lambda=%.12g, |v|=%.6g) is not zeroed and has residual %.3e >= tol %.1e",
                   long(i), R.lambda(i), vn, rn, tol));
        return;
      }
    }
    if (zeroed == 0) {
      r.fail("Davidson/status", "info()==NoConvergence but every requested root is returned as converged");
      return;
    }
    r.cls(zeroed == k ? "noconv:all-zeroed" : "noconv:partially-converged");
    if (must_succeed) {
      r.fail("Davidson/F2-no-success",
             fmt("diagonally dominant matrix (gap>=1, off-diagonal row sums<=%.3g), n=%ld neigen=%ld %s/%s/%s: no convergence within "
                 "%ld iterations",
                 c.value("offscale", 0.0), long(n), long(k), opt.at("corr").get<std::string>().c_str(),
                 opt.at("upd").get<std::string>().c_str(), opt.at("tol").get<std::string>().c_str(), long(opt.at("iter").get<Index>())));
      return;
    }
  }
}

// ------------------------------------------------------------------ generators
static json gen_opt(bool default_space, Index neigen, Index n, int iter_lo, int iter_hi) {
  json o;
  o["corr"] = pick<std::string>({"DPR", "OLSEN"});
  o["upd"] = pick<std::string>({"min", "safe", "max"});
  o["tol"] = pick<std::string>({"loose", "normal", "strict", "lapack"});
  o["iter"] = ri(iter_lo, iter_hi);
  o["mf"] = rbool(30);
  long space = 0;
  if (!default_space) {
    int k = ri(0, 3);
    if (k == 0) space = 0;                                                   // default (5*neigen)
    if (k == 1) space = long(neigen) + ri(1, int(neigen));                   // tight: restart (almost) every iteration
    if (k == 2) space = ri(int(2 * neigen), int(std::min<Index>(n, 10 * neigen)));
    if (k == 3) space = 10 * long(neigen);                                   // what BSE uses
  }
  o["space"] = space;
  return o;
}

// n and neigen: neigen <= n/4 (quantifier), and room for one extension beyond the search space limit
static void gen_sizes(int nmax, Index &n, Index &k) {
  n = rcount(4, nmax);
  if (rbool(15)) n = ri(4, 12);
  k = ri(1, int(std::max<Index>(1, n / 4)));
  if (rbool(50)) k = std::min<Index>(k, ri(1, 4));
}

static std::vector<double> gen_spectrum(Index n) {
  std::vector<double> l(static_cast<size_t>(n));
  int kind = ri(0, 4);
  double shift = rbool(40) ? -rfrac(0, 4000, 8) : 0.0;
  if (kind == 0) {  // well separated
    double x = rfrac(1, 64, 8);
    for (auto &v : l) {
      v = x;
      x += rfrac(2, 40, 8);
    }
  } else if (kind == 1) {  // clustered: groups with tiny internal spread
    double x = rfrac(1, 64, 8);
    size_t i = 0;
    while (i < l.size()) {
      int g = ri(1, 5);
      double spread = std::pow(10.0, -ri(2, 7));
      for (int q = 0; q < g && i < l.size(); ++q, ++i) l[i] = x + spread * double(ri(0, 9));
      x += rfrac(4, 40, 8);
    }
  } else if (kind == 2) {  // exactly degenerate
    double x = rfrac(1, 64, 8);
    size_t i = 0;
    while (i < l.size()) {
      int g = ri(1, 6);
      for (int q = 0; q < g && i < l.size(); ++q, ++i) l[i] = x;
      x += rfrac(2, 40, 8);
    }
  } else if (kind == 3) {  // log spread
    for (auto &v : l) v = rlog(-3, 3);
    std::sort(l.begin(), l.end());
  } else {  // arithmetic, small gaps
    double x = rfrac(0, 64, 8), step = rfrac(1, 32, 64);
    for (auto &v : l) {
      v = x;
      x += step;
    }
  }
  for (auto &v : l) v += shift;
  return l;
}

static void make_irreducible_if_known(json &c) {
  // known finding: Success with a hidden root on exactly reducible matrices (and, by the same mechanism, when tied
  // diagonal entries make the preconditioner preserve a symmetry) -> excluded by construction from the main search
  if (!known(K_HIDDEN)) return;
  Mat A = build_symm(c);
  Index n = A.rows();
  bool changed = false;
  if (components(A) > 1) {
    if (!c.contains("trip")) c["trip"] = json::array();
    for (Index i = 0; i + 1 < n; ++i) c["trip"].push_back({i, i + 1, 1.0 / 64});
    c["offscale"] = c.value("offscale", 0.0);
    changed = true;
  }
  if (diag_has_ties(A)) {
    std::vector<double> d = c["diag"].get<std::vector<double>>();
    for (size_t i = 0; i < d.size(); ++i) d[i] += double(i + 1) / 4096.0;
    c["diag"] = d;
    changed = true;
  }
  if (changed) c["repaired"] = true;
}

// F1: A = Q diag(lambda) Q^T, Q = product of Householder reflectors with dense integer vectors
static json gen_f1() {
  Index n, k;
  gen_sizes(60, n, k);
  json c;
  c["fam"] = "F1";
  c["n"] = n;
  c["neigen"] = k;
  std::vector<double> l = gen_spectrum(n);
  auto p = rperm(int(n));
  std::vector<double> d(static_cast<size_t>(n));
  for (Index i = 0; i < n; ++i) d[size_t(i)] = l[size_t(p[size_t(i)])];
  c["diag"] = d;
  int nh = ri(1, 4);
  json hs = json::array();
  for (int h = 0; h < nh; ++h) {
    std::vector<double> v(static_cast<size_t>(n));
    bool small = rbool(50);  // small reflector = nearly diagonal matrix (Davidson's home ground)
    for (auto &x : v) {
      int m = ri(1, 8);
      x = rbool(50) ? m : -m;
    }
    if (small) v[size_t(ri(0, int(n) - 1))] = 8.0 * double(ri(4, 40));
    hs.push_back(v);
  }
  c["house"] = hs;
  c["opt"] = gen_opt(false, k, n, 5, 100);
  return c;
}

// F2: diagonally dominant — well separated diagonal (gap >= 1), symmetric noise with row sums <= 0.05; default search
// space; all correction/update/tolerance combinations; iter_max = 50.  Convergence is CLAIMED for this class.
static json gen_f2() {
  Index n = rcount(16, 100), k = ri(1, 6);
  n = std::max<Index>(n, 10 * k);  // 5*neigen search space + one extension of <= 2*neigen stays well below n
  json c;
  c["fam"] = "F2";
  c["n"] = n;
  c["neigen"] = k;
  std::vector<double> d(static_cast<size_t>(n));
  double x = rfrac(-800, 800, 8);
  for (auto &v : d) {
    v = x;
    x += 1.0 + rfrac(0, 24, 8);
  }
  auto p = rperm(int(n));
  std::vector<double> dp(static_cast<size_t>(n));
  for (Index i = 0; i < n; ++i) dp[size_t(i)] = d[size_t(p[size_t(i)])];
  c["diag"] = dp;
  // noise: dense rank-one part + sparse triplets + a band, scaled to max row sum = offscale
  std::vector<double> u(static_cast<size_t>(n));
  for (auto &v : u) v = rfrac(-16, 16, 16);
  c["rank1"] = json::array({json::array({1.0, u})});
  json trip = json::array();
  int nt = ri(0, int(2 * n));
  for (int t = 0; t < nt; ++t) trip.push_back({ri(0, int(n) - 1), ri(0, int(n) - 1), rfrac(-32, 32, 16)});
  for (Index i = 0; i + 1 < n; ++i) trip.push_back({i, i + 1, rfrac(1, 16, 16)});  // keeps the matrix irreducible
  c["trip"] = trip;
  c["offscale"] = pick<double>({0.05, 0.05, 0.025, 0.01, 0.001});
  json o = gen_opt(true, k, n, 50, 50);
  c["opt"] = o;
  return c;
}

// F3: banded / sparse
static json gen_f3() {
  Index n, k;
  gen_sizes(80, n, k);
  json c;
  c["fam"] = "F3";
  c["n"] = n;
  c["neigen"] = k;
  std::vector<double> d(static_cast<size_t>(n));
  int dk = ri(0, 3);
  double base = rfrac(-80, 80, 8);
  for (Index i = 0; i < n; ++i) {
    if (dk == 0) d[size_t(i)] = base;                                  // constant (Toeplitz), ties
    if (dk == 1) d[size_t(i)] = base + double(i) * rfrac(1, 16, 8);    // increasing
    if (dk == 2) d[size_t(i)] = base + rfrac(0, 400, 8);               // random
    if (dk == 3) d[size_t(i)] = base + double(i % 3) + double(i) / 64; // near ties
  }
  c["diag"] = d;
  json bands = json::array();
  int nb = ri(1, 3);
  for (int b = 0; b < nb; ++b) {
    int off = b == 0 ? 1 : ri(2, int(std::max<Index>(2, n / 3)));
    int len = rbool(50) ? 1 : ri(2, 5);
    std::vector<double> vals;
    for (int q = 0; q < len; ++q) {
      double v = rfrac(1, 24, 8);
      vals.push_back(rbool(30) ? -v : v);
    }
    bands.push_back({off, vals});
  }
  c["bands"] = bands;
  if (rbool(50)) {
    json trip = json::array();
    int nt = ri(1, int(n));
    for (int t = 0; t < nt; ++t) trip.push_back({ri(0, int(n) - 1), ri(0, int(n) - 1), rfrac(-24, 24, 8)});
    c["trip"] = trip;
  }
  if (rbool(40)) c["offscale"] = pick<double>({0.05, 0.25, 1.0, 4.0});
  c["opt"] = gen_opt(false, k, n, 5, 100);
  make_irreducible_if_known(c);
  return c;
}

// a few larger matrices (thorough tier): nearly diagonal F1 and banded
static json gen_large() {
  Index n = ri(150, 400), k = ri(1, 10);
  json c;
  c["fam"] = "L";
  c["n"] = n;
  c["neigen"] = k;
  std::vector<double> d(static_cast<size_t>(n));
  double x = rfrac(-80, 80, 8);
  for (auto &v : d) {
    v = x;
    x += rfrac(1, 16, 8);
  }
  c["diag"] = d;
  c["bands"] = json::array({json::array({1, std::vector<double>{rfrac(1, 8, 16)}}), json::array({ri(2, 40), std::vector<double>{rfrac(1, 8, 32)}})});
  std::vector<double> u(static_cast<size_t>(n));
  for (auto &v : u) v = rfrac(-16, 16, 16);
  c["rank1"] = json::array({json::array({rfrac(1, 8, 64), u})});
  c["opt"] = gen_opt(false, k, n, 20, 100);
  make_irreducible_if_known(c);
  return c;
}

// F4: exactly reducible with a hidden root (DESIGN 5 #20): block 1 = chain with small diagonal, block 2 = strongly
// coupled pair/triple with LARGE diagonal whose lowest eigenvalue lies below block 1.
static json gen_f4() {
  Index n1 = ri(4, 30), n2 = ri(2, 4), n = n1 + n2;
  Index k = ri(1, int(std::max<Index>(1, n1 / 4)));
  json c;
  c["fam"] = "F4";
  c["n"] = n;
  c["neigen"] = k;
  auto p = rperm(int(n));  // interleave the blocks
  std::vector<double> d(static_cast<size_t>(n));
  json trip = json::array();
  for (Index i = 0; i < n1; ++i) {
    d[size_t(p[size_t(i)])] = 1.0 + double(i) * rfrac(4, 16, 8);
    if (i + 1 < n1) trip.push_back({p[size_t(i)], p[size_t(i + 1)], rfrac(1, 8, 64)});
  }
  double big = double(ri(20, 80)), delta = rfrac(1, 64, 128);  // block 2: big on the diagonal, big-delta off-diagonal
  for (Index i = 0; i < n2; ++i) {
    d[size_t(p[size_t(n1 + i)])] = big * double(n2 - 1);
    for (Index j = 0; j < i; ++j) trip.push_back({p[size_t(n1 + i)], p[size_t(n1 + j)], -(big - delta)});
  }
  // all-ones vector of block 2 has eigenvalue big*(n2-1) - (n2-1)(big-delta) = (n2-1)*delta < 1
  c["diag"] = d;
  c["trip"] = trip;
  c["opt"] = gen_opt(false, k, n, 30, 100);
  if (known(K_HIDDEN)) c["skip_lowest_claim"] = true;  // search continues behind the confirmed finding
  return c;
}

static Result run_symm(const json &c) {
  Result r;
  Mat A = build_symm(c);
  Index n = A.rows(), k = c.at("neigen");
  if (k < 1 || 2 * k > n) {
    r.discard = true;
    return r;
  }
  std::string fam = c.value("fam", "?");
  r.cls("family:" + fam);
  if (c.value("repaired", false)) r.cls("excluded-known:reducible-or-tied-diagonal(repaired)");
  Run R = run_solver(A, k, c.at("opt"), false);
  if (R.threw) {
    if (R.what.find("Linear dependencies in Gram-Schmidt") != std::string::npos) {
      if (fam == "F2") {
        r.fail("Davidson/F2-no-success", "diagonally dominant matrix: solver throws '" + R.what + "'");
        return r;
      }
      r.discard = true;  // documented throw
      return r;
    }
    r.fail("Davidson/exception", "solve() throws: " + R.what);
    return r;
  }
  bool claim_lowest = !c.value("skip_lowest_claim", false);
  check_symm(r, c, A, R, claim_lowest, fam == "F2");
  return r;
}

// ------------------------------------------------------------------ HAM mode
static void build_ham(const json &c, Mat &Ab, Mat &Bb) {
  Index m = c.at("m");
  Mat NA = Mat::Zero(m, m), NB = Mat::Zero(m, m);
  for (auto &t : c.at("tripA")) {
    Index i = t[0], j = t[1];
    double v = t[2];
    if (i == j) continue;
    NA(i, j) += v;
    NA(j, i) += v;
  }
  for (auto &t : c.at("tripB")) {
    Index i = t[0], j = t[1];
    double v = t[2];
    if (i == j) {
      NB(i, i) += v;
    } else {
      NB(i, j) += v;
      NB(j, i) += v;
    }
  }
  std::vector<double> d = c.at("dA").get<std::vector<double>>();
  // scale the couplings so that A+B and A-B are strictly diagonally dominant with positive diagonal => SPD
  double dom = c.at("dom");
  double worst = 0;
  for (Index i = 0; i < m; ++i) worst = std::max(worst, (NA.row(i).cwiseAbs().sum() + NB.row(i).cwiseAbs().sum()) / d[size_t(i)]);
  if (worst > 0) {
    NA *= dom / worst;
    NB *= dom / worst;
  }
  Ab = NA;
  for (Index i = 0; i < m; ++i) Ab(i, i) = d[size_t(i)];
  Bb = NB;
}

static json gen_ham() {
  Index m = rcount(8, 50);
  Index k = ri(1, int(std::max<Index>(1, m / 4)));
  if (rbool(50)) k = std::min<Index>(k, ri(1, 3));
  json c;
  c["m"] = m;
  c["neigen"] = k;
  std::vector<double> d(static_cast<size_t>(m));
  double x = rfrac(4, 40, 8);
  bool tight = rbool(30);
  for (auto &v : d) {
    v = x;
    x += tight ? rfrac(1, 8, 64) : rfrac(4, 16, 8);
  }
  auto p = rperm(int(m));
  std::vector<double> dp(static_cast<size_t>(m));
  for (Index i = 0; i < m; ++i) dp[size_t(i)] = d[size_t(p[size_t(i)])];
  c["dA"] = dp;
  json ta = json::array(), tb = json::array();
  for (Index i = 0; i + 1 < m; ++i) ta.push_back({i, i + 1, rfrac(1, 16, 16)});
  int nt = ri(0, int(3 * m));
  for (int t = 0; t < nt; ++t) ta.push_back({ri(0, int(m) - 1), ri(0, int(m) - 1), rfrac(-16, 16, 16)});
  nt = ri(1, int(3 * m));
  for (int t = 0; t < nt; ++t) tb.push_back({ri(0, int(m) - 1), ri(0, int(m) - 1), rfrac(-16, 16, 16)});
  c["tripA"] = ta;
  c["tripB"] = tb;
  c["dom"] = pick<double>({0.01, 0.05, 0.2, 0.5, 0.9});
  c["opt"] = gen_opt(false, k, 2 * m, 10, 100);
  return c;
}

static Result run_ham(const json &c) {
  Result r;
  Mat Ab, Bb;
  build_ham(c, Ab, Bb);
  Index m = Ab.rows(), n = 2 * m, k = c.at("neigen");
  if (k < 1 || 2 * k > m) {
    r.discard = true;
    return r;
  }
  Mat H(n, n), M(n, n);
  H << Ab, Bb, -Bb, -Ab;
  M << Ab, Bb, Bb, Ab;
  // precondition of the clause, verified: A+B and A-B positive definite
  Eigen::LLT<Mat> l1(Ab + Bb), l2(Ab - Bb);
  if (l1.info() != Eigen::Success || l2.info() != Eigen::Success) {
    r.fail("harness-internal", "A+B / A-B not positive definite although constructed diagonally dominant");
    return r;
  }
  const json &opt = c.at("opt");
  double tol = tol_of(opt.at("tol"));
  r.cls(std::string("opt:") + opt.at("corr").get<std::string>() + "/" + opt.at("upd").get<std::string>());
  r.cls(std::string("tol:") + opt.at("tol").get<std::string>());
  r.cls(fmt("dom:%.2f", c.at("dom").get<double>()));
  if (opt.value("mf", false)) r.cls("matrix-free");
  Run R = run_solver(H, k, opt, true);
  if (R.threw) {
    // nothing is returned -> the clause about returned values is not touched; counted as discard
    r.discard = true;
    return r;
  }
  // oracle: H = J M is similar to the symmetric S = M^1/2 J M^1/2 (M SPD)
  Eigen::SelfAdjointEigenSolver<Mat> em(M);
  double mmin = em.eigenvalues()(0), mmax = em.eigenvalues()(n - 1);
  if (em.info() != Eigen::Success || !(mmin > 0)) {
    r.fail("harness-internal", "M = [[A,B],[B,A]] not positive definite");
    return r;
  }
  Mat Mh = em.eigenvectors() * em.eigenvalues().cwiseSqrt().asDiagonal() * em.eigenvectors().transpose();
  Mat JM = Mh;
  JM.bottomRows(m) *= -1.0;
  Mat S = Mh * JM;
  S = (0.5 * (S + S.transpose())).eval();
  Eigen::SelfAdjointEigenSolver<Mat> es(S);
  std::vector<double> pos;
  for (Index i = 0; i < n; ++i)
    if (es.eigenvalues()(i) > 0) pos.push_back(es.eigenvalues()(i));
  if (Index(pos.size()) != m) {
    r.fail("harness-internal", fmt("oracle finds %zu positive eigenvalues, expected %ld", pos.size(), long(m)));
    return r;
  }
  double eig_abs = 256 * U * double(n) * mmax * std::sqrt(mmax / mmin);
  Index space = eff_space(opt.at("space"), k, n);
  bool restart_certain = 2 * k + R.iters > space && R.iters >= 1;
  bool cluster = false;
  for (Index i = 0; i + 1 < std::min<Index>(m, k + 1); ++i)
    if (pos[size_t(i + 1)] - pos[size_t(i)] < 1e-3) cluster = true;
  r.nontrivial = restart_certain || cluster;
  if (restart_certain) r.cls("restart-certain");
  if (cluster) r.cls("spectrum:cluster<1e-3");

  if (R.lambda.size() != k || R.vecs.cols() != k || R.vecs.rows() != n) {
    r.fail("Davidson/result-shape", "HAM: wrong result shape");
    return r;
  }
  double slack = 4 * U * H.norm() * double(n + (R.iters + 1) * (space + 2 * k) + 10);
  if (R.info == Eigen::Success) {
    r.cls("Success");
    Mat Res = H * R.vecs - R.vecs * R.lambda.asDiagonal();
    for (Index i = 0; i < k; ++i) {
      if (!std::isfinite(R.lambda(i)) || !R.vecs.col(i).allFinite()) {
        r.fail("Davidson/non-finite", "HAM: non-finite root although Success");
        return r;
      }
      if (std::fabs(R.vecs.col(i).norm() - 1) > 1e-12) {
        r.fail("Davidson/normalisation", fmt("HAM: |v_%ld| = %.17g", long(i), R.vecs.col(i).norm()));
        return r;
      }
      double rn = Res.col(i).norm();
      if (!(rn < tol + slack)) {
        r.fail("Davidson/residual", fmt("HAM root %ld: |H v - lambda v| = %.6e, tolerance %.1e (+%.2e)", long(i), rn, tol, slack));
        return r;
      }
    }
    // Kahan bound for the symmetric S with basis W = M^1/2 V: S W - W Theta = M^1/2 (H V - V Theta)
    Mat W = Mh * R.vecs;
    Eigen::JacobiSVD<Mat> svd(W);
    double smin = svd.singularValues()(k - 1);
    if (!(smin > 0)) {
      r.fail("Davidson/ham-dependent-vectors", "HAM: returned vectors are linearly dependent");
      return r;
    }
    double bound = std::sqrt(2.0) * (Mh * Res).norm() / smin + eig_abs + slack;
    std::vector<double> got(R.lambda.data(), R.lambda.data() + k);
    std::sort(got.begin(), got.end());
    for (Index i = 0; i < k; ++i) {
      if (std::fabs(got[size_t(i)] - pos[size_t(i)]) > bound) {
        r.fail("Davidson/ham-not-lowest-positive",
               fmt("HAM Success: %ld-th smallest returned value %.12g, %ld-th lowest positive eigenvalue %.12g (bound %.3e, m=%ld "
                   "neigen=%ld iters=%ld)",
                   long(i), got[size_t(i)], long(i), pos[size_t(i)], bound, long(m), long(k), long(R.iters)));
        return r;
      }
    }
  } else {
    r.cls("NoConvergence");
    Mat Res = H * R.vecs - R.vecs * R.lambda.asDiagonal();
    Index zeroed = 0;
    for (Index i = 0; i < k; ++i) {
      bool z = R.lambda(i) == 0.0 && R.vecs.col(i).cwiseAbs().maxCoeff() == 0.0;
      if (z) {
        ++zeroed;
        continue;
      }
      if (!(Res.col(i).norm() < tol + slack)) {
        r.fail("Davidson/unconverged-root-returned", fmt("HAM NoConvergence: root %ld not zeroed, residual %.3e", long(i), Res.col(i).norm()));
        return r;
      }
    }
    if (zeroed == 0) r.fail("Davidson/status", "HAM: NoConvergence but all roots returned as converged");
  }
  return r;
}

int main(int argc, char **argv) {
  std::vector<Sub> subs;
  subs.push_back({"f1_spectral", gen_f1, run_symm, 3.0, 100, nullptr});
  subs.push_back({"f2_diagdom", gen_f2, run_symm, 2.0, 100, nullptr});
  subs.push_back({"f3_banded", gen_f3, run_symm, 3.0, 100, nullptr});
  subs.push_back({"f4_hidden_root", gen_f4, run_symm, 0.5, 100, nullptr});
  subs.push_back({"ham", gen_ham, run_ham, 2.0, 100, nullptr});
  bool large = false;
  for (int i = 1; i < argc; ++i)
    if (std::string(argv[i]) == "--large") large = true;
  if (large) subs.push_back({"large", gen_large, run_symm, 0.1, 100, nullptr});
  return harness_main(argc, argv, "C09", subs);
}
