// C09 — the Davidson iterative eigensolver agrees with dense diagonalisation.
//
// Real code: votca::xtp::DavidsonSolver (xtp/src/libxtp/davidsonsolver.cc) on dense matrices and on a
// MatrixFreeOperator subclass wrapping the same matrix.
// Oracle: Eigen::SelfAdjointEigenSolver on the dense matrix (HAM mode: on the symmetric matrix
// M^1/2 J M^1/2, M=[[A,B],[B,A]], J=diag(I,-I), which is similar to H=[[A,B],[-B,-A]]=J M).
//
// Tolerances (all derived, see the comments at the checks):
//  * residual:  ||A v - lambda v|| <= tol + slack, slack = rounding of my own product and of the solver's AV
//    recurrence through restarts = 4 u ||A||_F (n + iters*space + 10);
//  * "lowest":  Kahan's theorem — for V (n x k) of full rank and Theta=diag(lambda) there are k eigenvalues of the
//    symmetric A matched one-to-one to the lambda_i with |lambda_i - mu_j(i)| <= sqrt(2) ||A V - V Theta||_2 / sigma_min(V).
//    The convergence criterion permits ||A V - V Theta||_F < sqrt(k) tol, so if the returned values are the lowest ones
//    the sorted lists differ by at most sqrt(2k) tol / sigma_min (sorting is 1-Lipschitz in the sup norm).  A larger
//    distance means: a converged pair belongs to a higher eigenvalue while a lower one is missing, by more than the
//    accuracy the user selected.  (Deviations inside that band — neighbouring members of a cluster — are counted, not failed.)
//  * orthogonality 1e-8 = sqrt(eps): an orthogonality defect eta perturbs the Rayleigh quotients by O(eta^2 |A|), so
//    eta <= sqrt(eps) is "orthogonal to working accuracy of the eigenvalues"; normalisation 1e-12 (explicit normalize).
//
// Failure keys = root causes.  A failing run is repeated with a recording MatrixFreeOperator (diagnosis): the recorded
// blocks give the basis size over time, the orthonormality of vectors that coexist in the basis and the Ritz values on
// everything the solver ever saw.  Confirmed findings (see replays/C09):
//   Davidson/gramschmidt-dependency-undetected  gramschmidt() re-normalises before testing -> (nearly) dependent directions
//                                               enter the basis as normalised noise -> garbage "Success"/NaN exceptions
//   Davidson/olsen-nan-exact-diagonal           olsen(): 0/0 when a Ritz value equals a diagonal element
//   Davidson/hidden-root-reducible              Success with a root hidden in another block (inherent, DESIGN 5 #20)
//   Davidson/premature-success-unseen-root      same mechanism on irreducible matrices: residuals pass before the lowest
//                                               eigenvector is represented in the (restarted) search space
// When these are listed as known, the GENERATOR excludes what can be excluded by construction (basis never outgrows n,
// irreducible matrices with distinct diagonal, dense coupling for OLSEN) and stamps the case with "tolerate": [...] for
// the classes that can only be recognised after the run; a replay file is therefore always evaluated in full.
#include "vv_common.h"

#include <fcntl.h>
#include <sys/wait.h>

#include <votca/xtp/davidsonsolver.h>
#include <votca/xtp/eigen.h>
#include <votca/xtp/logger.h>
#include <votca/xtp/matrixfreeoperator.h>

using namespace vv;
using votca::Index;
using Mat = Eigen::MatrixXd;
using Vec = Eigen::VectorXd;

static const char *K_HIDDEN = "Davidson/hidden-root-reducible";
static const double U = 1.1102230246251565e-16;  // unit roundoff

// ------------------------------------------------------------------ matrix-free wrapper of a dense matrix
class DenseOp final : public votca::xtp::MatrixFreeOperator {
 public:
  explicit DenseOp(const Mat &A) : A_(A) { set_size(A.rows()); }
  Eigen::MatrixXd matmul(const Eigen::MatrixXd &input) const override {
    ++const_cast<DenseOp *>(this)->calls;
    return A_ * input;
  }
  Eigen::VectorXd diagonal() const override { return A_.diagonal(); }
  long calls = 0;

 private:
  const Mat &A_;
};

// ------------------------------------------------------------------ recipe -> matrix (pure function of the case)
static Mat build_symm(const json &c) {
  Index n = c.at("n");
  Mat A = Mat::Zero(n, n);
  Mat N = Mat::Zero(n, n);  // off-diagonal part
  if (c.contains("trip"))
    for (auto &t : c["trip"]) {
      Index i = t[0], j = t[1];
      double v = t[2];
      if (i == j || i < 0 || j < 0 || i >= n || j >= n) continue;
      N(i, j) += v;
      N(j, i) += v;
    }
  if (c.contains("bands"))
    for (auto &b : c["bands"]) {
      Index k = b[0];
      std::vector<double> vals = b[1].get<std::vector<double>>();
      if (k <= 0 || vals.empty()) continue;
      for (Index i = 0; i + k < n; ++i) {
        double v = vals[size_t(i) % vals.size()];
        N(i, i + k) += v;
        N(i + k, i) += v;
      }
    }
  if (c.contains("rank1"))
    for (auto &r : c["rank1"]) {
      double coef = r[0];
      std::vector<double> u = r[1].get<std::vector<double>>();
      for (Index i = 0; i < n; ++i)
        for (Index j = 0; j < n; ++j)
          if (i != j) N(i, j) += coef * u[size_t(i) % u.size()] * u[size_t(j) % u.size()];
    }
  double offscale = c.value("offscale", 0.0);
  if (offscale > 0) {
    double mx = 0;
    for (Index i = 0; i < n; ++i) mx = std::max(mx, N.row(i).cwiseAbs().sum());
    if (mx > 0) N *= offscale / mx;
  }
  A = N;
  std::vector<double> d = c.at("diag").get<std::vector<double>>();
  for (Index i = 0; i < n; ++i) A(i, i) = d[size_t(i)];
  if (c.contains("house"))
    for (auto &h : c["house"]) {
      std::vector<double> hv = h.get<std::vector<double>>();
      Vec v(n);
      for (Index i = 0; i < n; ++i) v(i) = hv[size_t(i) % hv.size()];
      double vv_ = v.squaredNorm();
      if (vv_ == 0) continue;
      // A <- H A H,  H = I - 2 v v^T / v^T v
      Vec Av = A * v;
      double vAv = v.dot(Av);
      A -= (2.0 / vv_) * (v * Av.transpose() + Av * v.transpose());
      A += (4.0 * vAv / (vv_ * vv_)) * (v * v.transpose());
    }
  Mat S = 0.5 * (A + A.transpose());
  return S;
}

// connected components of the graph of non-zero off-diagonal entries
static int components(const Mat &A) {
  Index n = A.rows();
  std::vector<int> comp(size_t(n), -1);
  int nc = 0;
  for (Index s = 0; s < n; ++s) {
    if (comp[size_t(s)] >= 0) continue;
    std::vector<Index> stack{s};
    comp[size_t(s)] = nc;
    while (!stack.empty()) {
      Index i = stack.back();
      stack.pop_back();
      for (Index j = 0; j < n; ++j)
        if (j != i && A(i, j) != 0.0 && comp[size_t(j)] < 0) {
          comp[size_t(j)] = nc;
          stack.push_back(j);
        }
    }
    ++nc;
  }
  return nc;
}
static bool diag_has_ties(const Mat &A) {
  std::vector<double> d(static_cast<size_t>(A.rows()));
  for (Index i = 0; i < A.rows(); ++i) d[size_t(i)] = A(i, i);
  std::sort(d.begin(), d.end());
  for (size_t i = 0; i + 1 < d.size(); ++i)
    if (d[i] == d[i + 1]) return true;
  return false;
}

// ------------------------------------------------------------------ running the solver
struct Run {
  bool died = false;
  bool threw = false;
  std::string what;
  std::string err;  // stderr tail of a died child
  Eigen::ComputationInfo info = Eigen::NoConvergence;
  Vec lambda;
  Mat vecs;
  Index iters = 0;
  long mf_calls = 0;
};
static double tol_of(const std::string &t) {
  // documented values of DavidsonSolver::set_tolerance
  if (t == "loose") return 1e-3;
  if (t == "normal") return 1e-4;
  if (t == "strict") return 1e-5;
  return 1e-9;  // lapack
}
static Index size_update(const std::string &u, Index neigen) {
  if (u == "min") return neigen;
  if (u == "max") return 2 * neigen;
  return neigen < 20 ? Index(1.5 * double(neigen)) : neigen + 10;
}
static Index eff_space(Index space, Index neigen, Index n) {
  if (space < neigen) space = 5 * neigen;
  return std::min(space, n);
}
// largest number of basis vectors the solver can hold at any time (before the Gram-Schmidt step of an extension)
static Index max_cols(const json &opt, Index k, Index n) {
  Index su = size_update(opt.at("upd"), k);
  return std::max(eff_space(opt.at("space"), k, n), 2 * k + su) + su;
}

// Work that may abort (Eigen assertion on NaN input, sanitizer report) runs in a forked child: the abort becomes a
// proper failure key instead of killing the campaign, and the matrix dumps the solver prints to stderr are dropped.
struct Blob {
  bool died = false;
  std::string note;
  std::string err;  // tail of the child's stderr
  std::vector<double> d;
  std::string s;
};
static bool write_all(int fd, const void *p, size_t n) {
  const char *c = static_cast<const char *>(p);
  while (n > 0) {
    ssize_t w = write(fd, c, n);
    if (w <= 0) return false;
    c += w;
    n -= size_t(w);
  }
  return true;
}
static bool read_all(int fd, void *p, size_t n) {
  char *c = static_cast<char *>(p);
  while (n > 0) {
    ssize_t w = read(fd, c, n);
    if (w <= 0) return false;
    c += w;
    n -= size_t(w);
  }
  return true;
}
static int g_child_fd = -1;
static void child_emit(const std::vector<double> &d, const std::string &str) {
  size_t hdr[2] = {d.size(), str.size()};
  write_all(g_child_fd, hdr, sizeof hdr);
  write_all(g_child_fd, d.data(), d.size() * sizeof(double));
  write_all(g_child_fd, str.data(), str.size());
  close(g_child_fd);
  _exit(0);
}
static Blob forked(const std::function<void(std::vector<double> &, std::string &)> &fn) {
  Blob B;
  if (getenv("VV_C09_INPROC")) {
    fn(B.d, B.s);
    return B;
  }
  int fd[2];
  if (pipe(fd) != 0) {
    B.died = true;
    B.note = "pipe failed";
    return B;
  }
  // the child's stderr goes to an unlinked scratch file (the solver dumps whole matrices there); its tail tells which
  // assertion killed the child
  char tmpl[] = "/verif/build/work/c09-stderr-XXXXXX";
  int efd = mkstemp(tmpl);
  if (efd >= 0) unlink(tmpl);
  fflush(nullptr);
  pid_t pid = fork();
  if (pid == 0) {
    close(fd[0]);
    st().in_case = false;  // the child must not write the parent's crash / stats files
    st().out.clear();
    st().crash.clear();
    if (!getenv("VV_C09_DEBUG")) {
      int dn = open("/dev/null", O_WRONLY);
      if (dn >= 0) dup2(dn, 1);
      if (efd >= 0)
        dup2(efd, 2);
      else if (dn >= 0)
        dup2(dn, 2);
    }
    g_child_fd = fd[1];
    arm_cpu_watchdog(true);  // interval timers are not inherited over fork(): the child gets its own CPU budget (exit 87)
    std::vector<double> d;
    std::string str;
    fn(d, str);
    child_emit(d, str);
  }
  close(fd[1]);
  size_t hdr[2] = {0, 0};
  bool ok = pid > 0 && read_all(fd[0], hdr, sizeof hdr);
  if (ok) {
    B.d.resize(hdr[0]);
    B.s.resize(hdr[1]);
    ok = read_all(fd[0], B.d.data(), hdr[0] * sizeof(double)) && read_all(fd[0], &B.s[0], hdr[1]);
  }
  close(fd[0]);
  int status = 0;
  if (pid > 0) waitpid(pid, &status, 0);
  if (efd >= 0) {
    off_t sz = lseek(efd, 0, SEEK_END);
    off_t from = sz > 4096 ? sz - 4096 : 0;
    lseek(efd, from, SEEK_SET);
    B.err.resize(size_t(sz - from));
    if (!B.err.empty() && !read_all(efd, &B.err[0], B.err.size())) B.err.clear();
    close(efd);
  }
  if (!ok || !WIFEXITED(status) || WEXITSTATUS(status) != 0) {
    B.died = true;
    B.note = WIFSIGNALED(status) ? fmt("killed by signal %d", WTERMSIG(status)) : fmt("exit status %d", WEXITSTATUS(status));
  }
  return B;
}

// records every block the solver multiplies with the operator (= every vector that ever entered the search space)
class RecOp final : public votca::xtp::MatrixFreeOperator {
 public:
  RecOp(const Mat &A, std::vector<Mat> *rec) : A_(A), rec_(rec) { set_size(A.rows()); }
  Eigen::MatrixXd matmul(const Eigen::MatrixXd &input) const override {
    rec_->push_back(input);
    return A_ * input;
  }
  Eigen::VectorXd diagonal() const override { return A_.diagonal(); }

 private:
  const Mat &A_;
  std::vector<Mat> *rec_;
};

static Run run_solver_inproc(const Mat &A, Index neigen, const json &opt, bool ham, std::vector<Mat> *record = nullptr) {
  Run R;
  votca::xtp::Logger log;  // default: messages collected in memory, nothing printed
  votca::xtp::DavidsonSolver DS(log);
  DS.set_correction(opt.at("corr").get<std::string>());
  DS.set_size_update(opt.at("upd").get<std::string>());
  DS.set_tolerance(opt.at("tol").get<std::string>());
  DS.set_iter_max(opt.at("iter").get<Index>());
  Index space = opt.at("space");
  if (space > 0) DS.set_max_search_space(space);
  if (ham) DS.set_matrix_type("HAM");
  try {
    if (opt.value("reuse", false) && !ham && !record) {
      // history: the same solver object has already completed an (easy, converging) solve; the statement quantifies over
      // matrices and options, so what the object did before must not show in the result or in info()
      // reuse_same_n: the earlier operator has the dimension of this one and its small diagonal elements sit where this
      // one has its large ones (anything cached per dimension would be stale)
      const bool same_n = opt.value("reuse_same_n", false) && A.rows() >= 2;
      const Index wn = same_n ? A.rows() : 9;
      Mat W = Mat::Zero(wn, wn);
      for (Index i = 0; i < wn; ++i) W(i, i) = same_n ? -A(i, i) + 0.5 * double(i % 3) : double(1 + 2 * i);
      for (Index i = 0; i < wn; ++i)
        for (Index j = 0; j < wn; ++j)
          if (i != j) W(i, j) = 0.01 / double(1 + (i > j ? i - j : j - i) + ((i * j) % 3));
      try {
        DS.solve(W, 1);
      } catch (const std::runtime_error &) {
        // the warm-up only gives the object a history; its own outcome is not under test here
      }
      // solve() overwrites a default (0) search-space limit with 5*neigen of THAT solve and keeps it; the caller's
      // options for the next solve are therefore set again (observation recorded in DESIGN.md, outside the statement)
      DS.set_max_search_space(space);
    }
    if (record) {
      RecOp op(A, record);
      DS.solve(op, neigen);
    } else if (opt.value("mf", false)) {
      DenseOp op(A);
      DS.solve(op, neigen);
      R.mf_calls = op.calls;
    } else {
      DS.solve(A, neigen);
    }
  } catch (const std::runtime_error &e) {
    R.threw = true;
    R.what = e.what();
    if (getenv("VV_C09_DEBUG")) { std::ofstream dbg("/tmp/c09dbg.log"); dbg << log << "\nEXCEPTION " << R.what << "\n"; }
    return R;
  }
  R.info = DS.info();
  R.lambda = DS.eigenvalues();
  R.vecs = DS.eigenvectors();
  R.iters = DS.num_iterations();
  if (getenv("VV_C09_DEBUG")) std::cerr << log << "\ninfo=" << R.info << " lambda=" << R.lambda.transpose() << "\n";
  return R;
}

static Run run_solver(const Mat &A, Index neigen, const json &opt, bool ham) {
  Blob B = forked([&](std::vector<double> &d, std::string &str) {
    Run C = run_solver_inproc(A, neigen, opt, ham);
    d = {C.threw ? 1.0 : 0.0, double(C.info), double(C.iters), double(C.mf_calls), double(C.lambda.size()), double(C.vecs.rows()),
         double(C.vecs.cols())};
    d.insert(d.end(), C.lambda.data(), C.lambda.data() + C.lambda.size());
    d.insert(d.end(), C.vecs.data(), C.vecs.data() + C.vecs.size());
    str = C.what;
  });
  Run R;
  if (B.died || B.d.size() < 7) {
    R.died = true;
    R.what = B.note;
    R.err = B.err;
    return R;
  }
  R.threw = B.d[0] != 0;
  R.info = Eigen::ComputationInfo(int(B.d[1]));
  R.iters = Index(B.d[2]);
  R.mf_calls = long(B.d[3]);
  Index nl = Index(B.d[4]), rows = Index(B.d[5]), cols = Index(B.d[6]);
  R.lambda = Eigen::Map<const Vec>(B.d.data() + 7, nl);
  R.vecs = Eigen::Map<const Mat>(B.d.data() + 7 + nl, rows, cols);
  R.what = B.s;
  return R;
}

// ------------------------------------------------------------------ diagnosis of a failing run (rare path)
// The run is repeated with a recording operator.  From the recorded blocks the harness reconstructs the number of basis
// vectors over time (exceeds n?), checks that all vectors added between two restarts are orthonormal to each other (they all
// sit in the basis V at the same time) and computes the Ritz values of A on the span of EVERYTHING the solver ever saw.
struct Diag {
  bool ok = false;        // diagnosis available
  bool same = false;      // the recorded rerun returned the same eigenvalues
  bool exceeded = false;  // basis had more columns than the matrix has rows
  bool restarted = false; // a restart discarded part of the search space
  double ortho_loss = 0;  // max |G^T G - I| over the vectors that coexist in V
  Vec ritz_seen;          // SYMM only
};
static std::function<void()> g_diag_on_abort;
static void diag_abort_handler(int) {
  if (g_diag_on_abort) g_diag_on_abort();
  _exit(134);
}
static Diag diagnose(const Mat &A, Index k, const json &opt, bool ham, const Vec &lambda_main) {
  Index n = A.rows();
  Blob B = forked([&](std::vector<double> &d, std::string &) {
    std::vector<Mat> rec;
    Vec lam_rerun;
    auto analyse = [&]() {
      std::vector<Mat> vb;  // blocks of basis vectors (HAM: every second product is A*(A V))
      for (size_t i = 0; i < rec.size(); ++i)
        if (!ham || i % 2 == 0) vb.push_back(rec[i]);
      Index space = eff_space(opt.at("space"), k, n);
      bool exceeded = false, restarted = false;
      double loss = 0;
      Index cols = 0;
      std::vector<Mat> group;
      auto check_group = [&]() {
        Index tot = 0;
        for (auto &g : group) tot += g.cols();
        if (tot == 0) return;
        Mat G(n, tot);
        Index c0 = 0;
        for (auto &g : group) {
          G.middleCols(c0, g.cols()) = g;
          c0 += g.cols();
        }
        Mat E = G.transpose() * G - Mat::Identity(tot, tot);
        double m = E.cwiseAbs().maxCoeff();
        if (!G.allFinite()) m = 1e300;
        if (!(m <= loss)) loss = std::isfinite(m) ? m : 1e300;
      };
      for (size_t t = 0; t < vb.size(); ++t) {
        cols += vb[t].cols();
        group.push_back(vb[t]);
        if (cols > n) exceeded = true;
        if (t > 0 && cols > space) {  // restart: V = [Ritz vectors | this block]
          restarted = true;
          check_group();
          group.clear();
          group.push_back(vb[t]);
          cols = 2 * k + vb[t].cols();
        }
      }
      check_group();
      std::vector<double> ritz;
      if (!ham && !vb.empty() && loss < 1e200) {
        Index tot = 0;
        for (auto &g : vb) tot += g.cols();
        Mat W(n, tot);
        Index c0 = 0;
        for (auto &g : vb) {
          W.middleCols(c0, g.cols()) = g;
          c0 += g.cols();
        }
        Eigen::ColPivHouseholderQR<Mat> qr(W);
        qr.setThreshold(1e-10);
        Index r = qr.rank();
        Mat Q = qr.householderQ() * Mat::Identity(n, r);
        Eigen::SelfAdjointEigenSolver<Mat> es(Q.transpose() * A * Q);
        for (Index i = 0; i < std::min(k, r); ++i) ritz.push_back(es.eigenvalues()(i));
      }
      d = {exceeded ? 1.0 : 0.0, loss, restarted ? 1.0 : 0.0, double(ritz.size())};
      d.insert(d.end(), ritz.begin(), ritz.end());
      d.push_back(double(lam_rerun.size()));
      d.insert(d.end(), lam_rerun.data(), lam_rerun.data() + lam_rerun.size());
    };
    // the rerun may abort like the original run did: the blocks recorded so far are analysed from the SIGABRT handler
    g_diag_on_abort = [&]() {
      analyse();
      child_emit(d, "aborted");
    };
    if (!getenv("VV_C09_INPROC")) signal(SIGABRT, diag_abort_handler);
    Run C = run_solver_inproc(A, k, opt, ham, &rec);
    lam_rerun = C.lambda;
    g_diag_on_abort = nullptr;
    analyse();
  });
  Diag D;
  if (B.died || B.d.size() < 5) return D;
  D.ok = true;
  D.exceeded = B.d[0] != 0;
  D.ortho_loss = B.d[1];
  D.restarted = B.d[2] != 0;
  Index nr = Index(B.d[3]);
  D.ritz_seen = Eigen::Map<const Vec>(B.d.data() + 4, nr);
  Index nl = Index(B.d[4 + nr]);
  Vec l2 = Eigen::Map<const Vec>(B.d.data() + 5 + nr, nl);
  D.same = nl == lambda_main.size() && (nl == 0 || (l2 - lambda_main).cwiseAbs().maxCoeff() <= 1e-9 * (1 + lambda_main.cwiseAbs().maxCoeff()));
  return D;
}

static const char *K_UNSEEN = "Davidson/premature-success-unseen-root";
static const char *K_GS = "Davidson/gramschmidt-dependency-undetected";
static const char *K_OLSEN = "Davidson/olsen-nan-exact-diagonal";

// does the initial guess (coordinate vectors of the lowest diagonal entries) contain a coordinate that is not coupled to
// any other guess coordinate?  Then a Ritz value of iteration 0 equals that diagonal element exactly.
static bool start_uncoupled(const Mat &A, Index k, bool ham) {
  Index n = A.rows();
  std::vector<Index> idx(static_cast<size_t>(n));
  for (Index i = 0; i < n; ++i) idx[size_t(i)] = i;
  std::stable_sort(idx.begin(), idx.end(), [&](Index a, Index b) { return A(a, a) < A(b, b); });
  Index off = ham ? n / 2 : 0;
  std::vector<Index> st_;
  for (Index j = 0; j < 2 * k && off + j < n; ++j) st_.push_back(idx[size_t(off + j)]);
  for (Index a : st_) {
    bool coupled = false;
    for (Index b : st_)
      if (a != b && A(a, b) != 0.0) coupled = true;
    if (!coupled) return true;
  }
  // weak coupling has the same effect: the Ritz values of the guess block equal a diagonal element to working precision
  // (second-order shift c^2/gap below one ulp); 64 ulp band because the solver's small eigenproblem rounds differently
  Index m = Index(st_.size());
  Mat T(m, m);
  for (Index i = 0; i < m; ++i)
    for (Index j = 0; j < m; ++j) T(i, j) = 0.5 * (A(st_[size_t(i)], st_[size_t(j)]) + A(st_[size_t(j)], st_[size_t(i)]));
  Eigen::SelfAdjointEigenSolver<Mat> es(T);
  for (Index i = 0; i < m; ++i)
    for (Index j = 0; j < m; ++j)
      if (std::fabs(es.eigenvalues()(i) - T(j, j)) <= 64 * 2 * U * std::fabs(T(j, j))) return true;
  return false;
}

struct Ctx {
  const json &c;
  const Mat &A;
  Index k;
  bool ham;
  const Run &R;
};
// attribute a symptom to a root cause where the diagnosis allows it
static std::string attribute(const Ctx &x, const std::string &symptom, std::string &why) {
  const json &opt = x.c.at("opt");
  if ((x.R.threw || x.R.died) && opt.at("corr") == "OLSEN" && start_uncoupled(x.A, x.k, x.ham)) {
    why = " [OLSEN correction and an initial-guess coordinate that is uncoupled (or coupled below rounding level) from the other guess coordinates: Ritz value == diagonal element]";
    return K_OLSEN;
  }
  Diag D = diagnose(x.A, x.k, opt, x.ham, x.R.lambda);
  // A sound twice-repeated Gram-Schmidt keeps |V^T V - I| ~ 1e-14.  The solver's gramschmidt() accepts (nearly) dependent
  // directions, which degrades the basis to anything between 1e-12 and 1; a basis defect >= 1e-9 among vectors that coexist
  // in V is therefore attributed to that (confirmed) defect, whatever symptom it produced.
  if (D.ok && (D.exceeded || D.ortho_loss > 1e-9)) {
    why = fmt(" [diagnosis: basis %s, max |V^T V - I| among coexisting basis vectors = %.3e]",
              D.exceeded ? "grew beyond the matrix dimension" : "stayed within the matrix dimension", D.ortho_loss);
    return K_GS;
  }
  if (!D.ok) why = " [diagnosis rerun died]";
  return symptom;
}
static bool tolerated(const json &c, const std::string &key) {
  if (c.contains("tolerate"))
    for (auto &t : c["tolerate"])
      if (t == key) return true;
  return false;
}
// returns true when the failure was recorded; false when it belongs to a known finding this (generated) case tolerates
static bool fail_attr(Result &r, const Ctx &x, const std::string &symptom, const std::string &msg) {
  std::string why;
  std::string key = attribute(x, symptom, why);
  if (tolerated(x.c, key)) {
    r.cls("excluded-known:" + key);
    r.nontrivial = false;
    return false;
  }
  r.fail(key, msg + why);
  return true;
}

// checks shared by SYMM families.
static void check_symm(Result &r, const json &c, const Mat &A, const Run &R, bool must_succeed) {
  Index n = A.rows(), k = c.at("neigen");
  const json &opt = c.at("opt");
  Ctx X{c, A, k, false, R};
  double tol = tol_of(opt.at("tol"));
  double normF = A.norm();
  Index space = eff_space(opt.at("space"), k, n);
  double slack = 4 * U * normF * double(n + (R.iters + 1) * (space + 2 * k) + 10);

  Eigen::SelfAdjointEigenSolver<Mat> es(A);
  if (es.info() != Eigen::Success) {
    r.discard = true;
    return;
  }
  const Vec &mu = es.eigenvalues();
  double eig_abs = 64 * U * double(n) * std::max(std::fabs(mu(0)), std::fabs(mu(n - 1)));

  // ---- non-triviality: restart certainly happened, or cluster / degeneracy among the lowest k+1 eigenvalues
  bool cluster = false, degenerate = false;
  for (Index i = 0; i + 1 < std::min<Index>(n, k + 1); ++i) {
    double g = mu(i + 1) - mu(i);
    if (g < 1e-3) cluster = true;
    if (g <= eig_abs) degenerate = true;
  }
  // the basis grows by >= 1 vector per performed extension (= R.iters when the run ended at iteration R.iters)
  bool restart_certain = 2 * k + R.iters > space && R.iters >= 1;
  if (cluster) r.cls("spectrum:cluster<1e-3");
  if (degenerate) r.cls("spectrum:degenerate");
  if (mu(0) < 0) r.cls("spectrum:negative");
  if (restart_certain) r.cls("restart-certain");
  if (max_cols(opt, k, n) > n) r.cls("basis-may-outgrow-n");
  r.nontrivial = restart_certain || cluster || degenerate;
  if (must_succeed) r.nontrivial = restart_certain || R.iters >= 3;  // F2 has no clusters by construction
  r.cls(std::string("opt:") + opt.at("corr").get<std::string>() + "/" + opt.at("upd").get<std::string>());
  r.cls(std::string("tol:") + opt.at("tol").get<std::string>());
  if (opt.value("mf", false)) r.cls("matrix-free");
  if (opt.value("reuse", false)) r.cls(opt.value("reuse_same_n", false) ? "solver-object-reused(earlier operator of the same dimension)" : "solver-object-reused");
  r.cls(n <= 16 ? "n<=16" : n <= 50 ? "n<=50" : n <= 100 ? "n<=100" : "n>100");

  if (R.lambda.size() != k || R.vecs.cols() != k || R.vecs.rows() != n) {
    r.fail("Davidson/result-shape", fmt("eigenvalues %ld, eigenvectors %ldx%ld for n=%ld neigen=%ld", long(R.lambda.size()),
                                        long(R.vecs.rows()), long(R.vecs.cols()), long(n), long(k)));
    return;
  }
  if (opt.value("mf", false) && R.mf_calls == 0) {
    r.fail("harness-internal", "matrix-free operator was never called");
    return;
  }
  std::string cfg = fmt(" (n=%ld neigen=%ld %s/%s/%s space=%ld iter_max=%ld iters=%ld%s)", long(n), long(k),
                        opt.at("corr").get<std::string>().c_str(), opt.at("upd").get<std::string>().c_str(),
                        opt.at("tol").get<std::string>().c_str(), long(space), long(opt.at("iter").get<Index>()), long(R.iters),
                        opt.value("mf", false) ? " matrix-free" : "");

  if (must_succeed && getenv("VV_C09_F2STAT"))
    fprintf(stderr, "F2STAT iters=%ld n=%ld k=%ld %s offscale=%g info=%d\n", long(R.iters), long(n), long(k), cfg.c_str(), c.value("offscale", 0.0), int(R.info));
  if (R.info == Eigen::Success) {
    r.cls("Success");
    r.cls(R.iters <= 5 ? "iters<=5" : R.iters <= 10 ? "iters<=10" : R.iters <= 25 ? "iters<=25" : "iters>25");
    for (Index i = 0; i < k; ++i)
      if (!std::isfinite(R.lambda(i)) || !R.vecs.col(i).allFinite()) {
        fail_attr(r, X, "Davidson/non-finite", fmt("root %ld is not finite although info()==Success", long(i)) + cfg);
        return;
      }
    // ascending
    for (Index i = 0; i + 1 < k; ++i)
      if (R.lambda(i + 1) < R.lambda(i)) {
        fail_attr(r, X, "Davidson/order", fmt("eigenvalues not ascending: lambda[%ld]=%.17g > lambda[%ld]=%.17g", long(i), R.lambda(i),
                                               long(i + 1), R.lambda(i + 1)) + cfg);
        return;
      }
    // normalised / orthogonal
    Mat G = R.vecs.transpose() * R.vecs;
    for (Index i = 0; i < k; ++i) {
      if (std::fabs(G(i, i) - 1.0) > 1e-12) {
        fail_attr(r, X, "Davidson/normalisation", fmt("|v_%ld|^2 = %.17g", long(i), G(i, i)) + cfg);
        return;
      }
      for (Index j = 0; j < i; ++j)
        if (std::fabs(G(i, j)) > 1e-8) {
          fail_attr(r, X, "Davidson/orthogonality", fmt("v_%ld . v_%ld = %.3e (limit 1e-8)", long(i), long(j), G(i, j)) + cfg);
          return;
        }
    }
    // residual below the selected tolerance
    Mat Res = A * R.vecs - R.vecs * R.lambda.asDiagonal();
    for (Index i = 0; i < k; ++i) {
      double rn = Res.col(i).norm();
      if (!(rn < tol + slack)) {
        fail_attr(r, X, "Davidson/residual",
                  fmt("info()==Success, root %ld: |A v - lambda v| = %.6e, tolerance %.1e (+ rounding slack %.2e)", long(i), rn, tol, slack) + cfg);
        return;
      }
    }
    // lowest eigenvalues: the largest deviation the convergence criterion permits (Kahan, residual norms < tol)
    Eigen::JacobiSVD<Mat> svd(R.vecs);
    double smin = svd.singularValues()(k - 1);
    double bound = std::sqrt(2.0 * double(k)) * (tol + slack) / smin + eig_abs;
    double bound_actual = std::sqrt(2.0) * Res.norm() / smin + eig_abs + slack;
    Index bad = -1;
    bool beyond_actual = false;
    for (Index i = 0; i < k; ++i) {
      double dv = std::fabs(R.lambda(i) - mu(i));
      if (dv > bound && bad < 0) bad = i;
      if (dv > bound_actual) beyond_actual = true;
    }
    if (bad < 0 && beyond_actual) r.cls("lowest:within-tolerance-but-a-neighbouring-eigenvalue");
    if (bad >= 0) {
      bool reducible = components(A) > 1;
      std::string m = fmt("info()==Success but root %ld = %.12g while the %ld-th lowest eigenvalue is %.12g (permitted deviation %.3e; %s)",
                          long(bad), R.lambda(bad), long(bad), mu(bad), bound,
                          reducible ? "matrix is exactly reducible" : "matrix is irreducible") + cfg;
      std::string why;
      std::string key = attribute(X, "Davidson/success-not-lowest", why);
      if (key == "Davidson/success-not-lowest") {
        // did the solver return the lowest Ritz values of everything it ever had in its search space?
        Diag D = diagnose(A, k, opt, false, R.lambda);
        bool best_seen = D.ok && D.same && D.ritz_seen.size() == k;
        for (Index i = 0; best_seen && i < k; ++i)
          if (R.lambda(i) > D.ritz_seen(i) + bound) best_seen = false;
        if (best_seen) {
          key = reducible ? K_HIDDEN : K_UNSEEN;
          why = " [diagnosis: the returned values are the lowest Ritz values of A on the span of all vectors the solver ever multiplied; "
                "the missing eigenvector never became visible before all residuals passed]";
        } else if (D.ok && D.same && D.restarted) {
          key = reducible ? K_HIDDEN : K_UNSEEN;
          why = " [diagnosis: restarts discarded part of the search space before all residuals passed; the returned pairs are converged "
                "eigenpairs, the lower one was not represented in the final search space]";
        }
      }
      if (tolerated(c, key))
        r.cls("excluded-known:" + key);
      else {
        r.fail(key, m + why);
        return;
      }
    }
  } else {
    r.cls("NoConvergence");
    if (R.info != Eigen::NoConvergence) {
      r.fail("Davidson/status", fmt("info() = %d, neither Success nor NoConvergence", int(R.info)) + cfg);
      return;
    }
    // unconverged roots are not passed off: every returned column is either zeroed (documented) or a converged pair
    Mat Res = A * R.vecs - R.vecs * R.lambda.asDiagonal();
    Index zeroed = 0;
    for (Index i = 0; i < k; ++i) {
      bool z = R.lambda(i) == 0.0 && R.vecs.col(i).cwiseAbs().maxCoeff() == 0.0;
      if (z) {
        ++zeroed;
        continue;
      }
      double vn = R.vecs.col(i).norm();
      double rn = Res.col(i).norm();
      if (!(std::fabs(vn - 1) <= 1e-12) || !(rn < tol + slack)) {
        fail_attr(r, X, "Davidson/unconverged-root-returned",
                  fmt("info()==NoConvergence, root %ld (lambda=%.12g, |v|=%.6g) is not zeroed and has residual %.3e >= tol %.1e",
                      long(i), R.lambda(i), vn, rn, tol) + cfg);
        return;
      }
    }
    if (zeroed == 0) {
      fail_attr(r, X, "Davidson/status", "info()==NoConvergence but every requested root is returned as converged" + cfg);
      return;
    }
    r.cls(zeroed == k ? "noconv:all-zeroed" : "noconv:partially-converged");
    if (must_succeed) {
      fail_attr(r, X, "Davidson/F2-no-success",
                fmt("diagonally dominant matrix (gap>=1, off-diagonal row sums<=%.3g): no convergence", c.value("offscale", 0.0)) + cfg);
      return;
    }
  }
}

// ------------------------------------------------------------------ generators
static json gen_opt(bool default_space, Index neigen, Index n, int iter_lo, int iter_hi) {
  json o;
  o["corr"] = pick<std::string>({"DPR", "OLSEN"});
  o["upd"] = pick<std::string>({"min", "safe", "max"});
  o["tol"] = pick<std::string>({"loose", "normal", "strict", "lapack"});
  o["iter"] = ri(iter_lo, iter_hi);
  o["mf"] = rbool(30);
  o["reuse"] = rbool(25);
  o["reuse_same_n"] = rbool(60);
  long space = 0;
  if (!default_space) {
    int k = ri(0, 3);
    if (k == 0) space = 0;                                                   // default (5*neigen)
    if (k == 1) space = long(neigen) + ri(1, int(neigen));                   // tight: restart (almost) every iteration
    if (k == 2) space = ri(int(2 * neigen), int(std::min<Index>(n, 10 * neigen)));
    if (k == 3) space = 10 * long(neigen);                                   // what BSE uses
  }
  o["space"] = space;
  return o;
}

// n and neigen: neigen <= n/4 (quantifier), and room for one extension beyond the search space limit
static void gen_sizes(int nmax, Index &n, Index &k) {
  int nmin = known(K_GS) ? 8 : 4;  // with the basis-outgrows-n class excluded, neigen=1 needs n >= 7
  n = rcount(nmin, nmax);
  if (rbool(15)) n = ri(nmin, 12);
  k = ri(1, int(std::max<Index>(1, n / 4)));
  if (rbool(50)) k = std::min<Index>(k, ri(1, 4));
}

static std::vector<double> gen_spectrum(Index n) {
  std::vector<double> l(static_cast<size_t>(n));
  int kind = ri(0, 4);
  double shift = rbool(40) ? -rfrac(0, 4000, 8) : 0.0;
  if (kind == 0) {  // well separated
    double x = rfrac(1, 64, 8);
    for (auto &v : l) {
      v = x;
      x += rfrac(2, 40, 8);
    }
  } else if (kind == 1) {  // clustered: groups with tiny internal spread
    double x = rfrac(1, 64, 8);
    size_t i = 0;
    while (i < l.size()) {
      int g = ri(1, 5);
      double spread = std::pow(10.0, -ri(2, 7));
      for (int q = 0; q < g && i < l.size(); ++q, ++i) l[i] = x + spread * double(ri(0, 9));
      x += rfrac(4, 40, 8);
    }
  } else if (kind == 2) {  // exactly degenerate
    double x = rfrac(1, 64, 8);
    size_t i = 0;
    while (i < l.size()) {
      int g = ri(1, 6);
      for (int q = 0; q < g && i < l.size(); ++q, ++i) l[i] = x;
      x += rfrac(2, 40, 8);
    }
  } else if (kind == 3) {  // log spread
    for (auto &v : l) v = rlog(-3, 3);
    std::sort(l.begin(), l.end());
  } else {  // arithmetic, small gaps
    double x = rfrac(0, 64, 8), step = rfrac(1, 32, 64);
    for (auto &v : l) {
      v = x;
      x += step;
    }
  }
  for (auto &v : l) v += shift;
  return l;
}

// Exclusion of the confirmed findings by construction (only when they are listed as known; a replay file is always
// evaluated in full because these decisions live in the generator and are recorded in the case).
static void apply_known(json &c, bool keep_structure) {
  Index n = c.at("n"), k = c.at("neigen");
  json &opt = c["opt"];
  if (known(K_GS)) {
    // the basis must never outgrow the matrix dimension: lower neigen, then the search space / update size
    while (max_cols(opt, k, n) > n && k > 1) --k;
    if (max_cols(opt, k, n) > n) {
      opt["space"] = 0;
      opt["upd"] = "min";
    }
    if (k != c.at("neigen").get<Index>()) c["fitted"] = true;
    c["neigen"] = k;
  }
  if (!keep_structure) {
    Mat A = build_symm(c);
    bool changed = false;
    if (known(K_HIDDEN) && components(A) > 1) {
      if (!c.contains("trip")) c["trip"] = json::array();
      for (Index i = 0; i + 1 < n; ++i) c["trip"].push_back({i, i + 1, 1.0 / 64});
      changed = true;
    }
    if ((known(K_HIDDEN) || known(K_GS)) && diag_has_ties(A)) {
      // tied diagonal entries + symmetric structure: exactly parallel corrections / symmetry-hidden roots
      std::vector<double> d = c["diag"].get<std::vector<double>>();
      for (size_t i = 0; i < d.size(); ++i) d[i] += double(i + 1) / 4096.0;
      c["diag"] = d;
      changed = true;
    }
    if (known(K_OLSEN) && opt.at("corr") == "OLSEN" && start_uncoupled(build_symm(c), k, false)) {
      std::vector<double> u(static_cast<size_t>(n));
      for (size_t i = 0; i < u.size(); ++i) u[i] = (i % 3 == 1) ? -1.0 : 1.0;
      if (!c.contains("rank1")) c["rank1"] = json::array();
      c["rank1"].push_back({1.0 / 256, u});
      changed = true;
      if (start_uncoupled(build_symm(c), k, false)) opt["corr"] = "DPR";  // couplings too weak (tiny offscale): leave OLSEN out
    }
    if (changed) c["repaired"] = true;
  }
  json tol = json::array();
  if (known(K_HIDDEN)) tol.push_back(K_HIDDEN);
  if (known(K_UNSEEN)) tol.push_back(K_UNSEEN);
  if (known(K_GS)) tol.push_back(K_GS);  // dependent corrections cannot be excluded by construction
  if (!tol.empty()) c["tolerate"] = tol;
}

// F1: A = Q diag(lambda) Q^T, Q = product of Householder reflectors with dense integer vectors
static json gen_f1() {
  Index n, k;
  gen_sizes(60, n, k);
  json c;
  c["fam"] = "F1";
  c["n"] = n;
  c["neigen"] = k;
  std::vector<double> l = gen_spectrum(n);
  auto p = rperm(int(n));
  std::vector<double> d(static_cast<size_t>(n));
  for (Index i = 0; i < n; ++i) d[size_t(i)] = l[size_t(p[size_t(i)])];
  c["diag"] = d;
  int nh = ri(1, 4);
  json hs = json::array();
  for (int h = 0; h < nh; ++h) {
    std::vector<double> v(static_cast<size_t>(n));
    bool small = rbool(50);  // small reflector = nearly diagonal matrix (Davidson's home ground)
    for (auto &x : v) {
      int m = ri(1, 8);
      x = rbool(50) ? m : -m;
    }
    if (small) v[size_t(ri(0, int(n) - 1))] = 8.0 * double(ri(4, 40));
    hs.push_back(v);
  }
  c["house"] = hs;
  c["opt"] = gen_opt(false, k, n, 5, 100);
  apply_known(c, false);
  return c;
}

// F2: diagonally dominant — well separated diagonal (gap >= 1), symmetric noise with row sums <= 0.05; default search
// space; all correction/update/tolerance combinations; iter_max = 50.  Convergence is CLAIMED for this class.
static json gen_f2() {
  Index n = rcount(16, 100), k = ri(1, 6);
  n = std::max<Index>(n, 10 * k);  // 5*neigen search space + one extension of <= 2*neigen stays well below n
  json c;
  c["fam"] = "F2";
  c["n"] = n;
  c["neigen"] = k;
  std::vector<double> d(static_cast<size_t>(n));
  double x = rfrac(-800, 800, 8);
  for (auto &v : d) {
    v = x;
    x += 1.0 + rfrac(0, 24, 8);
  }
  auto p = rperm(int(n));
  std::vector<double> dp(static_cast<size_t>(n));
  for (Index i = 0; i < n; ++i) dp[size_t(i)] = d[size_t(p[size_t(i)])];
  c["diag"] = dp;
  // noise: dense rank-one part + sparse triplets + a band, scaled to max row sum = offscale
  std::vector<double> u(static_cast<size_t>(n));
  for (auto &v : u) v = rfrac(-16, 16, 16);
  c["rank1"] = json::array({json::array({1.0, u})});
  json trip = json::array();
  int nt = ri(0, int(2 * n));
  for (int t = 0; t < nt; ++t) trip.push_back({ri(0, int(n) - 1), ri(0, int(n) - 1), rfrac(-32, 32, 16)});
  for (Index i = 0; i + 1 < n; ++i) trip.push_back({i, i + 1, rfrac(1, 16, 16)});  // keeps the matrix irreducible
  c["trip"] = trip;
  c["offscale"] = pick<double>({0.05, 0.05, 0.025, 0.01, 0.001});
  json o = gen_opt(true, k, n, 50, 50);
  c["opt"] = o;
  // calibration (unchanged tree, 28 000 cases): <= 12 iterations everywhere except update=max with tolerance=lapack (restart every
  // second iteration, up to 26 iterations at row sums 0.05); that combination gets row sums <= 0.01 to keep a wide margin to 50
  if (o.at("upd") == "max" && o.at("tol") == "lapack" && c["offscale"].get<double>() > 0.01) c["offscale"] = 0.01;
  apply_known(c, false);
  return c;
}

// F3: banded / sparse
static json gen_f3() {
  Index n, k;
  gen_sizes(80, n, k);
  json c;
  c["fam"] = "F3";
  c["n"] = n;
  c["neigen"] = k;
  std::vector<double> d(static_cast<size_t>(n));
  int dk = ri(0, 3);
  double base = rfrac(-80, 80, 8);
  for (Index i = 0; i < n; ++i) {
    if (dk == 0) d[size_t(i)] = base;                                  // constant (Toeplitz), ties
    if (dk == 1) d[size_t(i)] = base + double(i) * rfrac(1, 16, 8);    // increasing
    if (dk == 2) d[size_t(i)] = base + rfrac(0, 400, 8);               // random
    if (dk == 3) d[size_t(i)] = base + double(i % 3) + double(i) / 64; // near ties
  }
  c["diag"] = d;
  json bands = json::array();
  int nb = ri(1, 3);
  for (int b = 0; b < nb; ++b) {
    int off = b == 0 ? 1 : ri(2, int(std::max<Index>(2, n / 3)));
    int len = rbool(50) ? 1 : ri(2, 5);
    std::vector<double> vals;
    for (int q = 0; q < len; ++q) {
      double v = rfrac(1, 24, 8);
      vals.push_back(rbool(30) ? -v : v);
    }
    bands.push_back({off, vals});
  }
  c["bands"] = bands;
  if (rbool(50)) {
    json trip = json::array();
    int nt = ri(1, int(n));
    for (int t = 0; t < nt; ++t) trip.push_back({ri(0, int(n) - 1), ri(0, int(n) - 1), rfrac(-24, 24, 8)});
    c["trip"] = trip;
  }
  if (rbool(40)) c["offscale"] = pick<double>({0.05, 0.25, 1.0, 4.0});
  c["opt"] = gen_opt(false, k, n, 5, 100);
  apply_known(c, false);
  return c;
}

// a few larger matrices (thorough tier): nearly diagonal F1 and banded
static json gen_large() {
  Index n = ri(150, 400), k = ri(1, 10);
  json c;
  c["fam"] = "L";
  c["n"] = n;
  c["neigen"] = k;
  std::vector<double> d(static_cast<size_t>(n));
  double x = rfrac(-80, 80, 8);
  for (auto &v : d) {
    v = x;
    x += rfrac(1, 16, 8);
  }
  c["diag"] = d;
  c["bands"] = json::array({json::array({1, std::vector<double>{rfrac(1, 8, 16)}}), json::array({ri(2, 40), std::vector<double>{rfrac(1, 8, 32)}})});
  std::vector<double> u(static_cast<size_t>(n));
  for (auto &v : u) v = rfrac(-16, 16, 16);
  c["rank1"] = json::array({json::array({rfrac(1, 8, 64), u})});
  c["opt"] = gen_opt(false, k, n, 20, 100);
  apply_known(c, false);
  return c;
}

// F4: exactly reducible with a hidden root (DESIGN 5 #20): block 1 = chain with small diagonal, block 2 = strongly
// coupled pair/triple with LARGE diagonal whose lowest eigenvalue lies below block 1.
static json gen_f4() {
  Index n1 = ri(4, 30), n2 = ri(2, 4), n = n1 + n2;
  Index k = ri(1, int(std::max<Index>(1, n1 / 4)));
  json c;
  c["fam"] = "F4";
  c["n"] = n;
  c["neigen"] = k;
  auto p = rperm(int(n));  // interleave the blocks
  std::vector<double> d(static_cast<size_t>(n));
  json trip = json::array();
  for (Index i = 0; i < n1; ++i) {
    d[size_t(p[size_t(i)])] = 1.0 + double(i) * rfrac(4, 16, 8);
    if (i + 1 < n1) trip.push_back({p[size_t(i)], p[size_t(i + 1)], rfrac(1, 8, 64)});
  }
  double big = double(ri(20, 80)), delta = rfrac(1, 64, 128);  // block 2: big on the diagonal, big-delta off-diagonal
  for (Index i = 0; i < n2; ++i) {
    d[size_t(p[size_t(n1 + i)])] = big * double(n2 - 1);
    for (Index j = 0; j < i; ++j) trip.push_back({p[size_t(n1 + i)], p[size_t(n1 + j)], -(big - delta)});
  }
  // all-ones vector of block 2 has eigenvalue big*(n2-1) - (n2-1)(big-delta) = (n2-1)*delta < 1
  c["diag"] = d;
  c["trip"] = trip;
  c["opt"] = gen_opt(false, k, n, 30, 100);
  if (known(K_OLSEN)) c["opt"]["corr"] = "DPR";  // the structure must stay reducible, so no dense coupling can be added here
  apply_known(c, true);  // stays reducible; with the finding known the case carries "tolerate" and the search continues
  return c;
}

static Result run_symm(const json &c) {
  Result r;
  Mat A = build_symm(c);
  Index n = A.rows(), k = c.at("neigen");
  if (k < 1 || 2 * k > n) {
    r.discard = true;
    return r;
  }
  std::string fam = c.value("fam", "?");
  r.cls("family:" + fam);
  if (c.value("repaired", false)) r.cls("excluded-known:reducible/tied-diagonal/uncoupled-olsen-start(repaired)");
  if (c.value("fitted", false)) r.cls("excluded-known:basis-outgrows-n(neigen-lowered)");
  Run R = run_solver(A, k, c.at("opt"), false);
  Ctx X{c, A, k, false, R};
  if (R.died) {
    if (R.what.find("exit status 87") != std::string::npos) {
      r.fail("no-termination-within-cpu-budget", "solver did not return within the CPU budget");
      return r;
    }
    fail_attr(r, X, "Davidson/abort", "solver process died (" + R.what + ") stderr: ..." + R.err.substr(R.err.size() > 300 ? R.err.size() - 300 : 0));
    return r;
  }
  if (R.threw) {
    if (fam == "F2") {
      fail_attr(r, X, "Davidson/F2-no-success", "diagonally dominant matrix: solve() throws '" + R.what + "'");
      return r;
    }
    // nothing is returned and no status is claimed: no clause of the statement is touched
    r.cls(R.what.find("Linear dependencies in Gram-Schmidt") != std::string::npos ? "throw:linear-dependencies(documented)"
                                                                                   : "throw:" + R.what.substr(0, 48));
    return r;
  }
  check_symm(r, c, A, R, fam == "F2");
  return r;
}

// ------------------------------------------------------------------ HAM mode
static void build_ham(const json &c, Mat &Ab, Mat &Bb) {
  Index m = c.at("m");
  Mat NA = Mat::Zero(m, m), NB = Mat::Zero(m, m);
  for (auto &t : c.at("tripA")) {
    Index i = t[0], j = t[1];
    double v = t[2];
    if (i == j) continue;
    NA(i, j) += v;
    NA(j, i) += v;
  }
  for (auto &t : c.at("tripB")) {
    Index i = t[0], j = t[1];
    double v = t[2];
    if (i == j) {
      NB(i, i) += v;
    } else {
      NB(i, j) += v;
      NB(j, i) += v;
    }
  }
  if (c.contains("denseA")) {
    double coef = c["denseA"];
    for (Index i = 0; i < m; ++i)
      for (Index j = 0; j < m; ++j)
        if (i != j) NA(i, j) += coef * ((i % 3 == 1) ? -1.0 : 1.0) * ((j % 3 == 1) ? -1.0 : 1.0);
  }
  std::vector<double> d = c.at("dA").get<std::vector<double>>();
  // scale the couplings so that A+B and A-B are strictly diagonally dominant with positive diagonal => SPD
  double dom = c.at("dom");
  double worst = 0, worst_abs = 0;
  for (Index i = 0; i < m; ++i) {
    double rs = NA.row(i).cwiseAbs().sum() + NB.row(i).cwiseAbs().sum();
    worst = std::max(worst, rs / d[size_t(i)]);
    worst_abs = std::max(worst_abs, rs);
  }
  if (c.contains("offabs")) {  // strict class: absolute row sums (all d_i >= 4, so still strictly diagonally dominant)
    double oa = c["offabs"];
    if (worst_abs > 0) {
      NA *= oa / worst_abs;
      NB *= oa / worst_abs;
    }
  } else if (worst > 0) {
    NA *= dom / worst;
    NB *= dom / worst;
  }
  Ab = NA;
  for (Index i = 0; i < m; ++i) Ab(i, i) = d[size_t(i)];
  Bb = NB;
}

static json gen_ham() {
  Index m = rcount(8, 50);
  Index k = ri(1, int(std::max<Index>(1, m / 4)));
  if (rbool(50)) k = std::min<Index>(k, ri(1, 3));
  json c;
  c["m"] = m;
  c["neigen"] = k;
  std::vector<double> d(static_cast<size_t>(m));
  double x = rfrac(32, 320, 8);
  bool strict = rbool(35);  // separated diagonal (gap >= 1) + couplings with row sums <= 0.05: "lowest" is unambiguous
  bool tight = !strict && rbool(30);
  for (auto &v : d) {
    v = x;
    x += strict ? 1.0 + rfrac(0, 16, 8) : tight ? rfrac(1, 8, 64) : rfrac(4, 16, 8);
  }
  if (strict) c["offabs"] = pick<double>({0.05, 0.02});
  auto p = rperm(int(m));
  std::vector<double> dp(static_cast<size_t>(m));
  for (Index i = 0; i < m; ++i) dp[size_t(i)] = d[size_t(p[size_t(i)])];
  c["dA"] = dp;
  json ta = json::array(), tb = json::array();
  for (Index i = 0; i + 1 < m; ++i) ta.push_back({i, i + 1, rfrac(1, 16, 16)});
  int nt = ri(0, int(3 * m));
  for (int t = 0; t < nt; ++t) ta.push_back({ri(0, int(m) - 1), ri(0, int(m) - 1), rfrac(-16, 16, 16)});
  nt = ri(1, int(3 * m));
  for (int t = 0; t < nt; ++t) tb.push_back({ri(0, int(m) - 1), ri(0, int(m) - 1), rfrac(-16, 16, 16)});
  c["tripA"] = ta;
  c["tripB"] = tb;
  c["dom"] = pick<double>({0.01, 0.05, 0.2, 0.5, 0.9});
  c["opt"] = gen_opt(false, k, 2 * m, 10, 100);
  if (known(K_GS)) {
    json &opt = c["opt"];
    while (max_cols(opt, k, 2 * m) > 2 * m && k > 1) --k;
    if (max_cols(opt, k, 2 * m) > 2 * m) {
      opt["space"] = 0;
      opt["upd"] = "min";
    }
    c["neigen"] = k;
  }
  if (known(K_OLSEN) && c["opt"].at("corr") == "OLSEN") {
    Mat Ab, Bb;
    build_ham(c, Ab, Bb);
    Mat H(2 * m, 2 * m);
    H << Ab, Bb, -Bb, -Ab;
    if (start_uncoupled(H, k, true)) {
      c["denseA"] = 1.0 / 64;
      c["repaired"] = true;
      build_ham(c, Ab, Bb);
      H << Ab, Bb, -Bb, -Ab;
      if (start_uncoupled(H, k, true)) c["opt"]["corr"] = "DPR";
    }
  }
  json tl = json::array();
  if (known(K_UNSEEN)) tl.push_back(K_UNSEEN);
  if (known(K_GS)) tl.push_back(K_GS);
  if (!tl.empty()) c["tolerate"] = tl;
  return c;
}

static Result run_ham(const json &c) {
  Result r;
  Mat Ab, Bb;
  build_ham(c, Ab, Bb);
  Index m = Ab.rows(), n = 2 * m, k = c.at("neigen");
  if (k < 1 || 2 * k > m) {
    r.discard = true;
    return r;
  }
  Mat H(n, n), M(n, n);
  H << Ab, Bb, -Bb, -Ab;
  M << Ab, Bb, Bb, Ab;
  // precondition of the clause, verified: A+B and A-B positive definite
  Eigen::LLT<Mat> l1(Ab + Bb), l2(Ab - Bb);
  if (l1.info() != Eigen::Success || l2.info() != Eigen::Success) {
    r.fail("harness-internal", "A+B / A-B not positive definite although constructed diagonally dominant");
    return r;
  }
  const json &opt = c.at("opt");
  double tol = tol_of(opt.at("tol"));
  r.cls(std::string("opt:") + opt.at("corr").get<std::string>() + "/" + opt.at("upd").get<std::string>());
  r.cls(std::string("tol:") + opt.at("tol").get<std::string>());
  r.cls(c.contains("offabs") ? "ham:strict(separated diagonal, couplings<=0.05)" : fmt("ham:general dom=%.2f", c.at("dom").get<double>()));
  if (opt.value("mf", false)) r.cls("matrix-free");
  if (opt.value("reuse", false)) r.cls(opt.value("reuse_same_n", false) ? "solver-object-reused(earlier operator of the same dimension)" : "solver-object-reused");
  if (c.value("repaired", false)) r.cls("excluded-known:uncoupled-olsen-start(repaired)");
  Run R = run_solver(H, k, opt, true);
  Ctx X{c, H, k, true, R};
  if (R.died) {
    bool qz_assert = R.err.find("GeneralizedEigenSolver") != std::string::npos && R.err.find("EigenSolver is not initialized") != std::string::npos;
    if (R.what.find("exit status 87") != std::string::npos) {
      r.fail("no-termination-within-cpu-budget", "HAM: solver did not return within the CPU budget");
      return r;
    }
    std::string why;
    std::string key = attribute(X, "Davidson/abort", why);
    if (key == "Davidson/abort" && qz_assert) {
      // Eigen's GeneralizedEigenSolver::info() asserts when compute() failed (RealQZ did not converge on a FINITE, orthonormally
      // projected pencil): with NDEBUG the solver throws its documented "Small generalized eigenvalue problem failed." here.
      // Nothing is returned, no status is claimed -> same class as a throw (reported as an observation, not as a violation).
      r.cls("throw(assert build aborts): small generalized eigenproblem failed (RealQZ)");
      return r;
    }
    if (tolerated(c, key)) {
      r.cls("excluded-known:" + key);
      return r;
    }
    r.fail(key, "HAM: solver process died (" + R.what + ")" + why + " stderr: ..." + R.err.substr(R.err.size() > 300 ? R.err.size() - 300 : 0));
    return r;
  }
  if (R.threw) {
    // nothing is returned -> the clause about returned values is not touched
    r.cls("throw:" + R.what.substr(0, 48));
    return r;
  }
  // oracle: H = J M is similar to the symmetric S = M^1/2 J M^1/2 (M SPD)
  Eigen::SelfAdjointEigenSolver<Mat> em(M);
  double mmin = em.eigenvalues()(0), mmax = em.eigenvalues()(n - 1);
  if (em.info() != Eigen::Success || !(mmin > 0)) {
    r.fail("harness-internal", "M = [[A,B],[B,A]] not positive definite");
    return r;
  }
  Mat Mh = em.eigenvectors() * em.eigenvalues().cwiseSqrt().asDiagonal() * em.eigenvectors().transpose();
  Mat JM = Mh;
  JM.bottomRows(m) *= -1.0;
  Mat S = Mh * JM;
  S = (0.5 * (S + S.transpose())).eval();
  Eigen::SelfAdjointEigenSolver<Mat> es(S);
  std::vector<double> pos;
  for (Index i = 0; i < n; ++i)
    if (es.eigenvalues()(i) > 0) pos.push_back(es.eigenvalues()(i));
  if (Index(pos.size()) != m) {
    r.fail("harness-internal", fmt("oracle finds %zu positive eigenvalues, expected %ld", pos.size(), long(m)));
    return r;
  }
  double eig_abs = 256 * U * double(n) * mmax * std::sqrt(mmax / mmin);
  Index space = eff_space(opt.at("space"), k, n);
  bool restart_certain = 2 * k + R.iters > space && R.iters >= 1;
  bool cluster = false;
  for (Index i = 0; i + 1 < std::min<Index>(m, k + 1); ++i)
    if (pos[size_t(i + 1)] - pos[size_t(i)] < 1e-3) cluster = true;
  r.nontrivial = restart_certain || cluster;
  if (restart_certain) r.cls("restart-certain");
  if (cluster) r.cls("spectrum:cluster<1e-3");

  if (R.lambda.size() != k || R.vecs.cols() != k || R.vecs.rows() != n) {
    r.fail("Davidson/result-shape", "HAM: wrong result shape");
    return r;
  }
  double slack = 4 * U * H.norm() * double(n + (R.iters + 1) * (space + 2 * k) + 10);
  std::string cfg = fmt(" (HAM m=%ld neigen=%ld %s/%s/%s space=%ld iter_max=%ld iters=%ld dom=%.2f%s)", long(m), long(k),
                        opt.at("corr").get<std::string>().c_str(), opt.at("upd").get<std::string>().c_str(),
                        opt.at("tol").get<std::string>().c_str(), long(space), long(opt.at("iter").get<Index>()), long(R.iters),
                        c.at("dom").get<double>(), opt.value("mf", false) ? " matrix-free" : "");
  if (max_cols(opt, k, n) > n) r.cls("basis-may-outgrow-n");
  if (R.info == Eigen::Success) {
    r.cls("Success");
    Mat Res = H * R.vecs - R.vecs * R.lambda.asDiagonal();
    for (Index i = 0; i < k; ++i) {
      if (!std::isfinite(R.lambda(i)) || !R.vecs.col(i).allFinite()) {
        fail_attr(r, X, "Davidson/non-finite", "HAM: non-finite root although Success" + cfg);
        return r;
      }
      if (std::fabs(R.vecs.col(i).norm() - 1) > 1e-12) {
        fail_attr(r, X, "Davidson/normalisation", fmt("HAM: |v_%ld| = %.17g", long(i), R.vecs.col(i).norm()) + cfg);
        return r;
      }
      double rn = Res.col(i).norm();
      if (!(rn < tol + slack)) {
        fail_attr(r, X, "Davidson/residual", fmt("HAM Success, root %ld: |H v - lambda v| = %.6e, tolerance %.1e (+%.2e)", long(i), rn, tol, slack) + cfg);
        return r;
      }
    }
    // Kahan bound for the symmetric S with basis W = M^1/2 V: S W - W Theta = M^1/2 (H V - V Theta)
    Mat W = Mh * R.vecs;
    Eigen::JacobiSVD<Mat> svd(W);
    double smin = svd.singularValues()(k - 1);
    if (!(smin > 0)) {
      fail_attr(r, X, "Davidson/ham-dependent-vectors", "HAM: returned vectors are linearly dependent" + cfg);
      return r;
    }
    double bound = std::sqrt(2.0 * double(k)) * std::sqrt(mmax) * (tol + slack) / smin + eig_abs;
    std::vector<double> got(R.lambda.data(), R.lambda.data() + k);
    std::sort(got.begin(), got.end());
    Index bad = -1;
    for (Index i = 0; i < k; ++i)
      if (!(got[size_t(i)] > 0) || std::fabs(got[size_t(i)] - pos[size_t(i)]) > bound) {
        bad = i;
        break;
      }
    if (bad >= 0) {
      std::string m = fmt("HAM Success: %ld-th smallest returned value %.12g, %ld-th lowest positive eigenvalue %.12g (permitted deviation %.3e)",
                          long(bad), got[size_t(bad)], long(bad), pos[size_t(bad)], bound) + cfg;
      // are the returned values at least (distinct) positive eigenvalues?
      bool all_eig = true;
      size_t j = 0;
      for (Index i = 0; i < k && all_eig; ++i) {
        while (j < pos.size() && pos[j] < got[size_t(i)] - bound) ++j;
        if (j < pos.size() && std::fabs(pos[j] - got[size_t(i)]) <= bound)
          ++j;
        else
          all_eig = false;
      }
      if (c.contains("offabs") || !all_eig) {
        // strict class (separated diagonal, couplings <= 0.05): the lowest positive roots are unambiguous
        if (fail_attr(r, X, all_eig ? "Davidson/ham-not-lowest-positive" : "Davidson/ham-not-an-eigenvalue", m)) return r;
      } else {
        std::string why;
        std::string key = attribute(X, K_UNSEEN, why);
        if (tolerated(c, key)) {
          r.cls(std::string("excluded-known:") + key);
        } else {
          r.fail(key, m + " [the returned values are converged positive eigenvalues of H, a lower one was never represented in the search space]" + why);
          return r;
        }
      }
    }
  } else {
    r.cls("NoConvergence");
    Mat Res = H * R.vecs - R.vecs * R.lambda.asDiagonal();
    Index zeroed = 0;
    for (Index i = 0; i < k; ++i) {
      bool z = R.lambda(i) == 0.0 && R.vecs.col(i).cwiseAbs().maxCoeff() == 0.0;
      if (z) {
        ++zeroed;
        continue;
      }
      if (!(Res.col(i).norm() < tol + slack)) {
        fail_attr(r, X, "Davidson/unconverged-root-returned", fmt("HAM NoConvergence: root %ld not zeroed, residual %.3e", long(i), Res.col(i).norm()) + cfg);
        return r;
      }
    }
    if (zeroed == 0) fail_attr(r, X, "Davidson/status", "HAM: NoConvergence but all roots returned as converged" + cfg);
  }
  return r;
}

int main(int argc, char **argv) {
  std::vector<Sub> subs;
  subs.push_back({"f1_spectral", gen_f1, run_symm, 3.0, 100, nullptr});
  subs.push_back({"f2_diagdom", gen_f2, run_symm, 2.0, 100, nullptr});
  subs.push_back({"f3_banded", gen_f3, run_symm, 3.0, 100, nullptr});
  subs.push_back({"f4_hidden_root", gen_f4, run_symm, 0.5, 100, nullptr});
  subs.push_back({"ham", gen_ham, run_ham, 2.0, 100, nullptr});
  bool large = false;
  for (int i = 1; i < argc; ++i)
    if (std::string(argv[i]) == "--large") large = true;
  // always registered (replay needs it); without --large it gets a single case
  subs.push_back({"large", gen_large, run_symm, large ? 0.1 : 0.0, 100, nullptr});
  return harness_main(argc, argv, "C09", subs);
}
