// C11 — option handling merges user input over defaults without loss or invention; Property XML write/load
// round trip; typed access as<T> accepts exactly the documented literals.
//
// options      : for every shipped calculator description (/repo/xtp/share/xtp/xml/*.xml, discovered at run time, and the
//                test descriptions of tools/src/tests/DataFiles/optionshandler) a user tree is generated from the declared
//                leaves; the expected resolved tree is computed by an independent implementation of the merge rules of the
//                property statement (below, `resolve`), working on its own reading of the description (own link resolution;
//                VOTCA's Property is only used to parse the XML text of the description).
// xmlroundtrip : Property tree -> `out << XML << tree` -> LoadFromXML -> same names, order, attributes, trimmed values.
// astype       : as<T>() on generated literals vs a strict reference classifier (accept with value / reject / unclear).
#include "vv_common.h"

#include <votca/tools/optionshandler.h>
#include <votca/tools/property.h>
#include <votca/tools/propertyiomanipulator.h>

#include <sys/mman.h>

#include <climits>
#include <filesystem>

using namespace vv;
using votca::Index;
using votca::tools::Property;
namespace fs = std::filesystem;

static const char *K_ESC = "PrintNodeXML/no-escaping";
static const char *K_UNCHECKED = "OptionsHandler/unchecked-section-rejected";

static std::string trim(const std::string &s) {
  const char *ws = " \t\n\r\f\v";
  size_t a = s.find_first_not_of(ws);
  if (a == std::string::npos) return "";
  size_t b = s.find_last_not_of(ws);
  return s.substr(a, b - a + 1);
}
static std::vector<std::string> split(const std::string &s, const std::string &seps) {
  std::vector<std::string> out;
  std::string cur;
  for (char ch : s) {
    if (seps.find(ch) != std::string::npos) {
      if (!cur.empty()) out.push_back(cur);
      cur.clear();
    } else
      cur += ch;
  }
  if (!cur.empty()) out.push_back(cur);
  return out;
}
static std::string lower(std::string s) {
  for (char &c : s) c = char(std::tolower(static_cast<unsigned char>(c)));
  return s;
}
static std::string quote(const std::string &s) {
  std::string o = "'";
  for (unsigned char ch : s.substr(0, 80)) o += (ch < 32) ? fmt("\\x%02x", ch) : std::string(1, char(ch));
  if (s.size() > 80) o += "...";
  return o + "'";
}

// =====================================================================================================================
// reference classification of literals (documented behaviour of the conversions behind as<T>)
// =====================================================================================================================
enum Verdict { VALID, INVALID, UNCLEAR };
struct Lit {
  Verdict v = INVALID;
  double d = 0;
  long i = 0;
};
static bool all_digits(const std::string &s) {
  if (s.empty()) return false;
  for (char c : s)
    if (c < '0' || c > '9') return false;
  return true;
}
// integers: [-]digits (<= 18 digits) is accepted with that value; a leading '+', 19+ digits are left open; the rest is rejected
static Lit ref_int(const std::string &t) {
  Lit r;
  if (t.empty()) return r;
  std::string body = t;
  bool plus = false;
  if (body[0] == '-' || body[0] == '+') {
    plus = body[0] == '+';
    body = body.substr(1);
  }
  if (!all_digits(body)) return r;
  if (plus || body.size() > 18) {
    r.v = UNCLEAR;
    return r;
  }
  r.v = VALID;
  r.i = strtol(t.c_str(), nullptr, 10);
  return r;
}
// floats: [-]digits[.digits][(e|E)[+-]digits] with a moderate exponent is accepted with the strtod value; leading '+', '.5', '5.',
// inf/nan spellings, huge exponents are left open; the rest is rejected
static Lit ref_float(const std::string &t) {
  Lit r;
  if (t.empty()) return r;
  std::string lt = lower(t);
  {
    std::string b = lt;
    if (b[0] == '-' || b[0] == '+') b = b.substr(1);
    if (b == "inf" || b == "infinity" || b == "nan" || b.compare(0, 4, "nan(") == 0) {
      r.v = UNCLEAR;
      return r;
    }
  }
  size_t p = 0;
  bool open = false;
  if (t[p] == '-' || t[p] == '+') {
    if (t[p] == '+') open = true;
    ++p;
  }
  size_t d0 = p;
  while (p < t.size() && isdigit(static_cast<unsigned char>(t[p]))) ++p;
  size_t nint = p - d0, nfrac = 0;
  if (p < t.size() && t[p] == '.') {
    ++p;
    size_t f0 = p;
    while (p < t.size() && isdigit(static_cast<unsigned char>(t[p]))) ++p;
    nfrac = p - f0;
    if (nfrac == 0 || nint == 0) open = true;  // "5." / ".5"
  }
  if (nint == 0 && nfrac == 0) return r;
  if (p < t.size() && (t[p] == 'e' || t[p] == 'E')) {
    ++p;
    if (p < t.size() && (t[p] == '-' || t[p] == '+')) ++p;
    size_t e0 = p;
    while (p < t.size() && isdigit(static_cast<unsigned char>(t[p]))) ++p;
    if (p == e0) return r;  // "1e", "1e+"
    if (p - e0 > 3 || std::abs(atol(t.substr(e0, p - e0).c_str())) > 280) open = true;
  }
  if (p != t.size()) return r;
  if (nint + nfrac > 25) open = true;
  r.v = open ? UNCLEAR : VALID;
  r.d = strtod(t.c_str(), nullptr);
  if (!std::isfinite(r.d)) r.v = UNCLEAR;
  return r;
}
static Lit ref_bool(const std::string &t) {
  Lit r;
  std::string l = lower(t);
  if (l == "true" || t == "1") r.v = VALID, r.i = 1;
  else if (l == "false" || t == "0") r.v = VALID, r.i = 0;
  return r;
}

// validity of an option value against the `choices` attribute of its description
static std::vector<std::string> choice_tokens(const std::string &att, bool &multi) {
  std::string a = att;
  size_t lb = a.find('[');
  multi = lb != std::string::npos;
  if (multi) {
    size_t rb = a.find(']');
    a = a.substr(lb + 1, rb == std::string::npos ? std::string::npos : rb - lb - 1);
  }
  return split(a, " ,");
}
static Verdict ref_choice(const std::string &value, const std::string &choices_att) {
  bool multi;
  std::vector<std::string> ch = choice_tokens(choices_att, multi);
  if (ch.empty()) return VALID;
  std::string v = trim(value);
  const std::string &head = ch.front();
  if (head == "bool") return ref_bool(v).v;
  if (head == "float") return ref_float(v).v;
  if (head == "float+") {
    Lit l = ref_float(v);
    if (l.v != VALID) return l.v;
    if (l.d == 0 && v[0] == '-') return UNCLEAR;
    return l.d >= 0 ? VALID : INVALID;
  }
  if (head == "int") return ref_int(v).v;
  if (head == "int+") {
    Lit l = ref_int(v);
    if (l.v != VALID) return l.v;
    if (l.i == 0 && v[0] == '-') return UNCLEAR;
    return l.i >= 0 ? VALID : INVALID;
  }
  if (!multi) return std::find(ch.begin(), ch.end(), v) != ch.end() ? VALID : INVALID;
  for (auto &w : split(v, " ,"))
    if (std::find(ch.begin(), ch.end(), w) == ch.end()) return INVALID;
  return VALID;
}

// =====================================================================================================================
// (a) options
// =====================================================================================================================
struct DNode {  // description node (own representation)
  std::string name, text;
  std::map<std::string, std::string> attr;
  std::vector<DNode> kids;
  bool has(const std::string &k) const { return attr.count(k) > 0; }
  std::string get(const std::string &k) const {
    auto it = attr.find(k);
    return it == attr.end() ? "" : it->second;
  }
  const DNode *kid(const std::string &n) const {
    for (auto &k : kids)
      if (k.name == n) return &k;
    return nullptr;
  }
};
struct TNode {  // user tree / resolved tree
  bool section = false;  // declared with children: its own text is not an option value and is not compared
  std::string name, value;
  std::map<std::string, std::string> attr;
  std::vector<TNode> kids;
};

static DNode from_property(const Property &p) {
  DNode d;
  d.name = p.name();
  d.text = p.value();
  for (auto it = p.firstAttribute(); it != p.lastAttribute(); ++it) d.attr[it->first] = it->second;
  for (const Property &c : p) d.kids.push_back(from_property(c));
  return d;
}
static DNode load_xml_root(const std::string &file) {
  Property p;
  p.LoadFromXML(file);
  if (p.begin() == p.end()) throw std::runtime_error("empty description " + file);
  return from_property(*p.begin());
}
static void resolve_links(DNode &d, const std::string &dir, std::set<std::string> &used) {
  if (d.has("link")) {
    for (auto &tok : split(d.get("link"), " ,")) {
      used.insert(tok);
      DNode pkg = load_xml_root(dir + "subpackages/" + tok);
      for (auto &a : pkg.attr)
        if (!d.has(a.first)) d.attr[a.first] = a.second;
      for (auto &k : pkg.kids) d.kids.push_back(k);
    }
  }
  for (auto &k : d.kids) resolve_links(k, dir, used);
}

struct Calc {
  std::string dirkey, dir, name;
  DNode root;  // the calculator node (child of <options>)
  bool usable = false;
  std::string why;
  std::set<std::string> links;
};
static std::string dir_of(const std::string &key) {
  const char *e = getenv("VV_REPO");
  std::string repo = e ? e : "/repo";
  if (key == "xtp") return repo + "/xtp/share/xtp/xml/";
  return repo + "/tools/src/tests/DataFiles/optionshandler/";
}
static bool sane(const DNode &d, std::string &why) {
  std::map<std::string, int> n;
  for (auto &k : d.kids) n[k.name]++;
  for (auto &kv : n)
    if (kv.second > 1) {
      why = "sibling name '" + kv.first + "' declared twice under '" + d.name + "'";
      return false;
    }
  for (auto &k : d.kids)
    if (!sane(k, why)) return false;
  return true;
}
static const Calc &calc(const std::string &dirkey, const std::string &name) {
  static std::map<std::string, Calc> cache;
  std::string key = dirkey + "/" + name;
  auto it = cache.find(key);
  if (it != cache.end()) return it->second;
  Calc c;
  c.dirkey = dirkey;
  c.dir = dir_of(dirkey);
  c.name = name;
  try {
    DNode top = load_xml_root(c.dir + name + ".xml");
    if (top.name != "options" || top.kids.size() != 1 || top.kids[0].name != name) {
      c.why = "root is not <options><" + name + ">";
    } else {
      c.root = top.kids[0];
      resolve_links(c.root, c.dir, c.links);
      c.usable = sane(c.root, c.why);
    }
  } catch (const std::exception &e) {
    c.why = e.what();
  }
  return cache[key] = c;
}
static const std::vector<std::pair<std::string, std::string>> &all_calcs() {
  static std::vector<std::pair<std::string, std::string>> v = [] {
    std::vector<std::pair<std::string, std::string>> o;
    for (std::string dk : {"xtp", "tools"}) {
      std::vector<std::string> names;
      std::error_code ec;
      for (auto &e : fs::directory_iterator(dir_of(dk), ec))
        if (e.is_regular_file() && e.path().extension() == ".xml") names.push_back(e.path().stem().string());
      std::sort(names.begin(), names.end());
      for (auto &n : names) o.emplace_back(dk, n);
    }
    return o;
  }();
  return v;
}

static json tnode_json(const TNode &t) {
  json j{{"n", t.name}, {"v", t.value}};
  if (!t.attr.empty()) j["a"] = t.attr;
  json c = json::array();
  for (auto &k : t.kids) c.push_back(tnode_json(k));
  j["c"] = c;
  return j;
}
static TNode tnode_from(const json &j) {
  TNode t;
  t.name = j.at("n").get<std::string>();
  t.value = j.at("v").get<std::string>();
  if (j.contains("a")) t.attr = j.at("a").get<std::map<std::string, std::string>>();
  for (auto &k : j.at("c")) t.kids.push_back(tnode_from(k));
  return t;
}

// ---------------------------------------------------------------------------------------------------- the oracle
struct Oracle {
  std::set<std::string> undeclared, missing, bad;
  bool unclear = false;
  bool touched_link = false, touched_unchecked = false;
  int max_mult = 0;
};
static bool is_reserved(const std::string &s) { return s == "OPTIONAL" || s == "REQUIRED"; }

// Statement: the resolved options contain each user-supplied leaf with the user's value, every other declared leaf with its
// default (optional ones the user left out being absent), and nothing else; undeclared names (outside unchecked sections),
// missing REQUIRED options and values outside the declared choices are errors.  Lists: one resolved element per user element.
static void resolve(const DNode &D, const TNode *U, Oracle &o, std::vector<TNode> &out) {
  std::string def = D.get("default");
  if (!U) {
    if (D.has("default") && def == "OPTIONAL") return;
    if (D.has("default") && def == "REQUIRED") o.missing.insert(D.name);
  }
  bool unchecked = D.has("unchecked"), list = D.has("list");
  if (U && D.has("link")) o.touched_link = true;
  if (U && !unchecked)
    for (auto &uc : U->kids)
      if (!D.kid(uc.name)) o.undeclared.insert(uc.name);
  TNode T;
  T.name = D.name;
  T.section = !D.kids.empty();
  if (D.kids.empty()) {
    if (U)
      T.value = U->value;
    else
      T.value = (D.has("default") && !is_reserved(def)) ? def : D.text;
    if (D.has("choices") && !(unchecked && U && !U->kids.empty())) {
      Verdict v = ref_choice(T.value, D.get("choices"));
      if (v == INVALID) o.bad.insert(D.name);
      if (v == UNCLEAR) o.unclear = true;
    }
  } else {
    T.value = U ? U->value : D.text;
    if (list && U) {
      std::vector<std::string> tags;
      for (auto &k : D.kids)
        if (std::find(tags.begin(), tags.end(), k.name) == tags.end()) tags.push_back(k.name);
      for (auto &t : tags) {
        int m = 0;
        for (auto &uc : U->kids)
          if (uc.name == t) {
            resolve(*D.kid(t), &uc, o, T.kids);
            ++m;
          }
        o.max_mult = std::max(o.max_mult, m);
      }
    } else {
      for (auto &k : D.kids) {
        const TNode *u = nullptr;
        if (U)
          for (auto &uc : U->kids)
            if (uc.name == k.name) u = &uc;
        resolve(k, u, o, T.kids);
      }
    }
  }
  if (U && unchecked) {
    if (!U->kids.empty()) o.touched_unchecked = true;
    for (auto &uc : U->kids) T.kids.push_back(uc);
  }
  out.push_back(T);
}

// leaf lines "path=value" (for messages) and a canonical form with unordered siblings (for the comparison)
static void flatten(const TNode &t, const std::string &path, std::multiset<std::string> &out) {
  std::string p = path.empty() ? t.name : path + "." + t.name;
  if (t.kids.empty()) out.insert(t.section ? p + "{}" : p + "=" + quote(trim(t.value)));
  for (auto &k : t.kids) flatten(k, p, out);
}
static std::string canon(const TNode &t) {
  if (t.kids.empty()) return t.section ? t.name + "{}" : t.name + "=" + quote(trim(t.value));
  std::vector<std::string> c;
  for (auto &k : t.kids) c.push_back(canon(k));
  std::sort(c.begin(), c.end());
  std::string s = t.name + "{";
  for (auto &x : c) s += x + ";";
  return s + "}";
}
static TNode from_result(const Property &p) {
  TNode t;
  t.name = p.name();
  t.value = p.value();
  for (const Property &c : p) t.kids.push_back(from_result(c));
  return t;
}
static void mark_sections(TNode &t, const DNode &D) {
  t.section = !D.kids.empty();
  for (auto &k : t.kids)
    if (const DNode *dk = D.kid(k.name)) mark_sections(k, *dk);
}
static void to_property(const TNode &t, Property &parent) {
  Property &p = parent.add(t.name, t.value);
  for (auto &a : t.attr) p.setAttribute(a.first, a.second);
  for (auto &k : t.kids) to_property(k, p);
}
// does `msg` name `name` (as a delimited word)?
static bool names(const std::string &msg, const std::string &name) {
  if (name.empty()) return false;
  size_t pos = 0;
  auto is_word = [](char c) { return isalnum(static_cast<unsigned char>(c)) || c == '_' || c == '-'; };
  while ((pos = msg.find(name, pos)) != std::string::npos) {
    bool l = pos == 0 || !is_word(msg[pos - 1]);
    bool r = pos + name.size() >= msg.size() || !is_word(msg[pos + name.size()]);
    if (l && r) return true;
    ++pos;
  }
  return false;
}
static std::string join(const std::set<std::string> &s) {
  std::string o;
  for (auto &x : s) o += x + " ";
  return o;
}

static Result run_options(const json &c) {
  Result r;
  const Calc &C = calc(c.at("dir"), c.at("calc"));
  if (!C.usable) {
    r.discard = true;
    return r;
  }
  TNode user = tnode_from(c.at("user"));
  Oracle o;
  std::vector<TNode> exp;
  resolve(C.root, &user, o, exp);
  bool uses_unchecked = o.touched_unchecked;
  if (uses_unchecked && known(K_UNCHECKED)) {
    // confirmed defect: content below an unchecked section is only accepted when the USER node carries the attribute too;
    // add it (what a user has to do today) so that the copy-over of the content is still checked
    std::function<void(const DNode &, TNode &)> mark = [&](const DNode &D, TNode &U) {
      if (D.has("unchecked")) U.attr["unchecked"] = "";
      for (auto &uk : U.kids)
        if (const DNode *dk = D.kid(uk.name)) mark(*dk, uk);
    };
    mark(C.root, user);
    r.cls("excluded-known:" + std::string(K_UNCHECKED) + "(user node marked unchecked)");
  }
  std::string mut = c.value("mut", "none");
  r.cls("file:" + C.dirkey + "/" + C.name);
  r.cls("mutant:" + mut);
  if (o.touched_link) r.cls("touches-linked-subpackage");
  if (o.max_mult >= 2) r.cls("list-multiplicity>=2");
  if (o.max_mult == 1) r.cls("list-multiplicity=1");
  if (uses_unchecked) r.cls("content-under-unchecked-section");
  r.nontrivial = o.touched_link || o.max_mult >= 2;

  Property uprop;
  Property &opts = uprop.add("options", "");
  to_property(user, opts);
  votca::tools::OptionsHandler handler(C.dir);
  bool threw = false;
  std::string what;
  TNode got;
  try {
    Property res = handler.ProcessUserInput(uprop, C.name);
    got = from_result(res.get("options." + C.name));
    mark_sections(got, C.root);
  } catch (const std::runtime_error &e) {
    threw = true;
    what = e.what();
  }
  bool expect_error = !o.undeclared.empty() || !o.missing.empty() || !o.bad.empty();
  if (o.unclear && !expect_error) {
    r.cls("unclear-literal(either outcome)");
    r.nontrivial = false;
    if (threw) return r;
  }
  if (expect_error) {
    std::string kind = !o.undeclared.empty() ? "undeclared" : !o.missing.empty() ? "missing-required" : "bad-value";
    r.cls("expect-error:" + kind);
    if (!threw) {
      r.fail("OptionsHandler/accepts-invalid/" + kind, "calculator " + C.name + ": user tree with " + kind + " {" + join(o.undeclared) + join(o.missing) +
                                                          join(o.bad) + "} was accepted");
      return r;
    }
    bool named = false;
    for (auto *s : {&o.undeclared, &o.missing, &o.bad})
      for (auto &n : *s)
        if (names(what, n)) named = true;
    if (!named)
      r.fail("OptionsHandler/error-does-not-name-offender/" + kind,
             "calculator " + C.name + ": offenders {" + join(o.undeclared) + join(o.missing) + join(o.bad) + "} but the message is " + quote(what));
    return r;
  }
  r.cls("expect-accept");
  if (threw) {
    std::string key = "OptionsHandler/rejects-valid";
    if (uses_unchecked && !known(K_UNCHECKED)) key = K_UNCHECKED;
    r.fail(key, "calculator " + C.name + ": valid user tree rejected: " + quote(what));
    return r;
  }
  if (exp.size() != 1 || canon(exp[0]) != canon(got)) {
    std::multiset<std::string> fe, fg;
    if (!exp.empty()) flatten(exp[0], "", fe);
    flatten(got, "", fg);
    std::string miss, extra;
    int n = 0;
    for (auto &x : fe)
      if (fg.count(x) < fe.count(x) && n++ < 6) miss += x + " ";
    n = 0;
    for (auto &x : fg)
      if (fe.count(x) < fg.count(x) && n++ < 6) extra += x + " ";
    std::string key = "OptionsHandler/merge";
    if (!miss.empty() && extra.empty()) key = "OptionsHandler/merge-lost-leaf";
    if (miss.empty() && !extra.empty()) key = "OptionsHandler/merge-invented-leaf";
    if (miss.empty() && extra.empty()) key = "OptionsHandler/merge-list-grouping";
    r.fail(key, "calculator " + C.name + ": resolved tree differs; expected but absent/different: [" + miss + "] present but not expected: [" + extra + "]");
  }
  return r;
}

// ---------------------------------------------------------------------------------------------------- generator
static bool needs_user(const DNode &D) {
  std::string def = D.get("default");
  if (D.has("default") && def == "REQUIRED") return true;
  if (D.has("default") && def == "OPTIONAL") return false;
  if (D.kids.empty()) {
    if (!D.has("choices")) return false;
    return ref_choice(D.has("default") ? def : D.text, D.get("choices")) != VALID;
  }
  for (auto &k : D.kids)
    if (needs_user(k)) return true;
  return false;
}
static std::string gen_free_text() {
  static const std::vector<std::string> w = {"a", "xyz", "file.xml", "/tmp/x", "n e h", "1:s3", "def2-tzvp", "0.5", "", "  padded  ", "A_b-c"};
  return pickv(w);
}
static std::string pad(const std::string &s) {
  int k = ri(0, 9);
  if (k == 0) return " " + s + " ";
  if (k == 1) return "\n    " + s + "\n  ";
  return s;
}
static std::string gen_float(bool nonneg) {
  std::string s = std::to_string(ri(0, 999));
  if (rbool(60)) s += "." + std::to_string(ri(0, 99999));
  if (rbool(35)) s += std::string(rbool() ? "e" : "E") + pick<std::string>({"", "-", "+"}) + std::to_string(ri(0, 12));
  // magnitudes beyond single precision (valid doubles: 3.5e38 .. 9.9e300 and 1e-39 .. 1e-300)
  if (rbool(8)) s = std::to_string(ri(1, 9)) + "." + std::to_string(ri(0, 99999)) + "e" + pick<std::string>({"", "+", "-"}) + std::to_string(pick<int>({38, 39, 45, 100, 300}));
  if (!nonneg && rbool(40)) s = "-" + s;
  return s;
}
static std::string gen_valid(const DNode &D) {
  if (!D.has("choices")) return gen_free_text();
  bool multi;
  std::vector<std::string> ch = choice_tokens(D.get("choices"), multi);
  if (ch.empty()) return gen_free_text();
  const std::string &h = ch.front();
  if (h == "bool") return pad(pick<std::string>({"true", "false", "1", "0", "True", "FALSE", "tRuE"}));
  if (h == "int") return pad((rbool(40) ? "-" : "") + std::to_string(ri(0, 100000)));
  if (h == "int+") return pad(std::to_string(ri(0, 100000)));
  if (h == "float") return pad(gen_float(false));
  if (h == "float+") return pad(gen_float(true));
  if (!multi) return pad(pickv(ch));
  int n = ri(0, int(ch.size()));
  std::string s;
  for (int i = 0; i < n; ++i) s += (i ? pick<std::string>({",", " ", ", "}) : "") + pickv(ch);
  return pad(s);
}
static std::string gen_invalid(const DNode &D) {
  bool multi;
  std::vector<std::string> ch = choice_tokens(D.get("choices"), multi);
  const std::string &h = ch.front();
  if (h == "bool") return pick<std::string>({"yes", "2", "tru", "on", "-1", "true false"});
  if (h == "int") return pick<std::string>({"1.5", "abc", "1e3", "12x", "--3", "3 4"});
  if (h == "int+") return pick<std::string>({"-1", "-250", "x", "2.0", "1e2"});
  if (h == "float") return pick<std::string>({"abc", "1.2.3", "1,5", "1e", "--2.0", "3f"});
  if (h == "float+") return pick<std::string>({"-0.5", "-1e-3", "abc", "-7", "1..0"});
  if (!multi) return pick<std::string>({"zz_nochoice", ch.front() + "x", ch.front() + " " + ch.back()});
  return pickv(ch) + pick<std::string>({",", " "}) + "zz_nochoice";
}
struct Site {
  std::vector<int> path;  // child indices from the calculator node
  const DNode *d;
};
static TNode gen_extra(int depth) {
  static const std::vector<std::string> nm = {"method", "scf", "maxcore", "basis", "x_1", "method"};
  TNode t;
  t.name = pickv(nm);
  if (depth < 2 && rbool(25)) {
    int n = ri(1, 2);
    for (int i = 0; i < n; ++i) t.kids.push_back(gen_extra(depth + 1));
  } else
    t.value = gen_free_text();
  return t;
}
static TNode build(const DNode &D, int pct, std::vector<int> path, std::vector<Site> &sites) {
  TNode T;
  T.name = D.name;
  sites.push_back(Site{path, &D});
  if (D.kids.empty()) {
    if (D.has("unchecked")) {
      int n = ri(0, 3);
      for (int i = 0; i < n; ++i) T.kids.push_back(gen_extra(0));
    } else
      T.value = gen_valid(D);
    return T;
  }
  std::vector<const DNode *> chosen;
  if (D.has("list")) {
    for (auto &k : D.kids) {
      int m = pick<int>({0, 1, 1, 2, 3});
      for (int i = 0; i < m; ++i) chosen.push_back(&k);
    }
  } else {
    for (auto &k : D.kids)
      if (needs_user(k) || ri(0, 99) >= 100 - pct) chosen.push_back(&k);  // shrinks towards 'not mentioned'
  }
  if (chosen.size() > 1 && rbool(50)) {
    std::vector<int> p = rperm(int(chosen.size()));
    std::vector<const DNode *> s;
    for (int i : p) s.push_back(chosen[size_t(i)]);
    chosen = s;
  }
  for (size_t i = 0; i < chosen.size(); ++i) {
    std::vector<int> p2 = path;
    p2.push_back(int(i));
    T.kids.push_back(build(*chosen[i], pct, p2, sites));
  }
  return T;
}
static TNode *at(TNode &root, const std::vector<int> &path) {
  TNode *t = &root;
  for (int i : path) t = &t->kids[size_t(i)];
  return t;
}
static void collect_names(const DNode &d, std::set<std::string> &out) {
  out.insert(d.name);
  for (auto &k : d.kids) collect_names(k, out);
}

static json gen_options() {
  const auto &all = all_calcs();
  const Calc *C = nullptr;
  std::pair<std::string, std::string> which;
  for (int tries = 0; tries < 20 && !(C && C->usable); ++tries) {
    which = pickv(all);
    C = &calc(which.first, which.second);
  }
  if (!C || !C->usable) return json{{"dir", "xtp"}, {"calc", "none"}, {"user", json{{"n", "none"}, {"v", ""}, {"c", json::array()}}}};
  int pct = pick<int>({0, 5, 15, 40, 80});
  std::vector<Site> sites;
  TNode user = build(C->root, pct, {}, sites);
  std::string mut = pick<std::string>({"none", "none", "none", "undeclared", "required", "badvalue"});
  if (mut == "undeclared") {
    std::vector<const Site *> cand;
    for (auto &s : sites)
      if (!s.d->has("unchecked")) cand.push_back(&s);
    const Site *s = pickv(cand);
    std::string name = "zz_undeclared";
    int how = ri(0, 2);
    if (how == 1 && !s->d->kids.empty()) name = pickv(s->d->kids).name + "x";
    if (how == 2) {  // a name that is declared somewhere else in this calculator, but not here
      std::set<std::string> allnames;
      collect_names(C->root, allnames);
      std::vector<std::string> elsewhere;
      for (auto &n : allnames)
        if (!s->d->kid(n)) elsewhere.push_back(n);
      if (!elsewhere.empty()) name = pickv(elsewhere);
    }
    TNode extra;
    extra.name = name;
    extra.value = "1";
    TNode *t = at(user, s->path);
    t->kids.insert(t->kids.begin() + ri(0, int(t->kids.size())), extra);
  } else if (mut == "required") {
    std::vector<const Site *> cand;
    for (auto &s : sites)
      if (!s.path.empty() && s.d->get("default") == "REQUIRED") cand.push_back(&s);
    if (cand.empty())
      mut = "none";
    else {
      const Site *s = pickv(cand);
      std::vector<int> pp(s->path.begin(), s->path.end() - 1);
      TNode *t = at(user, pp);
      t->kids.erase(t->kids.begin() + s->path.back());
    }
  } else if (mut == "badvalue") {
    std::vector<const Site *> cand;
    for (auto &s : sites)
      if (s.d->kids.empty() && s.d->has("choices") && !s.d->has("unchecked")) cand.push_back(&s);
    if (cand.empty())
      mut = "none";
    else {
      const Site *s = pickv(cand);
      at(user, s->path)->value = gen_invalid(*s->d);
    }
  }
  return json{{"dir", which.first}, {"calc", which.second}, {"mut", mut}, {"user", tnode_json(user)}};
}

// =====================================================================================================================
// (b) XML round trip
// =====================================================================================================================
struct MemFile {  // anonymous in-memory file, reachable by name for LoadFromXML(filename)
  int fd = -1;
  std::string path;
  explicit MemFile(const std::string &content) {
    fd = memfd_create("vv_c11", 0);
    if (fd < 0) throw std::runtime_error("memfd_create failed");
    size_t off = 0;
    while (off < content.size()) {
      ssize_t n = write(fd, content.data() + off, content.size() - off);
      if (n <= 0) throw std::runtime_error("write to memfd failed");
      off += size_t(n);
    }
    path = "/proc/self/fd/" + std::to_string(fd);
  }
  ~MemFile() {
    if (fd >= 0) close(fd);
  }
};

static bool breaks_xml(const TNode &t) {
  // without escaping: & and < (and the sequence ]]>) are not allowed in character data, & < " not in a "..." attribute value
  if (t.value.find_first_of("&<") != std::string::npos || t.value.find("]]>") != std::string::npos) return true;
  for (auto &a : t.attr)
    if (a.second.find_first_of("&<\"") != std::string::npos) return true;
  for (auto &k : t.kids)
    if (breaks_xml(k)) return true;
  return false;
}
static bool has_meta(const TNode &t) {
  if (t.value.find_first_of("&<>\"'") != std::string::npos) return true;
  for (auto &a : t.attr)
    if (a.second.find_first_of("&<>\"'") != std::string::npos) return true;
  for (auto &k : t.kids)
    if (has_meta(k)) return true;
  return false;
}
static std::string diff_tree(const TNode &e, const Property &g, const std::string &path) {
  std::string p = path + "/" + e.name;
  if (g.name() != e.name) return p + ": name " + quote(g.name());
  if (trim(g.value()) != trim(e.value)) return p + ": value " + quote(trim(g.value())) + " expected " + quote(trim(e.value));
  std::map<std::string, std::string> ga;
  for (auto it = g.firstAttribute(); it != g.lastAttribute(); ++it) ga[it->first] = it->second;
  if (ga != e.attr) {
    std::string s = p + ": attributes {";
    for (auto &a : ga) s += a.first + "=" + quote(a.second) + " ";
    s += "} expected {";
    for (auto &a : e.attr) s += a.first + "=" + quote(a.second) + " ";
    return s + "}";
  }
  size_t n = 0;
  for (const Property &c : g) {
    if (n >= e.kids.size()) return p + ": extra child " + quote(c.name());
    std::string d = diff_tree(e.kids[n], c, p);
    if (!d.empty()) return d;
    ++n;
  }
  if (n != e.kids.size()) return p + fmt(": %zu children, expected %zu", n, e.kids.size());
  return "";
}

static Result run_xml(const json &c) {
  Result r;
  TNode top = tnode_from(c.at("tree"));
  bool level1 = c.at("level1").get<bool>();
  bool brk = breaks_xml(top);
  if (brk && known(K_ESC)) {
    r.cls(std::string("excluded-known:") + K_ESC);
    r.discard = true;
    return r;
  }
  r.nontrivial = has_meta(top);
  if (brk) r.cls("has & or < (or \" in an attribute)");
  else if (r.nontrivial) r.cls("has only > ' \" metacharacters");
  else r.cls("no-metacharacter");
  r.cls(level1 ? "printed-from-unnamed-root(level 1)" : "printed-top-node(level 0)");
  Property root;
  to_property(top, root);
  std::ostringstream os;
  votca::tools::PropertyIOManipulator iom(votca::tools::PropertyIOManipulator::XML, level1 ? 1 : 0, "");
  if (level1)
    os << iom << root;
  else
    os << iom << *root.begin();
  std::string xml = os.str();
  std::string key = brk ? K_ESC : "Property/xml-roundtrip";
  Property back;
  try {
    MemFile f(xml);
    back.LoadFromXML(f.path);
  } catch (const std::exception &e) {
    r.fail(key, std::string("written XML cannot be loaded: ") + e.what() + " | XML: " + quote(xml));
    return r;
  }
  size_t ntop = 0;
  for (auto it = back.begin(); it != back.end(); ++it) ++ntop;
  if (ntop != 1) {
    r.fail(key, fmt("loaded document has %zu top elements", ntop));
    return r;
  }
  std::string d = diff_tree(top, *back.begin(), "");
  if (!d.empty()) r.fail(key, "round trip differs at " + d + " | XML: " + quote(xml));
  return r;
}

static std::string gen_name() {
  static const std::string first = "abcxyzABQ_", rest = "abcxyz019_.-";
  std::string s(1, first[size_t(ri(0, int(first.size()) - 1))]);
  int n = ri(0, 5);
  for (int i = 0; i < n; ++i) s += rest[size_t(ri(0, int(rest.size()) - 1))];
  if (lower(s).compare(0, 3, "xml") == 0) s = "_" + s;
  return s;
}
static std::string gen_text(bool attribute) {
  static const std::vector<std::string> plain = {"a", "b", "Z", "0", "42", " ", "  ", ".", "-", "_", "/", "\xc3\xa9", "\xe6\x97\xa5", "e-5", "]]", "#", ";", "amp;", "="};
  static const std::vector<std::string> harmless = {">", "'", "\"", "]]>"};
  static const std::vector<std::string> breaking = {"&", "<", "&amp;", "<b>", "a<b", "x&y", "&#65;", "</"};
  int n = ri(0, 5);
  std::string s;
  for (int i = 0; i < n; ++i) {
    int k = ri(0, 19);
    if (k < 13) s += pickv(plain);
    else if (k < 16) {
      std::string h = pickv(harmless);
      if (attribute && h == "\"" && known(K_ESC)) h = "'";
      if (!attribute && h == "]]>" && known(K_ESC)) h = "]] >";
      s += h;
    } else if (k < 18) {
      if (!known(K_ESC)) s += pickv(breaking);
      else s += pickv(plain);
    } else if (!attribute) s += pick<std::string>({"\n", "\t", "\n  "});
  }
  return s;
}
static TNode gen_tree(int depth, std::vector<std::string> &pool) {
  TNode t;
  t.name = (!pool.empty() && rbool(35)) ? pickv(pool) : gen_name();  // repeated sibling / cousin names are frequent
  pool.push_back(t.name);
  if (rbool(70)) t.value = gen_text(false);
  int na = pick<int>({0, 0, 0, 1, 1, 2, 3});
  for (int i = 0; i < na; ++i) t.attr[gen_name()] = gen_text(true);
  if (depth < 5) {
    int nk = depth == 0 ? rcount(0, 5) : pick<int>({0, 0, 0, 1, 2, 3});
    for (int i = 0; i < nk; ++i) t.kids.push_back(gen_tree(depth + 1, pool));
  }
  return t;
}
static json gen_xml() {
  std::vector<std::string> pool;
  return json{{"tree", tnode_json(gen_tree(0, pool))}, {"level1", rbool()}};
}

// =====================================================================================================================
// (c) as<T>
// =====================================================================================================================
static const std::string VEC_SEPS = " ,\n\t";
template <class F>
static bool throws_runtime(F f, std::string &what) {
  try {
    f();
  } catch (const std::runtime_error &e) {
    what = e.what();
    return true;
  }
  return false;
}
static Result run_as(const json &c) {
  Result r;
  std::string type = c.at("type"), lit = c.at("lit");
  Property holder;
  Property &p = holder.add("x", lit);
  std::string t = trim(lit), what;
  r.cls("type:" + type);
  auto verdict_cls = [&](Verdict v) { r.cls(type + (v == VALID ? ":accept" : v == INVALID ? ":reject" : ":unclear")); };
  std::string key = "Property::as<" + type + ">";
  if (type == "bool") {
    Lit e = ref_bool(t);
    verdict_cls(e.v);
    r.nontrivial = !(t == "true" || t == "false");
    bool got = false;
    bool threw = throws_runtime([&] { got = p.as<bool>(); }, what);
    if (e.v == VALID && (threw || got != (e.i != 0))) r.fail(key, quote(lit) + (threw ? " rejected: " + what : " gives the wrong value"));
    if (e.v == INVALID && !threw) r.fail(key + "/accepts", quote(lit) + " accepted as " + (got ? "true" : "false"));
    return r;
  }
  if (type == "int") {
    Lit e = ref_int(t);
    verdict_cls(e.v);
    r.nontrivial = !(e.v == VALID && t == std::to_string(e.i));
    Index got = 0;
    bool threw = throws_runtime([&] { got = p.as<Index>(); }, what);
    if (e.v == VALID && (threw || got != e.i)) r.fail(key, quote(lit) + (threw ? " rejected: " + what : fmt(" gives %ld", long(got))));
    if (e.v == INVALID && !threw) r.fail(key + "/accepts", quote(lit) + fmt(" accepted as %ld", long(got)));
    return r;
  }
  if (type == "float") {
    Lit e = ref_float(t);
    verdict_cls(e.v);
    r.nontrivial = e.v != VALID || t.find_first_of("eE") != std::string::npos;
    double got = 0;
    bool threw = throws_runtime([&] { got = p.as<double>(); }, what);
    // both sides are correctly rounded decimal->binary conversions; 1 ulp of slack
    if (e.v == VALID && (threw || !close(got, e.d, 2.3e-16, 0))) r.fail(key, quote(lit) + (threw ? " rejected: " + what : fmt(" gives %.17g expected %.17g", got, e.d)));
    if (e.v == INVALID && !threw) r.fail(key + "/accepts", quote(lit) + fmt(" accepted as %.17g", got));
    return r;
  }
  if (type == "str") {
    r.nontrivial = t != lit;
    std::string got = p.as<std::string>();
    if (got != t) r.fail(key, quote(lit) + " gives " + quote(got) + " expected the trimmed text");
    return r;
  }
  // vectors
  std::vector<std::string> tok = split(t, VEC_SEPS);
  bool isint = type == "veci";
  Verdict all = VALID;
  std::vector<double> ed;
  std::vector<long> ei;
  for (auto &w : tok) {
    Lit e = isint ? ref_int(w) : ref_float(w);
    if (e.v == INVALID) all = INVALID;
    if (e.v == UNCLEAR && all != INVALID) all = UNCLEAR;
    ed.push_back(e.d);
    ei.push_back(e.i);
  }
  if (type == "vec3" && tok.size() != 3 && all != INVALID) all = INVALID;  // "Vector3d needs exactly three"
  verdict_cls(all);
  r.cls(fmt("%s:%zu-tokens", type.c_str(), std::min<size_t>(tok.size(), 4)));
  r.nontrivial = all != VALID || t.find_first_of(",\n\t") != std::string::npos;
  std::vector<double> gd;
  std::vector<long> gi;
  bool threw = throws_runtime(
      [&] {
        if (type == "veci") {
          for (Index x : p.as<std::vector<Index>>()) gi.push_back(x);
        } else if (type == "vecd") {
          gd = p.as<std::vector<double>>();
        } else if (type == "vecx") {
          Eigen::VectorXd v = p.as<Eigen::VectorXd>();
          for (Index i = 0; i < v.size(); ++i) gd.push_back(v(i));
        } else {
          Eigen::Vector3d v = p.as<Eigen::Vector3d>();
          gd = {v(0), v(1), v(2)};
        }
      },
      what);
  if (all == VALID) {
    bool same = !threw;
    if (same && isint) same = gi == ei;
    if (same && !isint) {
      same = gd.size() == ed.size();
      for (size_t i = 0; same && i < gd.size(); ++i) same = close(gd[i], ed[i], 2.3e-16, 0);
    }
    if (!same) r.fail(key, quote(lit) + (threw ? " rejected: " + what : " gives other elements than its tokens"));
  } else if (all == INVALID && !threw)
    r.fail(key + "/accepts", quote(lit) + fmt(" accepted (%zu tokens)", tok.size()));
  return r;
}

static std::string gen_number(bool want_int) {
  std::string s;
  int form = ri(0, 19);
  std::string digits = std::to_string(ri(0, 99999));
  if (form < 8) s = digits;
  else if (form < 11) s = "-" + digits;
  else if (form < 12) s = "+" + digits;
  else if (form < 15) s = std::string(rbool(30) ? "-" : "") + digits + "." + std::to_string(ri(0, 9999));
  else if (form < 17) s = std::string(rbool(30) ? "-" : "") + digits + (rbool() ? "." + std::to_string(ri(0, 999)) : "") + (rbool() ? "e" : "E") +
                          pick<std::string>({"", "-", "+"}) + std::to_string(ri(0, 20));
  else if (form == 17) s = pick<std::string>({".5", "5.", "1e", "1e+", "e5", ".", "-", "+", "", "0x1A", "1e400", "1e-400", "inf", "-inf", "nan", "NaN", "Infinity", "1d5",
                                              "00012", "-0", "-0.0", "9223372036854775807", "9223372036854775808", "99999999999999999999", "1_000", "1 000"});
  else if (form == 18) s = digits + pick<std::string>({"x", "f", "L", "%", " 1", ",", ";", "e", "..", "-"});
  else s = pick<std::string>({"--", "+-", "a", " "}) + digits;
  (void)want_int;
  return s;
}
static json gen_as() {
  std::string type = pick<std::string>({"bool", "int", "float", "float", "str", "vecd", "veci", "vec3", "vec3", "vecx"});
  std::string lit;
  if (type == "bool") {
    lit = pick<std::string>({"true", "false", "1", "0", "True", "FALSE", "tRuE", "fAlSe", "TRUE", "yes", "no", "on", "off", "2", "-1", "01", "10", "t", "f", "",
                             "true ", " false", "true false", "1.0", "truee", "nottrue", "0 ", "\ttrue\n"});
  } else if (type == "int" || type == "float") {
    lit = gen_number(type == "int");
    if (rbool(15)) lit = pick<std::string>({" ", "\n", "\t "}) + lit + pick<std::string>({" ", "\n", ""});
  } else if (type == "str") {
    lit = pick<std::string>({"", " ", "a", " a ", "\n a b \t", "a  b", "\xc3\xa9 ", "\v x \f"});
  } else {
    int n = type == "vec3" ? pick<int>({3, 3, 3, 3, 2, 4, 0, 1}) : rcount(0, 8);
    for (int i = 0; i < n; ++i) {
      if (i) lit += pick<std::string>({" ", ",", ", ", "\n", "\t", "  ", " ,"});
      lit += (rbool(88) ? (type == "veci" ? std::to_string(ri(-999, 999)) : gen_number(false)) : gen_number(type == "veci"));
    }
    if (rbool(10)) lit = " " + lit + "\n";
    if (rbool(5)) lit += ",";
  }
  return json{{"type", type}, {"lit", lit}};
}

// the harness only builds and compares small trees; keep the footprint of the 16 parallel processes small
extern "C" const char *__asan_default_options() { return "quarantine_size_mb=32"; }

int main(int argc, char **argv) {
  std::vector<Sub> subs;
  // cheap subs first: when a starved machine exhausts the time budget, the expensive one is cut short, not skipped ones
  subs.push_back(Sub{"astype", gen_as, run_as, 0.25, 100, nullptr});
  subs.push_back(Sub{"xmlroundtrip", gen_xml, run_xml, 0.3, 100, nullptr});
  subs.push_back(Sub{"options", gen_options, run_options, 0.45, 100, nullptr});
  return harness_main(argc, argv, "C11", subs);
}
