// Controlled scheduler for code instrumented with the VOTCA_VERIF hooks (tools::Mutex, tools::Thread).
//
// Every hook is a yield point: the calling thread parks, the scheduler computes the set of runnable
// threads from its own model of every mutex (binary semaphore: VOTCA unlocks mutexes from other threads)
// and of thread life cycles, and wakes exactly one of them, chosen by the next element of a generated
// choice sequence.  Exactly one thread runs between two yield points, so a run is a deterministic function
// of (program, choice sequence).  No runnable thread while some thread has not ended = deadlock.
//
// Used inside a fork()ed child per case (a deadlocked process cannot be unwound, only left).
#pragma once
#include <pthread.h>
#include <votca/tools/verif_hook.h>

#include <condition_variable>
#include <functional>
#include <map>
#include <memory>
#include <mutex>
#include <string>
#include <vector>

namespace vvs {

enum Pending { P_NONE = 0, P_LOCK = 1, P_JOIN = 2 };

struct T {
  int id = 0;
  pthread_t pt{};
  bool ended = false;
  bool parked = false;
  bool go = false;
  int pending = P_NONE;
  const void *pobj = nullptr;  // mutex for P_LOCK
  pthread_t jtarget{};         // for P_JOIN
  std::condition_variable cv;
};

struct Sched {
  std::mutex mu;
  std::condition_variable reg_cv;
  std::vector<std::unique_ptr<T>> threads;
  std::map<const void *, bool> locked;
  std::vector<unsigned char> choices;
  size_t pos = 0;
  long steps = 0, decisions = 0, max_steps = 200000;
  bool active = false;
  int running = -1;
  int max_runnable = 0;          // largest runnable set seen (schedule was a real choice)
  int nonzero_first_reader = 0;  // set by harness
  std::function<void(const std::string &)> on_fatal;  // called (with mu held) on deadlock / livelock; must not return
  std::vector<std::string> trace;                     // compact event trace
  bool keep_trace = true;

  T *self() {
    pthread_t me = pthread_self();
    for (auto &t : threads)
      if (pthread_equal(t->pt, me)) return t.get();
    return nullptr;
  }
  T *by_pt(pthread_t p) {
    for (auto &t : threads)
      if (pthread_equal(t->pt, p)) return t.get();
    return nullptr;
  }
  void note(const std::string &s) {
    if (keep_trace && trace.size() < 4000) trace.push_back(s);
  }

  bool enabled(T &t) {
    if (t.ended || !t.parked) return false;
    if (t.pending == P_LOCK) return !locked[t.pobj];
    if (t.pending == P_JOIN) {
      T *x = by_pt(t.jtarget);
      return x && x->ended;
    }
    return true;
  }

  // mu held. Picks and wakes the next thread (may be `cur`).
  void pick_next(T *cur) {
    if (++steps > max_steps) {
      if (on_fatal) on_fatal("livelock: step budget exhausted");
    }
    std::vector<T *> r;
    bool all_ended = true;
    for (auto &t : threads) {
      if (!t->ended) all_ended = false;
      if (enabled(*t)) r.push_back(t.get());
    }
    if (r.empty()) {
      if (all_ended) return;
      // threads that are neither parked nor ended are still running towards their first park (only the
      // creating window); if none is, this is a deadlock
      bool someone_running = false;
      for (auto &t : threads)
        if (!t->ended && !t->parked) someone_running = true;
      if (someone_running) return;
      std::string d = "deadlock: no runnable thread;";
      for (auto &t : threads)
        if (!t->ended)
          d += " T" + std::to_string(t->id) + (t->pending == P_LOCK ? ":lock" : t->pending == P_JOIN ? ":join" : ":?");
      if (on_fatal) on_fatal(d);
      return;
    }
    if (int(r.size()) > max_runnable) max_runnable = int(r.size());
    T *c = nullptr;
    if (r.size() == 1) {
      c = r[0];
    } else {
      ++decisions;
      if (pos < choices.size()) {
        c = r[choices[pos++] % r.size()];
      } else {
        for (T *x : r)
          if (x == cur) c = x;
        if (!c) c = r[0];
      }
    }
    if (c->pending == P_LOCK) locked[c->pobj] = true;
    c->pending = P_NONE;
    c->go = true;
    running = c->id;
    c->cv.notify_one();
  }

  void yield(int pending, const void *pobj, pthread_t jt = pthread_t{}) {
    std::unique_lock<std::mutex> lk(mu);
    T *t = self();
    if (!t) return;  // thread unknown to the scheduler (should not happen)
    t->pending = pending;
    t->pobj = pobj;
    t->jtarget = jt;
    t->parked = true;
    pick_next(t);
    t->cv.wait(lk, [&] { return t->go; });
    t->go = false;
    t->parked = false;
  }

  void start(const std::vector<unsigned char> &ch) {
    std::unique_lock<std::mutex> lk(mu);
    choices = ch;
    pos = 0;
    auto t = std::make_unique<T>();
    t->id = 0;
    t->pt = pthread_self();
    threads.push_back(std::move(t));
    running = 0;
    active = true;
  }
  void stop() {
    std::unique_lock<std::mutex> lk(mu);
    active = false;
  }

  long event(int kind, const void *obj, long) {
    using namespace votca::tools;
    if (!active) return 0;
    switch (kind) {
      case VV_MUTEX_INIT: {
        std::unique_lock<std::mutex> lk(mu);
        locked[obj] = false;
        return 0;
      }
      case VV_LOCK_REQUEST:
        yield(P_LOCK, obj);
        return 0;
      case VV_LOCK_ACQUIRED:
        return 0;
      case VV_UNLOCKED: {
        {
          std::unique_lock<std::mutex> lk(mu);
          locked[obj] = false;
        }
        yield(P_NONE, nullptr);
        return 0;
      }
      case VV_THREAD_CREATED: {
        pthread_t child = *static_cast<const pthread_t *>(obj);
        {
          std::unique_lock<std::mutex> lk(mu);
          reg_cv.wait(lk, [&] {
            T *c = by_pt(child);
            return c && c->parked;
          });
        }
        yield(P_NONE, nullptr);
        return 0;
      }
      case VV_THREAD_BEGIN: {
        std::unique_lock<std::mutex> lk(mu);
        auto t = std::make_unique<T>();
        t->id = int(threads.size());
        t->pt = pthread_self();
        t->parked = true;
        t->pending = P_NONE;
        T *tp = t.get();
        threads.push_back(std::move(t));
        reg_cv.notify_all();
        tp->cv.wait(lk, [&] { return tp->go; });
        tp->go = false;
        tp->parked = false;
        return 0;
      }
      case VV_THREAD_END: {
        std::unique_lock<std::mutex> lk(mu);
        T *t = self();
        if (t) {
          t->ended = true;
          t->parked = false;
          pick_next(nullptr);
        }
        return 0;
      }
      case VV_JOIN_REQUEST:
        yield(P_JOIN, nullptr, *static_cast<const pthread_t *>(obj));
        return 0;
      case VV_JOINED:
        return 0;
      default:
        return 0;
    }
  }
};

inline Sched &sched() {
  static Sched *s = new Sched;  // leaked on purpose: threads may still touch it while the process exits
  return *s;
}
// a harness-defined yield point (inside the custom trajectory reader, evaluation, merge)
inline void yield_point() {
  if (sched().active) sched().yield(P_NONE, nullptr);
}
inline int current_thread_id() {
  std::unique_lock<std::mutex> lk(sched().mu);
  T *t = sched().self();
  return t ? t->id : -1;
}

}  // namespace vvs
