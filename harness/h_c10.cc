// C10 — every job in a shared job file is executed exactly once and never lost.
//
// One case = job list (initial statuses/hosts) x worker processes (threads, cache, maxjobs, thread-schedule
// choices) x restart pattern x inter-process choice sequence x optional crash (process, n-th file write,
// byte budget).  The harness process is the inter-process scheduler: every worker process is fork()ed from
// it, runs the real ProgObserver (InitFromProgFile / RequestNextJob / ReportJobDone / SyncWithProgFile)
// with a stub calculator loop, and reports the VOTCA_VERIF events of the synchronisation through a pipe,
// blocking until the parent lets it continue.  Threads inside a process are serialised by vv_sched.h.
// Oracle = invariants over the history and the final files, with an independent job-file scanner.
#include "vv_common.h"
#include "vv_sched.h"

#include <fcntl.h>
#include <poll.h>
#include <sys/stat.h>
#include <sys/wait.h>
#include <votca/xtp/job.h>
#include <votca/xtp/progressobserver.h>
#include <votca/xtp/qmthread.h>

using namespace vv;
namespace xtp = votca::xtp;

namespace {

// ------------------------------------------------------------------ protocol
enum Msg {
  M_START = 1,
  M_INIT_ENTER,
  M_INIT_DONE,
  M_SYNC_ENTER,
  M_SYNC_LOCKED,
  M_SYNC_LOADED,
  M_SYNC_BEFORE_WRITE,
  M_SYNC_RELEASED,
  M_WRITE_BEGIN,  // arg = 1 job file, 0 backup
  M_EXEC,         // arg = job id, arg2 = thread   (does not wait)
  M_DONE,         // (does not wait)
  M_FATAL,        // in-process deadlock / livelock (does not wait)
  M_EXC           // exception escaped (does not wait)
};
struct Wire {
  int kind;
  long arg, arg2;
};
const char *mname(int k) {
  static const char *n[] = {"?", "START", "INIT_ENTER", "INIT_DONE", "SYNC_ENTER", "SYNC_LOCKED", "SYNC_LOADED", "SYNC_BEFORE_WRITE",
                            "SYNC_RELEASED", "WRITE_BEGIN", "EXEC", "DONE", "FATAL", "EXC"};
  return (k >= 0 && k <= M_EXC) ? n[k] : "?";
}

// restart pattern of process i (per-process since round 2; older replay files carry one pattern for all)
std::string restart_of(const json &c, size_t i) {
  const json &pc = c.at("procs")[i];
  if (pc.contains("restart")) return pc.at("restart").get<std::string>();
  return c.value("restart", std::string());
}

// ------------------------------------------------------------------ child side
int c_out = -1, c_in = -1;
int c_index = 0;
bool c_in_init = false;
long c_crash_write = -1, c_crash_budget = -1, c_write_count = 0;
std::string c_cur_file;
std::vector<int> c_failmask;
bool c_cur_is_crash = false;

void child_send(int kind, long a = 0, long b = 0, bool wait = true) {
  Wire w{kind, a, b};
  if (write(c_out, &w, sizeof w) != sizeof w) _exit(3);
  if (wait) {
    char go;
    ssize_t n = read(c_in, &go, 1);
    if (n != 1) _exit(4);  // parent gone / told us to stop
  }
}

long child_event(int kind, const void *obj, long arg) {
  using namespace votca::tools;
  switch (kind) {
    case VV_SYNC_ENTER:
      child_send(M_SYNC_ENTER);
      return 0;
    case VV_SYNC_LOCKED:
      child_send(M_SYNC_LOCKED);
      return 0;
    case VV_SYNC_LOADED:
      child_send(M_SYNC_LOADED);
      return 0;
    case VV_SYNC_BEFORE_WRITE:
      child_send(M_SYNC_BEFORE_WRITE);
      return 0;
    case VV_SYNC_RELEASED:
      child_send(M_SYNC_RELEASED);
      return 0;
    case VV_WRITE_BEGIN: {
      c_cur_file = *static_cast<const std::string *>(obj);
      ++c_write_count;
      c_cur_is_crash = (c_write_count == c_crash_write);
      bool is_main = c_cur_file.empty() || c_cur_file.back() != '~';
      child_send(M_WRITE_BEGIN, is_main ? 1 : 0, c_write_count);
      return 0;
    }
    case VV_WRITE_PROGRESS: {
      if (c_cur_is_crash && arg >= c_crash_budget) {
        auto *ofs = const_cast<std::ofstream *>(static_cast<const std::ofstream *>(obj));
        ofs->flush();
        if (truncate(c_cur_file.c_str(), off_t(c_crash_budget)) != 0) _exit(5);
        _exit(77);  // the crash: the process dies after byte `budget` of this file
      }
      return 0;
    }
    case VV_WRITE_END:
      return 0;
    default:
      return vvs::sched().event(kind, obj, arg);
  }
}

using Obs = xtp::ProgObserver<std::vector<xtp::Job>>;

class Op : public xtp::QMThread {
 public:
  Op(Obs &o, int id) : obs_(o) { setId(id); maverick_ = true; }
  void Run() override {
    for (;;) {
      xtp::Job *job = obs_.RequestNextJob(*this);
      if (job == nullptr) break;
      {
        bool f = ((c_failmask.size() >= size_t(job->getId()) ? c_failmask[size_t(job->getId()) - 1] : 0) >> c_index) & 1;
        child_send(M_EXEC, job->getId(), getId() | (f ? 256 : 0), false);
      }
      vvs::yield_point();  // "evaluation" of the job: other threads may run
      xtp::Job::JobResult res;
      // jobs may fail in a given process (bit c_index of the job's fail mask): a FAILED result of a live process is what a
      // concurrently started process with restart pattern stat(FAILED) re-opens
      bool fails = ((c_failmask.size() >= size_t(job->getId()) ? c_failmask[size_t(job->getId()) - 1] : 0) >> c_index) & 1;
      res.setStatus(fails ? xtp::Job::FAILED : xtp::Job::COMPLETE);
      if (fails) res.setError("failed");
      res.setOutput("p" + std::to_string(c_index) + "t" + std::to_string(getId()) + "j" + std::to_string(job->getId()));
      obs_.ReportJobDone(*job, res, *this);
    }
  }

 private:
  Obs &obs_;
};

[[noreturn]] void worker_process(const json &c, int index, const std::string &dir, int out_fd, int in_fd) {
  st().out.clear();
  st().crash.clear();
  c_out = out_fd;
  c_in = in_fd;
  c_index = index;
  const json &pc = c.at("procs")[size_t(index)];
  c_failmask = c.value("failmask", std::vector<int>());
  if (!c.at("crash").is_null() && int(c.at("crash").at("proc")) == index) {
    c_crash_write = c.at("crash").at("write");
    c_crash_budget = c.at("crash").at("budget");
  }
  if (!freopen("/dev/null", "w", stdout)) {
  }
  try {
    child_send(M_START);
    namespace po = boost::program_options;
    po::options_description d;
    d.add_options()("file", po::value<std::string>())("cache", po::value<votca::Index>())("maxjobs", po::value<votca::Index>())(
        "restart", po::value<std::string>());
    std::vector<std::string> args{"--file", dir + "/lock", "--cache", std::to_string(int(pc.at("cache"))), "--maxjobs",
                                  std::to_string(int(pc.at("maxjobs"))), "--restart", restart_of(c, size_t(index))};
    po::variables_map vm;
    po::store(po::command_line_parser(args).options(d).run(), vm);
    po::notify(vm);
    Obs obs;
    obs.InitCmdLineOpts(vm);
    xtp::QMThread master(true);
    master.setId(-1);
    vvs::sched().on_fatal = [](const std::string &) {
      child_send(M_FATAL, 0, 0, false);
      _exit(0);
    };
    vvs::sched().start(pc.at("choices").get<std::vector<unsigned char>>());
    child_send(M_INIT_ENTER);
    c_in_init = true;
    obs.InitFromProgFile(dir + "/jobs.xml", master);
    c_in_init = false;
    child_send(M_INIT_DONE);
    std::vector<std::unique_ptr<Op>> ops;
    int nthreads = pc.at("threads");
    for (int i = 0; i < nthreads; ++i) ops.push_back(std::make_unique<Op>(obs, i));
    for (auto &o : ops) o->Start();
    for (auto &o : ops) o->WaitDone();
    obs.SyncWithProgFile(master);
    vvs::sched().stop();
    child_send(M_DONE, 0, 0, false);
  } catch (const std::exception &e) {
    fprintf(stderr, "worker %d: exception: %s\n", index, e.what());
    child_send(M_EXC, 0, 0, false);
  }
  _exit(0);
}

// ------------------------------------------------------------------ independent job-file scanner
struct JobRec {
  long id = -1;
  std::string status, host, output;
  bool has_output = false;
};
struct Parsed {
  bool complete = false;
  std::vector<JobRec> jobs;
  std::string why;
};

std::string slurp(const std::string &p) {
  std::ifstream f(p, std::ios::binary);
  std::stringstream ss;
  ss << f.rdbuf();
  return ss.str();
}

// minimal well-formedness scanner for the job files VOTCA writes (no attributes, no CDATA)
Parsed scan_jobs(const std::string &txt) {
  Parsed P;
  std::vector<std::string> stack;
  std::string text;
  JobRec cur;
  bool root_closed = false, seen_root = false;
  size_t i = 0;
  while (i < txt.size()) {
    if (txt[i] == '<') {
      size_t e = txt.find('>', i);
      if (e == std::string::npos) {
        P.why = "unterminated tag";
        return P;
      }
      std::string tag = txt.substr(i + 1, e - i - 1);
      i = e + 1;
      if (tag.empty()) {
        P.why = "empty tag";
        return P;
      }
      if (tag[0] == '/') {
        std::string name = tag.substr(1);
        if (stack.empty() || stack.back() != name) {
          P.why = "mismatched close " + name;
          return P;
        }
        std::string t = text;
        size_t a = t.find_first_not_of(" \t\r\n"), b = t.find_last_not_of(" \t\r\n");
        t = (a == std::string::npos) ? "" : t.substr(a, b - a + 1);
        size_t depth = stack.size();
        if (depth == 3 && stack[1] == "job") {
          if (name == "id") cur.id = atol(t.c_str());
          if (name == "status") cur.status = t;
          if (name == "host") cur.host = t;
          if (name == "output") {
            cur.output = t;
            cur.has_output = true;
          }
        }
        if (depth == 2 && name == "job") {
          P.jobs.push_back(cur);
          cur = JobRec();
        }
        stack.pop_back();
        if (stack.empty()) root_closed = true;
        text.clear();
      } else {
        if (root_closed) {
          P.why = "content after root";
          return P;
        }
        if (stack.empty()) {
          if (tag != "jobs") {
            P.why = "root is not <jobs>";
            return P;
          }
          seen_root = true;
        }
        stack.push_back(tag);
        text.clear();
      }
    } else {
      text += txt[i++];
    }
  }
  if (!seen_root || !root_closed) {
    P.why = "root element not closed";
    return P;
  }
  P.complete = true;
  return P;
}

// ------------------------------------------------------------------ parent side
struct Proc {
  pid_t pid = -1;
  int from = -1, to = -1;
  enum St { RUNNING, PAUSED, BLOCKED, DONE, DEAD } st = RUNNING;
  int at = 0;  // message kind it is paused at
  bool inside = false;  // between LOCKED and RELEASED
  bool may_block = false;
  int exit_status = 0;
  bool crashed = false, fatal = false, exc = false;
};

struct World {
  std::vector<Proc> ps;
  std::vector<std::array<long, 3>> exec;  // proc, thread, job
  std::vector<std::string> trace;
  std::string dir;
};

bool read_msg(Proc &p, Wire &w, int timeout_ms) {
  struct pollfd pf{p.from, POLLIN, 0};
  int pr = poll(&pf, 1, timeout_ms);
  if (pr <= 0) return false;
  ssize_t n = read(p.from, &w, sizeof w);
  if (n == ssize_t(sizeof w)) return true;
  // EOF: process ended
  w.kind = 0;
  return true;
}

void reap(Proc &p) {
  int stt = 0;
  if (p.pid > 0) {
    waitpid(p.pid, &stt, 0);
    p.exit_status = stt;
    if (WIFEXITED(stt) && WEXITSTATUS(stt) == 77) p.crashed = true;
  }
  if (p.from >= 0) close(p.from);
  if (p.to >= 0) close(p.to);
  p.from = p.to = -1;
  p.pid = -1;
}

void kill_all(World &W) {
  for (auto &p : W.ps)
    if (p.pid > 0) {
      kill(p.pid, SIGKILL);
      reap(p);
    }
}

std::string write_initial(const json &c, const std::string &dir) {
  std::string s = "<jobs>\n";
  long id = 1;
  for (auto &j : c.at("jobs")) {
    s += "\t<job>\n\t\t<id>" + std::to_string(id) + "</id>\n\t\t<tag>tag" + std::to_string(id) + "</tag>\n\t\t<input>in" +
         std::to_string(id) + "</input>\n\t\t<status>" + j.at("status").get<std::string>() + "</status>\n";
    std::string host = j.at("host");
    if (!host.empty()) s += "\t\t<host>" + host + "</host>\n\t\t<time>00:00:01</time>\n";
    if (j.at("status") == "COMPLETE") s += "\t\t<output>old" + std::to_string(id) + "</output>\n";
    s += "\t</job>\n";
    ++id;
  }
  s += "</jobs>\n";
  std::ofstream(dir + "/jobs.xml") << s;
  std::ofstream(dir + "/lock") << "";
  return s;
}

std::set<long> restart_selected(const json &c, size_t proc) {
  // reference for the restart clause: AVAILABLE  U  {status named}  U  {host named}
  std::string pat = restart_of(c, proc);
  std::set<std::string> stats, hosts;
  std::string cat, cur;
  std::string p2;
  for (char ch : pat)
    if (ch != ' ') p2 += ch;
  std::vector<std::string> toks;
  for (char ch : p2) {
    if (ch == '(' || ch == ')' || ch == ',') {
      if (!cur.empty()) toks.push_back(cur);
      cur.clear();
    } else
      cur += ch;
  }
  if (!cur.empty()) toks.push_back(cur);
  for (auto &t : toks) {
    if (t == "host" || t == "stat")
      cat = t;
    else if (cat == "host")
      hosts.insert(t);
    else if (cat == "stat")
      stats.insert(t);
  }
  std::set<long> sel;
  long id = 1;
  for (auto &j : c.at("jobs")) {
    std::string s = j.at("status"), h = j.at("host");
    if (s == "AVAILABLE" || stats.count(s) || (!h.empty() && hosts.count(h))) sel.insert(id);
    ++id;
  }
  return sel;
}

Result run_history(const json &c) {
  Result r;
  for (size_t i = 0; i < c.at("procs").size(); ++i) {
    std::string pat = restart_of(c, i);
    if (c.at("procs").size() > 1 && (pat.find("ASSIGNED") != std::string::npos || pat.find("COMPLETE") != std::string::npos)) {
      r.discard = true;  // outside the exactly-once clause, see gen_history
      return r;
    }
  }
  char tmpl[] = "/verif/build/work/c10-XXXXXX";
  if (!mkdtemp(tmpl)) {
    r.discard = true;
    return r;
  }
  World W;
  W.dir = tmpl;
  auto cleanup = [&]() {
    kill_all(W);
    std::string cmd = "rm -rf '" + W.dir + "'";
    if (system(cmd.c_str()) != 0) {
    }
  };
  std::string initial_txt = write_initial(c, W.dir);
  Parsed initial = scan_jobs(initial_txt);
  size_t np = c.at("procs").size();
  fflush(nullptr);
  for (size_t i = 0; i < np; ++i) {
    int a[2], b[2];
    if (pipe(a) != 0 || pipe(b) != 0) {
      cleanup();
      r.discard = true;
      return r;
    }
    pid_t pid = fork();
    if (pid == 0) {
      close(a[0]);
      close(b[1]);
      for (auto &q : W.ps) {
        close(q.from);
        close(q.to);
      }
      worker_process(c, int(i), W.dir, a[1], b[0]);
    }
    close(a[1]);
    close(b[0]);
    Proc p;
    p.pid = pid;
    p.from = a[0];
    p.to = b[1];
    W.ps.push_back(p);
  }
  std::vector<unsigned char> pch = c.at("pchoices").get<std::vector<unsigned char>>();
  size_t ppos = 0;
  long pdecisions = 0;
  bool nondefault = false;
  bool overlap_attempt = false;   // some process attempted the lock while another was inside
  bool inconclusive = false;
  std::string violation_key, violation_msg;
  bool crash_happened = false;
  bool crash_strictly_inside = false;
  Parsed pre_crash_snapshot = initial;   // job file as of the moment the crashing process entered its critical section
  int crash_proc = c.at("crash").is_null() ? -1 : int(c.at("crash").at("proc"));
  auto fail = [&](const std::string &k, const std::string &m) {
    if (violation_key.empty()) {
      violation_key = k;
      violation_msg = m;
    }
  };
  auto note = [&](size_t i, const Wire &w) {
    if (W.trace.size() < 400) W.trace.push_back("P" + std::to_string(i) + ":" + mname(w.kind) + (w.kind == M_WRITE_BEGIN ? (w.arg ? "(file)" : "(backup)") : ""));
  };
  auto others_inside = [&](size_t i) {
    for (size_t k = 0; k < W.ps.size(); ++k)
      if (k != i && W.ps[k].inside) return true;
    return false;
  };
  // at every file write: the file NOT being written must be a complete job list holding every job that was
  // COMPLETE when this critical section began (decides all byte offsets of this write under sequential-append)
  Parsed cs_snapshot[8];
  auto handle = [&](size_t i, const Wire &w) {
    Proc &p = W.ps[i];
    note(i, w);
    switch (w.kind) {
      case 0:  // EOF
        p.st = Proc::DEAD;
        p.inside = false;
        reap(p);
        if (p.crashed) {
          crash_happened = true;
        } else if (!p.fatal && !p.exc && !(WIFEXITED(p.exit_status) && WEXITSTATUS(p.exit_status) == 0)) {
          fail("C10/worker-died", fmt("worker process %zu died (wait status 0x%x): sanitizer report / abort / terminate", i, p.exit_status));
        }
        return;
      case M_EXEC:
        W.exec.push_back({long(i), w.arg2, w.arg});
        return;  // still running
      case M_DONE:
        p.st = Proc::RUNNING;
        return;
      case M_FATAL:
        p.fatal = true;
        fail("C10/thread-deadlock", fmt("worker process %zu: no runnable thread (deadlock) or livelock", i));
        return;
      case M_EXC:
        p.exc = true;
        return;
      default:
        break;
    }
    p.st = Proc::PAUSED;
    p.at = w.kind;
    if (w.kind == M_SYNC_LOCKED || (w.kind == M_WRITE_BEGIN && !p.inside)) {
      // (a WRITE_BEGIN outside a SYNC bracket is the back-up write of InitFromProgFile, done under the lock)
      if (others_inside(i)) {
        // the other holder is PAUSED inside (only one process runs at a time) => genuinely simultaneous
        fail("C10/file-lock-not-exclusive", fmt("process %zu entered the job-file critical section while another process was inside it", i));
      }
      p.inside = true;
      if (i < 8) cs_snapshot[i] = scan_jobs(slurp(W.dir + "/jobs.xml"));
      if (int(i) == crash_proc) pre_crash_snapshot = cs_snapshot[i];
    }
    if (w.kind == M_WRITE_BEGIN && violation_key.empty()) {
      std::string other = w.arg ? W.dir + "/jobs.xml~" : W.dir + "/jobs.xml";
      Parsed o = scan_jobs(slurp(other));
      if (!o.complete) {
        fail("C10/no-complete-copy-during-write", std::string("while ") + (w.arg ? "the job file" : "the back-up") +
                                                      " is being rewritten the other copy is not a complete job list (" + o.why + ")");
      } else if (i < 8 && cs_snapshot[i].complete) {
        for (auto &j : cs_snapshot[i].jobs) {
          if (j.status != "COMPLETE") continue;
          bool ok = false;
          for (auto &k : o.jobs)
            if (k.id == j.id && k.status == "COMPLETE" && k.output == j.output) ok = true;
          if (!ok)
            fail("C10/backup-loses-complete-job", fmt("job %ld was COMPLETE before this update but the copy that survives a crash during this write does not have it", j.id));
        }
      }
    }
    if (w.kind == M_SYNC_RELEASED || w.kind == M_INIT_DONE) p.inside = false;
  };

  // a released lock may be taken by one of the processes blocked on it: wait for exactly that hand-over
  auto wait_blocked = [&](int timeout_ms) {
    std::vector<struct pollfd> pf;
    std::vector<size_t> idx;
    for (size_t k = 0; k < W.ps.size(); ++k)
      if (W.ps[k].st == Proc::BLOCKED) {
        pf.push_back({W.ps[k].from, POLLIN, 0});
        idx.push_back(k);
      }
    if (pf.empty()) return false;
    if (poll(pf.data(), nfds_t(pf.size()), timeout_ms) <= 0) return false;
    for (size_t q = 0; q < pf.size(); ++q)
      if (pf[q].revents) {
        Wire w2;
        if (read_msg(W.ps[idx[q]], w2, 0)) {
          handle(idx[q], w2);
          return true;  // only one can get the lock
        }
      }
    return false;
  };

  // main loop
  int running = -1;
  for (size_t i = 0; i < np; ++i) W.ps[i].st = Proc::RUNNING;
  // every process first reports START
  long guard = 0;
  bool all_started = false;
  {
    for (size_t i = 0; i < np; ++i) {
      Wire w;
      if (!read_msg(W.ps[i], w, 60000)) {
        inconclusive = true;
        break;
      }
      handle(i, w);
    }
    all_started = true;
  }
  (void)all_started;
  while (!inconclusive && violation_key.empty() && !crash_happened) {
    if (++guard > 100000) {
      inconclusive = true;
      break;
    }
    if (running >= 0) {
      Proc &p = W.ps[size_t(running)];
      Wire w;
      int to = p.may_block ? int(c.value("hold_ms", 300)) : 60000;
      if (!read_msg(p, w, to)) {
        if (p.may_block) {
          p.st = Proc::BLOCKED;
          overlap_attempt = true;
          running = -1;
          continue;
        }
        inconclusive = true;
        break;
      }
      p.may_block = false;
      handle(size_t(running), w);
      if (p.st != Proc::RUNNING) {
        // a released lock may now be taken by a process blocked on it: wait for exactly that hand-over
        if ((p.st == Proc::PAUSED && (p.at == M_SYNC_RELEASED || p.at == M_INIT_DONE)) || p.st == Proc::DEAD) wait_blocked(3000);
        running = -1;
      }
      continue;
    }
    std::vector<size_t> cand;
    bool any_blocked = false, all_dead = true;
    for (size_t i = 0; i < np; ++i) {
      if (W.ps[i].st == Proc::PAUSED) cand.push_back(i);
      if (W.ps[i].st == Proc::BLOCKED) any_blocked = true;
      if (W.ps[i].st != Proc::DEAD) all_dead = false;
    }
    if (cand.empty()) {
      if (all_dead) break;
      if (any_blocked) {
        // nobody to run but somebody waits for the file lock although no process is inside: the lock holder died?
        bool got = wait_blocked(5000);
        if (!got) {
          fail("C10/process-deadlock", "all live processes wait for the job-file lock");
        }
        continue;
      }
      // processes still RUNNING without being `running`: they are past M_DONE, wait for EOF
      bool progressed = false;
      for (size_t i = 0; i < np; ++i) {
        if (W.ps[i].st == Proc::RUNNING) {
          Wire w;
          if (read_msg(W.ps[i], w, 60000)) {
            handle(i, w);
            progressed = true;
          } else {
            inconclusive = true;
          }
          break;
        }
      }
      if (!progressed) break;
      continue;
    }
    size_t pick_i = cand[0];
    if (cand.size() > 1) {
      ++pdecisions;
      if (ppos < pch.size()) {
        unsigned char v = pch[ppos++];
        if (v % cand.size() != 0) nondefault = true;
        pick_i = cand[v % cand.size()];
      }
    }
    Proc &p = W.ps[pick_i];
    p.may_block = (p.at == M_SYNC_ENTER || p.at == M_INIT_ENTER) && others_inside(pick_i);
    if ((p.at == M_SYNC_ENTER || p.at == M_INIT_ENTER) && others_inside(pick_i)) overlap_attempt = true;
    p.st = Proc::RUNNING;
    char go = 'g';
    if (write(p.to, &go, 1) != 1) {
      inconclusive = true;
      break;
    }
    running = int(pick_i);
  }

  // ---- verdict
  r.cls("procs=" + std::to_string(np));
  {
    bool any = false, differ = false;
    for (size_t i = 0; i < np; ++i) {
      if (!restart_of(c, i).empty()) any = true;
      if (restart_of(c, i) != restart_of(c, 0)) differ = true;
    }
    if (any) r.cls("restart");
    if (differ) r.cls("restart-patterns-differ");
  }
  if (!c.at("crash").is_null()) r.cls("crash-planned");
  if (inconclusive) {
    cleanup();
    r.discard = true;
    r.cls("inconclusive-timeout");
    return r;
  }
  if (!violation_key.empty()) {
    cleanup();
    r.nontrivial = true;
    r.fail(violation_key, violation_msg + " | trace: " + [&] {
      std::string t;
      for (auto &s : W.trace) t += s + " ";
      return t.substr(0, 1500);
    }());
    return r;
  }
  if (crash_happened) {
    // stop the world at the instant of the crash and look at what is on disk
    kill_all(W);
    std::string f = slurp(W.dir + "/jobs.xml"), b = slurp(W.dir + "/jobs.xml~");
    Parsed pf = scan_jobs(f), pb = scan_jobs(b);
    long budget = c.at("crash").at("budget");
    crash_strictly_inside = budget > 0 && ((!pf.complete) || (!pb.complete));
    r.cls("crash-executed");
    r.nontrivial = crash_strictly_inside;
    if (!pf.complete && !pb.complete) {
      r.fail("C10/crash-no-complete-copy", "after the crash neither the job file (" + pf.why + ") nor its back-up (" + pb.why + ") is a complete job list");
    } else {
      const Parsed &surv = pf.complete ? pf : pb;
      if (surv.jobs.size() != initial.jobs.size())
        r.fail("C10/crash-survivor-job-count", fmt("surviving copy lists %zu jobs instead of %zu", surv.jobs.size(), initial.jobs.size()));
      else {
        for (size_t k = 0; k < surv.jobs.size(); ++k)
          if (surv.jobs[k].id != initial.jobs[k].id) r.fail("C10/crash-survivor-order", "surviving copy lists the jobs in a different order");
        for (auto &j : pre_crash_snapshot.jobs) {
          if (j.status != "COMPLETE") continue;
          bool ok = false;
          for (auto &k : surv.jobs)
            if (k.id == j.id && k.status == "COMPLETE" && k.output == j.output) ok = true;
          if (!ok) r.fail("C10/crash-loses-complete-job", fmt("job %ld was COMPLETE before the crashed update, the surviving copy lost it", j.id));
        }
      }
    }
    cleanup();
    return r;
  }
  kill_all(W);
  // ---- no crash: exactly-once and final file
  Parsed fin = scan_jobs(slurp(W.dir + "/jobs.xml"));
  // may(J): AVAILABLE or named by the pattern of some process; must(J): ... of some process without a maxjobs cap
  std::set<long> may, must;
  bool capped = false;
  for (size_t i = 0; i < np; ++i) {
    std::set<long> sel = restart_selected(c, i);
    bool cap = int(c.at("procs")[i].at("maxjobs")) >= 0;
    capped |= cap;
    for (long id : sel) {
      may.insert(id);
      if (!cap) must.insert(id);
    }
  }
  std::map<long, int> count;
  std::map<long, std::string> executor;   // of the LAST execution
  std::map<long, bool> last_failed;
  std::map<long, long> per_proc;
  bool reexecuted = false;
  for (auto &e : W.exec) {
    long thread = e[1] & 255;
    bool failed = (e[1] & 256) != 0;
    bool stat_failed = restart_of(c, size_t(e[0])).find("FAILED") != std::string::npos;
    if (count[e[2]] == 0) {
      if (!restart_selected(c, size_t(e[0])).count(e[2]))
        r.fail("C10/restart-selection", fmt("process %ld executed job %ld which is neither AVAILABLE nor named by that process's restart pattern", e[0], e[2]));
    } else if (last_failed[e[2]] && stat_failed) {
      // the documented meaning of stat(FAILED): the job failed in another (live) process and is re-opened by this one
      reexecuted = true;
    } else {
      r.fail("C10/job-executed-twice", fmt("job %ld was executed again by process %ld although its previous execution %s and that process's restart pattern is '%s'",
                                            e[2], e[0], last_failed[e[2]] ? "failed" : "completed", restart_of(c, size_t(e[0])).c_str()));
    }
    count[e[2]]++;
    executor[e[2]] = "p" + std::to_string(e[0]) + "t" + std::to_string(thread) + "j" + std::to_string(e[2]);
    last_failed[e[2]] = failed;
    per_proc[e[0]]++;
  }
  if (reexecuted) r.cls("failed-job-of-live-process-re-opened");
  r.nontrivial = np >= 2 && overlap_attempt;
  if (overlap_attempt) r.cls("lock-contention");
  if (capped) r.cls("maxjobs");
  if (nondefault) r.cls("nondefault-process-order");
  for (auto &kv : count) {
    if (!may.count(kv.first)) r.fail("C10/unselected-job-executed", fmt("job %ld was neither AVAILABLE nor named by a restart pattern but was executed", kv.first));
  }
  for (size_t i = 0; i < np; ++i) {
    int cap = c.at("procs")[i].at("maxjobs");
    if (cap >= 0 && per_proc[long(i)] > cap) r.fail("C10/maxjobs-exceeded", fmt("process %zu executed %ld jobs with maxjobs=%d", i, per_proc[long(i)], cap));
  }
  bool any_exc = false;
  for (auto &p : W.ps) any_exc |= p.exc;
  if (any_exc) r.fail("C10/worker-exception", "a worker process ended with an exception although nothing crashed");
  // a process without a cap walks the whole list, so every job it may take is executed by somebody
  for (long id : must)
    if (!count.count(id)) r.fail("C10/job-never-executed", fmt("job %ld was AVAILABLE / selected by the restart pattern of an uncapped process but no worker executed it", id));
  if (!fin.complete) {
    r.fail("C10/final-file-incomplete", "final job file is not a complete job list: " + fin.why);
  } else if (fin.jobs.size() != initial.jobs.size()) {
    r.fail("C10/final-file-job-count", fmt("final job file lists %zu jobs instead of %zu", fin.jobs.size(), initial.jobs.size()));
  } else {
    for (size_t k = 0; k < fin.jobs.size(); ++k) {
      const JobRec &j = fin.jobs[k];
      const JobRec &j0 = initial.jobs[k];
      if (j.id != j0.id) {
        r.fail("C10/final-file-order", "final job file lists the jobs in a different order");
        break;
      }
      if (count.count(j.id)) {
        if (j.status != (last_failed[j.id] ? "FAILED" : "COMPLETE") || j.output != executor[j.id])
          r.fail("C10/result-lost-or-overwritten", fmt("job %ld was executed (%s) but the final file says status=%s output='%s'", j.id,
                                                         executor[j.id].c_str(), j.status.c_str(), j.output.c_str()));
      } else {
        if (j.status != j0.status || j.output != j0.output)
          r.fail("C10/untouched-job-changed", fmt("job %ld was not executed but changed from %s/'%s' to %s/'%s'", j.id, j0.status.c_str(),
                                                   j0.output.c_str(), j.status.c_str(), j.output.c_str()));
      }
    }
  }
  if (!r.ok) {
    std::string t;
    for (auto &s : W.trace) t += s + " ";
    r.msg += " | trace: " + t.substr(0, 1500);
  }
  cleanup();
  return r;
}

json gen_history() {
  json c;
  int nj = rcount(1, 14);
  if (rbool(10)) nj = ri(15, 40);
  json jobs = json::array();
  for (int i = 0; i < nj; ++i) {
    int k = ri(0, 9);
    std::string stt = k < 6 ? "AVAILABLE" : k < 7 ? "COMPLETE" : k < 9 ? "FAILED" : "ASSIGNED";
    std::string host = stt == "AVAILABLE" ? "" : pick<std::string>({"old:1", "old:2", "old:3"});
    jobs.push_back({{"status", stt}, {"host", host}});
  }
  c["jobs"] = jobs;
  {
    std::vector<int> fm;
    bool withfail = rbool(50);
    for (int i = 0; i < nj; ++i) fm.push_back(withfail && rbool(40) ? ri(1, 7) : 0);
    c["failmask"] = fm;
  }
  int np = pick({1, 2, 2, 2, 3});
  json procs = json::array();
  for (int i = 0; i < np; ++i) {
    int len = rcount(0, 30);
    std::vector<int> ch;
    for (int k = 0; k < len; ++k) ch.push_back(ri(0, 3));
    procs.push_back({{"threads", ri(1, 3)}, {"cache", ri(1, 8)}, {"maxjobs", rbool(25) ? ri(0, nj) : -1}, {"choices", ch}});
  }
  c["procs"] = procs;
  // stat(ASSIGNED) re-opens, by its documented meaning, jobs that another live process is working on, so it is only
  // combined with a single worker process (where "exactly once" is still what the statement promises)
  {
    std::vector<std::string> multi{"", "", "stat(FAILED)", "host(old:1)", "host(old:1,old:2) stat(FAILED)", "host(old:3)"};
    std::string common = pickv(multi);
    bool same = rbool(50);
    for (int i = 0; i < np; ++i) {
      if (np == 1)
        c["procs"][size_t(i)]["restart"] = pick<std::string>({"", "stat(FAILED)", "host(old:1)", "host(old:1,old:2) stat(FAILED)", "stat(FAILED,ASSIGNED)"});
      else
        c["procs"][size_t(i)]["restart"] = same ? common : pickv(multi);
    }
    // with failing jobs around, make sure somebody is there to re-open them
    bool anyfail = false;
    for (auto &m : c["failmask"]) anyfail |= int(m) != 0;
    if (anyfail && np > 1 && rbool(70)) c["procs"][size_t(ri(0, np - 1))]["restart"] = "stat(FAILED)";
  }
  int plen = rcount(0, 60);
  std::vector<int> pch;
  for (int k = 0; k < plen; ++k) pch.push_back(ri(0, 5));
  c["pchoices"] = pch;
  if (rbool(35)) {
    c["crash"] = {{"proc", ri(0, np - 1)}, {"write", ri(1, 6)}, {"budget", ri(0, 60 + 140 * nj)}};
  } else
    c["crash"] = nullptr;
  return c;
}

// thorough: for fixed small histories, every byte offset of the n-th write of process 0
void enum_crash(int level, const std::function<bool(const json &)> &emit) {
  // long holds: a process is kept inside the critical section for 32 s while the other one waits for the lock (a lock
  // that gives up after a while still has to exclude)
  for (int v = 0; v < 2; ++v) {
    json c;
    c["jobs"] = json::array({{{"status", "AVAILABLE"}, {"host", ""}}, {{"status", "AVAILABLE"}, {"host", ""}}, {{"status", "AVAILABLE"}, {"host", ""}}});
    c["procs"] = json::array({{{"threads", 1}, {"cache", 1}, {"maxjobs", -1}, {"choices", json::array()}, {"restart", ""}},
                              {{"threads", 1}, {"cache", 1}, {"maxjobs", -1}, {"choices", json::array()}, {"restart", ""}}});
    c["pchoices"] = v == 0 ? std::vector<int>{0, 0, 0, 1, 1, 0, 0, 1} : std::vector<int>{1, 1, 0, 0, 0, 1, 1, 0};
    c["crash"] = nullptr;
    c["hold_ms"] = 32000;
    if (!emit(c)) return;
  }
  for (int variant = 0; variant < level - 1; ++variant) {  // level 1 = the long holds only (quick tier)
    json c;
    json jobs = json::array();
    int nj = 2 + variant % 3;
    for (int i = 0; i < nj; ++i) jobs.push_back({{"status", i == 1 && variant % 2 ? "COMPLETE" : "AVAILABLE"}, {"host", i == 1 && variant % 2 ? "old:1" : ""}});
    c["jobs"] = jobs;
    c["procs"] = json::array({{{"threads", 1 + variant % 2}, {"cache", 1}, {"maxjobs", -1}, {"choices", json::array()}},
                              {{"threads", 1}, {"cache", 2}, {"maxjobs", -1}, {"choices", json::array()}}});
    c["pchoices"] = std::vector<int>{1, 0, 1, 1, 0, 2, 1, 0};
    for (int wr = 1; wr <= 5; ++wr)
      for (int b = 0; b <= 70 + 150 * nj; ++b) {
        c["crash"] = {{"proc", variant % 2}, {"write", wr}, {"budget", b}};
        if (!emit(c)) return;
      }
  }
}

}  // namespace

extern "C" long votca_verif_event(int kind, const void *obj, long arg) {
  if (c_out >= 0) return child_event(kind, obj, arg);
  return 0;
}

int main(int argc, char **argv) {
  signal(SIGPIPE, SIG_IGN);
  std::vector<Sub> subs;
  subs.push_back({"histories", gen_history, run_history, 1.0, 100, enum_crash});
  return harness_main(argc, argv, "C10", subs);
}
