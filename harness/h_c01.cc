// C01 — coarse-grained mapping is the weighted, periodic-image-aware linear map.
//
// Real path: mapping XML file(s) -> CGEngine::LoadMoleculeType -> CreateCGTopology -> TopologyMap::Apply.
// Oracle: long-double recomputation; the image of each parent nearest to the first parent is found by my own
// exhaustive bounded lattice search (not BCShortestConnection).  Metamorphic relations of the statement
// (whole-box-vector displacement of non-first parents, rigid translation, convex hull) are checked on the
// implementation's outputs.  Sub "reject": the half-box rejection clause with an ambiguity band.
#include "vv_common.h"

#include <votca/csg/cgengine.h>
#include <votca/csg/topology.h>
#include <votca/csg/topologymap.h>

#include <sys/stat.h>

using namespace vv;
using votca::Index;
namespace csg = votca::csg;
typedef long double LD;

static const double EPS = 2.220446049250313e-16;

struct V3 {
  LD x = 0, y = 0, z = 0;
};
static V3 operator+(V3 a, V3 b) { return {a.x + b.x, a.y + b.y, a.z + b.z}; }
static V3 operator-(V3 a, V3 b) { return {a.x - b.x, a.y - b.y, a.z - b.z}; }
static V3 operator*(LD s, V3 a) { return {s * a.x, s * a.y, s * a.z}; }
static LD dot(V3 a, V3 b) { return a.x * b.x + a.y * b.y + a.z * b.z; }
static V3 cross(V3 a, V3 b) { return {a.y * b.z - a.z * b.y, a.z * b.x - a.x * b.z, a.x * b.y - a.y * b.x}; }
static LD norm(V3 a) { return sqrtl(dot(a, a)); }
static LD ninf(V3 a) { return std::max(fabsl(a.x), std::max(fabsl(a.y), fabsl(a.z))); }
static V3 v3(const json &j) { return {LD(j[0].get<double>()), LD(j[1].get<double>()), LD(j[2].get<double>())}; }
static V3 v3(const Eigen::Vector3d &v) { return {LD(v.x()), LD(v.y()), LD(v.z())}; }

// box vectors a=(ax,0,0) b=(bx,by,0) c=(cx,cy,cz) (columns of the VOTCA box matrix); all-zero = open
struct Box {
  bool open = true;
  V3 a, b, c;
  LD hmin = 0, lmax = 0;
};
static Box box_of(const json &jb) {
  Box B;
  B.a = {LD(jb[0].get<double>()), 0, 0};
  B.b = {LD(jb[1].get<double>()), LD(jb[2].get<double>()), 0};
  B.c = {LD(jb[3].get<double>()), LD(jb[4].get<double>()), LD(jb[5].get<double>())};
  B.open = (B.a.x == 0 && B.b.y == 0 && B.c.z == 0);
  if (!B.open) {
    LD vol = fabsl(dot(B.a, cross(B.b, B.c)));
    LD ha = vol / norm(cross(B.b, B.c)), hb = vol / norm(cross(B.c, B.a)), hc = vol / norm(cross(B.a, B.b));
    B.hmin = std::min(ha, std::min(hb, hc));
    B.lmax = std::max(norm(B.a), std::max(norm(B.b), norm(B.c)));
  }
  return B;
}
static Eigen::Matrix3d box_matrix(const json &jb) {
  Eigen::Matrix3d m = Eigen::Matrix3d::Zero();
  m(0, 0) = jb[0];
  m(0, 1) = jb[1];
  m(1, 1) = jb[2];
  m(0, 2) = jb[3];
  m(1, 2) = jb[4];
  m(2, 2) = jb[5];
  return m;
}

// Exhaustive nearest-image search for a lower-triangular cell: z depends on nc only, y on (nc,nb), x on all
// three, so for every (nc,nb) inside the current best radius the optimal na is the rounded one (+-1 for ties).
struct Img {
  V3 v;          // shortest image of d
  long n[3];     // d - v = n0*a + n1*b + n2*c
  LD second;     // length of the second-shortest image found (for tie detection)
};
static Img min_image(const Box &B, V3 d) {
  Img best;
  best.v = d;
  best.n[0] = best.n[1] = best.n[2] = 0;
  best.second = INFINITY;
  if (B.open) return best;
  // initial candidate: plain rounding of the triangular solve
  LD nc0 = roundl(d.z / B.c.z);
  V3 t = d - nc0 * B.c;
  LD nb0 = roundl(t.y / B.b.y);
  t = t - nb0 * B.b;
  LD na0 = roundl(t.x / B.a.x);
  t = t - na0 * B.a;
  LD bestlen = norm(t);
  best.v = t;
  best.n[0] = long(na0);
  best.n[1] = long(nb0);
  best.n[2] = long(nc0);
  LD R = bestlen * (1 + 1e-9L) + 1e-30L;
  long rc = long(floorl(R / B.c.z)) + 1;
  for (long ic = -rc; ic <= rc; ++ic) {
    LD nc = nc0 + ic;
    V3 t1 = d - nc * B.c;
    if (fabsl(t1.z) > R) continue;
    LD nbc = roundl(t1.y / B.b.y);
    long rb = long(floorl(R / B.b.y)) + 1;
    for (long ib = -rb; ib <= rb; ++ib) {
      LD nb = nbc + ib;
      V3 t2 = t1 - nb * B.b;
      if (t2.y * t2.y + t2.z * t2.z > R * R) continue;
      LD nac = roundl(t2.x / B.a.x);
      for (int ia = -1; ia <= 1; ++ia) {
        LD na = nac + ia;
        V3 t3 = t2 - na * B.a;
        LD l = norm(t3);
        bool same = (long(na) == best.n[0] && long(nb) == best.n[1] && long(nc) == best.n[2]);
        if (same) continue;
        if (l < bestlen) {
          best.second = bestlen;
          bestlen = l;
          best.v = t3;
          best.n[0] = long(na);
          best.n[1] = long(nb);
          best.n[2] = long(nc);
        } else if (l < best.second)
          best.second = l;
      }
    }
  }
  return best;
}

// ------------------------------------------------------------------ building the real objects
struct TmpDir {
  std::string path;
  std::vector<std::string> files;
  TmpDir() {
    const char *base = getenv("TMPDIR");
    std::string t = std::string(base && *base ? base : "/tmp") + "/vvc01-XXXXXX";
    std::vector<char> buf(t.begin(), t.end());
    buf.push_back(0);
    if (!mkdtemp(buf.data())) throw std::runtime_error("mkdtemp failed");
    path = buf.data();
  }
  ~TmpDir() {
    for (auto &f : files) unlink(f.c_str());
    rmdir(path.c_str());
  }
};

static std::string g17(double v) { return fmt("%.17g", v); }

static std::string mapping_xml(const json &type, int ti) {
  std::ostringstream o;
  std::string tname = "T" + std::to_string(ti);
  o << "<cg_molecule>\n <name>CG" << tname << "</name>\n <ident>" << tname << "</ident>\n <topology>\n  <cg_beads>\n";
  int bi = 0;
  for (auto &b : type.at("beads")) {
    o << "   <cg_bead>\n    <name>B" << bi << "</name>\n    <type>CT" << (bi % 2) << "</type>\n";
    int sym = b.at("sym");
    if (sym == 3 || b.value("symtag", false)) o << "    <symmetry>" << sym << "</symmetry>\n";
    o << "    <mapping>M" << bi << "</mapping>\n    <beads>";
    for (auto &p : b.at("parents")) o << " 1:" << tname << ":A" << p.get<int>();
    o << " </beads>\n   </cg_bead>\n";
    ++bi;
  }
  o << "  </cg_beads>\n </topology>\n <maps>\n";
  bi = 0;
  for (auto &b : type.at("beads")) {
    o << "  <map>\n   <name>M" << bi << "</name>\n   <weights>";
    for (auto &w : b.at("w")) o << " " << g17(w.get<double>());
    o << " </weights>\n";
    if (!b.at("d").is_null()) {
      o << "   <d>";
      for (auto &w : b.at("d")) o << " " << g17(w.get<double>());
      o << " </d>\n";
    }
    o << "  </map>\n";
    ++bi;
  }
  o << " </maps>\n</cg_molecule>\n";
  return o.str();
}

struct Sys {
  csg::Topology top, cg;
  csg::CGEngine engine;
  std::unique_ptr<csg::TopologyMap> map;
  std::vector<std::vector<csg::Bead *>> atoms;  // per molecule
};

static Eigen::Vector3d ev(const json &j) { return Eigen::Vector3d(j[0].get<double>(), j[1].get<double>(), j[2].get<double>()); }

// builds atomistic topology + cg topology + map; positions/vel/forces set from the case
static void build(Sys &S, const json &c) {
  TmpDir td;
  std::string list;
  int ti = 0;
  for (auto &t : c.at("types")) {
    if (t.value("unmapped", false)) {
      ++ti;
      continue;
    }
    std::string f = td.path + "/map" + std::to_string(ti) + ".xml";
    {
      std::ofstream o(f);
      o << mapping_xml(t, ti);
    }
    td.files.push_back(f);
    if (!list.empty()) list += ";";
    list += f;
    ++ti;
  }
  S.engine.LoadMoleculeType(list);
  bool hp = c.at("has_pos"), hv = c.at("has_vel"), hf = c.at("has_f");
  for (auto &m : c.at("mols")) {
    int t = m.at("type");
    const json &ty = c.at("types")[size_t(t)];
    std::string tname = "T" + std::to_string(t);
    const csg::Residue &res = S.top.CreateResidue(tname);
    csg::Molecule *mi = S.top.CreateMolecule(tname);
    std::vector<csg::Bead *> v;
    int ai = 0;
    for (auto &a : ty.at("atoms")) {
      std::string an = "A" + std::to_string(ai);
      std::string bt = "t" + std::to_string(ai % 3);
      if (!S.top.BeadTypeExist(bt)) S.top.RegisterBeadType(bt);
      csg::Bead *b = S.top.CreateBead(csg::Bead::spherical, an, bt, res.getId(), a.get<double>(), 0.0);
      mi->AddBead(b, "1:" + tname + ":" + an);
      if (hp) b->setPos(ev(m.at("pos")[size_t(ai)]));
      if (hv) b->setVel(ev(m.at("vel")[size_t(ai)]));
      if (hf) b->setF(ev(m.at("f")[size_t(ai)]));
      v.push_back(b);
      ++ai;
    }
    S.atoms.push_back(v);
  }
  std::string bt = c.value("boxtype", "auto");
  Eigen::Matrix3d bm = box_matrix(c.at("box"));
  if (bt == "tric")
    S.top.setBox(bm, csg::BoundaryCondition::typeTriclinic);
  else if (bt == "ortho")
    S.top.setBox(bm, csg::BoundaryCondition::typeOrthorhombic);
  else
    S.top.setBox(bm);
  S.map = S.engine.CreateCGTopology(S.top, S.cg);
}

struct CGOut {
  bool hp, hv, hf;
  V3 p, v, f;
  LD mass;
};
static std::vector<CGOut> snapshot(Sys &S) {
  std::vector<CGOut> o;
  for (Index i = 0; i < S.cg.BeadCount(); ++i) {
    csg::Bead *b = S.cg.getBead(i);
    CGOut g;
    g.hp = b->HasPos();
    g.hv = b->HasVel();
    g.hf = b->HasF();
    if (g.hp) g.p = v3(b->getPos());
    if (g.hv) g.v = v3(b->getVel());
    if (g.hf) g.f = v3(b->getF());
    g.mass = b->getMass();
    o.push_back(g);
  }
  return o;
}

static bool is_reject_msg(const std::string &s) { return s.find("bigger than half the box") != std::string::npos; }

static std::string sv(V3 a) { return fmt("(%.17Lg,%.17Lg,%.17Lg)", a.x, a.y, a.z); }

// ------------------------------------------------------------------ main sub: values + metamorphic relations
static Result run_map(const json &c) {
  Result r;
  Box B = box_of(c.at("box"));
  bool hp = c.at("has_pos"), hv = c.at("has_vel"), hf = c.at("has_f");
  r.cls(B.open ? "box:open" : (B.b.x == 0 && B.c.x == 0 && B.c.y == 0 ? "box:ortho" : "box:triclinic"));
  r.cls(std::string("boxtype-arg:") + c.value("boxtype", "auto"));
  r.cls(std::string("frame:") + (hp ? "x" : "") + (hv ? "v" : "") + (hf ? "f" : ""));
  Sys S;
  build(S, c);
  try {
    S.map->Apply();
  } catch (const std::runtime_error &e) {
    if (is_reject_msg(e.what()))
      r.fail("Map/rejects-compact-bead", std::string("bead well inside half the box rejected: ") + e.what());
    else
      r.fail("Map/unexpected-exception", e.what());
    return r;
  }
  std::vector<CGOut> got = snapshot(S);

  // ---- oracle
  struct Exp {
    int mol, bead;
    bool ell, nonneg;
    V3 p, v, f;
    LD mass, sw, sfw_f, sw_v, maxc;
    std::vector<V3> unwrapped;
  };
  std::vector<Exp> exp;
  bool any_nt = false;
  int mi = 0;
  for (auto &m : c.at("mols")) {
    int t = m.at("type");
    const json &ty = c.at("types")[size_t(t)];
    if (ty.value("unmapped", false)) {
      ++mi;
      continue;
    }
    int bi = 0;
    for (auto &b : ty.at("beads")) {
      Exp E;
      E.mol = mi;
      E.bead = bi;
      E.ell = (b.at("sym").get<int>() == 3);
      std::vector<int> par = b.at("parents").get<std::vector<int>>();
      std::vector<double> w = b.at("w").get<std::vector<double>>();
      bool hasd = !b.at("d").is_null();
      std::vector<double> d = hasd ? b.at("d").get<std::vector<double>>() : w;
      LD sumw = 0, sumd = 0;
      for (double x : w) sumw += x;
      for (double x : d) sumd += x;
      E.nonneg = true;
      E.sw = 0;
      E.mass = 0;
      E.sfw_f = 0;
      E.sw_v = 0;
      E.maxc = 0;
      V3 r0 = hp ? v3(m.at("pos")[size_t(par[0])]) : V3{};
      int nshift = 0;
      std::set<int> axes;
      bool distinctw = false;
      for (size_t k = 0; k < par.size(); ++k) {
        LD wt = LD(w[k]) / sumw, dt = LD(d[k]) / sumd;
        LD fw = (w[k] == 0) ? 0 : dt / wt;
        if (wt < 0) E.nonneg = false;
        if (w[k] != w[0]) distinctw = true;
        E.sw += fabsl(wt);
        E.mass += LD(ty.at("atoms")[size_t(par[k])].get<double>());
        if (hp) {
          V3 ri = v3(m.at("pos")[size_t(par[k])]);
          Img im = min_image(B, ri - r0);
          if (im.n[0] || im.n[1] || im.n[2]) ++nshift;
          for (int q = 0; q < 3; ++q)
            if (im.n[q]) axes.insert(q);
          V3 u = r0 + im.v;
          E.unwrapped.push_back(u);
          E.p = E.p + wt * u;
          E.maxc = std::max(E.maxc, std::max(ninf(ri), ninf(r0)));
        }
        if (hv) {
          V3 vi = v3(m.at("vel")[size_t(par[k])]);
          E.v = E.v + wt * vi;
          E.sw_v += fabsl(wt) * ninf(vi);
        }
        if (hf) {
          V3 fi = v3(m.at("f")[size_t(par[k])]);
          E.f = E.f + fw * fi;
          E.sfw_f += fabsl(fw) * ninf(fi);
        }
      }
      if (par.size() >= 2 && distinctw && nshift > 0) any_nt = true;
      r.cls("faces-cut:" + std::to_string(axes.size()));
      if (hasd) r.cls("has-d");
      if (E.ell) r.cls("ellipsoidal-bead");
      if (!E.nonneg) r.cls("negative-weight");
      for (double x : w)
        if (x == 0) {
          r.cls("zero-weight");
          break;
        }
      exp.push_back(E);
      ++bi;
    }
    ++mi;
  }
  r.nontrivial = any_nt;
  if (got.size() != exp.size()) {
    r.fail("Map/bead-count", fmt("CG topology has %zu beads, mapping definitions give %zu", got.size(), exp.size()));
    return r;
  }
  bool known_ell = known("Map_Ellipsoid/mass-not-set");
  auto tolp = [&](const Exp &E, LD extra) { return LD(64 * EPS) * std::max(LD(1), E.sw) * (E.maxc + B.lmax + extra) + 1e-300L; };
  for (size_t i = 0; i < exp.size(); ++i) {
    const Exp &E = exp[i];
    const CGOut &G = got[i];
    std::string where = fmt("mol %d bead %d (%s)", E.mol, E.bead, E.ell ? "ellipsoidal" : "spherical");
    // mass = sum of parent masses, for each bead
    if (E.ell && known_ell)
      r.cls("excluded-known:ellipsoid-mass");
    else if (fabsl(G.mass - E.mass) > LD(16 * EPS) * E.mass)
      r.fail(E.ell ? "Map_Ellipsoid/mass-not-set" : "Map_Sphere/mass",
             where + fmt(": mass %.17Lg, sum of parent masses %.17Lg", G.mass, E.mass));
    if (G.hp != hp || G.hv != hv || G.hf != hf)
      r.fail("Map/has-flags", where + fmt(": bead has pos/vel/f = %d%d%d, parents have %d%d%d", G.hp, G.hv, G.hf, hp, hv, hf));
    if (hp && G.hp) {
      LD tol = tolp(E, 0);
      if (ninf(G.p - E.p) > tol)
        r.fail(E.ell ? "Map_Ellipsoid/position" : "Map_Sphere/position",
               where + ": pos " + sv(G.p) + " expected " + sv(E.p) + fmt(" tol %.3Lg", tol));
      // (c) convex hull (necessary conditions along 13 directions and their negatives)
      if (E.nonneg) {
        static const int D[13][3] = {{1, 0, 0}, {0, 1, 0}, {0, 0, 1}, {1, 1, 0}, {1, -1, 0}, {1, 0, 1}, {1, 0, -1},
                                     {0, 1, 1}, {0, 1, -1}, {1, 1, 1}, {1, 1, -1}, {1, -1, 1}, {-1, 1, 1}};
        for (auto &dd : D) {
          V3 u{LD(dd[0]), LD(dd[1]), LD(dd[2])};
          LD lo = INFINITY, hi = -INFINITY;
          for (auto &q : E.unwrapped) {
            lo = std::min(lo, dot(u, q));
            hi = std::max(hi, dot(u, q));
          }
          LD s = dot(u, G.p);
          if (s < lo - 3 * tol || s > hi + 3 * tol)
            r.fail("Map/convex-hull", where + fmt(": bead outside the hull of its unwrapped parents along (%d,%d,%d): %.17Lg not in [%.17Lg,%.17Lg]",
                                                  dd[0], dd[1], dd[2], s, lo, hi));
        }
      }
    }
    if (hv && G.hv && ninf(G.v - E.v) > LD(32 * EPS) * E.sw_v + 1e-300L)
      r.fail("Map/velocity", where + ": vel " + sv(G.v) + " expected " + sv(E.v));
    if (hf && G.hf && ninf(G.f - E.f) > LD(32 * EPS) * E.sfw_f + 1e-300L)
      r.fail("Map/force", where + ": force " + sv(G.f) + " expected " + sv(E.f));
  }
  if (!r.ok || !hp) return r;

  // ---- metamorphic relations on the implementation's outputs (same Map object, next "frame")
  // (a) displace atoms that are nobody's first parent by whole box vectors
  if (!B.open) {
    int mi2 = 0;
    LD maxshift = 0;
    bool moved = false;
    for (auto &m : c.at("mols")) {
      const json &ty = c.at("types")[size_t(m.at("type").get<int>())];
      std::set<int> firsts;
      for (auto &b : ty.at("beads")) firsts.insert(b.at("parents")[0].get<int>());
      for (size_t a = 0; a < S.atoms[size_t(mi2)].size(); ++a) {
        if (firsts.count(int(a))) continue;
        const json &n = m.at("mshift")[a];
        long n0 = n[0], n1 = n[1], n2 = n[2];
        if (!n0 && !n1 && !n2) continue;
        Eigen::Matrix3d bm = box_matrix(c.at("box"));
        Eigen::Vector3d p = ev(m.at("pos")[a]) + bm * Eigen::Vector3d(double(n0), double(n1), double(n2));
        S.atoms[size_t(mi2)][a]->setPos(p);
        maxshift = std::max(maxshift, LD(p.cwiseAbs().maxCoeff()));
        moved = true;
      }
      ++mi2;
    }
    if (moved) {
      r.cls("relation-a-applied");
      try {
        S.map->Apply();
      } catch (const std::runtime_error &e) {
        r.fail("Map/box-vector-displacement", std::string("throws after displacing non-first parents by box vectors: ") + e.what());
        return r;
      }
      std::vector<CGOut> g2 = snapshot(S);
      for (size_t i = 0; i < exp.size(); ++i) {
        LD tol = 2 * tolp(exp[i], maxshift);
        if (ninf(g2[i].p - got[i].p) > tol)
          r.fail("Map/box-vector-displacement", fmt("mol %d bead %d moved by ", exp[i].mol, exp[i].bead) + sv(g2[i].p - got[i].p) +
                                                    fmt(" (tol %.3Lg) when non-first parents are displaced by whole box vectors", tol));
      }
      // restore
      int mi3 = 0;
      for (auto &m : c.at("mols")) {
        for (size_t a = 0; a < S.atoms[size_t(mi3)].size(); ++a) S.atoms[size_t(mi3)][a]->setPos(ev(m.at("pos")[a]));
        ++mi3;
      }
    }
  }
  // (b) rigid translation of all atoms
  {
    Eigen::Vector3d t = ev(c.at("translate"));
    LD tn = LD(t.cwiseAbs().maxCoeff());
    int mi3 = 0;
    for (auto &m : c.at("mols")) {
      for (size_t a = 0; a < S.atoms[size_t(mi3)].size(); ++a) S.atoms[size_t(mi3)][a]->setPos(ev(m.at("pos")[a]) + t);
      ++mi3;
    }
    try {
      S.map->Apply();
    } catch (const std::runtime_error &e) {
      r.fail("Map/translation", std::string("throws after a rigid translation: ") + e.what());
      return r;
    }
    std::vector<CGOut> g3 = snapshot(S);
    V3 tt = v3(t);
    for (size_t i = 0; i < exp.size(); ++i) {
      LD tol = 2 * tolp(exp[i], tn);
      if (ninf(g3[i].p - got[i].p - tt) > tol)
        r.fail("Map/translation", fmt("mol %d bead %d moved by ", exp[i].mol, exp[i].bead) + sv(g3[i].p - got[i].p) + " under translation " +
                                      sv(tt) + fmt(" (tol %.3Lg)", tol));
    }
  }
  return r;
}

// ------------------------------------------------------------------ generators
static double edge() {
  int k = ri(0, 9);
  if (k < 2) return rfrac(7, 16, 16);       // 0.44 .. 1
  if (k < 7) return rfrac(16, 160, 16);     // 1 .. 10
  return rfrac(160, 800, 16);               // 10 .. 50
}
static double skew(double lim) {  // in [-lim, lim], boundary values included
  int k = ri(0, 9);
  if (k == 0) return lim;
  if (k == 1) return -lim;
  if (k == 2) return 0.0;
  return lim * double(ri(-8, 8)) / 8.0;
}
static json gen_box(int &kind) {
  kind = ri(0, 19);
  if (kind < 3) {
    kind = 0;
    return json::array({0.0, 0.0, 0.0, 0.0, 0.0, 0.0});
  }
  double ax = edge(), by = edge(), cz = edge();
  if (rbool(30)) by = cz = ax;
  if (kind < 10) {
    kind = 1;
    return json::array({ax, 0.0, by, 0.0, 0.0, cz});
  }
  kind = 2;
  return json::array({ax, skew(ax / 2), by, skew(ax / 2), skew(by / 2), cz});
}
static long bigshift() { return pick<long>({0, 0, 0, 1, -1, 2, -2, 1000, -1000, 1000000, -1000000}); }
static long smallshift() { return pick<long>({0, 0, 0, 0, 1, -1, 1, -1, 2, -2, 1000, -1000}); }

static json vec3(double x, double y, double z) { return json::array({x, y, z}); }

static std::vector<double> gen_weights(int n, bool allow_neg, bool zeros_from, const std::vector<double> *w) {
  // non-zero sum guaranteed, |sum| >= 0.1 sum|.|; zeros where *w is zero (for d)
  (void)zeros_from;
  std::vector<double> v(static_cast<size_t>(n));
  int style = ri(0, 3);
  for (int i = 0; i < n; ++i) {
    double x;
    if (style == 0)
      x = double(ri(1, 16));
    else if (style == 1)
      x = rfrac(1, 160, 16);
    else if (style == 2)
      x = pick<double>({1.0, 1.008, 12.011, 15.9994, 14.0067, 0.1, 0.3});
    else
      x = double(ri(1, 999)) / 1000.0;
    if (!w && rbool(15)) x = 0;
    if (allow_neg && rbool(25)) x = -x;
    if (w && (*w)[size_t(i)] == 0) x = 0;
    v[size_t(i)] = x;
  }
  double s = 0, sa = 0;
  for (double x : v) {
    s += x;
    sa += std::fabs(x);
  }
  if (sa == 0 || std::fabs(s) < 0.1 * sa) {
    // make all entries non-negative and at least one positive (where allowed)
    for (int i = 0; i < n; ++i) v[size_t(i)] = std::fabs(v[size_t(i)]);
    bool any = false;
    for (double x : v) any = any || x > 0;
    if (!any) {
      for (int i = 0; i < n; ++i)
        if (!w || (*w)[size_t(i)] != 0) {
          v[size_t(i)] = 1.0;
          break;
        }
    }
  }
  return v;
}

static json gen_types(int ntypes, bool ell_ok) {
  json types = json::array();
  for (int t = 0; t < ntypes; ++t) {
    int na = rcount(1, 12);
    json atoms = json::array();
    for (int a = 0; a < na; ++a) atoms.push_back(rbool(50) ? rfrac(1, 400, 8) : pick<double>({1.008, 12.011, 15.9994, 32.06, 0.001}));
    int nb = rcount(1, 4);
    json beads = json::array();
    for (int b = 0; b < nb; ++b) {
      int np = ri(1, std::min(8, na));
      std::vector<int> perm = rperm(na);
      std::vector<int> par(perm.begin(), perm.begin() + np);
      int sym = (ell_ok && np >= 3 && rbool(25)) ? 3 : 1;
      std::vector<double> w = gen_weights(np, rbool(10), false, nullptr);
      json d = nullptr;
      if (rbool(35)) d = gen_weights(np, rbool(10), true, &w);
      beads.push_back({{"parents", par}, {"sym", sym}, {"symtag", rbool(30)}, {"w", w}, {"d", d}});
    }
    types.push_back({{"atoms", atoms}, {"beads", beads}, {"unmapped", false}});
  }
  return types;
}

static json gen_map() {
  int kind;
  json jb = gen_box(kind);
  Box B = box_of(jb);
  Eigen::Matrix3d bm = box_matrix(jb);
  double hmin = B.open ? 2.0 : double(B.hmin);
  int ntypes = rcount(1, 4);
  json types = gen_types(ntypes, true);
  if (ntypes > 1 && rbool(5)) types[size_t(ntypes - 1)]["unmapped"] = true;
  int nm = rcount(1, 12);
  bool hp = !rbool(4), hv = rbool(55), hf = rbool(55);
  if (!hp && !hv && !hf) hp = true;
  json mols = json::array();
  double rad = pick<double>({0.02, 0.1, 0.2, 0.24}) * hmin;
  int wrapmode = ri(0, 2);  // 0 raw, 1 every atom wrapped into the cell, 2 per-atom whole-box shifts
  for (int m = 0; m < nm; ++m) {
    int t = ri(0, ntypes - 1);
    int na = int(types[size_t(t)]["atoms"].size());
    // molecule centre: fractional coordinates (points on faces included) + image shift
    Eigen::Vector3d fr(rfrac(0, 32, 32), rfrac(0, 32, 32), rfrac(0, 32, 32));
    Eigen::Vector3d sh{double(bigshift()), double(bigshift()), double(bigshift())};
    Eigen::Vector3d ctr = B.open ? Eigen::Vector3d(rfrac(-800, 800, 16), rfrac(-800, 800, 16), rfrac(-800, 800, 16)) : Eigen::Vector3d(bm * (fr + sh));
    json pos = json::array(), vel = json::array(), f = json::array(), msh = json::array();
    for (int a = 0; a < na; ++a) {
      Eigen::Vector3d o(rfrac(-64, 64, 64), rfrac(-64, 64, 64), rfrac(-64, 64, 64));
      double n = o.norm();
      if (n > 1) o /= n * (1 + 1e-12);
      Eigen::Vector3d p = ctr + rad * o;
      if (!B.open) {
        if (wrapmode == 1 || (wrapmode == 2 && rbool(30))) {
          Eigen::Vector3d s = bm.inverse() * p;
          Eigen::Vector3d fl(std::floor(s.x()), std::floor(s.y()), std::floor(s.z()));
          p -= bm * fl;
        }
        if (wrapmode == 2) p += bm * Eigen::Vector3d(double(smallshift()), double(smallshift()), double(smallshift()));
      }
      pos.push_back(vec3(p.x(), p.y(), p.z()));
      vel.push_back(vec3(rfrac(-400, 400, 8), rfrac(-400, 400, 8), rfrac(-400, 400, 8)));
      f.push_back(vec3(rfrac(-4000, 4000, 8), rfrac(-4000, 4000, 8), rfrac(-4000, 4000, 8)));
      msh.push_back(json::array({smallshift(), smallshift(), smallshift()}));
    }
    mols.push_back({{"type", t}, {"pos", pos}, {"vel", vel}, {"f", f}, {"mshift", msh}});
  }
  json tr = rbool(80) ? vec3(rfrac(-1600, 1600, 16), rfrac(-1600, 1600, 16), rfrac(-1600, 1600, 16))
                      : vec3(rlog(-3, 6), -rlog(-3, 6), rlog(-3, 6));
  std::string bt = "auto";
  if (kind == 1 && rbool(30)) bt = rbool(50) ? "ortho" : "tric";
  if (kind == 2 && rbool(30)) bt = "tric";
  return json{{"box", jb}, {"boxtype", bt}, {"types", types}, {"mols", mols}, {"has_pos", hp}, {"has_vel", hv}, {"has_f", hf}, {"translate", tr}};
}


// ------------------------------------------------------------------ frame sequences: the mapping of frame k must not depend on the frames before it
static json gen_mols_for_box(const json &types, const std::vector<int> &moltypes, const json &jb) {
  Box B = box_of(jb);
  Eigen::Matrix3d bm = box_matrix(jb);
  double hmin = B.open ? 2.0 : double(B.hmin);
  json mols = json::array();
  double rad = pick<double>({0.02, 0.1, 0.2, 0.24}) * hmin;
  int wrapmode = ri(0, 2);
  for (int t : moltypes) {
    int na = int(types[size_t(t)]["atoms"].size());
    Eigen::Vector3d fr(rfrac(0, 32, 32), rfrac(0, 32, 32), rfrac(0, 32, 32));
    Eigen::Vector3d sh{double(smallshift()), double(smallshift()), double(smallshift())};
    Eigen::Vector3d ctr = B.open ? Eigen::Vector3d(rfrac(-800, 800, 16), rfrac(-800, 800, 16), rfrac(-800, 800, 16)) : Eigen::Vector3d(bm * (fr + sh));
    json pos = json::array(), vel = json::array(), f = json::array(), msh = json::array();
    for (int a = 0; a < na; ++a) {
      Eigen::Vector3d o(rfrac(-64, 64, 64), rfrac(-64, 64, 64), rfrac(-64, 64, 64));
      double n = o.norm();
      if (n > 1) o /= n * (1 + 1e-12);
      Eigen::Vector3d p = ctr + rad * o;
      if (!B.open) {
        if (wrapmode == 1 || (wrapmode == 2 && rbool(30))) {
          Eigen::Vector3d sfr = bm.inverse() * p;
          Eigen::Vector3d fl(std::floor(sfr.x()), std::floor(sfr.y()), std::floor(sfr.z()));
          p -= bm * fl;
        }
        if (wrapmode == 2) p += bm * Eigen::Vector3d(double(smallshift()), double(smallshift()), double(smallshift()));
      }
      pos.push_back(vec3(p.x(), p.y(), p.z()));
      vel.push_back(vec3(rfrac(-400, 400, 8), rfrac(-400, 400, 8), rfrac(-400, 400, 8)));
      f.push_back(vec3(rfrac(-4000, 4000, 8), rfrac(-4000, 4000, 8), rfrac(-4000, 4000, 8)));
      msh.push_back(json::array({0, 0, 0}));
    }
    mols.push_back({{"type", t}, {"pos", pos}, {"vel", vel}, {"f", f}, {"mshift", msh}});
  }
  return mols;
}

static json gen_frames() {
  json first = gen_map();
  std::vector<int> moltypes;
  for (auto &m : first.at("mols")) moltypes.push_back(int(m.at("type")));
  json frames = json::array({first});
  int nf = ri(2, 4);
  json prevbox = first.at("box");
  for (int k = 1; k < nf; ++k) {
    json jb;
    int how = ri(0, 9);
    Box PB = box_of(prevbox);
    if (how < 4 && !PB.open) {
      // same edge lengths, only the tilt changes (shear at constant volume)
      double ax = prevbox[0], by = prevbox[2], cz = prevbox[5];
      jb = json::array({ax, skew(ax / 2), by, skew(ax / 2), skew(by / 2), cz});
    } else if (how < 6 && !PB.open) {
      // same shape, scaled
      // (barostat-like drifts of 1e-7..2e-6 per frame included)
      double sc = pick<double>({0.5, 0.75, 1.25, 2.0, 1.000002, 0.999998, 1.0000001, 0.9999995});
      jb = prevbox;
      for (auto &x : jb) x = double(x) * sc;
    } else {
      int kind;
      jb = gen_box(kind);
    }
    json fr = first;
    fr["box"] = jb;
    fr["boxtype"] = "auto";
    fr["mols"] = gen_mols_for_box(first.at("types"), moltypes, jb);
    frames.push_back(fr);
    prevbox = jb;
  }
  return json{{"frames", frames}};
}

static void set_frame(Sys &S, const json &c) {
  bool hp = c.at("has_pos"), hv = c.at("has_vel"), hf = c.at("has_f");
  size_t mi = 0;
  for (auto &m : c.at("mols")) {
    for (size_t a = 0; a < S.atoms[mi].size(); ++a) {
      if (hp) S.atoms[mi][a]->setPos(ev(m.at("pos")[a]));
      if (hv) S.atoms[mi][a]->setVel(ev(m.at("vel")[a]));
      if (hf) S.atoms[mi][a]->setF(ev(m.at("f")[a]));
    }
    ++mi;
  }
  S.top.setBox(box_matrix(c.at("box")));
}

static Result run_frames(const json &c) {
  Result r;
  const json &frames = c.at("frames");
  Sys S;
  build(S, frames[0]);
  bool box_changed = false, tilt_only = false, cut = false;
  for (size_t k = 0; k < frames.size(); ++k) {
    const json &fr = frames[k];
    if (k > 0) {
      set_frame(S, fr);
      if (fr.at("box") != frames[k - 1].at("box")) box_changed = true;
      const json &a = fr.at("box"), &b = frames[k - 1].at("box");
      if (a[0] == b[0] && a[2] == b[2] && a[5] == b[5] && a != b) tilt_only = true;
    }
    bool threw = false, threw_ref = false;
    std::string what;
    try {
      S.map->Apply();
    } catch (const std::runtime_error &e) {
      threw = true;
      what = e.what();
    }
    // reference: the same frame mapped by a freshly built system (verified against the oracle by the sub 'map')
    Sys F;
    build(F, fr);
    try {
      F.map->Apply();
    } catch (const std::runtime_error &) {
      threw_ref = true;
    }
    if (threw != threw_ref) {
      r.fail("TopologyMap/frame-history", fmt("frame %zu: %s in the running topology but %s in a fresh one (%s)", k, threw ? "rejected" : "mapped",
                                              threw_ref ? "rejected" : "mapped", what.c_str()));
      return r;
    }
    if (threw) continue;
    Eigen::Matrix3d want = box_matrix(fr.at("box"));
    if ((S.cg.getBox() - want).cwiseAbs().maxCoeff() > 0) {
      r.fail("TopologyMap/stale-box", fmt("frame %zu: the mapped topology does not carry the box of this frame", k));
      return r;
    }
    std::vector<CGOut> got = snapshot(S), ref = snapshot(F);
    for (size_t i = 0; i < got.size(); ++i) {
      auto differs = [](V3 a, V3 b) { return ninf(a - b) > 1e-9L * (1 + ninf(b)); };
      if (got[i].hp != ref[i].hp || got[i].hv != ref[i].hv || got[i].hf != ref[i].hf || (got[i].hp && differs(got[i].p, ref[i].p)) ||
          (got[i].hv && differs(got[i].v, ref[i].v)) || (got[i].hf && differs(got[i].f, ref[i].f)) || got[i].mass != ref[i].mass) {
        r.fail("TopologyMap/frame-history", fmt("frame %zu bead %zu: mapped %s in the running topology, %s when the frame is mapped on its own", k, i,
                                                sv(got[i].p).c_str(), sv(ref[i].p).c_str()));
        return r;
      }
      if (got[i].hp && k > 0) {
        // was some parent taken at another image than it is stored at?
        cut = true;
      }
    }
  }
  r.nontrivial = box_changed && cut;
  if (box_changed) r.cls("box-changes-between-frames");
  if (tilt_only) r.cls("tilt-only-change");
  r.cls("frames=" + std::to_string(frames.size()));
  return r;
}

// ------------------------------------------------------------------ rejection clause
static Result run_reject(const json &c) {
  Result r;
  Box B = box_of(c.at("box"));
  r.cls(B.open ? "box:open" : (B.b.x == 0 && B.c.x == 0 && B.c.y == 0 ? "box:ortho" : "box:triclinic"));
  const json &m = c.at("mols")[0];
  const json &bd = c.at("types")[0].at("beads")[0];
  std::vector<int> par = bd.at("parents").get<std::vector<int>>();
  bool ell = bd.at("sym").get<int>() == 3;
  r.cls(ell ? "ellipsoidal-bead" : "spherical-bead");
  V3 r0 = v3(m.at("pos")[size_t(par[0])]);
  LD dmax = 0, maxc = 0, second_gap = INFINITY;
  for (size_t k = 0; k < par.size(); ++k) {
    V3 ri = v3(m.at("pos")[size_t(par[k])]);
    Img im = min_image(B, ri - r0);
    dmax = std::max(dmax, norm(im.v));
    maxc = std::max(maxc, std::max(ninf(ri), ninf(r0)));
    (void)second_gap;
  }
  int expect;  // 1 must throw, 0 must not, -1 ambiguous
  LD ratio = 0;
  if (B.open)
    expect = 0;
  else {
    ratio = dmax / (LD(0.5) * B.hmin);
    LD band = 1e-6L + LD(256 * EPS) * (maxc + B.lmax) / B.hmin;
    expect = ratio > 1 + band ? 1 : (ratio < 1 - band ? 0 : -1);
  }
  if (expect == -1) r.cls("ambiguous");
  if (expect == 1) r.cls("must-reject");
  if (expect == 0) r.cls(B.open ? "open-never-rejects" : "must-accept");
  if (!B.open && expect != -1) {
    r.cls(ratio < 0.9 ? "ratio<0.9" : ratio < 0.999 ? "ratio 0.9-0.999" : ratio < 1 ? "ratio 0.999-1" : ratio < 1.001 ? "ratio 1-1.001"
                                                                                                      : ratio < 1.1 ? "ratio 1.001-1.1" : "ratio>1.1");
  }
  r.nontrivial = !B.open && expect != -1 && ratio > 0.5 && ratio < 2;
  Sys S;
  build(S, c);
  bool thrown = false;
  std::string what;
  try {
    S.map->Apply();
  } catch (const std::runtime_error &e) {
    thrown = true;
    what = e.what();
    if (!is_reject_msg(what)) {
      r.fail("Map/unexpected-exception", what);
      return r;
    }
  }
  if (expect == 1 && !thrown)
    r.fail(ell ? "Map_Ellipsoid/half-box-not-rejected" : "Map_Sphere/half-box-not-rejected",
           fmt("parent at nearest-image distance %.17Lg from the first parent, half the shortest box height is %.17Lg (ratio %.9Lg): mapped silently",
               dmax, LD(0.5) * B.hmin, ratio));
  if (expect == 0 && thrown)
    r.fail(B.open ? "Map/open-box-rejected" : (ell ? "Map_Ellipsoid/rejects-compact-bead" : "Map_Sphere/rejects-compact-bead"),
           fmt("all parents within %.17Lg of the first parent, half the shortest box height is %.17Lg (ratio %.9Lg): rejected: ", dmax,
               B.open ? LD(0) : LD(0.5) * B.hmin, ratio) + what);
  return r;
}

static json gen_reject() {
  int kind;
  json jb = gen_box(kind);
  Box B = box_of(jb);
  Eigen::Matrix3d bm = box_matrix(jb);
  double hmin = B.open ? 2.0 : double(B.hmin);
  int na = ri(2, 6);
  json atoms = json::array();
  for (int a = 0; a < na; ++a) atoms.push_back(rfrac(1, 400, 8));
  std::vector<int> par = rperm(na);
  int sym = (na >= 3 && rbool(35)) ? 3 : 1;
  std::vector<double> w;
  for (int a = 0; a < na; ++a) w.push_back(double(ri(1, 16)));
  json types = json::array({{{"atoms", atoms}, {"beads", json::array({{{"parents", par}, {"sym", sym}, {"symtag", false}, {"w", w}, {"d", nullptr}}})},
                             {"unmapped", false}}});
  Eigen::Vector3d fr(rfrac(0, 32, 32), rfrac(0, 32, 32), rfrac(0, 32, 32));
  Eigen::Vector3d p0 = B.open ? Eigen::Vector3d(rfrac(-800, 800, 16), rfrac(-800, 800, 16), rfrac(-800, 800, 16))
                              : Eigen::Vector3d(bm * (fr + Eigen::Vector3d(double(smallshift()), double(smallshift()), double(smallshift()))));
  // direction of the far parent: axes, diagonals, face normals of the cell, random
  Eigen::Vector3d u;
  int dk = ri(0, 5);
  if (dk <= 1)
    u = Eigen::Vector3d(double(ri(-1, 1)), double(ri(-1, 1)), double(ri(-1, 1)));
  else if (dk <= 3 && !B.open) {
    Eigen::Vector3d a = bm.col(0), b = bm.col(1), cc = bm.col(2);
    int q = ri(0, 2);
    u = q == 0 ? b.cross(cc) : q == 1 ? cc.cross(a) : a.cross(b);
  } else
    u = Eigen::Vector3d(rfrac(-16, 16, 16), rfrac(-16, 16, 16), rfrac(-16, 16, 16));
  if (u.norm() == 0) u = Eigen::Vector3d(0, 0, 1);
  u.normalize();
  if (rbool(50)) u = -u;
  double rho;
  int rk = ri(0, 11);
  static const double R[12] = {0.5, 0.9, 0.99, 0.999, 0.99999, 0.9999999, 1.0, 1.0000001, 1.00001, 1.001, 1.01, 1.1};
  rho = R[rk];
  if (rbool(15)) rho = rfrac(1, 64, 16);  // anything up to 4 half-heights: the nearest image is then another one
  int far = ri(1, na - 1);                // index into par of the far parent (never the first)
  // "all weight vectors with non-zero sum (including zero weights)": the far parent may be one that does not contribute
  if (rbool(30)) {
    w[size_t(far)] = 0;
    types[0]["beads"][0]["w"] = w;
  }
  json pos = json::array(), vel = json::array(), f = json::array(), msh = json::array();
  std::vector<Eigen::Vector3d> P(static_cast<size_t>(na));
  for (int k = 0; k < na; ++k) {
    Eigen::Vector3d p;
    if (k == 0)
      p = p0;
    else if (k == far)
      p = p0 + u * (rho * 0.5 * hmin);
    else {
      Eigen::Vector3d o(rfrac(-64, 64, 64), rfrac(-64, 64, 64), rfrac(-64, 64, 64));
      p = p0 + o * (0.05 * hmin);
    }
    if (!B.open && k != 0) p += bm * Eigen::Vector3d(double(smallshift()), double(smallshift()), double(smallshift()));
    P[size_t(par[size_t(k)])] = p;
  }
  for (int a = 0; a < na; ++a) {
    pos.push_back(vec3(P[size_t(a)].x(), P[size_t(a)].y(), P[size_t(a)].z()));
    vel.push_back(vec3(0, 0, 0));
    f.push_back(vec3(0, 0, 0));
    msh.push_back(json::array({0, 0, 0}));
  }
  json mols = json::array({{{"type", 0}, {"pos", pos}, {"vel", vel}, {"f", f}, {"mshift", msh}}});
  return json{{"box", jb}, {"boxtype", "auto"}, {"types", types}, {"mols", mols}, {"has_pos", true}, {"has_vel", rbool(30)},
              {"has_f", rbool(30)}, {"translate", vec3(0, 0, 0)}};
}

int main(int argc, char **argv) {
  std::vector<Sub> subs;
  subs.push_back({"map", gen_map, run_map, 3.0, 100, nullptr});
  subs.push_back({"reject", gen_reject, run_reject, 1.0, 100, nullptr});
  subs.push_back({"frames", gen_frames, run_frames, 1.0, 100, nullptr});
  return harness_main(argc, argv, "C01", subs);
}
