// Reference geometry shared by the C02 (minimum image) and C03 (neighbour search) harnesses.
// Everything here is written from the property statements: long double, brute force over lattice images,
// no VOTCA code.  Box convention (statement / boundarycondition.h): the COLUMNS of the 3x3 matrix are the box
// vectors a, b, c; the GROMACS-reduced form is a=(ax,0,0) b=(bx,by,0) c=(cx,cy,cz), i.e. an upper-triangular matrix.
#pragma once
#include "vv_common.h"

#include <array>
#include <cfloat>

namespace geo {
using ld = long double;
using V = std::array<ld, 3>;
using vv::json;

static const ld U = 0x1p-52L;  // double epsilon

struct Box {
  double m[3][3];  // m[row][col]; column k = box vector k
  bool zero() const {
    for (auto &r : m)
      for (double x : r)
        if (x != 0) return false;
    return true;
  }
  bool diagonal() const { return m[0][1] == 0 && m[0][2] == 0 && m[1][2] == 0 && m[1][0] == 0 && m[2][0] == 0 && m[2][1] == 0; }
  V col(int k) const { return V{ld(m[0][k]), ld(m[1][k]), ld(m[2][k])}; }
  double maxabs() const {
    double x = 0;
    for (auto &r : m)
      for (double e : r) x = std::max(x, std::fabs(e));
    return x;
  }
};

inline V operator+(const V &a, const V &b) { return V{a[0] + b[0], a[1] + b[1], a[2] + b[2]}; }
inline V operator-(const V &a, const V &b) { return V{a[0] - b[0], a[1] - b[1], a[2] - b[2]}; }
inline V operator*(ld s, const V &a) { return V{s * a[0], s * a[1], s * a[2]}; }
inline ld dot(const V &a, const V &b) { return a[0] * b[0] + a[1] * b[1] + a[2] * b[2]; }
inline V cross(const V &a, const V &b) {
  return V{a[1] * b[2] - a[2] * b[1], a[2] * b[0] - a[0] * b[2], a[0] * b[1] - a[1] * b[0]};
}
inline ld norm(const V &a) { return sqrtl(dot(a, a)); }
inline ld maxabs(const V &a) { return std::max(fabsl(a[0]), std::max(fabsl(a[1]), fabsl(a[2]))); }

// B * n  (integer or real combination of the box vectors)
inline V lattice(const Box &B, const V &n) { return n[0] * B.col(0) + n[1] * B.col(1) + n[2] * B.col(2); }

// fractional coordinates s with B s = d, by Cramer's rule (valid for any non-singular box, not only triangular)
inline ld det(const Box &B) { return dot(B.col(0), cross(B.col(1), B.col(2))); }
inline V fractional(const Box &B, const V &d) {
  V a = B.col(0), b = B.col(1), c = B.col(2);
  ld D = dot(a, cross(b, c));
  return V{dot(d, cross(b, c)) / D, dot(a, cross(d, c)) / D, dot(a, cross(b, d)) / D};
}

// heights of the parallelepiped: l_k = |det| / |b_i x b_j|
inline V heights(const Box &B) {
  V a = B.col(0), b = B.col(1), c = B.col(2);
  ld D = fabsl(dot(a, cross(b, c)));
  return V{D / norm(cross(b, c)), D / norm(cross(c, a)), D / norm(cross(a, b))};
}
inline ld hmin(const Box &B) {
  V h = heights(B);
  return std::min(h[0], std::min(h[1], h[2]));
}

struct MinImage {
  V v;          // shortest image of d
  V n;          // d - B n = v
  ld len;       // |v|
  ld second;    // length of the second-shortest image among those searched
};
// brute force over (2*range+1)^3 images around the fractional-rounded one
inline MinImage min_image(const Box &B, const V &d, int range = 2) {
  V s = fractional(B, d);
  V n0{roundl(s[0]), roundl(s[1]), roundl(s[2])};
  MinImage R;
  R.len = R.second = HUGE_VALL;
  for (int i = -range; i <= range; ++i)
    for (int j = -range; j <= range; ++j)
      for (int k = -range; k <= range; ++k) {
        V n{n0[0] + i, n0[1] + j, n0[2] + k};
        V v = d - lattice(B, n);
        ld l = norm(v);
        if (l < R.len) {
          R.second = R.len;
          R.len = l;
          R.v = v;
          R.n = n;
        } else if (l < R.second)
          R.second = l;
      }
  return R;
}

// ------------------------------------------------------------------ JSON <-> box
inline Box box_from(const json &j) {
  // "m": [ax, bx, cx, by, cy, cz]
  Box B{};
  const json &m = j.at("m");
  B.m[0][0] = m[0];
  B.m[0][1] = m[1];
  B.m[0][2] = m[2];
  B.m[1][1] = m[3];
  B.m[1][2] = m[4];
  B.m[2][2] = m[5];
  return B;
}

// kind: 0 = zero matrix, 1 = orthorhombic, 2 = GROMACS-reduced triclinic.  max_ratio bounds the edge ratio (0 = free).
inline json gen_box(int kind, int max_ratio = 0) {
  using namespace vv;
  if (kind == 0) return json{{"m", {0.0, 0.0, 0.0, 0.0, 0.0, 0.0}}};
  auto edge_k = [] {
    int mode = ri(0, 9);
    if (mode < 3) return ri(7, 32);     // 0.44 .. 2 nm
    if (mode < 8) return ri(16, 160);   // 1 .. 10 nm
    return ri(160, 800);                // 10 .. 50 nm
  };
  int ka = edge_k(), kb = edge_k(), kc = edge_k();
  if (rbool(15)) kb = kc = ka;  // cubic
  if (max_ratio > 0) {
    int lo = std::min(ka, std::min(kb, kc));
    ka = std::min(ka, lo * max_ratio);
    kb = std::min(kb, lo * max_ratio);
    kc = std::min(kc, lo * max_ratio);
  }
  double ax = ka / 16.0, by = kb / 16.0, cz = kc / 16.0, bx = 0, cx = 0, cy = 0;
  if (kind == 2) {
    // off-diagonals t*edge with |t| <= 1/2 exactly representable (edge = k/16, t on a 2^-20 lattice): products are exact
    auto off = [](double e) {
      int mode = ri(0, 24);
      double t;
      if (mode < 2) t = 0.5;            // boundary of the reduction conditions
      else if (mode < 4) t = -0.5;
      else if (mode < 7) t = 0.0;
      else if (mode < 16) t = double(ri(-16, 16)) / 32.0;
      else if (mode < 18) t = (rbool() ? 1.0 : -1.0) * std::ldexp(1.0, -ri(21, 40));  // barely tilted (1e-12..5e-7 of the edge)
      else t = rreal(-0.5, 0.5);
      return e * t;
    };
    bx = off(ax);
    cx = off(ax);
    cy = off(by);
    if (bx == 0 && cx == 0 && cy == 0) {
      int w = ri(0, 2);
      (w == 0 ? bx : w == 1 ? cx : cy) = (w == 2 ? by : ax) / 4.0;
    }
  }
  return json{{"m", {ax, bx, cx, by, cy, cz}}};
}

// whole-box image counts per axis: {0, +-1, +-2, +-1000, +-10^6}
inline int gen_shift(int pct_zero = 55, bool allow_million = true) {
  using namespace vv;
  if (rbool(pct_zero)) return 0;
  int m = ri(0, allow_million ? 9 : 7);
  int s = rbool() ? 1 : -1;
  if (m < 4) return s;
  if (m < 6) return 2 * s;
  if (m < 8) return 1000 * s;
  return 1000000 * s;
}

inline std::string vs(const V &v) { return vv::fmt("(%.17Lg, %.17Lg, %.17Lg)", v[0], v[1], v[2]); }

}  // namespace geo
